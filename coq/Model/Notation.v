(* inputrc key notation: inputrc/inputrc.go escape, Escape, EscapeMacro, Encontrol,
   Decontrol, IsControl, Enmeta, Demeta, IsMeta, hexOnly; inputrc/parse.go
   unescapeRunes, grab, hexDigit, octDigit, hexVal; strutil.ConvertMeta, strutil.Quote. *)
From Model Require Import Base Uni.

Definition bsl : Z := 92.   (* backslash *)
Definition dq : Z := 34.    (* double quote *)
Definition sq : Z := 39.    (* single quote *)

Definition is_control (c : Z) : bool := (c <? 32) && (Z.land c 128 =? 0).
Definition is_meta (c : Z) : bool := (127 <? c) && (c <=? 255).
Definition encontrol (c : Z) : Z := Z.land (to_upper c) 31.
Definition decontrol (c : Z) : Z := to_upper (Z.lor c 64).
Definition enmeta (c : Z) : Z := Z.lor c 128.
Definition demeta (c : Z) : Z := Z.land c (Z.lnot 128).

(* lower-case hex digits of c, most significant first ("%x") *)
Definition hexdigit (d : Z) : Z := if d <? 10 then 48 + d else 87 + d.
Fixpoint hex_go (fuel : nat) (c : Z) (acc : list Z) : list Z :=
  match fuel with
  | O => acc
  | S f => if c <? 16 then hexdigit c :: acc
           else hex_go f (c / 16) (hexdigit (c mod 16) :: acc)
  end.
Definition hex (c : Z) : list Z := hex_go 8 c [].
(* "%02x" *)
Definition fmt_02x (c : Z) : list Z :=
  let h := hex c in if (length h <? 2)%nat then 48 :: h else h.

Definition hex_only (c : Z) : bool :=
  if c =? 28 then true
  else if negb (is_meta c) then false
  else let d := demeta c in
       if (d =? bsl) || (d =? dq) || (d =? sq) then true else negb (is_print d).

(* one rune of escape(); macro selects EscapeMacro's map for Delete and Return *)
Definition escape1 (macro : bool) (c : Z) : list Z :=
  if c =? 7 then [bsl; 97]
  else if c =? 8 then [bsl; 98]
  else if c =? 127 then (if macro then [bsl; 100] else [bsl; 67; 45; 63])
  else if c =? 27 then [bsl; 101]
  else if c =? 12 then [bsl; 102]
  else if c =? 10 then [bsl; 110]
  else if c =? 13 then (if macro then [bsl; 114] else [bsl; 67; 45; 77])
  else if c =? 9 then [bsl; 116]
  else if c =? 11 then [bsl; 118]
  else if (c =? bsl) || (c =? dq) || (c =? sq) then [bsl; c]
  else if hex_only c then [bsl; 120] ++ fmt_02x c
  else
    let '(s1, c1) := if is_control c then ([bsl; 67; 45], decontrol c) else ([], c) in
    let '(s2, c2) := if is_meta c1 then (s1 ++ [bsl; 77; 45], demeta c1) else (s1, c1) in
    if is_print c2 then s2 ++ [c2] else s2 ++ [bsl; 120] ++ fmt_02x c2.

(* The runes C19 quantifies over: 0x00-0xFF and printable Unicode. *)
Definition dom (c : Z) : bool :=
  ((0 <=? c) && (c <=? 255)) || ((255 <? c) && is_print c).

Definition escape (macro : bool) (s : list Z) : list Z := flat_map (escape1 macro) s.

Definition oct_digit (c : Z) : bool := (48 <=? c) && (c <=? 55).
Definition hex_digit (c : Z) : bool :=
  ((48 <=? c) && (c <=? 57)) || ((65 <=? c) && (c <=? 70)) || ((97 <=? c) && (c <=? 102)).
Definition hex_val (c : Z) : Z :=
  if (97 <=? c) && (c <=? 102) then c - 97 + 10
  else if (65 <=? c) && (c <=? 70) then c - 65 + 10
  else c - 48.

(* grab relative to the current position: the k-th rune of what is left before
   `end`, 0 past it *)
Definition look (l : list Z) (k : nat) : Z := nth k l 0.

(* One iteration of the loop of unescapeRunes on the runes l = r[i:end] that are
   left (l is not empty): the runes appended to seq and the number of runes
   consumed (the case's i += n plus the loop's i++).  The tests of a case are
   pure, so their conjunctions are written cheapest-first. *)
Definition unesc_step (c0 : Z) (t : list Z) : list Z * nat :=
  if negb (c0 =? bsl) then ([c0], 1%nat)
  else
    let c1 := look t 0 in let c2 := look t 1 in let c3 := look t 2 in
    let c4 := look t 3 in let c5 := look t 4 in
    if c1 =? 97 then ([7], 2%nat)
    else if c1 =? 98 then ([8], 2%nat)
    else if c1 =? 100 then ([127], 2%nat)
    else if c1 =? 101 then ([27], 2%nat)
    else if c1 =? 102 then ([12], 2%nat)
    else if c1 =? 110 then ([10], 2%nat)
    else if c1 =? 114 then ([13], 2%nat)
    else if c1 =? 116 then ([9], 2%nat)
    else if c1 =? 118 then ([11], 2%nat)
    else if (c1 =? bsl) || (c1 =? dq) || (c1 =? sq) then ([c1], 2%nat)
    else if (c1 =? 120) && hex_digit c2 && hex_digit c3 then
      ([Z.lor (Z.shiftl (hex_val c2) 4) (hex_val c3)], 4%nat)
    else if (c1 =? 120) && hex_digit c2 then ([hex_val c2], 3%nat)
    else if oct_digit c1 && oct_digit c2 && oct_digit c3 then
      ([Z.lor (Z.lor (Z.shiftl (c1 - 48) 6) (Z.shiftl (c2 - 48) 3)) (c3 - 48)], 4%nat)
    else if oct_digit c1 && oct_digit c2 then
      ([Z.lor (Z.shiftl (c1 - 48) 3) (c2 - 48)], 3%nat)
    else if oct_digit c1 then ([c1 - 48], 2%nat)
    else if (c2 =? 45) && (c3 =? bsl) && (c5 =? 45)
            && (((c1 =? 67) && (c4 =? 77)) || ((c1 =? 77) && (c4 =? 67))) then
      let c6 := look t 5 in
      ((if c6 =? 0 then [] else [27; encontrol c6]), 7%nat)
    else if (c1 =? 67) && (c2 =? 45) then
      ([if c3 =? 63 then 127 else encontrol c3], 4%nat)
    else if (c1 =? 77) && (c2 =? 45) then
      (if c3 =? 0 then ([27], 3%nat) else ([enmeta c3], 4%nat))
    else ([c1], 2%nat).

Fixpoint unesc (fuel : nat) (l : list Z) : list Z :=
  match fuel with
  | O => []
  | S f =>
    match l with
    | [] => []
    | c0 :: t => let '(out, k) := unesc_step c0 t in out ++ unesc f (skipn k l)
    end
  end.

(* unescapeRunes(r, i, end) *)
Definition unescape_range (r : list Z) (i e : Z) : list Z :=
  match r with
  | [_] => r
  | _ => let l := sub r i e in unesc (S (length l)) l
  end.

Definition unescape (r : list Z) : list Z := unescape_range r 0 (zlen r).

(* strutil.ConvertMeta *)
Definition convert_meta (keys : list Z) : list Z :=
  flat_map (fun c => if is_meta c then [27; demeta c] else [c]) keys.

(* strutil.Quote *)
Definition quote (c : Z) : list Z :=
  if c =? 9 then [c]
  else if is_meta c then [94; 91; demeta c]
  else if is_control c then [94; decontrol c]
  else unescape [c].
