(* Completion insertion: internal/completion/utils.go setPrefix (with the backward scan
   of core.Line.SelectBlankWord), insert.go insertCandidate (virtual insertion in the
   completed line), acceptCandidate (insertion in the real line), cancelCompletedLine. *)
From Model Require Import Base Uni Utf8 HistFile Editor.

(* the regexp class \s *)
Definition re_space (c : Z) : bool := (c =? 9) || (c =? 10) || (c =? 12) || (c =? 13) || (c =? 32).

(* SelectBlankWord, backward loop: `for ; bpos >= 0; bpos--` *)
Fixpoint sbw_back (fuel : nat) (l : list Z) (nonspace : bool) (b : Z) : Z :=
  match fuel with
  | O => b
  | S f =>
    if b <? 0 then b
    else
      let escaped := (0 <? b) && (nthZ l (b - 1) =? 92) in
      let m := if nonspace then negb (re_space (nthZ l b)) else re_space (nthZ l b) in
      if negb m && negb escaped then b else sbw_back f l nonspace (b - 1)
  end.

(* the bpos SelectBlankWord(pos) returns *)
Definition select_blank_bpos (l : list Z) (pos : Z) : Z :=
  if zlen l =? 0 then 0
  else
    let pos := l_check_pos l pos in
    let pos := if pos =? zlen l then pos - 1 else pos in
    let nonspace := negb (re_space (nthZ l pos)) in
    sbw_back (S (S (Z.to_nat pos))) l nonspace pos + 1.

(* setPrefix with no PREFIX given by the application: the blank word up to the cursor *)
Definition set_prefix (l : list Z) (cur : Z) : res (list Z) :=
  if cur =? 0 then Ok [] else
  let cpos := if cur - 1 <? 0 then 0 else cur - 1 in
  let bpos := select_blank_bpos l cpos in
  let '(bpos, cpos) := if cpos <? bpos then (cpos, bpos) else (bpos, cpos) in
  let cpos := if cpos <? zlen l then cpos + 1 else cpos in
  do w <- slice 501 l bpos cpos;
  Ok (trim_space w).

Definition blen (s : list Z) : Z := zlen (utf8_encode s).

Definition mk_ed (l : list Z) (c : Z) : ed := set_cpos (set_line (ed_init false []) l) c.

(* the line and cursor after removing the prefix before the cursor and inserting v there *)
Definition replace_prefix (l : list Z) (c : Z) (p v : list Z) : list Z * Z :=
  let e := mk_ed l c in
  let e := c_move e (- zlen p) in
  let e := set_line e (l_cut (line e) (c_pos e) (c_pos e + zlen p)) in
  let e := c_insert_at e v in
  (line e, cpos e).

(* insertCandidate: the completed (virtual) line and cursor; a candidate shorter than the
   prefix is not inserted *)
Definition insert_candidate (l : list Z) (c : Z) (p v : list Z) : list Z * Z :=
  if blen v <? blen p then (l, c) else replace_prefix l c p v.

(* acceptCandidate: prepareSuffix slices comp[len(prefix):] first *)
Definition accept_candidate (l : list Z) (c : Z) (p v : list Z) : res (list Z * Z) :=
  if (0 <? blen v) && (blen v <? blen p) then Panic 502 else Ok (replace_prefix l c p v).

(* cancelCompletedLine: the completed line is overwritten with the real one *)
Definition cancel_completed (l : list Z) (c : Z) (completed : list Z * Z) : list Z * Z := (l, c).

(* TAB on (line, cursor) with the candidate v selected: the completed line *)
Definition complete_with (l : list Z) (c : Z) (v : list Z) : res (list Z * Z) :=
  do p <- set_prefix l c; Ok (insert_candidate l c p v).
