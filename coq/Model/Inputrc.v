(* The inputrc parser: inputrc/parse.go Parser.Parse, next, readNext, readSymbols,
   doBind, doSet, do, findNonSpace, findEnd, findStringEnd, grab, decodeKey;
   inputrc/config.go Config.Get/Set/Bind/ReadFile/Do (no Funcs registered);
   bufio.Scanner line splitting with its 64 KiB token limit; strconv.Atoi.
   Transliterated function by function; every unguarded index or slice
   expression of the Go code goes through idx/slice and has a site number. *)
From Model Require Import Base Uni Utf8 Notation.

(* ---------------------------------------------------------------- values *)

Inductive value : Type :=
| VBool (b : bool)
| VInt (z : Z)
| VStr (s : list Z)
| VOther.                      (* any other Go type stored by the application *)

Definition vars := list (list Z * value).
(* keymap, sequence, action, macro *)
Definition bindrec := (list Z * list Z * (list Z * bool))%type.
Record config := { c_vars : vars; c_binds : list bindrec }.

Fixpoint get_var (vs : vars) (n : list Z) : option value :=
  match vs with
  | [] => None
  | (k, v) :: r => if eqlZ k n then Some v else get_var r n
  end.

Fixpoint set_var (vs : vars) (n : list Z) (v : value) : vars :=
  match vs with
  | [] => [(n, v)]
  | (k, w) :: r => if eqlZ k n then (k, v) :: r else (k, w) :: set_var r n v
  end.

Fixpoint set_bind (bs : list bindrec) (km sq : list Z) (a : list Z * bool) : list bindrec :=
  match bs with
  | [] => [(km, sq, a)]
  | (k, s, b) :: r => if eqlZ k km && eqlZ s sq then (k, s, a) :: r else (k, s, b) :: set_bind r km sq a
  end.

Definition cfg_set (c : config) n v := {| c_vars := set_var (c_vars c) n v; c_binds := c_binds c |}.
Definition cfg_bind (c : config) km sq a m :=
  {| c_vars := c_vars c; c_binds := set_bind (c_binds c) km sq (a, m) |}.

(* ---------------------------------------------------------------- errors *)

Definition E_none : Z := 0.
Definition E_bind_quote : Z := 1.
Definition E_missing_colon : Z := 2.
Definition E_macro_quote : Z := 3.
Definition E_invalid_keymap : Z := 4.
Definition E_invalid_editing_mode : Z := 5.
Definition E_else : Z := 6.
Definition E_endif : Z := 7.
Definition E_unknown_modifier : Z := 8.
Definition E_include_deep : Z := 9.
Definition E_atoi : Z := 10.
Definition E_readfile : Z := 11.
Definition E_too_long : Z := 12.

(* ---------------------------------------------------------------- ASCII text helpers *)

Definition str (s : list Z) := s.
Definition s_set := [115; 101; 116].
Definition s_keymap := [107; 101; 121; 109; 97; 112].
Definition s_editing_mode := [101; 100; 105; 116; 105; 110; 103; 45; 109; 111; 100; 101].
Definition s_emacs := [101; 109; 97; 99; 115].
Definition s_vi := [118; 105].
Definition s_on := [111; 110].
Definition s_off := [111; 102; 102].
Definition s_one := [49].
Definition s_if := [36; 105; 102].
Definition s_else := [36; 101; 108; 115; 101].
Definition s_endif := [36; 101; 110; 100; 105; 102].
Definition s_include := [36; 105; 110; 99; 108; 117; 100; 101].
Definition s_mode_eq := [109; 111; 100; 101; 61].
Definition s_term_eq := [116; 101; 114; 109; 61].

Definition strict_keymaps : list (list Z) :=
  [ s_emacs;
    [101; 109; 97; 99; 115; 45; 115; 116; 97; 110; 100; 97; 114; 100];   (* emacs-standard *)
    [101; 109; 97; 99; 115; 45; 109; 101; 116; 97];                      (* emacs-meta *)
    [101; 109; 97; 99; 115; 45; 99; 116; 108; 120];                      (* emacs-ctlx *)
    s_vi;
    [118; 105; 45; 109; 111; 118; 101];                                  (* vi-move *)
    [118; 105; 45; 99; 111; 109; 109; 97; 110; 100];                     (* vi-command *)
    [118; 105; 45; 105; 110; 115; 101; 114; 116] ].                      (* vi-insert *)

Definition lower (s : list Z) : list Z := map to_lower s.

(* ---------------------------------------------------------------- strconv.Atoi *)

Definition is_dec_digit (c : Z) : bool := (48 <=? c) && (c <=? 57).

Fixpoint digits_val (s : list Z) (acc : Z) : option Z :=
  match s with
  | [] => Some acc
  | c :: r => if is_dec_digit c then digits_val r (acc * 10 + (c - 48)) else None
  end.

(* Some n, or None for any *strconv.NumError (syntax or out of int64 range) *)
Definition atoi (s : list Z) : option Z :=
  match s with
  | [] => None
  | c :: r =>
    let '(neg, ds) := if c =? 45 then (true, r) else if c =? 43 then (false, r) else (false, s) in
    match ds with
    | [] => None
    | _ =>
      match digits_val ds 0 with
      | None => None
      | Some n =>
        let v := if neg then - n else n in
        if (-9223372036854775808 <=? v) && (v <=? 9223372036854775807) then Some v else None
      end
    end
  end.

(* ---------------------------------------------------------------- lexing helpers *)

(* grab returns r[i] when i < end, 0 otherwise. *)
Definition grab (r : list Z) (i e : Z) : Z := if i <? e then nthZ r i else 0.

(* for ; i < end && unicode.IsSpace(r[i]); i++ {} *)
Fixpoint find_non_space_go (fuel : nat) (r : list Z) (i e : Z) : Z :=
  match fuel with
  | O => i
  | S f => if (i <? e) && is_space (nthZ r i) then find_non_space_go f r (i + 1) e else i
  end.
Definition find_non_space (r : list Z) (i e : Z) : Z := find_non_space_go (S (length r)) r i e.

Definition sym_char (c : Z) : bool := negb (c =? 35) && negb (is_space c) && negb (is_cntrl c).

(* for c := grab(r, i, end); i < end && c != '#' && !IsSpace(c) && !IsControl(c); i++ { c = grab(r, i+1, end) } *)
Fixpoint find_end_go (fuel : nat) (r : list Z) (i e c : Z) : Z :=
  match fuel with
  | O => i
  | S f => if (i <? e) && sym_char c then find_end_go f r (i + 1) e (grab r (i + 1) e) else i
  end.
Definition find_end (r : list Z) (i e : Z) : Z := find_end_go (S (length r)) r i e (grab r i e).

(* the loop of findStringEnd after quote := seq[pos] *)
Fixpoint fse_go (fuel : nat) (seq : list Z) (pos e quote : Z) : Z * bool :=
  match fuel with
  | O => (pos, false)
  | S f =>
    if pos <? e then
      let ch := nthZ seq pos in
      if ch =? bsl then fse_go f seq (pos + 2) e quote
      else if ch =? quote then (pos + 1, true)
      else fse_go f seq (pos + 1) e quote
    else (pos, false)
  end.
Definition find_string_end (site : Z) (seq : list Z) (pos e : Z) : res (Z * bool) :=
  do q <- idx site seq pos;
  Ok (fse_go (S (length seq)) seq (pos + 1) e q).

(* position of the first '-' in s, or -1 (strings.Index(val, "-")) *)
Fixpoint index_dash (s : list Z) (i : Z) : Z :=
  match s with
  | [] => -1
  | c :: r => if c =? 45 then i else index_dash r (i + 1)
  end.

Definition key_char (c : Z) : bool := negb (c =? 58) && sym_char c.
Fixpoint dk_end_go (fuel : nat) (r : list Z) (i e c : Z) : Z :=
  match fuel with
  | O => i
  | S f => if (i <? e) && key_char c then dk_end_go f r (i + 1) e (grab r (i + 1) e) else i
  end.

Definition nm (s : list Z) (names : list (list Z)) : bool := existsb (eqlZ s) names.

(* the modifier loop of decodeKey: (value left, meta, control) or the unknown-modifier error *)
Fixpoint dk_mods (fuel : nat) (val : list Z) (meta control : bool) : option (list Z * bool * bool) :=
  match fuel with
  | O => Some (val, meta, control)
  | S f =>
    let i := index_dash val 0 in
    if i =? -1 then Some (val, meta, control)
    else
      let pre := firstn (Z.to_nat i) val in
      let rest := skipn (Z.to_nat (i + 1)) val in
      if nm pre [[99; 111; 110; 116; 114; 111; 108]; [99; 116; 114; 108]; [99]] then dk_mods f rest meta true
      else if nm pre [[109; 101; 116; 97]; [109]] then dk_mods f rest true control
      else None
  end.

(* decodeKey: (sequence, new pos) or an error kind *)
Definition decode_key (seq : list Z) (pos e : Z) : res (list Z * Z * Z) :=
  let start := pos in
  let pos := dk_end_go (S (length seq)) seq pos e (grab seq pos e) in
  do raw <- slice 101 seq start pos;
  let val := lower raw in
  match dk_mods (S (length val)) val false false with
  | None => Ok ([], pos, E_unknown_modifier)
  | Some (val, meta, control) =>
    match val with
    | [] => Ok ([], pos, E_none)
    | c0 :: _ =>
      let ch :=
        if nm val [[100; 101; 108; 101; 116; 101]; [100; 101; 108]; [114; 117; 98; 111; 117; 116]] then 127
        else if nm val [[101; 115; 99; 97; 112; 101]; [101; 115; 99]] then 27
        else if nm val [[110; 101; 119; 108; 105; 110; 101]; [108; 105; 110; 101; 102; 101; 101; 100]; [108; 102; 100]] then 10
        else if nm val [[114; 101; 116; 117; 114; 110]; [114; 101; 116]] then 13
        else if nm val [[116; 97; 98]] then 9
        else if nm val [[115; 112; 97; 99; 101]; [115; 112; 99]] then 32
        else if nm val [[102; 111; 114; 109; 102; 101; 101; 100]; [102; 102; 100]] then 12
        else if nm val [[118; 101; 114; 116; 105; 99; 97; 108]; [118; 114; 116]] then 11
        else c0 in
      if control && meta then Ok ([27; encontrol ch], pos, E_none)
      else if control then Ok ([encontrol ch], pos, E_none)
      else if meta then Ok ([enmeta ch], pos, E_none)
      else Ok ([ch], pos, E_none)
    end
  end.

(* tokens *)
Definition T_none : Z := 0.
Definition T_bind : Z := 1.
Definition T_macro : Z := 2.
Definition T_set : Z := 3.
Definition T_construct : Z := 4.

(* a lexed statement: two strings, the token, an error kind *)
Definition stmt := (list Z * list Z * Z * Z)%type.

Definition is_quote (c : Z) : bool := (c =? dq) || (c =? sq).

(* readSymbols *)
Definition read_symbols (seq : list Z) (pos e : Z) (tok : Z) (allow_strings : bool) : res stmt :=
  let start := find_non_space seq pos e in
  let pos := find_end seq start e in
  do val <- slice 111 seq start pos;
  let start := find_non_space seq pos e in
  do pe <- (if allow_strings && is_quote (grab seq start e) then
              do r <- find_string_end 112 seq start e;
              Ok (if snd r then (fst r, true) else (pos, false))
            else Ok (pos, false));
  let '(pos, ok) := pe in
  let pos := if negb allow_strings || negb ok then find_end seq start e else pos in
  do v2 <- slice 113 seq start pos;
  Ok (val, v2, tok, E_none).

(* for ; pos < end && seq[pos] != ':'; pos++ {} *)
Fixpoint seek_colon (fuel : nat) (seq : list Z) (pos e : Z) : Z :=
  match fuel with
  | O => pos
  | S f => if (pos <? e) && negb (nthZ seq pos =? 58) then seek_colon f seq (pos + 1) e else pos
  end.

(* readNext *)
Definition read_next (seq : list Z) (pos e : Z) : res stmt :=
  let pos := find_non_space seq pos e in
  do c0 <- idx 121 seq pos;
  if (c0 =? 115) && (grab seq (pos + 1) e =? 101) && (grab seq (pos + 2) e =? 116)
     && is_space (grab seq (pos + 3) e) then
    read_symbols seq (pos + 4) e T_set true
  else if c0 =? 36 then
    read_symbols seq pos e T_construct false
  else
    (* key sequence: (keySeq, pos, error) *)
    do kp <- (if is_quote c0 then
                let start := pos in
                do r <- find_string_end 122 seq pos e;
                if negb (snd r) then
                  do _ <- slice 123 seq start (zlen seq); Ok ([], fst r, E_bind_quote)
                else Ok (unescape_range seq (start + 1) (fst r - 1), fst r, E_none)
              else decode_key seq pos e);
    let '(key_seq, pos, err) := kp in
    if negb (err =? E_none) then Ok ([], [], T_none, err)
    else
      let pos := seek_colon (S (length seq)) seq pos e in
      do at_colon <- (if pos =? e then Ok false else do c <- idx 124 seq pos; Ok (c =? 58));
      if negb at_colon then Ok ([], [], T_none, E_missing_colon)
      else
        let pos := find_non_space seq (pos + 1) e in
        do nothing <- (if pos =? e then Ok true else do c <- idx 125 seq pos; Ok (c =? 35));
        if nothing then Ok (key_seq, [], T_none, E_none)
        else
          do c <- idx 126 seq pos;
          if is_quote c then
            let start := pos in
            do r <- find_string_end 127 seq pos e;
            if negb (snd r) then
              do _ <- slice 128 seq start (zlen seq); Ok ([], [], T_none, E_macro_quote)
            else Ok (key_seq, unescape_range seq (start + 1) (fst r - 1), T_macro, E_none)
          else
            do act <- slice 129 seq pos (find_end seq pos e);
            Ok (key_seq, act, T_bind, E_none).

(* ---------------------------------------------------------------- parser state and directives *)

Record popts := {
  o_halt : bool; o_strict : bool; o_app : list Z; o_term : list Z; o_mode : list Z
}.

Record pstate := {
  p_keymap : list Z;
  p_conds : list bool;       (* innermost first; never empty *)
  p_cfg : config
}.

Definition top (p : pstate) : res bool :=
  match p_conds p with
  | [] => Panic 131            (* p.conds[len(p.conds)-1] on an empty slice *)
  | b :: _ => Ok b
  end.

Definition with_cfg (p : pstate) (c : config) : pstate :=
  {| p_keymap := p_keymap p; p_conds := p_conds p; p_cfg := c |}.
Definition with_keymap (p : pstate) (k : list Z) : pstate :=
  {| p_keymap := k; p_conds := p_conds p; p_cfg := p_cfg p |}.
Definition with_conds (p : pstate) (cs : list bool) : pstate :=
  {| p_keymap := p_keymap p; p_conds := cs; p_cfg := p_cfg p |}.

(* doBind *)
Definition do_bind (p : pstate) (sq act : list Z) (macro : bool) : res (pstate * Z) :=
  do t <- top p;
  if negb t then Ok (p, E_none)
  else Ok (with_cfg p (cfg_bind (p_cfg p) (p_keymap p) sq act macro), E_none).

(* doSet *)
Definition do_set (o : popts) (p : pstate) (name value : list Z) : res (pstate * Z) :=
  do t <- top p;
  if negb t then Ok (p, E_none)
  else if eqlZ name s_keymap then
    if o_strict o && negb (nm value strict_keymaps) then Ok (p, E_invalid_keymap)
    else Ok (with_keymap p value, E_none)
  else if eqlZ name s_editing_mode then
    if nm value [s_emacs; s_vi] then Ok (with_cfg p (cfg_set (p_cfg p) name (VStr value)), E_none)
    else Ok (p, E_invalid_editing_mode)
  else
    match get_var (c_vars (p_cfg p)) name with
    | Some (VBool _) =>
      Ok (with_cfg p (cfg_set (p_cfg p) name (VBool (eqlZ (lower value) s_on || eqlZ value s_one))), E_none)
    | Some (VStr _) => Ok (with_cfg p (cfg_set (p_cfg p) name (VStr value)), E_none)
    | Some (VInt _) =>
      match atoi value with
      | None => Ok (p, E_atoi)
      | Some i => Ok (with_cfg p (cfg_set (p_cfg p) name (VInt i)), E_none)
      end
    | Some VOther => Panic 141           (* panic("unsupported type") *)
    | None =>
      match atoi value with
      | Some i => Ok (with_cfg p (cfg_set (p_cfg p) name (VInt i)), E_none)
      | None =>
        let l := lower value in
        if eqlZ l s_off then Ok (with_cfg p (cfg_set (p_cfg p) name (VBool false)), E_none)
        else if eqlZ l s_on then Ok (with_cfg p (cfg_set (p_cfg p) name (VBool true)), E_none)
        else Ok (with_cfg p (cfg_set (p_cfg p) name (VStr value)), E_none)
      end
    end.

(* what Handler.ReadFile answers for a name *)
Inductive file :=
| FData (bs : list Z)
| FNotExist
| FError.
Definition files := list (list Z * file).
Fixpoint read_file (fs : files) (n : list Z) : file :=
  match fs with
  | [] => FNotExist
  | (k, f) :: r => if eqlZ k n then f else read_file r n
  end.

(* do: `inc` runs an included file on the configuration and returns the new
   configuration and Parse's error (0, or the scanner's) *)
Definition do_construct (o : popts) (inc : config -> list Z -> res (config * Z))
           (p : pstate) (keyword val : list Z) : res (pstate * Z) :=
  if eqlZ keyword s_if then
    let ev :=
      if has_prefix s_mode_eq val then eqlZ (skipn 5 val) (o_mode o)
      else if has_prefix s_term_eq val then eqlZ (skipn 5 val) (o_term o)
      else eqlZ (lower val) (o_app o) in
    Ok (with_conds p (ev :: p_conds p), E_none)
  else if eqlZ keyword s_else then
    match p_conds p with
    | [] => Panic 151
    | [_] => Ok (p, E_else)
    | c :: r => Ok (with_conds p (negb c :: r), E_none)
    end
  else if eqlZ keyword s_endif then
    match p_conds p with
    | [] => Panic 152
    | [_] => Ok (p, E_endif)
    | _ :: r => Ok (with_conds p r, E_none)
    end
  else if eqlZ keyword s_include then
    do t <- top p;
    if negb t then Ok (p, E_none)
    else
      do r <- inc (p_cfg p) val;
      Ok (with_cfg p (fst r), snd r)
  else
    do t <- top p;
    Ok (p, E_none).                       (* handler.Do with no Funcs: nil *)

(* the switch of next, after readNext *)
Definition exec_stmt (o : popts) (inc : config -> list Z -> res (config * Z))
           (p : pstate) (st : stmt) : res (pstate * Z) :=
  let '(a, b, tok, err) := st in
  if negb (err =? E_none) then Ok (p, err)
  else if tok =? T_bind then do_bind p a b false
  else if tok =? T_macro then do_bind p a b true
  else if tok =? T_set then do_set o p a b
  else if tok =? T_construct then do_construct o inc p a b
  else Ok (p, E_none).

(* next *)
Definition next_stmt (o : popts) (inc : config -> list Z -> res (config * Z))
           (p : pstate) (seq : list Z) (pos e : Z) : res (pstate * Z) :=
  do st <- read_next seq pos e;
  exec_stmt o inc p st.

(* ---------------------------------------------------------------- bufio.Scanner (ScanLines) *)

Definition max_token : Z := 65536.

(* split off the bytes before the first '\n': (line, rest, found) *)
Fixpoint span_nl (bs : list Z) : list Z * list Z * bool :=
  match bs with
  | [] => ([], [], false)
  | b :: r => if b =? 10 then ([], r, true)
              else let '(l, rest, found) := span_nl r in (b :: l, rest, found)
  end.

(* dropCR: a trailing '\r' is removed *)
Fixpoint drop_cr (l : list Z) : list Z :=
  match l with
  | [] => []
  | c :: r => match r with
              | [] => if c =? 13 then [] else [c]
              | _ => c :: drop_cr r
              end
  end.

(* the lines Scan yields, and whether it stopped with ErrTooLong *)
Fixpoint scan_lines (fuel : nat) (bs : list Z) : list (list Z) * bool :=
  match fuel with
  | O => ([], false)
  | S f =>
    match bs with
    | [] => ([], false)
    | _ =>
      let '(l, rest, found) := span_nl bs in
      if max_token <=? zlen l then ([], true)
      else
        let '(ls, tl) := if found then scan_lines f rest else ([], false) in
        (drop_cr l :: ls, tl)
    end
  end.

(* ---------------------------------------------------------------- Parse *)

(* errs entries: (kind, line) *)
Definition errlist := list (Z * Z).

(* the `for ; scanner.Scan(); p.line++` loop; returns state, errs and Parse's
   return value (error kind) *)
Fixpoint parse_lines (o : popts) (inc : config -> list Z -> res (config * Z))
         (lines : list (list Z)) (too_long : bool) (p : pstate) (lineno : Z) (errs : errlist)
  : res (pstate * errlist * Z) :=
  match lines with
  | [] => if too_long then Ok (p, errs ++ [(E_too_long, 0)], E_too_long) else Ok (p, errs, E_none)
  | raw :: rest =>
    let line := utf8_decode raw in
    let e := zlen line in
    let pos := find_non_space line 0 e in
    if pos =? e then parse_lines o inc rest too_long p (lineno + 1) errs
    else
      do c <- idx 161 line pos;
      if (c =? 0) || (c =? 13) || (c =? 10) || (c =? 35) then
        parse_lines o inc rest too_long p (lineno + 1) errs
      else
        do r <- next_stmt o inc p line pos e;
        let '(p', err) := r in
        if err =? E_none then parse_lines o inc rest too_long p' (lineno + 1) errs
        else if o_halt o then Ok (p', errs ++ [(err, lineno)], err)
        else parse_lines o inc rest too_long p' (lineno + 1) (errs ++ [(err, lineno)])
  end.

Definition max_include_depth : nat := 16.

(* Parser.Parse on src, `depth_left` more $include levels allowed *)
Fixpoint parse_at (depth_left : nat) (fs : files) (o : popts) (c : config) (src : list Z)
  : res (config * errlist * Z) :=
  let inc := fun (c : config) (name : list Z) =>
    match depth_left with
    | O => Ok (c, E_include_deep)
    | S d =>
      match read_file fs name with
      | FNotExist => Ok (c, E_none)
      | FError => Ok (c, E_readfile)
      | FData bs =>
        let o' := {| o_halt := false; o_strict := false; o_app := o_app o; o_term := o_term o; o_mode := o_mode o |} in
        do r <- parse_at d fs o' c bs;
        Ok (fst (fst r), snd r)
      end
    end in
  let '(lines, tl) := scan_lines (S (length src)) src in
  let p0 := {| p_keymap := s_emacs; p_conds := [true]; p_cfg := c |} in
  do r <- parse_lines o inc lines tl p0 1 [];
  let '(p, errs, ret) := r in
  Ok (p_cfg p, errs, ret).

Definition parse (fs : files) (o : popts) (c : config) (src : list Z) : res (config * errlist * Z) :=
  parse_at max_include_depth fs o c src.
