(* The editor state and its commands, transliterated:
   internal/core/line.go (Insert, InsertBetween, Cut, CutRune, Find, checkRange,
   checkPosRange, newlines, Tokenize, TokenizeSpace, Forward, ForwardEnd, Backward),
   internal/core/cursor.go, internal/core/selection.go (Mark, MarkRange, Visual, Pos,
   checkRange, selectToCursor, Text, Cut, Pop, Cursor, Reset),
   internal/core/iterations.go, internal/editor/buffers.go (kill ring part),
   internal/history/undo.go + the history-walking part of sources.go,
   internal/keymap/pending.go, the commands of emacs.go / vim.go / history.go listed
   in `run_command`, and readline.go run/execute around one command.
   Byte lengths that the Go code takes with len(string) are taken on the UTF-8
   encoding here too, so byte/rune confusions of the code are kept. *)
From Coq Require Import String.
From Model Require Import Base Uni Utf8 Notation Inputrc HistFile.
Open Scope Z_scope.

(* ------------------------------------------------------------------ state *)

Record sel_t := { s_active : bool; s_visual : bool; s_vline : bool; s_bpos : Z; s_epos : Z }.
Definition sel_none : sel_t := {| s_active := false; s_visual := false; s_vline := false; s_bpos := -1; s_epos := -1 |}.

Record undo_t := { u_pos : Z; u_items : list (list Z * Z) }.
Definition undo_empty : undo_t := {| u_pos := 0; u_items := [] |}.

(* main keymaps *)
Definition M_emacs : Z := 0.
Definition M_viins : Z := 1.
Definition M_vicmd : Z := 2.
(* local keymaps *)
Definition L_none : Z := 0.
Definition L_viopp : Z := 1.
Definition L_visual : Z := 2.

Record ed := {
  line : list Z; cpos : Z; cmark : Z; sel : sel_t;
  ring : list (list Z);                       (* numbered registers 0..9, the kill ring *)
  it_times : list Z; it_active : bool; it_pending : bool;
  kmain : Z; klocal : Z;
  pending : list (list Z); pskip : bool; active_cmd : list Z;
  hist : list (list Z);                        (* entries of the bound history source, oldest first *)
  hpos : Z; hcpos : Z;
  lines : list (Z * undo_t);                   (* undo log per line position (-1 = the edit buffer) *)
  uskip : bool; undoing : bool;
  accepted : bool; accept_hold : bool; accept_err : Z; accept_line : list Z; infer : bool;
  written : list (list Z)                      (* lines handed to Source.Write, oldest first *)
}.

Definition llen (e : ed) : Z := zlen (line e).

(* functional record update, one setter per field that commands touch *)
Definition set_line (e : ed) (l : list Z) : ed :=
  {| line := l; cpos := cpos e; cmark := cmark e; sel := sel e; ring := ring e; it_times := it_times e;
     it_active := it_active e; it_pending := it_pending e; kmain := kmain e; klocal := klocal e;
     pending := pending e; pskip := pskip e; active_cmd := active_cmd e; hist := hist e; hpos := hpos e; hcpos := hcpos e;
     lines := lines e; uskip := uskip e; undoing := undoing e; accepted := accepted e; accept_hold := accept_hold e;
     accept_err := accept_err e; accept_line := accept_line e; infer := infer e; written := written e |}.
Definition set_cpos (e : ed) (p : Z) : ed :=
  {| line := line e; cpos := p; cmark := cmark e; sel := sel e; ring := ring e; it_times := it_times e;
     it_active := it_active e; it_pending := it_pending e; kmain := kmain e; klocal := klocal e;
     pending := pending e; pskip := pskip e; active_cmd := active_cmd e; hist := hist e; hpos := hpos e; hcpos := hcpos e;
     lines := lines e; uskip := uskip e; undoing := undoing e; accepted := accepted e; accept_hold := accept_hold e;
     accept_err := accept_err e; accept_line := accept_line e; infer := infer e; written := written e |}.
Definition set_cmark (e : ed) (p : Z) : ed :=
  {| line := line e; cpos := cpos e; cmark := p; sel := sel e; ring := ring e; it_times := it_times e;
     it_active := it_active e; it_pending := it_pending e; kmain := kmain e; klocal := klocal e;
     pending := pending e; pskip := pskip e; active_cmd := active_cmd e; hist := hist e; hpos := hpos e; hcpos := hcpos e;
     lines := lines e; uskip := uskip e; undoing := undoing e; accepted := accepted e; accept_hold := accept_hold e;
     accept_err := accept_err e; accept_line := accept_line e; infer := infer e; written := written e |}.
Definition set_sel (e : ed) (s : sel_t) : ed :=
  {| line := line e; cpos := cpos e; cmark := cmark e; sel := s; ring := ring e; it_times := it_times e;
     it_active := it_active e; it_pending := it_pending e; kmain := kmain e; klocal := klocal e;
     pending := pending e; pskip := pskip e; active_cmd := active_cmd e; hist := hist e; hpos := hpos e; hcpos := hcpos e;
     lines := lines e; uskip := uskip e; undoing := undoing e; accepted := accepted e; accept_hold := accept_hold e;
     accept_err := accept_err e; accept_line := accept_line e; infer := infer e; written := written e |}.
Definition set_ring (e : ed) (r : list (list Z)) : ed :=
  {| line := line e; cpos := cpos e; cmark := cmark e; sel := sel e; ring := r; it_times := it_times e;
     it_active := it_active e; it_pending := it_pending e; kmain := kmain e; klocal := klocal e;
     pending := pending e; pskip := pskip e; active_cmd := active_cmd e; hist := hist e; hpos := hpos e; hcpos := hcpos e;
     lines := lines e; uskip := uskip e; undoing := undoing e; accepted := accepted e; accept_hold := accept_hold e;
     accept_err := accept_err e; accept_line := accept_line e; infer := infer e; written := written e |}.
Definition set_iter (e : ed) (t : list Z) (a p : bool) : ed :=
  {| line := line e; cpos := cpos e; cmark := cmark e; sel := sel e; ring := ring e; it_times := t;
     it_active := a; it_pending := p; kmain := kmain e; klocal := klocal e;
     pending := pending e; pskip := pskip e; active_cmd := active_cmd e; hist := hist e; hpos := hpos e; hcpos := hcpos e;
     lines := lines e; uskip := uskip e; undoing := undoing e; accepted := accepted e; accept_hold := accept_hold e;
     accept_err := accept_err e; accept_line := accept_line e; infer := infer e; written := written e |}.
Definition set_maps (e : ed) (m l : Z) : ed :=
  {| line := line e; cpos := cpos e; cmark := cmark e; sel := sel e; ring := ring e; it_times := it_times e;
     it_active := it_active e; it_pending := it_pending e; kmain := m; klocal := l;
     pending := pending e; pskip := pskip e; active_cmd := active_cmd e; hist := hist e; hpos := hpos e; hcpos := hcpos e;
     lines := lines e; uskip := uskip e; undoing := undoing e; accepted := accepted e; accept_hold := accept_hold e;
     accept_err := accept_err e; accept_line := accept_line e; infer := infer e; written := written e |}.
Definition set_pending (e : ed) (p : list (list Z)) (sk : bool) : ed :=
  {| line := line e; cpos := cpos e; cmark := cmark e; sel := sel e; ring := ring e; it_times := it_times e;
     it_active := it_active e; it_pending := it_pending e; kmain := kmain e; klocal := klocal e;
     pending := p; pskip := sk; active_cmd := active_cmd e; hist := hist e; hpos := hpos e; hcpos := hcpos e;
     lines := lines e; uskip := uskip e; undoing := undoing e; accepted := accepted e; accept_hold := accept_hold e;
     accept_err := accept_err e; accept_line := accept_line e; infer := infer e; written := written e |}.
Definition set_active_cmd (e : ed) (a : list Z) : ed :=
  {| line := line e; cpos := cpos e; cmark := cmark e; sel := sel e; ring := ring e; it_times := it_times e;
     it_active := it_active e; it_pending := it_pending e; kmain := kmain e; klocal := klocal e;
     pending := pending e; pskip := pskip e; active_cmd := a; hist := hist e; hpos := hpos e; hcpos := hcpos e;
     lines := lines e; uskip := uskip e; undoing := undoing e; accepted := accepted e; accept_hold := accept_hold e;
     accept_err := accept_err e; accept_line := accept_line e; infer := infer e; written := written e |}.
Definition set_hist (e : ed) (hp hc : Z) : ed :=
  {| line := line e; cpos := cpos e; cmark := cmark e; sel := sel e; ring := ring e; it_times := it_times e;
     it_active := it_active e; it_pending := it_pending e; kmain := kmain e; klocal := klocal e;
     pending := pending e; pskip := pskip e; active_cmd := active_cmd e; hist := hist e; hpos := hp; hcpos := hc;
     lines := lines e; uskip := uskip e; undoing := undoing e; accepted := accepted e; accept_hold := accept_hold e;
     accept_err := accept_err e; accept_line := accept_line e; infer := infer e; written := written e |}.
Definition set_undo (e : ed) (ls : list (Z * undo_t)) (sk un : bool) : ed :=
  {| line := line e; cpos := cpos e; cmark := cmark e; sel := sel e; ring := ring e; it_times := it_times e;
     it_active := it_active e; it_pending := it_pending e; kmain := kmain e; klocal := klocal e;
     pending := pending e; pskip := pskip e; active_cmd := active_cmd e; hist := hist e; hpos := hpos e; hcpos := hcpos e;
     lines := ls; uskip := sk; undoing := un; accepted := accepted e; accept_hold := accept_hold e;
     accept_err := accept_err e; accept_line := accept_line e; infer := infer e; written := written e |}.
Definition set_accept (e : ed) (acc hold : bool) (err : Z) (l : list Z) (inf : bool) (w : list (list Z)) : ed :=
  {| line := line e; cpos := cpos e; cmark := cmark e; sel := sel e; ring := ring e; it_times := it_times e;
     it_active := it_active e; it_pending := it_pending e; kmain := kmain e; klocal := klocal e;
     pending := pending e; pskip := pskip e; active_cmd := active_cmd e; hist := hist e; hpos := hpos e; hcpos := hcpos e;
     lines := lines e; uskip := uskip e; undoing := undoing e; accepted := acc; accept_hold := hold;
     accept_err := err; accept_line := l; infer := inf; written := w |}.

(* ------------------------------------------------------------------ Line *)

(* Insert: trailing zero runes of a multi-rune argument are dropped first *)
Fixpoint strip_zeros_rev (r : list Z) : list Z :=
  match r with
  | 0 :: (_ :: _) as t => strip_zeros_rev t
  | _ => r
  end.
Definition strip_zeros (cs : list Z) : list Z := rev (strip_zeros_rev (rev cs)).

Definition l_insert (l : list Z) (pos : Z) (cs : list Z) : list Z :=
  let cs := strip_zeros cs in
  if (pos <? 0) || (zlen l <? pos) then l
  else firstn (Z.to_nat pos) l ++ cs ++ skipn (Z.to_nat pos) l.

(* Line.checkRange *)
Definition l_check_range (l : list Z) (b e : Z) : Z * Z * bool :=
  if (b =? -1) && (e =? -1) then (-1, -1, false)
  else
    let e := if zlen l <? e then zlen l else e in
    let b := if b <? 0 then 0 else b in
    if (-1 <? e) && (e <? b) then (e, b, true) else (b, e, true).

(* Line.Cut *)
Definition l_cut (l : list Z) (b e : Z) : list Z :=
  let '(b, e, ok) := l_check_range l b e in
  if negb ok then l
  else if e =? -1 then firstn (Z.to_nat b) l
  else firstn (Z.to_nat b) l ++ skipn (Z.to_nat e) l.

(* Line.CutRune *)
Definition l_cut_rune (l : list Z) (pos : Z) : list Z :=
  if (pos <? 0) || (zlen l <? pos) || (zlen l =? 0) then l
  else if pos =? 0 then skipn 1 l
  else if pos =? zlen l then firstn (Z.to_nat (pos - 1)) l
  else firstn (Z.to_nat pos) l ++ skipn (Z.to_nat (pos + 1)) l.

Definition l_check_pos (l : list Z) (pos : Z) : Z :=
  if pos <? 0 then 0 else if zlen l <? pos then zlen l else pos.

(* Line.Find *)
Fixpoint find_fwd (fuel : nat) (l : list Z) (c pos : Z) : Z :=
  match fuel with
  | O => -1
  | S f => let pos := pos + 1 in
           if zlen l - 1 <? pos then -1 else if nthZ l pos =? c then pos else find_fwd f l c pos
  end.
Fixpoint find_bwd (fuel : nat) (l : list Z) (c pos : Z) : Z :=
  match fuel with
  | O => -1
  | S f => let pos := pos - 1 in
           if pos <? 0 then -1 else if nthZ l pos =? c then pos else find_bwd f l c pos
  end.
Definition l_find (l : list Z) (c pos : Z) (fwd : bool) : Z :=
  if zlen l =? 0 then -1
  else let pos := l_check_pos l pos in
       if fwd then find_fwd (S (length l)) l c pos else find_bwd (S (length l)) l c pos.

(* byte length of a string of runes *)
Definition blen (s : list Z) : Z := zlen (utf8_encode s).

(* Line.newlines: byte offsets of every '\n' of string(line)+"\n" *)
Fixpoint nl_offsets (l : list Z) (off : Z) : list Z :=
  match l with
  | [] => [off]
  | c :: r => if c =? 10 then off :: nl_offsets r (off + 1) else nl_offsets r (off + blen [c])
  end.

(* ---- tokenizers: the words, the index of the word holding position cpos, and the
   byte offset inside it as the Go code computes it (len of a string) *)

Definition last_or (d : list Z) (ws : list (list Z)) : list Z := last ws d.
Definition app_last (ws : list (list Z)) (c : Z) : list (list Z) :=
  match rev ws with
  | [] => [[c]]
  | w :: r => rev ((w ++ [c]) :: r)
  end.

(* Tokenize; state: words, punc flag, previous rune, index, pos *)
Fixpoint tokenize_go (l : list Z) (i cpos : Z) (prev : Z) (ws : list (list Z)) (punc : bool) (index pos : Z)
  : list (list Z) * Z * Z :=
  match l with
  | [] => (ws, index, pos)
  | c :: r =>
    let '(ws, punc) :=
      if is_punct c then
        (app_last (if (0 <? i) && negb (prev =? c) then ws ++ [[]] else ws) c, true)
      else if (c =? 32) || (c =? 9) then (app_last ws c, true)
      else if c =? 10 then
        (app_last (if (0 <? i) && (prev =? c) then ws ++ [[]] else ws) c, true)
      else (app_last (if punc then ws ++ [[]] else ws) c, false) in
    let '(index, pos) := if i =? cpos then (zlen ws - 1, zlen (last_or [] ws) - 1) else (index, pos) in
    tokenize_go r (i + 1) cpos c ws punc index pos
  end.

Definition tokenize (l : list Z) (cpos : Z) : list (list Z) * Z * Z :=
  match l with
  | [] => ([], 0, 0)
  | _ =>
    let cpos := l_check_pos l cpos in
    let '(ws, index, pos) := tokenize_go l 0 cpos 0 [[]] false 0 0 in
    if cpos =? zlen l then (ws, zlen ws - 1, zlen (last_or [] ws)) else (ws, index, pos)
  end.

Fixpoint tokenize_space_go (l : list Z) (i cpos : Z) (prev : Z) (ws : list (list Z)) (newline : bool) (index pos : Z)
  : list (list Z) * Z * Z :=
  match l with
  | [] => (ws, index, pos)
  | c :: r =>
    let '(ws, newline) :=
      if (c =? 32) || (c =? 9) then (app_last ws c, false)
      else if c =? 10 then (app_last (if (0 <? i) && (prev =? c) then ws ++ [[]] else ws) c, true)
      else (app_last (if ((0 <? i) && ((prev =? 32) || (prev =? 9))) || newline then ws ++ [[]] else ws) c, false) in
    let '(index, pos) := if i =? cpos then (zlen ws - 1, zlen (last_or [] ws) - 1) else (index, pos) in
    tokenize_space_go r (i + 1) cpos c ws newline index pos
  end.

Definition tokenize_space (l : list Z) (cpos : Z) : list (list Z) * Z * Z :=
  match l with
  | [] => ([], 0, 0)
  | _ =>
    let cpos := l_check_pos l cpos in
    let '(ws, index, pos) := tokenize_space_go l 0 cpos 0 [[]] false 0 0 in
    if cpos =? zlen l then (ws, zlen ws - 1, zlen (last_or [] ws)) else (ws, index, pos)
  end.

Definition word_at (ws : list (list Z)) (i : Z) : list Z := nth (Z.to_nat i) ws [].

(* strings.TrimRightFunc(w, unicode.IsSpace) *)
Definition trim_right_space (w : list Z) : list Z :=
  rev ((fix go (r : list Z) := match r with c :: t => if is_space c then go t else r | [] => [] end) (rev w)).

(* Line.Forward / ForwardEnd / Backward on a tokenizer result *)
Definition l_forward (l : list Z) (tk : list (list Z) * Z * Z) : Z :=
  let '(ws, index, pos) := tk in
  match ws with
  | [] => 0
  | _ => if index + 1 =? zlen ws then zlen l - pos else zlen (word_at ws index) - pos
  end.

Definition l_forward_end (tk : list (list Z) * Z * Z) : Z :=
  let '(ws, index, pos) := tk in
  match ws with
  | [] => 0
  | _ =>
    let word := trim_right_space (word_at ws index) in
    if (index =? zlen ws - 1) && (zlen word - 1 <=? pos) then 0
    else if zlen word - 1 <=? pos then
      let word2 := trim_right_space (word_at ws (index + 1)) in
      zlen (word_at ws index) - pos + (zlen word2 - 1)
    else zlen word - pos - 1
  end.

Definition l_backward (tk : list (list Z) * Z * Z) : Z :=
  let '(ws, index, pos) := tk in
  match ws with
  | [] => 0
  | _ => if (index =? 0) && (pos =? 0) then 0
         else if pos =? 0 then - zlen (word_at ws (index - 1))
         else - pos
  end.

(* ------------------------------------------------------------------ Cursor *)

Definition c_check_append (e : ed) : ed :=
  let p := if cpos e <? 0 then 0 else cpos e in
  let p := if llen e <? p then llen e else p in
  let m := if cmark e <? -1 then -1 else cmark e in
  let m := if llen e - 1 <? m then -1 else m in
  set_cmark (set_cpos e p) m.

Definition c_set (e : ed) (pos : Z) : ed :=
  let p := if pos <? 0 then 0 else if llen e <? pos then llen e else pos in
  c_check_append (set_cpos e p).

Definition c_pos (e : ed) : Z := cpos (c_check_append e).
Definition c_inc (e : ed) : ed := if cpos e <? llen e then set_cpos e (cpos e + 1) else e.
Definition c_dec (e : ed) : ed := if 0 <? cpos e then set_cpos e (cpos e - 1) else e.
Definition c_move (e : ed) (off : Z) : ed := c_check_append (set_cpos e (cpos e + off)).

Definition c_char (e : ed) : Z :=
  let e := c_check_append e in
  if llen e =? 0 then 0 else if llen e <=? cpos e then 0 else nthZ (line e) (cpos e).

Definition c_insert_at (e : ed) (cs : list Z) : ed :=
  let e := c_check_append e in
  let e' := set_line e (l_insert (line e) (cpos e) cs) in
  set_cpos e' (cpos e + zlen cs).

(* OnEmptyLine; the raw index expressions are the Go ones *)
Definition c_on_empty_line (e : ed) : res bool :=
  if llen e =? 0 then Ok true
  else if cpos e =? 0 then do c <- idx 201 (line e) (cpos e); Ok (c =? 10)
  else if cpos e =? llen e then do c <- idx 202 (line e) (cpos e - 1); Ok (c =? 10)
  else do u <- idx 203 (line e) (cpos e); do b <- idx 204 (line e) (cpos e - 1); Ok ((u =? 10) && (b =? 10)).

Definition c_check_command (e : ed) : res ed :=
  let e := c_check_append e in
  do oe <- c_on_empty_line e;
  let e := if (cpos e =? llen e) && negb oe then set_cpos e (cpos e - 1) else e in
  if (0 <? llen e) && (cpos e <? llen e) && (c_char e =? 10) then
    (* Char() ran CheckAppend *)
    let e := c_check_append e in
    do oe2 <- c_on_empty_line e;
    Ok (if negb oe2 then c_dec e else e)
  else Ok e.

Definition c_beginning_of_line (e : ed) : res ed :=
  let nl := l_find (line e) 10 (cpos e) false in
  c_check_command (set_cpos e (if nl =? -1 then 0 else nl + 1)).

Definition c_end_of_line_append (e : ed) : res ed :=
  do oe <- c_on_empty_line e;
  if oe then Ok (c_check_append e)
  else
    let nl := l_find (line e) 10 (cpos e - 1) true in
    Ok (c_check_append (set_cpos e (if nl =? -1 then llen e else nl))).

Definition c_end_of_line (e : ed) : res ed :=
  do oe <- c_on_empty_line e;
  if oe then c_check_command e
  else
    let nl := l_find (line e) 10 (cpos e) true in
    c_check_command (set_cpos e (if nl =? -1 then llen e - 1 else nl - 1)).

Definition on_space (e : ed) : bool := let c := c_char e in (c =? 32) || (c =? 10) || (c =? 9).

(* ToFirstNonSpace's loop; Char() clamps the position as a side effect *)
Fixpoint tfns_go (fuel : nat) (e : ed) (fwd : bool) : ed :=
  match fuel with
  | O => e
  | S f =>
    let e := c_check_append e in
    if negb (on_space e) then e
    else let e := set_cpos e (if fwd then cpos e + 1 else cpos e - 1) in
         if cpos e <=? 0 then e else tfns_go f e fwd
  end.
Definition c_to_first_non_space (e : ed) (fwd : bool) : ed :=
  if llen e =? 0 then e
  else
    let '(e, fwd) := if llen e <=? cpos e then (set_cpos e (llen e - 1), false) else (e, fwd) in
    if negb fwd && (cpos e =? 0) then c_check_append e
    else c_check_append (tfns_go (S (S (length (line e)))) e fwd).

Definition c_set_mark (e : ed) : ed := let e := c_check_append e in set_cmark e (cpos e).

(* AtBeginningOfLine: compares rune positions with byte offsets, as the code does *)
Definition c_at_bol (e : ed) : bool :=
  if cpos e =? 0 then true else existsb (fun o => o =? cpos e - 1) (nl_offsets (line e) 0).

(* ------------------------------------------------------------------ Selection *)

Definition s_check_range (e : ed) (b ep : Z) : Z * Z * bool :=
  let n := llen e in
  if n =? 0 then (-1, -1, false)
  else if (b <? 0) && (ep <? 0) then (-1, -1, false)
  else if (n <? b) && (n <? ep) then (-1, -1, false)
  else
    let b := if n <? b then n else b in
    let ep := if n <? ep then n else ep in
    let '(b, ep) := if b <? 0 then (ep, -1) else if ep <? 0 then (b, -1) else (b, ep) in
    if (ep <? b) && negb (ep =? -1) then (ep, b, true) else (b, ep, true).

Definition s_mark_range (e : ed) (b ep : Z) : ed :=
  let '(b, ep, ok) := s_check_range e b ep in
  if negb ok then e
  else set_sel e {| s_active := true; s_visual := s_visual (sel e); s_vline := s_vline (sel e); s_bpos := b; s_epos := ep |}.

Definition s_mark (e : ed) (pos : Z) : ed :=
  if (pos <? 0) || (llen e <? pos) then e else s_mark_range e pos (-1).

Definition s_visual_set (e : ed) (ln : bool) : ed :=
  set_sel e {| s_active := s_active (sel e); s_visual := true; s_vline := ln; s_bpos := s_bpos (sel e); s_epos := s_epos (sel e) |}.

Definition s_reset (e : ed) : ed := set_sel e sel_none.

(* selectToCursor *)
Fixpoint vline_back (fuel : nat) (l : list Z) (b : Z) : Z :=
  match fuel with
  | O => b
  | S f => if b <? 0 then b else if nthZ l b =? 10 then b + 1 else vline_back f l (b - 1)
  end.
Fixpoint vline_fwd (fuel : nat) (l : list Z) (ep : Z) : Z :=
  match fuel with
  | O => ep
  | S f => if zlen l <=? ep then ep
           else let ep := if ep =? -1 then 0 else ep in
                if nthZ l ep =? 10 then ep else vline_fwd f l (ep + 1)
  end.

Definition s_select_to_cursor (e : ed) (b : Z) : Z * Z :=
  let cp := c_pos e in
  let '(b, ep) := if cp <? b then (cp, b) else (b, cp) in
  let '(b, ep) :=
    if s_vline (sel e) then
      let b' := vline_back (S (length (line e))) (line e) (b - 1) in
      let b' := if b' =? -1 then 0 else b' in
      (b', vline_fwd (S (length (line e))) (line e) ep)
    else (b, ep) in
  if ep <? b then (ep, b) else (b, ep).

(* Selection.Pos: also normalises the stored positions *)
Definition s_pos (e : ed) : ed * Z * Z :=
  if (llen e =? 0) || negb (s_active (sel e)) then (e, -1, -1)
  else
    let '(b, ep, ok) := s_check_range e (s_bpos (sel e)) (s_epos (sel e)) in
    if negb ok then (e, b, ep)
    else
      let e := set_sel e {| s_active := true; s_visual := s_visual (sel e); s_vline := s_vline (sel e); s_bpos := b; s_epos := ep |} in
      let e := c_check_append e in
      let '(b, ep) := if ep =? -1 then s_select_to_cursor e b else (b, ep) in
      let ep := if s_visual (sel e) then ep + 1 else ep in
      let '(b, ep, ok) := s_check_range e b ep in
      if negb ok then (e, -1, -1) else (e, b, ep).

(* Selection.Text (with the Go slice bounds check) *)
Definition s_text (e : ed) : res (ed * list Z) :=
  if llen e =? 0 then Ok (e, [])
  else
    let '(e, b, ep) := s_pos e in
    if (b =? -1) || (ep =? -1) then Ok (e, [])
    else do t <- slice 211 (line e) b ep; Ok (e, t).

(* Selection.Cursor *)
Fixpoint back_to_nl (fuel : nat) (l : list Z) (p : Z) : Z :=
  match fuel with
  | O => p
  | S f => if p <? 0 then p else if nthZ l p =? 10 then p else back_to_nl f l (p - 1)
  end.
Fixpoint fwd_indent (fuel : nat) (l : list Z) (c hpos indent : Z) : Z :=
  match fuel with
  | O => c
  | S f => if zlen l <=? c then c else if nthZ l c =? 10 then c else if hpos + indent <=? c then c
           else fwd_indent f l (c + 1) hpos indent
  end.
Definition s_cursor (e : ed) : ed * Z :=
  let '(e, b, ep) := s_pos e in
  if (b =? -1) && (ep =? -1) then (e, c_pos e)
  else if negb (s_visual (sel e)) || negb (s_vline (sel e)) then (e, b)
  else
    let l := line e in
    let pos := c_pos e in
    let c0 := back_to_nl (S (length l)) l (pos - 1) in
    let indent := pos - c0 - 1 in
    let '(hp, rp) :=
      if ep <? zlen l then (ep + 1, b)
      else let h := back_to_nl (S (length l)) l (b - 2) in
           let h := if h <? -1 then -1 else h in
           (h + 1, h + 1) in
    let c := fwd_indent (S (length l)) l hp hp indent in
    (e, rp + c - hp).

(* Selection.Cut (no surround selections) *)
Definition s_cut (e : ed) : res (ed * list Z) :=
  if llen e =? 0 then Ok (e, [])
  else
    let '(e1, b, ep) := s_pos e in
    if (b =? -1) || (ep =? -1) then Ok (s_reset e1, [])
    else
      do r <- s_text e1;
      let '(e2, t) := r in
      Ok (s_reset (set_line e2 (l_cut (line e2) b ep)), t).

(* Selection.Pop *)
Definition s_pop (e : ed) : res (ed * list Z * Z * Z * Z) :=
  if llen e =? 0 then Ok (e, [], -1, -1, 0)
  else
    let '(e1, b, ep) := s_pos e in
    if (b =? -1) || (ep =? -1) then Ok (s_reset e1, [], -1, -1, 0)
    else
      let '(e2, c) := s_cursor e1 in
      do t <- slice 212 (line e2) b ep;
      Ok (s_reset e2, t, b, ep, c).

(* ------------------------------------------------------------------ Iterations *)

(* Iterations.Add *)
Definition it_add (e : ed) (times : list Z) : ed :=
  match times with
  | [] => e
  | c0 :: rest =>
    match atoi times with
    | None => if eqlZ times [45] then set_iter e (times ++ it_times e) true true else e
    | Some _ =>
      if eqlZ times [45] then set_iter e (times ++ it_times e) true true
      else if c0 =? 45 then set_iter e ([45] ++ it_times e ++ rest) true true
      else set_iter e (it_times e ++ times) true true
    end
  end.

(* Iterations.Get *)
Definition it_get (e : ed) : ed * Z :=
  let t := it_times e in
  let neg := match t with 45 :: _ => true | _ => false end in
  let times :=
    match atoi t with
    | Some n => if (n =? 0) && neg then -1 else n
    | None => if neg then -1 else 1
    end in
  let times := if times =? 0 then 1 else times in
  (set_iter e [] (it_active e) (it_pending e), times).

Definition it_reset (e : ed) : ed := set_iter e [] false false.

(* ResetPostRunIterations *)
Definition it_post_run (e : ed) : ed :=
  if it_pending e then set_iter e (it_times e) (it_active e) false
  else set_iter e (it_times e) false false.

(* repeat f n times (n <= 0: not at all) *)
Fixpoint iter_n {A} (n : nat) (f : A -> A) (a : A) : A :=
  match n with O => a | S k => iter_n k f (f a) end.
Definition times_nat (n : Z) : nat := Z.to_nat n.

(* ------------------------------------------------------------------ Buffers (kill ring) *)

(* Write with no register selected: push on the numbered registers (10 of them) *)
Definition ring_write (e : ed) (buf : list Z) : ed :=
  match buf with
  | [] => e
  | _ => set_ring e (buf :: firstn 9 (ring e))
  end.
Definition ring_top (e : ed) : list Z := match ring e with t :: _ => t | [] => [] end.
(* Pop: removes the top and returns it *)
Definition ring_pop (e : ed) : ed * list Z :=
  match ring e with
  | [] => (e, [])
  | t :: r => (set_ring e r, t)
  end.

(* ------------------------------------------------------------------ undo log and history (Sources) *)

Fixpoint lh_get (ls : list (Z * undo_t)) (k : Z) : undo_t :=
  match ls with
  | [] => undo_empty
  | (k', u) :: r => if k' =? k then u else lh_get r k
  end.
Fixpoint lh_set (ls : list (Z * undo_t)) (k : Z) (u : undo_t) : list (Z * undo_t) :=
  match ls with
  | [] => [(k, u)]
  | (k', u') :: r => if k' =? k then (k, u) :: r else (k', u') :: lh_set r k u
  end.

(* getLineHistory: which line's log is current *)
Definition line_key (e : ed) : Z := if -1 <? hpos e then zlen (hist e) - hpos e else -1.
Definition cur_undo (e : ed) : undo_t := lh_get (lines e) (line_key e).
Definition put_undo (e : ed) (u : undo_t) : ed := set_undo e (lh_set (lines e) (line_key e) u) (uskip e) (undoing e).

(* Reset *)
Definition h_reset (e : ed) : ed :=
  let u := cur_undo e in
  let e := if undoing e then e else put_undo e {| u_pos := 0; u_items := u_items u |} in
  set_undo e (lines e) false false.

(* Save (with its deferred Reset) *)
Definition h_save (e : ed) : res ed :=
  if uskip e then Ok (h_reset e)
  else
    let u := cur_undo e in
    let items := u_items u in
    match rev items with
    | (l, _) :: r =>
      if eqlZ l (line e) then
        Ok (h_reset (put_undo e {| u_pos := u_pos u; u_items := rev ((l, c_pos e) :: r) |}))
      else
        let pos := if zlen items <? u_pos u then zlen items else u_pos u in
        do kept <- (if (0 <=? zlen items - pos) then Ok (firstn (Z.to_nat (zlen items - pos)) items) else Panic 221);
        do cc <- c_check_command (c_set e (c_pos e));
        Ok (h_reset (put_undo e {| u_pos := pos; u_items := kept ++ [(line e, cpos cc)] |}))
    | [] =>
      let pos := if zlen items <? u_pos u then zlen items else u_pos u in
      do cc <- c_check_command (c_set e (c_pos e));
      Ok (h_reset (put_undo e {| u_pos := pos; u_items := [(line e, cpos cc)] |}))
    end.

Definition h_skip_save (e : ed) : ed := set_undo e (lines e) true (undoing e).

(* Undo: the loop walks back over items equal to the current line *)
Fixpoint undo_go (fuel : nat) (items : list (list Z * Z)) (pos : Z) (cur : list Z) : res (Z * option (list Z * Z)) :=
  match fuel with
  | O => Ok (pos, None)
  | S f =>
    let pos := pos + 1 in
    if zlen items <? pos then Ok (zlen items, None)
    else
      let i := zlen items - pos in
      if (i <? 0) || (zlen items <=? i) then Panic 222
      else let it := nth (Z.to_nat i) items ([], 0) in
           if eqlZ (fst it) cur then undo_go f items pos cur else Ok (pos, Some it)
  end.

Definition h_undo (e : ed) : res ed :=
  let e := set_undo e (lines e) true true in
  let u := cur_undo e in
  match u_items u with
  | [] => Ok e
  | items =>
    do r <- undo_go (S (length items)) items (u_pos u) (line e);
    let '(pos, it) := r in
    let e := put_undo e {| u_pos := pos; u_items := items |} in
    match it with
    | None => Ok e
    | Some (l, p) => Ok (c_set (set_line e l) p)
    end
  end.

Definition h_redo (e : ed) : res ed :=
  let e := set_undo e (lines e) true true in
  let u := cur_undo e in
  match u_items u with
  | [] => Ok e
  | items =>
    let pos := u_pos u - 1 in
    if pos <? 1 then Ok (put_undo e {| u_pos := (if pos <? 0 then 0 else pos); u_items := items |})
    else
    let e := put_undo e {| u_pos := pos; u_items := items |} in
    if pos <? 1 then Ok e
    else
      let i := zlen items - pos in
      if (i <? 0) || (zlen items <=? i) then Panic 223
      else let it := nth (Z.to_nat i) items ([], 0) in
           Ok (c_set (set_line e (fst it)) (snd it))
  end.

(* restoreLineBuffer *)
Definition h_restore_line (e : ed) : ed :=
  let e := set_hist e (-1) (hcpos e) in
  let u := lh_get (lines e) (-1) in
  match rev (u_items u) with
  | [] => e
  | (l, p) :: _ => c_set (set_line e l) p
  end.

(* setLineCursorMatch (history-preserve-point off) *)
Definition h_set_line_match (e : ed) (next : list Z) : ed :=
  let e := if (hcpos e =? -1) && (0 <? llen e) && (c_pos e <=? llen e) then set_hist e (hpos e) (c_pos e) else e in
  let e := set_line e next in
  c_set e (llen e).

(* memory.GetLine / fileHistory.GetLine on the entries *)
Definition hist_get (mem_kind : bool) (h : list (list Z)) (i : Z) : res (option (list Z)) :=
  if mem_kind && (zlen h =? 0) then Ok (Some [])
  else if (i <? 0) || (zlen h <=? i) then Ok None
  else Ok (Some (nth (Z.to_nat i) h [])).

(* Walk *)
(* the move itself, once the line being entered has been saved *)
Definition h_walk_to (mem_kind : bool) (e : ed) (pos : Z) : res ed :=
  let n := zlen (hist e) in
  (* walking down past the most recent line lands on the line being entered *)
  let pos := if (0 <? hpos e) && (hpos e + pos <? 0) then - hpos e else pos in
  let e := set_hist e (hpos e + pos) (hcpos e) in
  if hpos e <? -1 then Ok (set_hist e (-1) (hcpos e))
  else if hpos e =? 0 then Ok (h_restore_line e)
  else
    let e := if n <? hpos e then set_hist e n (hcpos e) else e in
    let u := cur_undo e in
    match rev (u_items u) with
    | (l, _) :: _ => Ok (h_set_line_match e l)
    | [] =>
      do g <- hist_get mem_kind (hist e) (n - hpos e);
      match g with
      | None => Ok e
      | Some l => Ok (h_set_line_match e l)
      end
    end.

Definition h_walk (mem_kind : bool) (e : ed) (pos : Z) : res ed :=
  let n := zlen (hist e) in
  if n =? 0 then Ok e
  else if pos =? 0 then Ok e
  else if (hpos e =? n) && (pos =? 1) then Ok e
  else
    do e <- (if (hpos e =? -1) && (0 <? pos) then
               do e1 <- h_save (set_undo e (lines e) false (undoing e));
               Ok (set_hist e1 0 (-1))
             else Ok e);
    h_walk_to mem_kind e pos.

(* Sources.Write for one source + Accept *)
Definition h_accept (e : ed) (hold inf : bool) (err : Z) (max_entries : Z) (mem_kind : bool) : res ed :=
  let e := set_accept e true hold err (line e) (infer e) (written e) in
  if negb (err =? 0) then Ok e
  else if inf then Ok (set_accept e true hold err (line e) true (written e))
  else if eqlZ (trim_space (line e)) [] then Ok e
  else if (max_entries =? 0) || ((0 <? max_entries) && (max_entries <=? zlen (hist e) + zlen (written e))) then Ok e
  else
    let all := hist e ++ written e in
    do g <- hist_get mem_kind all (zlen all - 1);
    match g with
    | Some last => if negb (eqlZ last []) && eqlZ (trim_space last) (trim_space (line e)) then Ok e
                   else Ok (set_accept e true hold err (line e) (infer e) (written e ++ [line e]))
    | None => Ok (set_accept e true hold err (line e) (infer e) (written e ++ [line e]))
    end
.

(* ---- Sources.Write over all bound sources (C08): one iteration per source *)
Definition src_store (mem_kind : bool) (l : list Z) : list Z := if mem_kind then l else trim_space l.

Definition source_write (mem_kind : bool) (max_entries : Z) (l : list Z) (entries : list (list Z)) : list (list Z) :=
  if (max_entries =? 0) || ((0 <? max_entries) && (max_entries <=? zlen entries)) then entries
  else
    let last := if mem_kind && (zlen entries =? 0) then Some []
                else if zlen entries =? 0 then None else Some (nth (Z.to_nat (zlen entries - 1)) entries []) in
    match last with
    | Some la => if negb (eqlZ la []) && eqlZ (trim_space la) (trim_space l) then entries
                 else entries ++ [src_store mem_kind l]
    | None => entries ++ [src_store mem_kind l]
    end.

(* Accept(hold, infer, err) as far as the sources are concerned *)
Definition sources_accept (err : Z) (inf : bool) (max_entries : Z) (l : list Z)
           (srcs : list (bool * list (list Z))) : list (bool * list (list Z)) :=
  if negb (err =? 0) then srcs
  else if inf then srcs
  else match trim_space l with
       | [] => srcs
       | _ => map (fun s => (fst s, source_write (fst s) max_entries l (snd s))) srcs
       end.

(* ---- history search (C09): Sources.getLine with no line given, match, InsertMatch *)

(* the text searched for: the last saved state of the edit buffer, up to its cursor *)
Definition h_search_text (e : ed) : list Z * Z :=
  match rev (u_items (lh_get (lines e) (-1))) with
  | [] => ([], 0)
  | (l, p) :: _ =>
    (* cur.Set(undo.pos) on the new line *)
    let p := if p <? 0 then 0 else if zlen l <? p then zlen l else p in
    (l, p)
  end.

Fixpoint is_substring (needle hay : list Z) : bool :=
  has_prefix needle hay || match hay with [] => false | _ :: r => is_substring needle r end.

(* the loop of match(): position of the first matching entry in the walking direction *)
Fixpoint match_go (fuel : nat) (h : list (list Z)) (pos : Z) (fwd regex : bool) (cline : list Z) : option (list Z * Z) :=
  match fuel with
  | O => None
  | S f =>
    if (if fwd then pos <? zlen h else 0 <? pos) then
      let pos := if fwd then pos + 1 else pos - 1 in
      if (pos <? 0) || (zlen h <=? pos) then None        (* GetLine error ends the search *)
      else
        let hl := utf8_encode (nth (Z.to_nat pos) h []) in
        let ok := if regex then is_substring cline hl
                  else negb ((zlen hl <? zlen cline) || (negb (zlen cline =? 0) && negb (has_prefix cline hl))) in
        if ok then Some (nth (Z.to_nat pos) h [], pos) else match_go f h pos fwd regex cline
    else None
  end.

(* InsertMatch(nil, nil, usePos=true, fwd, regexp) *)
Definition h_insert_match (e : ed) (fwd regex : bool) : res ed :=
  do e <- (if hpos e =? -1 then
             let sk := uskip e in
             do e1 <- h_save (set_undo e (lines e) false (undoing e));
             Ok (set_undo e1 (lines e1) sk (undoing e1))
           else Ok e);
  let '(sl, sp) := h_search_text e in
  let preserve := negb (sp =? 0) in
  if fwd && (hpos e <=? -1) then Ok (set_hist e (-1) (hcpos e))
  else
    let n := zlen (hist e) in
    let start := if -1 <? hpos e then n - hpos e else if fwd then -1 else n in
    (* cline[:cur.Pos()] cuts the UTF-8 string at a rune index *)
    let cb := utf8_encode sl in
    let cline := if sp <? zlen sl then firstn (Z.to_nat sp) cb else cb in
    match match_go (S (S (length (hist e)))) (hist e) start fwd regex cline with
    | None => if fwd then Ok (h_restore_line e) else Ok e     (* restoreLineBuffer: back on the line being entered *)
    | Some (m, pos) =>
      let e := set_line (set_hist e (n - pos) (hcpos e)) m in
      Ok (if preserve then c_set e sp else c_set e (llen e))
    end.

(* ------------------------------------------------------------------ keymap.Engine pending *)

Definition km_pending (e : ed) : ed :=
  set_pending (set_maps e (kmain e) L_viopp) (pending e ++ [active_cmd e]) true.

Definition km_cancel_pending (e : ed) : ed :=
  match rev (pending e) with
  | [] => e
  | _ :: r =>
    let e := set_pending e (rev r) (pskip e) in
    match pending e with
    | [] => if klocal e =? L_viopp then set_maps e (kmain e) L_none else e
    | _ => e
    end
  end.

Definition km_is_pending (e : ed) : bool :=
  match pending e with
  | [] => false
  | p :: _ => eqlZ (active_cmd e) p
  end.

(* ------------------------------------------------------------------ commands *)

Definition is_vi_cmd_map (e : ed) : bool := kmain e =? M_vicmd.

(* viCommandMode *)
Definition vi_command_mode (e : ed) : res ed :=
  let e := it_reset (s_reset e) in
  let e := if (kmain e =? M_viins) && negb (c_at_bol e) then c_dec e else e in
  do e <- c_check_command e;
  Ok (set_maps e M_vicmd L_none).

(* viInsertMode *)
Definition vi_insert_mode (e : ed) : res ed :=
  do e <- h_save e;
  let e := it_reset (s_reset e) in
  Ok (c_set_mark (set_maps e M_viins L_none)).

(* adjustSelectionPending: motions whose target character belongs to the region *)
Definition inclusive_motions : list (list Z) :=
  map zs ["vi-end-word"; "vi-end-bigword"; "vi-find-next-char"; "vi-find-next-char-skip";
          "vi-find-prev-char"; "vi-find-prev-char-skip"; "vi-match";
          "select-in-word"; "select-a-word"; "select-in-blank-word"; "select-a-blank-word";
          "select-in-shell-word"; "select-a-shell-word"; "vi-select-inside"; "vi-change-to"]%string.

Definition adjust_selection_pending (e : ed) : ed :=
  if negb (s_active (sel e)) then e
  else if existsb (eqlZ (active_cmd e)) inclusive_motions then s_visual_set e false
  else e.

Definition with_newline (t : list Z) : list Z :=
  match rev t with
  | [] => t
  | c :: _ => if c =? 10 then t else t ++ [10]
  end.

(* the common tail of the emacs kills: cut the region, push it on the ring, put the cursor at b *)
Definition kill_range (e : ed) (b ep : Z) (cur : Z) : res ed :=
  let e := s_mark_range e b ep in
  do r <- s_cut e;
  let '(e, t) := r in
  Ok (c_set (ring_write e t) cur).

Definition cmd_kill_whole_line (e : ed) : res ed :=
  do e <- h_save e;
  if llen e =? 0 then Ok e
  else Ok (set_line (ring_write e (line e)) (l_cut (line e) 0 (llen e))).

Definition cmd_yank (e : ed) : res ed :=
  let buf := ring_top e in
  let '(e, n) := it_get e in
  Ok (iter_n (times_nat n) (fun e => c_insert_at e buf) e).

(* vi-delete-to / vi-yank-to with an active selection (visual mode, or after the motion of
   d<motion>): the part after the undo save and the inclusive-motion adjustment *)
Definition del_tail (e2 : ed) : res ed :=
  let '(e, cp) := s_cursor e2 in
  do r <- s_cut e;
  let '(e, t) := r in
  vi_command_mode (c_set (ring_write e t) cp).
Definition yank_tail (e2 : ed) : res ed :=
  do r <- s_pop e2;
  let '(e, t, _, _, cp) := r in
  vi_command_mode (c_set (ring_write e t) cp).

Definition cmd_vi_delete_sel (e : ed) : res ed :=
  do e <- h_save e; del_tail (adjust_selection_pending e).
Definition cmd_vi_yank_sel (e : ed) : res ed :=
  do e <- h_save e; yank_tail (adjust_selection_pending e).

(* one command; `keys` is Keys.Caller() *)
Definition run_command (name : list Z) (keys : list Z) (mem_kind : bool) (max_entries : Z) (e : ed) : res ed :=
  let is n := eqlZ name (zs n) in
  if is "self-insert"%string then
    match keys with
    | [] => Panic 301                          (* key[0] of an empty Caller() *)
    | k0 :: _ =>
      let e := h_skip_save e in
      let q := if 128 <=? k0 then [k0] else quote k0 in     (* output-meta off; the same with it on for printable keys *)
      let e := c_insert_at e q in
      Ok (c_move (c_move e (- zlen q)) (zlen q))
    end
  else if is "accept-line"%string then h_accept e false false 0 max_entries mem_kind
  else if is "forward-char"%string then
    let e := h_skip_save e in
    let '(e, n) := it_get e in Ok (iter_n (times_nat n) c_inc e)
  else if is "backward-char"%string then
    let e := h_skip_save e in
    let '(e, n) := it_get e in Ok (iter_n (times_nat n) c_dec e)
  else if is "forward-word"%string then
    let e := h_skip_save e in
    let '(e, n) := it_get e in
    Ok (iter_n (times_nat n) (fun e => c_move e (l_forward_end (tokenize (line e) (c_pos e)) + 1)) e)
  else if is "backward-word"%string || is "vi-backward-word"%string then
    let e := h_skip_save e in
    let '(e, n) := it_get e in
    Ok (iter_n (times_nat n) (fun e => c_move e (l_backward (tokenize (line e) (c_pos e)))) e)
  else if is "beginning-of-line"%string then
    let e := h_skip_save e in
    if negb (kmain e =? M_emacs) && it_active e then Ok (it_add e [48])
    else c_beginning_of_line e
  else if is "end-of-line"%string || is "vi-end-of-line"%string then c_end_of_line_append (h_skip_save e)
  else if is "delete-char"%string then
    do e <- h_save e;
    let '(e, n) := it_get e in
    Ok (iter_n (times_nat n) (fun e => set_line e (l_cut_rune (line e) (c_pos e))) e)
  else if is "backward-delete-char"%string then
    do e <- (if kmain e =? M_viins then Ok (h_skip_save e) else h_save e);
    if c_pos e =? 0 then Ok e
    else
      let '(e, n) := it_get e in
      Ok (iter_n (times_nat n) (fun e => let e := c_dec e in set_line e (l_cut_rune (line e) (c_pos e))) e)
  else if is "kill-line"%string then
    let e := it_reset e in
    do e <- h_save e;
    if llen e =? 0 then Ok e
    else
      let cp := c_pos e in
      do e <- c_end_of_line_append e;
      kill_range e cp (c_pos e) cp
  else if is "backward-kill-line"%string then
    let e := it_reset e in
    do e <- h_save e;
    if llen e =? 0 then Ok e
    else
      let cp := c_pos e in
      do e <- c_beginning_of_line e;
      let e := s_mark_range e (c_pos e) cp in
      do r <- s_cut e;
      let '(e, t) := r in
      Ok (ring_write e t)
  else if is "kill-whole-line"%string then cmd_kill_whole_line e
  else if is "kill-word"%string then
    do e <- h_save e;
    let b := c_pos e in
    let e := c_to_first_non_space e true in
    let e := c_move e (l_forward (line e) (tokenize_space (line e) (c_pos e)) - 1) in
    let ep := c_pos e in
    kill_range e b ep b
  else if is "backward-kill-word"%string then
    do e <- h_save e;
    let e := h_skip_save e in
    let e := s_mark e (c_pos e) in
    let e := c_move e (l_backward (tokenize (line e) (c_pos e))) in
    do r <- s_cut e;
    let '(e, t) := r in
    Ok (ring_write e t)
  else if is "kill-region"%string then
    do e <- h_save e;
    if negb (s_active (sel e)) then Ok e
    else
      let '(e, b, _) := s_pos e in
      do r <- s_cut e; let '(e, t) := r in Ok (c_set (ring_write e t) b)
  else if is "copy-region-as-kill"%string then
    let e := h_skip_save e in
    if negb (s_active (sel e)) then Ok e
    else do r <- s_text e; let '(e, t) := r in Ok (s_reset (ring_write e t))
  else if is "set-mark"%string then
    if it_active e then Ok (c_set_mark e)
    else
      let cp := c_pos e in
      let '(e, m) := it_get e in
      if llen e - 1 <? m then Ok e
      else Ok (c_set (c_set_mark (c_set e m)) cp)
  else if is "exchange-point-and-mark"%string then
    let e := if llen e <? cmark e then set_cmark e (-1) else e in
    if cmark e <? 0 then
      let cp := c_pos e in Ok (c_set (c_set_mark (c_set e 0)) cp)
    else
      let m := cmark e in
      let e := c_set (c_set_mark e) m in
      Ok (s_visual_set (s_mark_range e (cmark e) (c_pos e)) false)
  else if is "yank"%string then cmd_yank e
  else if is "undo"%string || is "vi-undo"%string then h_undo e
  else if is "redo"%string then h_redo e
  else if is "digit-argument"%string then
    let e := h_skip_save e in
    let ks := match keys with 27 :: (_ :: _) as r => r | _ => keys end in
    Ok (it_add e ks)
  else if is "vi-arg-digit"%string then Ok (it_add (h_skip_save e) keys)
  else if is "previous-history"%string then do e <- h_save e; h_walk mem_kind e 1
  else if is "next-history"%string then do e <- h_save e; h_walk mem_kind e (-1)
  else if is "beginning-of-history"%string then h_walk mem_kind (h_skip_save e) (zlen (hist e))
  else if is "end-of-history"%string then h_walk mem_kind e (- zlen (hist e) + 1)
  else if is "history-search-backward"%string then do e <- h_save e; h_insert_match e false false
  else if is "history-search-forward"%string then do e <- h_save e; h_insert_match e true false
  else if is "accept-and-hold"%string then h_accept e true false 0 max_entries mem_kind
  else if is "operate-and-get-next"%string then h_accept e false true 0 max_entries mem_kind
  else if is "accept-and-infer-next-history"%string then h_accept e false true 0 max_entries mem_kind
  (* ---- vi *)
  else if is "vi-movement-mode"%string then vi_command_mode e
  else if is "vi-insertion-mode"%string then vi_insert_mode e
  else if is "vi-append-mode"%string then
    vi_insert_mode (if 0 <? llen e then c_inc e else e)
  else if is "vi-forward-char"%string then
    let e := h_skip_save e in
    if negb (kmain e =? M_viins) && (c_pos e <? llen e - 1) then
      let '(e, n) := it_get e in
      (fix go (k : nat) (e : ed) : res ed :=
         match k with
         | O => Ok e
         | S k' => if llen e - 1 <=? c_pos e then Ok e
                   else do c <- idx 311 (line e) (c_pos e + 1);
                        if c =? 10 then Ok e else go k' (c_inc (c_check_append e))
         end) (times_nat n) e
    else Ok e
  else if is "vi-backward-char"%string then
    let e := h_skip_save e in
    let '(e, n) := it_get e in
    if c_pos e =? 0 then Ok e
    else
      (fix go (k : nat) (e : ed) : res ed :=
         match k with
         | O => Ok e
         | S k' => if c_pos e =? 0 then Ok e
                   else do c <- idx 312 (line e) (c_pos e - 1);
                        if c =? 10 then Ok e else go k' (c_dec (c_check_append e))
         end) (times_nat n) e
  else if is "vi-forward-word"%string then
    do e <- h_save e;
    let '(e, n) := it_get e in
    Ok (iter_n (times_nat n) (fun e => c_move e (l_forward (line e) (tokenize (line e) (c_pos e)))) e)
  else if is "vi-forward-bigword"%string then
    let e := h_skip_save e in
    let '(e, n) := it_get e in
    Ok (iter_n (times_nat n) (fun e => c_move e (l_forward (line e) (tokenize_space (line e) (c_pos e)))) e)
  else if is "vi-backward-bigword"%string then
    let e := h_skip_save e in
    let '(e, n) := it_get e in
    Ok (iter_n (times_nat n) (fun e => c_move e (l_backward (tokenize_space (line e) (c_pos e)))) e)
  else if is "vi-end-word"%string then
    let e := h_skip_save e in
    let '(e, n) := it_get e in
    Ok (iter_n (times_nat n) (fun e => c_move e (l_forward_end (tokenize (line e) (c_pos e)))) e)
  else if is "vi-end-bigword"%string then
    let e := h_skip_save e in
    let '(e, n) := it_get e in
    Ok (iter_n (times_nat n) (fun e => c_move e (l_forward_end (tokenize_space (line e) (c_pos e)))) e)
  else if is "vi-first-print"%string then
    do e <- c_beginning_of_line e; Ok (c_to_first_non_space e true)
  else if is "vi-delete"%string then
    if (llen e =? 0) || (c_pos e =? llen e) then Ok e
    else
      do e <- h_save e;
      let '(e, n) := it_get e in
      let '(e, cut) := iter_n (times_nat n)
                         (fun ec => let '(e, cut) := ec in
                                    if llen e <=? c_pos e then (e, cut)
                                    else (set_line e (l_cut_rune (line e) (c_pos e)), cut ++ [c_char e])) (e, []) in
      Ok (ring_write e cut)
  else if is "vi-delete-to"%string then
    if km_is_pending e then
      let e := km_cancel_pending e in
      do e <- h_save e;
      let e := s_visual_set (s_mark e (c_pos e)) true in
      let '(e, cp) := s_cursor e in
      do r <- s_cut e;
      let '(e, t) := r in
      Ok (c_set (ring_write e (with_newline t)) cp)
    else if s_active (sel e) then cmd_vi_delete_sel e
    else
      match keys with
      | [] => Panic 321
      | k0 :: _ =>
        if k0 =? 100 then Ok (s_mark (km_pending e) (c_pos e))
        else Ok e       (* D: vi-kill-eol, not in this model *)
      end
  else if is "vi-yank-to"%string then
    if km_is_pending e then
      let e := km_cancel_pending e in
      do e <- h_save e;
      let e := s_visual_set (s_mark e (c_pos e)) true in
      do r <- s_pop e;
      let '(e, t, _, _, _) := r in
      Ok (ring_write e (with_newline t))
    else if s_active (sel e) then cmd_vi_yank_sel e
    else
      match keys with
      | [] => Panic 322
      | k0 :: _ =>
        if k0 =? 121 then Ok (s_mark (km_pending e) (c_pos e))
        else Ok e
      end
  else if is "vi-put-before"%string then
    do e <- h_save e;
    match rev (ring_top e) with
    | [] => Ok e
    | lastc :: _ =>
      let buf := ring_top e in
      do eb <- (if lastc =? 10 then
                  do e <- c_beginning_of_line e;
                  do oe <- c_on_empty_line e;
                  Ok (if oe then (c_dec e, buf ++ [10]) else (e, buf))
                else Ok (e, buf));
      let '(e, buf) := eb in
      let pos := c_pos e in
      let '(e, n) := it_get e in
      Ok (c_set (iter_n (times_nat n) (fun e => set_line e (l_insert (line e) pos buf)) e) pos)
    end
  else if is "vi-visual-mode"%string then
    let e := it_reset (h_skip_save e) in
    Ok (set_maps (s_visual_set (s_mark e (c_pos e)) false) (kmain e) L_visual)
  else Ok e.

(* names this model implements *)
Definition modelled_commands : list (list Z) :=
  map zs ["self-insert"; "accept-line"; "forward-char"; "backward-char"; "forward-word"; "backward-word";
          "vi-backward-word"; "beginning-of-line"; "end-of-line"; "vi-end-of-line"; "delete-char";
          "backward-delete-char"; "kill-line"; "backward-kill-line"; "kill-whole-line"; "kill-word";
          "backward-kill-word"; "kill-region"; "copy-region-as-kill"; "set-mark"; "exchange-point-and-mark";
          "yank"; "undo"; "vi-undo"; "redo"; "digit-argument"; "vi-arg-digit"; "previous-history"; "next-history";
          "beginning-of-history"; "end-of-history"; "history-search-backward"; "history-search-forward";
          "accept-and-hold"; "operate-and-get-next"; "accept-and-infer-next-history";
          "vi-movement-mode"; "vi-insertion-mode"; "vi-append-mode"; "vi-forward-char"; "vi-backward-char";
          "vi-forward-word"; "vi-forward-bigword"; "vi-backward-bigword"; "vi-end-word"; "vi-end-bigword";
          "vi-first-print"; "vi-delete"; "vi-delete-to"; "vi-yank-to"; "vi-put-before"; "vi-visual-mode"]%string.

(* RunPending *)
Definition run_pending (mem_kind : bool) (max_entries : Z) (e : ed) : res ed :=
  match rev (pending e) with
  | [] => Ok e
  | p :: r =>
    if pskip e then Ok (set_pending e (pending e) false)
    else
      let e := set_pending e (rev r) false in
      match p with
      | [] => Ok e
      | _ =>
        (* the pending command runs with the keys of the command that triggered it *)
        do e <- run_command p [] mem_kind max_entries e;
        match pending e with
        | [] => Ok (if klocal e =? L_viopp then set_maps e (kmain e) L_none else e)
        | _ => Ok e
        end
      end
  end.

(* readline.go run/execute around one dispatched command (no completion engine):
   the command, pending operator, cursor check, iteration bookkeeping, undo save *)
Definition run_one (name keys : list Z) (mem_kind : bool) (max_entries : Z) (e : ed) : res ed :=
  let e := set_active_cmd e name in
  do e <- run_command name keys mem_kind max_entries e;
  do e <- (if negb (it_pending e) then
             (* the operator runs with this command still the active one *)
             match rev (pending e) with
             | [] => Ok e
             | p :: r =>
               if pskip e then Ok (set_pending e (pending e) false)
               else
                 let e := set_pending e (rev r) false in
                 do e <- run_command p keys mem_kind max_entries e;
                 match pending e with
                 | [] => Ok (if klocal e =? L_viopp then set_maps e (kmain e) L_none else e)
                 | _ => Ok e
                 end
             end
           else Ok e);
  do e <- (if kmain e =? M_vicmd then c_check_command e else Ok (c_check_append e));
  let e := it_post_run e in
  h_save e.

(* Shell.init for one Readline call, then history.Init + Save *)
Definition ed_init (vi : bool) (h : list (list Z)) : ed :=
  {| line := []; cpos := 0; cmark := -1; sel := sel_none; ring := [];
     it_times := []; it_active := false; it_pending := false;
     kmain := if vi then M_viins else M_emacs; klocal := L_none;
     pending := []; pskip := false; active_cmd := [];
     hist := h; hpos := -1; hcpos := -1;
     lines := [(-1, {| u_pos := 0; u_items := [([], 0)] |})]; uskip := false; undoing := false;
     accepted := false; accept_hold := false; accept_err := 0; accept_line := []; infer := false; written := [] |}.

(* ------------------------------------------------------------------ commands as the key loop runs them *)

(* the application state of the key loop (Dispatch.v): the editor, or the panic that
   stopped it; a command the model does not implement is treated as not registered *)
Definition ed_exec (mem_kind : bool) (max_entries : Z) (act keys : list Z) (st : res ed) : option (res ed * bool) :=
  if existsb (eqlZ act) modelled_commands then
    match st with
    | Ok e => match run_one act keys mem_kind max_entries e with
              | Ok e' => Some (Ok e', accepted e')
              | r => Some (r, true)
              end
    | r => Some (r, true)
    end
  else None.
