(* The keyboard macro recorder: internal/macro/engine.go RecordKeys, StartRecord,
   StopRecord, RunLastMacro, RunMacro, with the part of core.Keys they touch
   (MacroKeys, FlushUsed, MatchedKeys, Feed, PopKey on fed keys), driven the way the
   Readline loop drives them: at the top of every iteration RecordKeys then FlushUsed,
   then a command runs with the keys that matched it as Keys.Caller(). *)
From Model Require Import Base Uni Notation Utf8.

Record mstate := {
  m_rec : bool;                  (* recording *)
  m_started : bool;              (* the next RecordKeys sees the keys of the start command *)
  m_cur : list Z;                (* keys recorded so far *)
  m_macros : list (Z * list Z);  (* stored macros, in inputrc notation, by register (0 = the last one) *)
  m_matched : list Z;            (* Keys.matched *)
  m_wait : bool;                 (* Keys.mustWait *)
  m_fed : list Z                 (* Keys.macroKeys *)
}.

Definition m_init : mstate :=
  {| m_rec := false; m_started := false; m_cur := []; m_macros := []; m_matched := []; m_wait := false; m_fed := [] |}.

Fixpoint massoc (k : Z) (l : list (Z * list Z)) : option (list Z) :=
  match l with [] => None | (k', v) :: r => if k =? k' then Some v else massoc k r end.
Definition mset (k : Z) (v : list Z) (l : list (Z * list Z)) : list (Z * list Z) :=
  (k, v) :: filter (fun p => negb (fst p =? k)) l.

(* macro.RecordKeys, then core.FlushUsed *)
Definition loop_top (s : mstate) : mstate :=
  let keys := if m_wait s then [] else m_matched s in
  let s1 := if m_rec s then
              match keys with
              | [] => s
              | _ => {| m_rec := true; m_started := false;
                        m_cur := if m_started s then m_cur s else m_cur s ++ keys;
                        m_macros := m_macros s; m_matched := m_matched s; m_wait := m_wait s; m_fed := m_fed s |}
              end
            else s in
  {| m_rec := m_rec s1; m_started := m_started s1; m_cur := m_cur s1; m_macros := m_macros s1;
     m_matched := []; m_wait := m_wait s1; m_fed := m_fed s1 |}.

(* core.MatchedKeys(keys, matched): what a dispatched command sees as its caller *)
Definition matched_by (s : mstate) (keys : list Z) : mstate :=
  {| m_rec := m_rec s; m_started := m_started s; m_cur := m_cur s; m_macros := m_macros s;
     m_matched := match keys with [] => m_matched s | _ => utf8_decode (utf8_encode keys) end; m_wait := false; m_fed := m_fed s |}.

Definition valid_macro_id (k : Z) : bool :=
  ((97 <=? k) && (k <=? 122)) || ((65 <=? k) && (k <=? 90)) || ((48 <=? k) && (k <=? 57)) || (k =? 34).

(* StartRecord(key) *)
Definition start_record (s : mstate) (key : Z) : mstate :=
  if valid_macro_id key || (key =? 0) then
    {| m_rec := true; m_started := true; m_cur := m_cur s; m_macros := m_macros s;
       m_matched := m_matched s; m_wait := m_wait s; m_fed := m_fed s |}
  else s.

(* StopRecord() for the macro being recorded under `key` *)
Definition stop_record (s : mstate) (key : Z) : mstate :=
  match m_cur s with
  | [] => {| m_rec := false; m_started := m_started s; m_cur := []; m_macros := m_macros s;
             m_matched := m_matched s; m_wait := m_wait s; m_fed := m_fed s |}
  | cur =>
    let text := escape true cur in
    {| m_rec := false; m_started := m_started s; m_cur := [];
       m_macros := mset 0 text (mset key text (m_macros s));
       m_matched := m_matched s; m_wait := m_wait s; m_fed := m_fed s |}
  end.

Definition feed_keys (s : mstate) (rs : list Z) : mstate :=
  {| m_rec := m_rec s; m_started := m_started s; m_cur := m_cur s; m_macros := m_macros s;
     m_matched := m_matched s; m_wait := m_wait s; m_fed := m_fed s ++ rs |}.

(* RunLastMacro *)
Definition run_last (s : mstate) : mstate :=
  match massoc 0 (m_macros s) with
  | None => s
  | Some text => match unescape text with [] => s | rs => feed_keys s rs end
  end.

(* RunMacro(key): the stored text goes through inputrc.Unescape like the last macro *)
Definition run_macro (s : mstate) (key : Z) : mstate :=
  if negb (valid_macro_id key) && negb (key =? 0) then s
  else match massoc key (m_macros s) with
       | None => s
       | Some text => match unescape text with [] => s | rs => feed_keys s rs end
       end.

(* PopKey on fed keys: byte(rune) *)
Definition fed_bytes (s : mstate) : list Z := map (fun r => r mod 256) (m_fed s).

(* one iteration of the loop around a command *)
Inductive mop :=
| MKeys (keys : list Z)          (* a command other than the macro ones matched these keys *)
| MStart (key : Z) (keys : list Z)
| MStop (key : Z) (keys : list Z)
| MCallLast (keys : list Z)
| MRun (key : Z) (keys : list Z).

Definition mstep (s : mstate) (o : mop) : mstate :=
  let s := loop_top s in
  match o with
  | MKeys keys => matched_by s keys
  | MStart key keys => start_record (matched_by s keys) key
  | MStop key keys => stop_record (matched_by s keys) key
  | MCallLast keys => run_last (matched_by s keys)
  | MRun key keys => run_macro (matched_by s keys) key
  end.

Definition mrun (ops : list mop) : mstate := fold_left mstep ops m_init.
