(* internal/history/undo.go, projected on the text of the line (cursor positions
   dropped): Save, SkipSave, Undo, Redo, Reset, and the way the main loop uses them
   around a command. Editor.v holds the full versions; Proofs/UndoP.v shows that these
   are their projections. *)
From Model Require Import Base.

Record ulog := { ul_items : list (list Z); ul_pos : Z; ul_skip : bool; ul_undoing : bool }.

Definition ul_reset (l : ulog) : ulog :=
  {| ul_items := ul_items l; ul_pos := if ul_undoing l then ul_pos l else 0; ul_skip := false; ul_undoing := false |}.

(* Save of the current text *)
Definition ul_save (cur : list Z) (l : ulog) : ulog :=
  if ul_skip l then ul_reset l
  else
    match rev (ul_items l) with
    | last :: _ =>
      if eqlZ last cur then ul_reset l
      else
        let n := zlen (ul_items l) in
        let pos := if n <? ul_pos l then n else ul_pos l in
        ul_reset {| ul_items := firstn (Z.to_nat (n - pos)) (ul_items l) ++ [cur]; ul_pos := pos;
                    ul_skip := ul_skip l; ul_undoing := ul_undoing l |}
    | [] =>
      let pos := if 0 <? ul_pos l then 0 else ul_pos l in
      ul_reset {| ul_items := [cur]; ul_pos := pos; ul_skip := ul_skip l; ul_undoing := ul_undoing l |}
    end.

Definition ul_skip_save (l : ulog) : ulog :=
  {| ul_items := ul_items l; ul_pos := ul_pos l; ul_skip := true; ul_undoing := ul_undoing l |}.

(* the loop of Undo: next position and the item found, if any *)
Fixpoint ul_undo_go (fuel : nat) (items : list (list Z)) (pos : Z) (cur : list Z) : Z * option (list Z) :=
  match fuel with
  | O => (pos, None)
  | S f =>
    let pos := pos + 1 in
    if zlen items <? pos then (zlen items, None)
    else let it := nth (Z.to_nat (zlen items - pos)) items [] in
         if eqlZ it cur then ul_undo_go f items pos cur else (pos, Some it)
  end.

Definition ul_undo (cur : list Z) (l : ulog) : list Z * ulog :=
  match ul_items l with
  | [] => (cur, {| ul_items := []; ul_pos := ul_pos l; ul_skip := true; ul_undoing := true |})
  | items =>
    let '(pos, it) := ul_undo_go (S (length items)) items (ul_pos l) cur in
    (match it with Some t => t | None => cur end,
     {| ul_items := items; ul_pos := pos; ul_skip := true; ul_undoing := true |})
  end.

Definition ul_redo (cur : list Z) (l : ulog) : list Z * ulog :=
  match ul_items l with
  | [] => (cur, {| ul_items := []; ul_pos := ul_pos l; ul_skip := true; ul_undoing := true |})
  | items =>
    let pos := ul_pos l - 1 in
    if pos <? 1 then
      (cur, {| ul_items := items; ul_pos := if pos <? 0 then 0 else pos; ul_skip := true; ul_undoing := true |})
    else
      (nth (Z.to_nat (zlen items - pos)) items [],
       {| ul_items := items; ul_pos := pos; ul_skip := true; ul_undoing := true |})
  end.

(* what a command does to the text and the log, as the main loop sees it:
   an edit may Save on entry, changes the text, may SkipSave; undo; redo.
   After every command the loop saves (SaveWithCommand). *)
Inductive uop :=
| UEdit (presave : bool) (newtext : list Z) (skippost : bool)
| UUndo
| URedo.

Definition ul_step (st : list Z * ulog) (o : uop) : list Z * ulog :=
  let '(cur, l) := st in
  match o with
  | UEdit pre t skp =>
    let l := if pre then ul_save cur l else l in
    let l := if skp then ul_skip_save l else l in
    (t, ul_save t l)
  | UUndo => let '(t, l) := ul_undo cur l in (t, ul_save t l)
  | URedo => let '(t, l) := ul_redo cur l in (t, ul_save t l)
  end.

(* the state Shell.init leaves: the (empty or held) initial text saved once *)
Definition ul_init (t0 : list Z) : list Z * ulog :=
  (t0, {| ul_items := [t0]; ul_pos := 0; ul_skip := false; ul_undoing := false |}).

(* texts shown after each step, oldest first (the initial one included) *)
Fixpoint ul_run (st : list Z * ulog) (ops : list uop) : list (list Z) :=
  match ops with
  | [] => [fst st]
  | o :: r => fst st :: ul_run (ul_step st o) r
  end.

Fixpoint ul_final (st : list Z * ulog) (ops : list uop) : list Z * ulog :=
  match ops with
  | [] => st
  | o :: r => ul_final (ul_step st o) r
  end.
