(* Common conventions of the Go -> Gallina models (DESIGN.md section 3). *)
From Coq Require Export List ZArith Bool Lia.
Export ListNotations.
Open Scope Z_scope.

(* Go ints are unbounded Z; runes and bytes are Z; strings are lists of them. *)
Definition zlen {A} (l : list A) : Z := Z.of_nat (length l).

(* r[i] for 0 <= i < len r; the callers below only use it under that guard
   (grab) or through idx, which reports the panic. *)
Definition nthZ (l : list Z) (i : Z) : Z :=
  if i <? 0 then 0 else nth (Z.to_nat i) l 0.

(* Outcome of a Go computation: a value, a run-time panic at a numbered source
   site, or an exhausted loop budget (a loop with no bound is a finding). *)
Inductive res (A : Type) : Type :=
| Ok (a : A)
| Panic (site : Z)
| OutOfFuel.
Arguments Ok {A} a.
Arguments Panic {A} site.
Arguments OutOfFuel {A}.

Definition bind {A B} (r : res A) (f : A -> res B) : res B :=
  match r with Ok a => f a | Panic s => Panic s | OutOfFuel => OutOfFuel end.
Notation "'do' x <- r ; k" := (bind r (fun x => k))
  (at level 200, x pattern, r at level 100, k at level 200).

Definition is_ok {A} (r : res A) : bool := match r with Ok _ => true | _ => false end.

(* s[i] with Go's bounds check. *)
Definition idx (site : Z) (l : list Z) (i : Z) : res Z :=
  if (0 <=? i) && (i <? zlen l) then Ok (nthZ l i) else Panic site.

(* s[lo:hi] with Go's bounds check against len (cap = len for the values the
   models build, see DESIGN.md section 3). *)
Definition sub (l : list Z) (lo hi : Z) : list Z :=
  firstn (Z.to_nat (hi - lo)) (skipn (Z.to_nat lo) l).
Definition slice (site : Z) (l : list Z) (lo hi : Z) : res (list Z) :=
  if (0 <=? lo) && (lo <=? hi) && (hi <=? zlen l) then Ok (sub l lo hi) else Panic site.

Definition eqlZ (a b : list Z) : bool :=
  (length a =? length b)%nat && forallb (fun p => fst p =? snd p) (combine a b).

Fixpoint has_prefix (p l : list Z) : bool :=
  match p, l with
  | [], _ => true
  | x :: p', y :: l' => (x =? y) && has_prefix p' l'
  | _ :: _, [] => false
  end.

(* ASCII text as a list of code points, for command and variable names *)
From Coq Require Import String Ascii.
Fixpoint zs (s : string) : list Z :=
  match s with
  | EmptyString => []
  | String a r => Z.of_nat (nat_of_ascii a) :: zs r
  end.
