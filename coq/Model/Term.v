(* A VT100/xterm subset, the terminal the display properties (C04, C11) are judged on:
   a grid of cells, a cursor, the deferred-wrap flag.  Printable characters (width 1, 2
   or 0), CR, LF (scrolling at the bottom), BS, CSI A B C D G H f J K, cursor
   visibility and style (DECSCUSR) recorded, SGR and everything else ignored, UTF-8
   decoded.  Behaviour taken from xterm: a character written in the last column leaves
   the cursor ON that column with the wrap pending; CR, cursor moves and erases clear the
   pending wrap; EL 0 erases from the active position, the last column included. *)
From Model Require Import Base Utf8.

Record term := {
  t_rows : Z; t_cols : Z;
  t_grid : list (list Z);      (* cells: code point, 32 = blank, -1 = right half of a wide character *)
  t_r : Z; t_c : Z; t_pend : bool;
  t_state : Z;                 (* 0 ground, 1 ESC, 2 CSI, 3 charset designation *)
  t_params : list Z;           (* CSI parameter bytes *)
  t_utf : list Z;              (* bytes of a character being received *)
  t_style : Z;                 (* last DECSCUSR argument, -1 if none *)
  t_visible : bool;
  t_scrolled : Z;
  t_queries : Z
}.

Fixpoint repeatZ (n : nat) (x : Z) : list Z := match n with O => [] | S k => x :: repeatZ k x end.
Definition blank_row (cols : Z) : list Z := repeatZ (Z.to_nat cols) 32.
Fixpoint repeat_row (n : nat) (r : list Z) : list (list Z) := match n with O => [] | S k => r :: repeat_row k r end.

Definition term_init (rows cols : Z) : term :=
  {| t_rows := rows; t_cols := cols; t_grid := repeat_row (Z.to_nat rows) (blank_row cols);
     t_r := 0; t_c := 0; t_pend := false; t_state := 0; t_params := []; t_utf := [];
     t_style := -1; t_visible := true; t_scrolled := 0; t_queries := 0 |}.

Definition upd (t : term) (grid : list (list Z)) (r c : Z) (pend : bool) : term :=
  {| t_rows := t_rows t; t_cols := t_cols t; t_grid := grid; t_r := r; t_c := c; t_pend := pend;
     t_state := t_state t; t_params := t_params t; t_utf := t_utf t; t_style := t_style t;
     t_visible := t_visible t; t_scrolled := t_scrolled t; t_queries := t_queries t |}.
Definition set_parse (t : term) (st : Z) (params utf : list Z) : term :=
  {| t_rows := t_rows t; t_cols := t_cols t; t_grid := t_grid t; t_r := t_r t; t_c := t_c t; t_pend := t_pend t;
     t_state := st; t_params := params; t_utf := utf; t_style := t_style t;
     t_visible := t_visible t; t_scrolled := t_scrolled t; t_queries := t_queries t |}.
Definition set_misc (t : term) (style : Z) (vis : bool) (scrolled queries : Z) : term :=
  {| t_rows := t_rows t; t_cols := t_cols t; t_grid := t_grid t; t_r := t_r t; t_c := t_c t; t_pend := t_pend t;
     t_state := t_state t; t_params := t_params t; t_utf := t_utf t; t_style := style;
     t_visible := vis; t_scrolled := scrolled; t_queries := queries |}.

Fixpoint set_nthZ {A} (l : list A) (i : nat) (a : A) : list A :=
  match l, i with
  | [], _ => []
  | _ :: r, O => a :: r
  | x :: r, S k => x :: set_nthZ r k a
  end.

Definition get_row (t : term) (r : Z) : list Z := nth (Z.to_nat r) (t_grid t) [].
Definition set_cell (t : term) (r c v : Z) : list (list Z) :=
  if (r <? 0) || (c <? 0) || (t_cols t <=? c) then t_grid t
  else set_nthZ (t_grid t) (Z.to_nat r) (set_nthZ (get_row t r) (Z.to_nat c) v).

(* display width of a character: the classes the generators use *)
Definition rune_width (c : Z) : Z :=
  if ((768 <=? c) && (c <=? 879)) || ((8203 <=? c) && (c <=? 8207)) || ((65024 <=? c) && (c <=? 65039)) then 0
  else if ((4352 <=? c) && (c <=? 4447)) || ((11904 <=? c) && (c <=? 42191)) || ((44032 <=? c) && (c <=? 55203))
          || ((63744 <=? c) && (c <=? 64255)) || ((65072 <=? c) && (c <=? 65135)) || ((65280 <=? c) && (c <=? 65376))
          || ((65504 <=? c) && (c <=? 65510)) || ((127744 <=? c) && (c <=? 128591)) || ((129280 <=? c) && (c <=? 129535))
          || ((131072 <=? c) && (c <=? 262141)) then 2
  else 1.

Definition linefeed (t : term) : term :=
  if t_r t =? t_rows t - 1 then
    let g := match t_grid t with [] => [] | _ :: r => r ++ [blank_row (t_cols t)] end in
    set_misc (upd t g (t_r t) (t_c t) (t_pend t)) (t_style t) (t_visible t) (t_scrolled t + 1) (t_queries t)
  else upd t (t_grid t) (t_r t + 1) (t_c t) (t_pend t).

(* a printable character *)
Definition put (t : term) (ch : Z) : term :=
  let w := rune_width ch in
  if w =? 0 then t
  else
    let t := if t_pend t then let t1 := linefeed (upd t (t_grid t) (t_r t) 0 false) in upd t1 (t_grid t1) (t_r t1) 0 false else t in
    let t := if (w =? 2) && (t_c t =? t_cols t - 1) then
               let t1 := linefeed (upd t (t_grid t) (t_r t) 0 false) in upd t1 (t_grid t1) (t_r t1) 0 false
             else t in
    let g := set_cell t (t_r t) (t_c t) ch in
    let t := upd t g (t_r t) (t_c t) false in
    let g := if (w =? 2) && (t_c t + 1 <? t_cols t) then set_cell t (t_r t) (t_c t + 1) (-1) else g in
    if t_cols t <=? t_c t + w then upd t g (t_r t) (t_cols t - 1) true
    else upd t g (t_r t) (t_c t + w) false.

(* CSI parameters: decimal numbers separated by ';' ; '?' prefix and intermediate blank noted *)
Fixpoint parse_nums (ps : list Z) (cur : Z) (have : bool) (acc : list Z) : list Z :=
  match ps with
  | [] => if have then acc ++ [cur] else acc
  | p :: r =>
    if (48 <=? p) && (p <=? 57) then parse_nums r (cur * 10 + (p - 48)) true acc
    else if p =? 59 then parse_nums r 0 false (acc ++ [if have then cur else 0])
    else parse_nums r cur have acc
  end.

Definition zmin (a b : Z) := if a <? b then a else b.
Definition zmax (a b : Z) := if a <? b then b else a.

Fixpoint fill_from (row : list Z) (i : Z) (lo hi : Z) : list Z :=
  match row with
  | [] => []
  | x :: r => (if (lo <=? i) && (i <=? hi) then 32 else x) :: fill_from r (i + 1) lo hi
  end.
Fixpoint map_rows (g : list (list Z)) (i : Z) (f : Z -> list Z -> list Z) : list (list Z) :=
  match g with
  | [] => []
  | row :: r => f i row :: map_rows r (i + 1) f
  end.

Definition csi (t : term) (final : Z) : term :=
  let ps := t_params t in
  let priv := match ps with 63 :: _ => true | _ => false end in
  let blank := existsb (fun p => p =? 32) ps in
  let nums := parse_nums ps 0 false [] in
  let n := nth 0 nums 0 in
  let n1 := if 0 <? n then n else 1 in
  if (final =? 110) && (n =? 6) then set_misc t (t_style t) (t_visible t) (t_scrolled t) (t_queries t + 1)   (* DSR *)
  else if priv then
    if ((final =? 104) || (final =? 108)) && (n =? 25) then set_misc t (t_style t) (final =? 104) (t_scrolled t) (t_queries t)
    else t
  else if (final =? 113) && blank then set_misc t n (t_visible t) (t_scrolled t) (t_queries t)                 (* DECSCUSR *)
  else if final =? 65 then upd t (t_grid t) (zmax 0 (t_r t - n1)) (t_c t) false                               (* A *)
  else if final =? 66 then upd t (t_grid t) (zmin (t_rows t - 1) (t_r t + n1)) (t_c t) false                  (* B *)
  else if final =? 67 then upd t (t_grid t) (t_r t) (zmin (t_cols t - 1) (t_c t + n1)) false                  (* C *)
  else if final =? 68 then upd t (t_grid t) (t_r t) (zmax 0 (t_c t - n1)) false                               (* D *)
  else if final =? 71 then upd t (t_grid t) (t_r t) (zmin (t_cols t - 1) (n1 - 1)) false                      (* G *)
  else if (final =? 72) || (final =? 102) then
    let r := (if 0 <? nth 0 nums 0 then nth 0 nums 0 else 1) - 1 in
    let c := (if 0 <? nth 1 nums 0 then nth 1 nums 0 else 1) - 1 in
    upd t (t_grid t) (zmin (t_rows t - 1) r) (zmin (t_cols t - 1) c) false
  else if final =? 74 then                                                                                    (* J *)
    let g := if n =? 0 then map_rows (t_grid t) 0 (fun i row => if i <? t_r t then row
                                                              else if i =? t_r t then fill_from row 0 (t_c t) (t_cols t)
                                                              else blank_row (t_cols t))
             else if n =? 1 then map_rows (t_grid t) 0 (fun i row => if t_r t <? i then row
                                                                   else if i =? t_r t then fill_from row 0 0 (t_c t)
                                                                   else blank_row (t_cols t))
             else repeat_row (Z.to_nat (t_rows t)) (blank_row (t_cols t)) in
    upd t g (t_r t) (t_c t) false
  else if final =? 75 then                                                                                    (* K *)
    let '(lo, hi) := if n =? 0 then (t_c t, t_cols t) else if n =? 1 then (0, t_c t) else (0, t_cols t) in
    upd t (map_rows (t_grid t) 0 (fun i row => if i =? t_r t then fill_from row 0 lo hi else row)) (t_r t) (t_c t) false
  else t.

Definition feed_byte (t : term) (b : Z) : term :=
  if t_state t =? 0 then
    match t_utf t with
    | _ :: _ =>
      let bs := t_utf t ++ [b] in
      if full_rune bs then
        let '(c, w) := decode1 (nth 0 bs 0) (tl bs) in
        let t := set_parse t 0 [] [] in
        if (c =? rune_error) && (w =? 1)%nat then t else put t c
      else set_parse t 0 [] bs
    | [] =>
      if 128 <=? b then
        if full_rune [b] then t else set_parse t 0 [] [b]
      else if b =? 27 then set_parse t 1 [] []
      else if b =? 13 then upd t (t_grid t) (t_r t) 0 false
      else if b =? 10 then let t1 := linefeed t in upd t1 (t_grid t1) (t_r t1) (t_c t1) false
      else if b =? 8 then upd t (t_grid t) (t_r t) (zmax 0 (t_c t - 1)) false
      else if (b <? 32) || (b =? 127) then t
      else put t b
    end
  else if t_state t =? 1 then
    if b =? 91 then set_parse t 2 [] []
    else if (b =? 40) || (b =? 41) then set_parse t 3 [] []
    else set_parse t 0 [] []
  else if t_state t =? 3 then set_parse t 0 [] []
  else
    if ((48 <=? b) && (b <=? 63)) || (b =? 32) then set_parse t 2 (t_params t ++ [b]) []
    else csi (set_parse t 0 (t_params t) []) b.

Definition term_feed (t : term) (bs : list Z) : term := fold_left feed_byte bs t.

(* the text of a row, right halves of wide characters dropped, trailing blanks kept *)
Definition row_text (row : list Z) : list Z := filter (fun c => negb (c =? -1)) row.
