(* Go's string <-> []rune conversions: []rune(string(bytes)) decodes UTF-8 with
   U+FFFD (65533) for every byte that does not start a valid encoding
   (unicode/utf8.DecodeRune), string([]rune) encodes, with U+FFFD for surrogates
   and out-of-range values. *)
From Model Require Import Base.

Definition cont (b : Z) : bool := (128 <=? b) && (b <=? 191).
Definition rune_error : Z := 65533.

(* one utf8.DecodeRune on a non-empty byte list: rune and width *)
Definition decode1 (b0 : Z) (t : list Z) : Z * nat :=
  let b1 := nth 0 t (-1) in let b2 := nth 1 t (-1) in let b3 := nth 2 t (-1) in
  if b0 <? 128 then (b0, 1%nat)
  else if (194 <=? b0) && (b0 <=? 223) then
    if cont b1 then (Z.lor (Z.shiftl (Z.land b0 31) 6) (Z.land b1 63), 2%nat) else (rune_error, 1%nat)
  else if (224 <=? b0) && (b0 <=? 239) then
    let lo := if b0 =? 224 then 160 else 128 in
    let hi := if b0 =? 237 then 159 else 191 in
    if (lo <=? b1) && (b1 <=? hi) && cont b2 then
      (Z.lor (Z.lor (Z.shiftl (Z.land b0 15) 12) (Z.shiftl (Z.land b1 63) 6)) (Z.land b2 63), 3%nat)
    else (rune_error, 1%nat)
  else if (240 <=? b0) && (b0 <=? 244) then
    let lo := if b0 =? 240 then 144 else 128 in
    let hi := if b0 =? 244 then 143 else 191 in
    if (lo <=? b1) && (b1 <=? hi) && cont b2 && cont b3 then
      (Z.lor (Z.lor (Z.lor (Z.shiftl (Z.land b0 7) 18) (Z.shiftl (Z.land b1 63) 12))
                    (Z.shiftl (Z.land b2 63) 6)) (Z.land b3 63), 4%nat)
    else (rune_error, 1%nat)
  else (rune_error, 1%nat).

Fixpoint decode_go (fuel : nat) (bs : list Z) : list Z :=
  match fuel with
  | O => []
  | S f =>
    match bs with
    | [] => []
    | b0 :: t => let '(r, w) := decode1 b0 t in r :: decode_go f (skipn w bs)
    end
  end.

(* []rune(string(bs)) *)
Definition utf8_decode (bs : list Z) : list Z := decode_go (length bs) bs.

Definition encode1 (c : Z) : list Z :=
  let c := if (c <? 0) || (1114111 <? c) || ((55296 <=? c) && (c <=? 57343)) then rune_error else c in
  if c <? 128 then [c]
  else if c <? 2048 then [Z.lor 192 (Z.shiftr c 6); Z.lor 128 (Z.land c 63)]
  else if c <? 65536 then
    [Z.lor 224 (Z.shiftr c 12); Z.lor 128 (Z.land (Z.shiftr c 6) 63); Z.lor 128 (Z.land c 63)]
  else [Z.lor 240 (Z.shiftr c 18); Z.lor 128 (Z.land (Z.shiftr c 12) 63);
        Z.lor 128 (Z.land (Z.shiftr c 6) 63); Z.lor 128 (Z.land c 63)].

(* []byte(string(rs)) *)
Definition utf8_encode (rs : list Z) : list Z := flat_map encode1 rs.

(* utf8.FullRune: does bs begin with a full encoding (an invalid one counts as full) *)
Definition full_rune (bs : list Z) : bool :=
  match bs with
  | [] => false
  | b0 :: t =>
    let n := length t in
    let b1 := nth 0 t (-1) in let b2 := nth 1 t (-1) in
    if b0 <? 128 then true
    else if (194 <=? b0) && (b0 <=? 223) then (1 <=? n)%nat
    else if (224 <=? b0) && (b0 <=? 239) then
      let lo := if b0 =? 224 then 160 else 128 in
      let hi := if b0 =? 237 then 159 else 191 in
      if (n =? 0)%nat then false
      else if negb ((lo <=? b1) && (b1 <=? hi)) then true
      else (2 <=? n)%nat
    else if (240 <=? b0) && (b0 <=? 244) then
      let lo := if b0 =? 240 then 144 else 128 in
      let hi := if b0 =? 244 then 143 else 191 in
      if (n =? 0)%nat then false
      else if negb ((lo <=? b1) && (b1 <=? hi)) then true
      else if (n =? 1)%nat then false
      else if negb (cont b2) then true
      else (3 <=? n)%nat
    else true
  end.
