(* Key stack and key dispatch for the main keymap:
   internal/core/keys.go  WaitAvailableKeys (chunk arrival, mustWait, convert-meta per
   chunk), PeekKey, PopKey, MatchedKeys, MatchedPrefix, PopForce, FlushUsed, Feed;
   internal/keymap/dispatch.go  dispatchKeys, matchBind (with its sort), MatchMain,
   handleEscape/isEscapeKey (main branch);  readline.go  the loop around them, with
   commands abstracted to what this level can see: a command is logged with the keys
   that called it (Keys.Caller()), a macro binding feeds its keys. *)
From Model Require Import Base Uni Utf8 Notation.

(* a binding: action name and macro flag; the empty action is "no bind" *)
Definition bind_t := (list Z * bool)%type.
Definition no_bind : bind_t := ([], false).
Definition is_bound (b : bind_t) : bool := match fst b with [] => false | _ => true end.

(* a bind table: key sequence (runes, as stored in Config.Binds) -> bind *)
Definition table := list (list Z * bind_t).

(* ---- matchBind *)

Fixpoint cmp_bytes (a b : list Z) : comparison :=
  match a, b with
  | [], [] => Eq
  | [], _ => Lt
  | _, [] => Gt
  | x :: a', y :: b' => match x ?= y with Eq => cmp_bytes a' b' | c => c end
  end.

(* the order of the sort in matchBind: by byte length of the key string, then bytewise *)
Definition seq_le (a b : list Z) : bool :=
  let ea := utf8_encode a in let eb := utf8_encode b in
  if (length ea =? length eb)%nat then match cmp_bytes ea eb with Gt => false | _ => true end
  else (length ea <? length eb)%nat.

Fixpoint insert_sorted (x : list Z * bind_t) (l : table) : table :=
  match l with
  | [] => [x]
  | y :: r => if seq_le (fst x) (fst y) then x :: l else y :: insert_sorted x r
  end.
Definition sort_table (t : table) : table := fold_right insert_sorted [] t.

(* the bytes a key sequence is compared with: ConvertMeta, then the UTF-8 string *)
Definition seq_bytes (s : list Z) : list Z := utf8_encode (convert_meta s).

Fixpoint strict_prefix (p l : list Z) : bool :=
  match p, l with
  | [], _ :: _ => true
  | x :: p', y :: l' => (x =? y) && strict_prefix p' l'
  | _, _ => false
  end.

(* the table scan of matchBind: the last exact match in sorted order, and whether some
   sequence has the keys as a proper prefix *)
Definition match_table (t : table) (keys : list Z) : bind_t * bool :=
  fold_left (fun acc e =>
               let sb := seq_bytes (fst e) in
               (if eqlZ keys sb then snd e else fst acc,
                snd acc || strict_prefix keys sb))
            (sort_table t) (no_bind, false).

Definition s_self_insert : list Z := [115; 101; 108; 102; 45; 105; 110; 115; 101; 114; 116].   (* self-insert *)
Definition self_insert_bind : bind_t := (s_self_insert, false).

(* binds["a"].Action == "self-insert": a keymap where characters insert themselves *)
Definition inserts_text (t : table) : bool :=
  existsb (fun e => eqlZ (fst e) [97] && eqlZ (fst (snd e)) s_self_insert) t.

(* the keys are the complete, valid UTF-8 encoding of one character (U+FFFD itself
   included: only an invalid byte decodes to U+FFFD with width 1) *)
Definition utf8_char (keys : list Z) : bool :=
  match keys with
  | [] => false
  | k0 :: r => let '(c, w) := decode1 k0 r in full_rune keys && negb ((c =? rune_error) && (w =? 1)%nat) && (w =? length keys)%nat
  end.

(* matchBind: the table scan, then - in a keymap where characters insert themselves -
   a character encoded on several bytes matches self-insert unless it is bound, and an
   incomplete encoding is a prefix *)
Definition match_bind (t : table) (keys : list Z) : bind_t * bool :=
  let '(m, ext) := match_table t keys in
  match keys with
  | k0 :: _ =>
    if (128 <=? k0) && inserts_text t then
      if negb (full_rune keys) then (m, true)
      else if negb (is_bound m) && utf8_char keys then (self_insert_bind, ext)
      else (m, ext)
    else (m, ext)
  | [] => (m, ext)
  end.

(* ---- core.Keys *)

Record keys := {
  k_buf : list Z;          (* bytes read and waiting *)
  k_macro : list Z;        (* runes fed by macros *)
  k_matched : list Z;      (* Keys.Caller() *)
  k_must_wait : bool
}.

Definition peek_key (k : keys) : option Z :=
  match k_buf k with
  | b :: _ => Some b
  | [] => match k_macro k with r :: _ => Some (r mod 256) | [] => None end   (* byte(rune) *)
  end.

Definition pop_key (k : keys) : keys :=
  match k_buf k with
  | _ :: r => {| k_buf := r; k_macro := k_macro k; k_matched := k_matched k; k_must_wait := k_must_wait k |}
  | [] => match k_macro k with
          | _ :: r => {| k_buf := []; k_macro := r; k_matched := k_matched k; k_must_wait := k_must_wait k |}
          | [] => k
          end
  end.

(* MatchedKeys(keys, matched, args...) *)
Definition matched_keys (k : keys) (matched args : list Z) : keys :=
  {| k_buf := args ++ k_buf k; k_macro := k_macro k;
     k_matched := match matched with [] => k_matched k | _ => utf8_decode matched end;
     k_must_wait := false |}.

(* MatchedPrefix(keys, prefix...) *)
Definition matched_prefix (k : keys) (prefix : list Z) : keys :=
  match prefix with
  | [] => k
  | _ => {| k_buf := prefix ++ k_buf k; k_macro := k_macro k; k_matched := utf8_decode prefix;
            k_must_wait := match k_buf k with [] => true | _ => false end |}
  end.

(* PopForce *)
Definition pop_force (k : keys) : keys :=
  match peek_key k with
  | None => k
  | Some _ => let k' := pop_key k in
              {| k_buf := k_buf k'; k_macro := k_macro k'; k_matched := k_matched k'; k_must_wait := false |}
  end.

Definition flush_used (k : keys) : keys :=
  {| k_buf := k_buf k; k_macro := k_macro k; k_matched := []; k_must_wait := k_must_wait k |}.

Definition feed (k : keys) (rs : list Z) : keys :=
  {| k_buf := k_buf k; k_macro := k_macro k ++ rs; k_matched := k_matched k; k_must_wait := k_must_wait k |}.

(* ---- keymap.Engine, the part dispatch touches *)

Record engine := {
  e_active : bind_t;
  e_prefixed : bind_t;
  e_vi : bool              (* the main keymap is not an emacs one *)
}.

(* dispatchKeys: fuel = keys available; returns (engine, keys, prefix, read, matched) *)
Fixpoint dispatch_go (fuel : nat) (t : table) (e : engine) (k : keys) (prefix : bool) (read matched : list Z)
  : engine * keys * bool * list Z * list Z :=
  match fuel with
  | O => (e, k, prefix, read, matched)
  | S f =>
    match peek_key k with
    | None => (e, k, prefix, read, matched)
    | Some key =>
      let read := read ++ [key] in
      let '(m, ext) := match_bind t read in
      if negb (is_bound m) && negb ext then
        ({| e_active := e_prefixed e; e_prefixed := no_bind; e_vi := e_vi e |}, pop_key k, false, read, matched)
      else
        let k := pop_key k in
        let matched := matched ++ [key] in
        if ext then
          dispatch_go f t {| e_active := e_active e; e_prefixed := if is_bound m then m else e_prefixed e; e_vi := e_vi e |}
                      k true read matched
        else
          ({| e_active := m; e_prefixed := no_bind; e_vi := e_vi e |}, k, false, read, matched)
    end
  end.

Definition dispatch_keys (t : table) (e : engine) (k : keys) :=
  dispatch_go (S (length (k_buf k) + length (k_macro k))) t e k false [] [].

Definition s_vi_movement : list Z :=
  [118; 105; 45; 109; 111; 118; 101; 109; 101; 110; 116; 45; 109; 111; 100; 101].   (* vi-movement-mode *)

(* MatchMain: (engine, keys, bind, prefix) *)
Definition match_main (t : table) (e : engine) (k : keys) : engine * keys * bind_t * bool :=
  match t with
  | [] => (e, k, no_bind, false)
  | _ =>
    let '(e, k, prefix, read, _) := dispatch_keys t e k in
    let b := e_active e in
    let k := if prefix then matched_prefix k read else matched_keys k read [] in
    (* the lone escape key in a vi main keymap *)
    if prefix && e_vi e && eqlZ (k_matched k) [27] then
      let b' := if eqlZ (fst (e_prefixed e)) s_vi_movement then e_prefixed e else no_bind in
      ({| e_active := e_active e; e_prefixed := no_bind; e_vi := e_vi e |}, pop_force k, b', false)
    else (e, k, b, prefix)
  end.

(* ---- the loop, at the level of "which command runs with which keys" *)

Inductive input :=
| Chunk (bs : list Z)        (* one blocking read returned these bytes *)
| Eof.                       (* the read ended *)

(* Keys.convertMeta on the bytes of one read: each character goes through ConvertMeta,
   bytes that are not part of a valid encoding pass through.  (The bytes of a character
   cut by the end of the read are held back for the next read: a Chunk of the model is
   what is converted in one go, the harness moves an incomplete tail to the next one.) *)
Fixpoint conv_go (fuel : nat) (bs : list Z) : list Z :=
  match fuel with
  | O => []
  | S f =>
    match bs with
    | [] => []
    | b0 :: t =>
      let '(r, w) := decode1 b0 t in
      (if (r =? rune_error) && (w =? 1)%nat then [b0] else utf8_encode (convert_meta [r])) ++ conv_go f (skipn w bs)
    end
  end.
Definition conv_read (bs : list Z) : list Z := conv_go (length bs) bs.

Section Loop.
  (* the state commands act on, and the commands: `exec action caller_keys a` is None
     when Keymap.Commands() has no such command (nothing runs), else the new state and
     whether the line was accepted (Readline returns) *)
  Variable A : Type.
  Variable exec : list Z -> list Z -> A -> option (A * bool).

  Record lstate := {
    l_eng : engine;
    l_keys : keys;
    l_app : A
  }.

  Inductive outcome :=
  | Waiting (st : lstate)      (* blocked in the read, no input left in the script *)
  | Returned (st : lstate)     (* a command accepted the line: Readline returns *)
  | Ended (st : lstate)        (* input ended: the model stops here (what the real loop does next is C01's) *)
  | NoFuel (st : lstate).

  (* WaitAvailableKeys: Some (keys, rest of inputs, ended), or None when it must block *)
  Definition wait_keys (convert_meta_on : bool) (k : keys) (ins : list input)
    : option (keys * list input * bool) :=
    match k_buf k, k_must_wait k with
    | _ :: _, false => Some (k, ins, false)
    | _, _ =>
      match k_macro k with
      | _ :: _ => Some (k, ins, false)
      | [] =>
        match ins with
        | [] => None
        | Eof :: r => Some (k, r, true)
        | Chunk bs :: r =>
          let bs := if convert_meta_on then conv_read bs else bs in
          Some ({| k_buf := k_buf k ++ bs; k_macro := k_macro k; k_matched := k_matched k; k_must_wait := k_must_wait k |},
                r, false)
        end
      end
    end.

  Fixpoint loop (fuel : nat) (cm : bool) (t : table) (st : lstate) (ins : list input) : outcome :=
    match fuel with
    | O => NoFuel st
    | S f =>
      let k := flush_used (l_keys st) in
      match wait_keys cm k ins with
      | None => Waiting {| l_eng := l_eng st; l_keys := k; l_app := l_app st |}
      | Some (k, ins, true) => Ended {| l_eng := l_eng st; l_keys := k; l_app := l_app st |}
      | Some (k, ins, false) =>
        match k_buf k, k_macro k with
        | [], [] => loop f cm t {| l_eng := l_eng st; l_keys := k; l_app := l_app st |} ins  (* empty read *)
        | _, _ =>
          let '(e, k, b, prefix) := match_main t (l_eng st) k in
          if prefix then loop f cm t {| l_eng := e; l_keys := k; l_app := l_app st |} ins
          else
            let k := if snd b then feed k (unescape (fst b)) else k in
            if negb (snd b) && is_bound b then
              match exec (fst b) (k_matched k) (l_app st) with
              | Some (a, true) => Returned {| l_eng := e; l_keys := k; l_app := a |}
              | Some (a, false) => loop f cm t {| l_eng := e; l_keys := k; l_app := a |} ins
              | None => loop f cm t {| l_eng := e; l_keys := k; l_app := l_app st |} ins
              end
            else loop f cm t {| l_eng := e; l_keys := k; l_app := l_app st |} ins
        end
      end
    end.

  Definition init_state (vi : bool) (a : A) : lstate :=
    {| l_eng := {| e_active := no_bind; e_prefixed := no_bind; e_vi := vi |};
       l_keys := {| k_buf := []; k_macro := []; k_matched := []; k_must_wait := false |};
       l_app := a |}.
End Loop.

(* probe commands: every invocation is logged with the keys that called it *)
Definition probe_log := list (list Z * list Z).
Definition probe_exec (registered : list Z -> bool) (act keys : list Z) (log : probe_log)
  : option (probe_log * bool) :=
  if registered act then Some (log ++ [(act, keys)], false) else None.
