(* The hand-off of cursor position reports between the goroutines of a Readline call
   (internal/core/keys.go WaitAvailableKeys, readInputFiltered; keys_unix.go GetCursorPos;
   display_unix.go WatchResize; Shell.Printf), as a transition system over program points.
   Actors: the main loop; any number of askers (a goroutine that redisplays because of a
   SIGWINCH or an application Printf, hence calls GetCursorPos); the terminal (answers
   every query by queueing a report on stdin); the user (queues bytes on stdin).
   A schedule is a list of labels; every interleaving of the statements that touch the
   shared state (Keys.waiting, Keys.cursor, Keys.buf, stdin) is a schedule.  A read of
   stdin takes everything queued (reads are at most 1024 bytes in the code; a report cut
   by a read is outside this model).  The Go memory model (data races on the flags) is
   outside it too: every step is atomic. *)
From Model Require Import Base.

Inductive item := U (b : Z) | R.            (* a user byte / a cursor position report *)

Inductive mpc :=
| MRun                                      (* running a command or a redisplay *)
| MQuery                                    (* inside its own GetCursorPos: query written, reading stdin itself *)
| MWaiting.                                 (* in WaitAvailableKeys, blocked in the read *)

Inductive apc :=
| AIdle
| AQueried                                  (* query written (or going round the loop again) *)
| ARecv (c : Z)                             (* saw waiting = true: blocked receiving on channel c *)
| AWantRead                                 (* saw waiting = false: blocked in its own read of stdin *)
| AHold (keys : list Z) (got : bool)        (* has read: user bytes around the report, and whether there was a report *)
| ADone.

Record pstate := {
  p_typed : list Z;                         (* ghost: every byte the user typed, in order *)
  p_stdin : list item;
  p_buf : list Z;                           (* Keys.buf *)
  p_waiting : bool;                         (* Keys.waiting *)
  p_chan : Z;                               (* identity of the current Keys.cursor channel *)
  p_main : mpc;
  p_askers : list apc;
  p_pending : Z                             (* queries the terminal has not answered yet *)
}.

Definition p_init (n_askers : nat) : pstate :=
  {| p_typed := []; p_stdin := []; p_buf := []; p_waiting := false; p_chan := 0; p_main := MRun;
     p_askers := repeat AIdle n_askers; p_pending := 0 |}.

Inductive label :=
| LType (b : Z)            (* the user types a byte *)
| LAnswer                  (* the terminal answers one query *)
| LMainEnter               (* main: WaitAvailableKeys sets waiting and makes a new channel *)
| LMainRead                (* main: the blocked read returns; report handed over or dropped; keys stored *)
| LMainQuery               (* main: a redisplay writes its own query *)
| LMainQueryRead           (* main: reads stdin for its own report *)
| LAskStart (i : nat)      (* asker i writes its query *)
| LAskBranch (i : nat)     (* asker i looks at the waiting flag and picks a branch *)
| LAskRead (i : nat)       (* asker i: its own read of stdin returns *)
| LAskFinish (i : nat).    (* asker i: stores what it read, returns or goes round again *)

Definition users (l : list item) : list Z := flat_map (fun it => match it with U b => [b] | R => [] end) l.
Definition has_report (l : list item) : bool := existsb (fun it => match it with R => true | U _ => false end) l.

Fixpoint set_asker (l : list apc) (i : nat) (a : apc) : list apc :=
  match l, i with
  | [], _ => []
  | _ :: r, O => a :: r
  | x :: r, S k => x :: set_asker r k a
  end.

(* hand the report to the first asker blocked on channel c; none: dropped *)
Fixpoint deliver (l : list apc) (c : Z) : list apc :=
  match l with
  | [] => []
  | ARecv c' :: r => if c' =? c then ADone :: r else ARecv c' :: deliver r c
  | a :: r => a :: deliver r c
  end.

Definition upd_p (s : pstate) (typed : list Z) (stdin : list item) (buf : list Z) (w : bool) (c : Z) (m : mpc)
           (a : list apc) (p : Z) : pstate :=
  {| p_typed := typed; p_stdin := stdin; p_buf := buf; p_waiting := w; p_chan := c; p_main := m; p_askers := a; p_pending := p |}.

(* one step; a label that is not enabled leaves the state unchanged *)
Definition pstep (s : pstate) (l : label) : pstate :=
  match l with
  | LType b => upd_p s (p_typed s ++ [b]) (p_stdin s ++ [U b]) (p_buf s) (p_waiting s) (p_chan s) (p_main s) (p_askers s) (p_pending s)
  | LAnswer =>
    if 0 <? p_pending s then upd_p s (p_typed s) (p_stdin s ++ [R]) (p_buf s) (p_waiting s) (p_chan s) (p_main s) (p_askers s) (p_pending s - 1)
    else s
  | LMainEnter =>
    match p_main s with
    | MRun => upd_p s (p_typed s) (p_stdin s) (p_buf s) true (p_chan s + 1) MWaiting (p_askers s) (p_pending s)
    | _ => s
    end
  | LMainRead =>
    match p_main s, p_stdin s with
    | MWaiting, _ :: _ =>
      let keys := users (p_stdin s) in
      let askers := if has_report (p_stdin s) then deliver (p_askers s) (p_chan s) else p_askers s in
      match keys with
      | [] => upd_p s (p_typed s) [] (p_buf s) true (p_chan s) MWaiting askers (p_pending s)
      | _ => upd_p s (p_typed s) [] (p_buf s ++ keys) false (p_chan s) MRun askers (p_pending s)
      end
    | _, _ => s
    end
  | LMainQuery =>
    match p_main s with
    | MRun => upd_p s (p_typed s) (p_stdin s) (p_buf s) (p_waiting s) (p_chan s) MQuery (p_askers s) (p_pending s + 1)
    | _ => s
    end
  | LMainQueryRead =>
    match p_main s, p_stdin s with
    | MQuery, _ :: _ =>
      upd_p s (p_typed s) [] (p_buf s ++ users (p_stdin s)) (p_waiting s) (p_chan s)
            (if has_report (p_stdin s) then MRun else MQuery) (p_askers s) (p_pending s)
    | _, _ => s
    end
  | LAskStart i =>
    match nth i (p_askers s) ADone with
    | AIdle => upd_p s (p_typed s) (p_stdin s) (p_buf s) (p_waiting s) (p_chan s) (p_main s) (set_asker (p_askers s) i AQueried) (p_pending s + 1)
    | _ => s
    end
  | LAskBranch i =>
    match nth i (p_askers s) ADone with
    | AQueried => upd_p s (p_typed s) (p_stdin s) (p_buf s) (p_waiting s) (p_chan s) (p_main s)
                        (set_asker (p_askers s) i (if p_waiting s then ARecv (p_chan s) else AWantRead)) (p_pending s)
    | _ => s
    end
  | LAskRead i =>
    match nth i (p_askers s) ADone, p_stdin s with
    | AWantRead, _ :: _ =>
      upd_p s (p_typed s) [] (p_buf s) (p_waiting s) (p_chan s) (p_main s)
            (set_asker (p_askers s) i (AHold (users (p_stdin s)) (has_report (p_stdin s)))) (p_pending s)
    | _, _ => s
    end
  | LAskFinish i =>
    match nth i (p_askers s) ADone with
    | AHold keys true =>
      (* the report was there: what came with it is user input, stored only `if !k.waiting` *)
      upd_p s (p_typed s) (p_stdin s) (if p_waiting s then p_buf s else p_buf s ++ keys) (p_waiting s) (p_chan s) (p_main s)
            (set_asker (p_askers s) i ADone) (p_pending s)
    | AHold keys false =>
      upd_p s (p_typed s) (p_stdin s) (p_buf s ++ keys) (p_waiting s) (p_chan s) (p_main s) (set_asker (p_askers s) i AQueried) (p_pending s)
    | _ => s
    end
  end.

Definition prun (sched : list label) (s : pstate) : pstate := fold_left pstep sched s.

(* the same, refusing schedules in which an asker picks its branch while the main loop is
   not blocked waiting for input *)
Fixpoint prun_waiting (sched : list label) (s : pstate) : option pstate :=
  match sched with
  | [] => Some s
  | LAskBranch i :: r => if p_waiting s then prun_waiting r (pstep s (LAskBranch i)) else None
  | l :: r => prun_waiting r (pstep s l)
  end.
