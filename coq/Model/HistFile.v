(* internal/history/file.go: openHist and fileHistory.Write over a file modelled as
   a byte list.  The JSON record codec (encoding/json on {datetime, block}) enters
   as two functions: enc block = the bytes json.Marshal produces, dec line = the
   Block json.Unmarshal yields (None when it fails or the Block is empty).
   strings.TrimSpace is modelled on runes. *)
From Model Require Import Base Uni.

(* strings.TrimSpace *)
Fixpoint drop_space (s : list Z) : list Z :=
  match s with
  | [] => []
  | c :: r => if is_space c then drop_space r else s
  end.
Definition trim_space (s : list Z) : list Z :=
  rev_append (drop_space (rev_append (drop_space s) [])) [].

(* bufio.ScanLines over the whole file (the scanner's buffer limit is MaxInt):
   cur is the current line, reversed *)
Definition strip_cr_rev (cur : list Z) : list Z :=
  match cur with
  | 13 :: r => r
  | _ => cur
  end.

Fixpoint lines_go (cur : list Z) (bs : list Z) : list (list Z) :=
  match bs with
  | [] => match cur with [] => [] | _ => [rev_append (strip_cr_rev cur) []] end
  | b :: r => if b =? 10 then rev_append (strip_cr_rev cur) [] :: lines_go [] r
              else lines_go (b :: cur) r
  end.
Definition file_lines (f : list Z) : list (list Z) := lines_go [] f.

Section Codec.
  Variable enc : list Z -> list Z.
  Variable dec : list Z -> option (list Z).

  (* openHist: the Blocks of the lines that decode to a non-empty Block *)
  Fixpoint keep_decoded (ls : list (list Z)) : list (list Z) :=
    match ls with
    | [] => []
    | l :: r => match dec l with
                | Some b => b :: keep_decoded r
                | None => keep_decoded r
                end
    end.
  Definition open_hist (f : list Z) : list (list Z) := keep_decoded (file_lines f).

  Definition last_byte (f : list Z) : Z := last f 10.

  (* the newline Write puts first when the file does not end with one *)
  Definition sep (f : list Z) : list Z := if last_byte f =? 10 then [] else [10].

  (* fileHistory.Write: (in-memory lines, file) -> same *)
  Definition write (st : list (list Z) * list Z) (s : list Z) : list (list Z) * list Z :=
    let '(lines, f) := st in
    let block := trim_space s in
    match block with
    | [] => st
    | _ =>
      let lines' := match rev_append lines [] with
                    | l :: _ => if eqlZ l block then lines else lines ++ [block]
                    | [] => lines ++ [block]
                    end in
      (lines', f ++ sep f ++ enc block ++ [10])
    end.

  (* the process dies k bytes into the append of s *)
  Definition crash_write (f : list Z) (s : list Z) (k : nat) : list Z :=
    match trim_space s with
    | [] => f
    | block => f ++ firstn k (sep f ++ enc block ++ [10])
    end.
End Codec.
