(* Go's unicode predicates, as tables dumped from the live runtime (Gen/Unicode.v):
   a 256-entry table below U+0100 and merged ranges / exception pairs above. *)
From Model Require Import Base.
From Gen Require Import Unicode.

Definition in_ranges (rs : list (Z * Z)) (c : Z) : bool :=
  existsb (fun ab => (fst ab <=? c) && (c <=? snd ab)) rs.

Definition tab_b (t : list bool) (c : Z) : bool := nth (Z.to_nat c) t false.

Definition pred (t : list bool) (rs : list (Z * Z)) (c : Z) : bool :=
  if c <? 0 then false else if c <? 256 then tab_b t c else in_ranges rs c.

Definition is_print := pred print_tab print_ranges.
Definition is_space := pred space_tab space_ranges.
Definition is_cntrl := pred control_tab control_ranges.
Definition is_punct := pred punct_tab punct_ranges.
Definition is_letter := pred letter_tab letter_ranges.
Definition is_digit := pred digit_tab digit_ranges.
Definition is_upper := pred upper_tab upper_ranges.
Definition is_lower := pred lower_tab lower_ranges.

Definition assocZ (ps : list (Z * Z)) (c : Z) : Z :=
  match find (fun p => fst p =? c) ps with Some p => snd p | None => c end.

Definition conv (t : list Z) (ps : list (Z * Z)) (c : Z) : Z :=
  if c <? 0 then c else if c <? 256 then nth (Z.to_nat c) t c else assocZ ps c.

Definition to_upper := conv toupper_tab toupper_pairs.
Definition to_lower := conv tolower_tab tolower_pairs.

(* A rune a Go string can hold without being replaced by U+FFFD. *)
Definition valid_scalar (c : Z) : bool :=
  (0 <=? c) && (c <=? 1114111) && negb ((55296 <=? c) && (c <=? 57343)).
