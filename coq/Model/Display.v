(* Display arithmetic: internal/strutil/len.go RealLength, LineSpan;
   internal/core/line.go CoordinatesLine; internal/core/cursor.go CoordinatesCursor
   (with the byte offsets of Line.newlines used as rune indexes, as the code does);
   and the reference the display properties are judged against: `layout`, which writes
   the prompt and the buffer character by character on the terminal model of Term.v and
   notes the cell on which the character at the cursor position lands. *)
From Model Require Import Base Utf8 Term.

(* strutil.RealLength: a tab counts for five blanks; uniseg.StringWidth as the sum of the
   character widths *)
Definition real_length (s : list Z) : Z :=
  fold_left (fun a c => a + (if c =? 9 then 5 else rune_width c)) s 0.

(* strutil.LineSpan(line, idx, indent) on a terminal `w` columns wide: (x, y) *)
Definition line_span (w : Z) (line : list Z) (idx indent : Z) : Z * Z :=
  let n := real_length line + indent in
  (n mod w, n / w + (if idx =? 0 then 0 else 1)).

Fixpoint split_nl_go (l cur : list Z) : list (list Z) :=
  match l with
  | [] => [rev cur]
  | c :: r => if c =? 10 then rev cur :: split_nl_go r [] else split_nl_go r (c :: cur)
  end.
Definition split_nl (l : list Z) : list (list Z) := split_nl_go l [].

(* CoordinatesLine *)
Fixpoint coord_line_go (w indent : Z) (lines : list (list Z)) (i : Z) (x y : Z) : Z * Z :=
  match lines with
  | [] => (x, y)
  | ln :: r => let '(lx, ly) := line_span w ln i indent in coord_line_go w indent r (i + 1) lx (y + ly)
  end.
Definition coordinates_line (w : Z) (l : list Z) (indent : Z) : Z * Z := coord_line_go w indent (split_nl l) 0 0 0.

(* Line.newlines(): the BYTE offsets of the newlines of string(line) + "\n" *)
Fixpoint nl_offsets_go (bs : list Z) (i : Z) : list Z :=
  match bs with
  | [] => []
  | b :: r => if b =? 10 then i :: nl_offsets_go r (i + 1) else nl_offsets_go r (i + 1)
  end.
Definition nl_offsets (l : list Z) : list Z := nl_offsets_go (utf8_encode l ++ [10]) 0.

(* CoordinatesCursor(cur, indent), after CheckAppend *)
Fixpoint coord_cursor_go (w indent : Z) (l : list Z) (cpos : Z) (nls : list Z) (pos bpos usedy : Z) : res (Z * Z) :=
  match nls with
  | [] => Ok (0, 0)
  | nl :: r =>
    if nl <? cpos then
      do ln <- slice 601 l bpos nl;
      let '(_, y) := line_span w ln pos indent in
      coord_cursor_go w indent l cpos r (pos + 1) (nl + 1) (usedy + y)
    else
      do ln <- slice 602 l bpos cpos;
      let '(x, y) := line_span w ln pos indent in
      Ok (x, usedy + y)
  end.
Definition coordinates_cursor (w : Z) (l : list Z) (cpos indent : Z) : res (Z * Z) :=
  let cpos := if cpos <? 0 then 0 else if zlen l <? cpos then zlen l else cpos in
  coord_cursor_go w indent l cpos (nl_offsets l) 0 0 0.

(* ---- the reference: prompt and buffer written character by character *)

(* where the next character would be written *)
Definition next_cell (t : term) : Z * Z := if t_pend t then (t_r t + 1, 0) else (t_r t, t_c t).

Definition put_text_char (indent : Z) (t : term) (c : Z) : term :=
  if c =? 10 then
    let t1 := linefeed (upd t (t_grid t) (t_r t) 0 false) in
    upd t1 (t_grid t1) (t_r t1) (zmin (t_cols t1 - 1) indent) false
  else if c =? 9 then fold_left put [32; 32; 32; 32; 32] t
  else put t c.

Fixpoint layout_go (indent : Z) (t : term) (l : list Z) (i cpos : Z) (cell : Z * Z) : term * (Z * Z) :=
  match l with
  | [] => (t, if i =? cpos then next_cell t else cell)
  | c :: r =>
    let cell := if i =? cpos then next_cell t else cell in
    layout_go indent (put_text_char indent t c) r (i + 1) cpos cell
  end.

(* the screen a terminal `rows` x `cols` should show for the prompt (plain text) followed by
   the buffer, and the cell of the cursor position; rows are relative to the prompt's row *)
Definition layout (rows cols : Z) (prompt buf : list Z) (cpos : Z) : term * (Z * Z) :=
  let t := fold_left put prompt (term_init rows cols) in
  let indent := snd (next_cell t) in
  layout_go indent t buf 0 cpos (next_cell t).

(* ---- leaving the line: the relative cursor moves of display.Engine.AcceptLine, at the
   level of the cursor cell of a screen `rows` x `cols` (term.MoveCursorUp/Down/Forwards/
   Backwards print nothing for an argument below 1; CUU/CUD/CUF/CUB stop at the edges) *)
Inductive cmove := MUp (n : Z) | MDown (n : Z) | MFwd (n : Z) | MBack (n : Z) | MCrLf.

Definition do_move (rows cols : Z) (rc : Z * Z) (m : cmove) : Z * Z :=
  let '(r, c) := rc in
  match m with
  | MUp n => if n <? 1 then rc else (zmax 0 (r - n), c)
  | MDown n => if n <? 1 then rc else (zmin (rows - 1) (r + n), c)
  | MFwd n => if n <? 1 then rc else (r, zmin (cols - 1) (c + n))
  | MBack n => if n <? 1 then rc else (r, zmax 0 (c - n))
  | MCrLf => (zmin (rows - 1) (r + 1), 0)          (* no scrolling: the caller keeps r + 1 < rows *)
  end.

(* CursorToLineStart; back to column 0; down lineRows; forward lineCol; (erase below);
   back to column 0; CR LF *)
Definition accept_line_moves (w cursor_col cursor_row start_cols line_rows line_col : Z) : list cmove :=
  [MBack cursor_col; MUp cursor_row; MFwd start_cols; MBack w; MDown line_rows; MFwd line_col; MBack w; MCrLf].


(* the end of display.Engine.Refresh, once the line has been written and the cursor is at its
   end: displayHelpers with no hint and no completion (CR LF; back to column 0; nothing to
   move up), cursorHintToLineStart (up 1; up lineRows - cursorRow; CursorToLineStart: back
   cursorCol, up cursorRow, forward startCols), lineStartToCursorPos (down cursorRow; back to
   column 0; forward cursorCol) *)
Definition refresh_tail_moves (w cursor_col cursor_row start_cols line_rows : Z) : list cmove :=
  [MCrLf; MBack w; MUp 1; MUp (line_rows - cursor_row); MBack cursor_col; MUp cursor_row; MFwd start_cols;
   MDown cursor_row; MBack w; MFwd cursor_col].
