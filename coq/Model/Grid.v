(* The completion selector: internal/completion/group.go moveSelector,
   findFirstCandidate, firstCell, lastCell, selected; utils.go currentGroup,
   cycleNextGroup, cyclePreviousGroup, adjustCycleKeys (non-arrow keys); engine.go
   Select.  A group is modelled by the shape of its grid: the length of each row (the
   candidates are distinct, so a cell is its candidate), the aliased flag, maxX, maxY,
   len(columnsWidth) and the selector position.  Every g.rows[i] is an explicit indexing
   that can panic; the loop of findFirstCandidate and the recursion of cycleNextGroup /
   cyclePreviousGroup run on fuel. *)
From Model Require Import Base.

Record grp := {
  g_rows : list Z;        (* len(g.rows[y]) for each y *)
  g_aliased : bool;
  g_maxx : Z;
  g_maxy : Z;
  g_ncols : Z;            (* len(g.columnsWidth) *)
  g_px : Z;
  g_py : Z
}.

Definition set_pos (g : grp) (x y : Z) : grp :=
  {| g_rows := g_rows g; g_aliased := g_aliased g; g_maxx := g_maxx g; g_maxy := g_maxy g; g_ncols := g_ncols g;
     g_px := x; g_py := y |}.

Definition nrows (g : grp) : Z := zlen (g_rows g).

(* findFirstCandidate(x, y) from position (px, py): position and (done, next) *)
Fixpoint find_first (fuel : nat) (g : grp) (x y px py : Z) : res (Z * Z * bool * bool) :=
  match fuel with
  | O => OutOfFuel
  | S f =>
    do l <- idx 401 (g_rows g) py;
    if l - 1 <? px then
      let py := py + y + x in
      (* previous column or group *)
      let r1 := if py <? 0 then
                  if px =? 0 then inl (0, 0, true, false) else inr (px - 1, nrows g - 1)
                else inr (px, py) in
      match r1 with
      | inl r => Ok r
      | inr (px, py) =>
        (* next column or group *)
        if g_maxy g - 1 <? py then
          if px <? g_ncols g - 1 then find_first f g x y (px + 1) 0
          else Ok (px, 0, true, true)
        else find_first f g x y px py
      end
    else Ok (px, py, false, false)
  end.

Definition ff_fuel (g : grp) : nat := S (Z.to_nat ((nrows g + 2) * (g_ncols g + g_maxx g + 2))).

(* moveSelector(x, y): the group with its new position, done, next *)
Definition move_selector (g : grp) (x y : Z) : res (grp * bool * bool) :=
  let '(px, py) := (g_px g, g_py g) in
  let '(px, py) := if (px =? -1) && (py =? -1) then (if negb (x =? 0) then (px, py + 1) else (px + 1, py)) else (px, py) in
  let px := px + x in
  let py := py + y in
  let reverse := (x <? 0) || (y <? 0) in
  (* 1 *)
  do s1 <- (if px <? 0 then
              if (py =? 0) && reverse then Ok (inl (set_pos g 0 0, true, false))
              else do l <- idx 402 (g_rows g) (py - 1); Ok (inr (l - 1, py - 1))
            else Ok (inr (px, py)));
  match s1 with
  | inl r => Ok r
  | inr (px, py) =>
    (* 2 *)
    let s2 := if py <? 0 then
                if px =? 0 then inl (set_pos g 0 0, true, false) else inr (px - 1, nrows g - 1)
              else inr (px, py) in
    match s2 with
    | inl r => Ok r
    | inr (px, py) =>
      (* 3 *)
      let s3 := if g_maxy g - 1 <? py then
                  if px <? g_maxx g - 1 then inr (px + 1, 0) else inl (set_pos g px 0, true, true)
                else inr (px, py) in
      match s3 with
      | inl r => Ok r
      | inr (px, py) =>
        (* 4 *)
        do l <- idx 403 (g_rows g) py;
        if l - 1 <? px then
          if g_aliased g then
            do r <- find_first (ff_fuel g) g x y px py;
            let '(px, py, done, next) := r in Ok (set_pos g px py, done, next)
          else
            if py <? g_maxy g - 1 then Ok (set_pos g 0 (py + 1), false, false)
            else Ok (set_pos g 0 py, true, true)
        else Ok (set_pos g px py, false, false)
      end
    end
  end.

Definition first_cell (g : grp) : grp := set_pos g 0 0.

Definition last_cell (g : grp) : res grp :=
  let py := nrows g - 1 in
  let px := g_ncols g - 1 in
  if g_aliased g then
    do r <- find_first (ff_fuel g) g 0 (-1) px py;
    let '(px, py, _, _) := r in Ok (set_pos g px py)
  else
    do l <- idx 404 (g_rows g) py; Ok (set_pos g (l - 1) py).

(* the cell selected() returns *)
Definition sel_cell (g : grp) : Z * Z :=
  if (g_py g =? -1) || (g_px g =? -1) then (0, 0) else (g_py g, g_px g).

(* ---- the engine: groups and which one is current (-1: none yet) *)
Record eng := { e_groups : list grp; e_cur : Z }.

Definition nth_grp (e : eng) (i : Z) : option grp :=
  if i <? 0 then None else nth_error (e_groups e) (Z.to_nat i).

(* currentGroup: the flagged one, else the first with rows becomes current *)
Fixpoint first_nonempty (gs : list grp) (i : Z) : Z :=
  match gs with
  | [] => -1
  | g :: r => if 0 <? nrows g then i else first_nonempty r (i + 1)
  end.
Definition current (e : eng) : eng :=
  if 0 <=? e_cur e then e else {| e_groups := e_groups e; e_cur := first_nonempty (e_groups e) 0 |}.

Fixpoint cycle_group (fuel : nat) (e : eng) (dir : Z) : res eng :=
  match fuel with
  | O => OutOfFuel
  | S f =>
    let n := zlen (e_groups e) in
    let c := e_cur e in
    let c' := if c <? 0 then c
              else if 0 <? dir then (if c =? n - 1 then 0 else c + 1) else (if c =? 0 then n - 1 else c - 1) in
    let e' := current {| e_groups := e_groups e; e_cur := c' |} in
    match nth_grp e' (e_cur e') with
    | None => Panic 405                       (* next.rows on a nil group *)
    | Some g => if nrows g =? 0 then cycle_group f e' dir else Ok e'
    end
  end.

Fixpoint set_nth {A} (l : list A) (i : nat) (a : A) : list A :=
  match l, i with
  | [], _ => []
  | _ :: r, O => a :: r
  | x :: r, S k => x :: set_nth r k a
  end.
Definition put_grp (e : eng) (i : Z) (g : grp) : eng :=
  {| e_groups := set_nth (e_groups e) (Z.to_nat i) g; e_cur := e_cur e |}.

(* Select(row, 0) from menu-complete (row = 1) / menu-complete-backward (row = -1),
   called with a key that is not an arrow *)
Definition select (e : eng) (row : Z) : res eng :=
  let e := current e in
  match nth_grp e (e_cur e) with
  | None => Ok e
  | Some g =>
    if nrows g =? 0 then Ok e
    else
      let '(x, y) := if g_aliased g then (0, row) else (row, 0) in
      do r <- move_selector g x y;
      let '(g', done, next) := r in
      let e := put_grp e (e_cur e) g' in
      if negb done then Ok e
      else
        do e <- cycle_group (S (length (e_groups e))) e (if next then 1 else -1);
        match nth_grp e (e_cur e) with
        | None => Panic 406
        | Some ng =>
          if next then Ok (put_grp e (e_cur e) (first_cell ng))
          else do lg <- last_cell ng; Ok (put_grp e (e_cur e) lg)
        end
  end.

(* the candidate inserted after a Select: group index and cell (row, column) *)
Definition inserted (e : eng) : option (Z * Z * Z) :=
  let e := current e in
  match nth_grp e (e_cur e) with
  | None => None
  | Some g => if nrows g =? 0 then None else let '(y, x) := sel_cell g in Some (e_cur e, y, x)
  end.

Fixpoint run_selects (e : eng) (dirs : list Z) : list (res (option (Z * Z * Z))) :=
  match dirs with
  | [] => []
  | d :: r => match select e d with
              | Ok e' => Ok (inserted e') :: run_selects e' r
              | Panic s => [Panic s]
              | OutOfFuel => [OutOfFuel]
              end
  end.

Definition fresh_group (rows : list Z) (aliased : bool) (maxx maxy ncols : Z) : grp :=
  {| g_rows := rows; g_aliased := aliased; g_maxx := maxx; g_maxy := maxy; g_ncols := ncols; g_px := -1; g_py := -1 |}.
