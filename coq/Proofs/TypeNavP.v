(* C09: typing, then navigating - the hypotheses of the navigation theorem hold in every state
   reached by typing text from the start of a call, so the theorem applies to "type anything,
   then walk through the history in any way". *)
From Coq Require Import String.
From Model Require Import Base Uni Utf8 Notation Inputrc HistFile Editor.
From Model Require Import Dispatch.
From Proofs Require Import EditorP BoundsP NotationP HistoryP TypedP WalkP.
From Coq Require Import ZifyBool.
Open Scope Z_scope.

(* what the navigation theorem asks of a state *)
Definition nav_ready (H : list (list Z)) (e : ed) : Prop := hist e = H /\ hpos e = -1 /\ clean e /\ pending e = [].

(* the parts of a command that only touch the text, the cursor and the mark *)
Definition text_only (e e' : ed) : Prop :=
  hist e' = hist e /\ lines e' = lines e /\ hpos e' = hpos e /\ pending e' = pending e.

Lemma text_only_trans : forall a b c, text_only a b -> text_only b c -> text_only a c.
Proof. unfold text_only. intros a b c H1 H2. intuition congruence. Qed.

Lemma c_check_append_to : forall e, text_only e (c_check_append e).
Proof. intros e. unfold c_check_append. repeat split. Qed.

Lemma c_insert_at_to : forall e cs, text_only e (c_insert_at e cs).
Proof. intros e cs. unfold c_insert_at. apply (text_only_trans _ _ _ (c_check_append_to e)). repeat split. Qed.

Lemma c_move_to : forall e off, text_only e (c_move e off).
Proof. intros e off. unfold c_move. apply (text_only_trans e (set_cpos e (cpos e + off))); [repeat split | apply c_check_append_to]. Qed.

Lemma only_cursor_to : forall e e', only_cursor e e' -> text_only e e'.
Proof. intros e e' (A & B & C & _ & D & _). repeat split; assumption. Qed.

Lemma nav_ready_to : forall H e e', text_only e e' -> nav_ready H e -> nav_ready H e'.
Proof.
  intros H e e' (A & B & C & D) (Hh & Hp & Hc & Pe).
  split; [rewrite A; exact Hh|]. split; [rewrite C; exact Hp|]. split; [apply (clean_transfer e e' B A Hc)|rewrite D; exact Pe].
Qed.

(* one typed character, through run_one: still ready to navigate *)
Lemma self_insert_keeps_ready : forall H c mk mx e, nav_ready H e ->
  exists e', run_one s_self_insert [c] mk mx e = Ok e' /\ nav_ready H e'.
Proof.
  intros H c mk mx e R. unfold run_one. rewrite run_command_self_insert. cbv zeta. cbn [bind].
  set (q := if 128 <=? c then [c] else quote c).
  set (e0 := h_skip_save (set_active_cmd e s_self_insert)).
  assert (R0 : nav_ready H e0) by exact R.
  set (e3 := c_move (c_move (c_insert_at e0 q) (- zlen q)) (zlen q)).
  assert (T3 : text_only e0 e3).
  { unfold e3. apply (text_only_trans _ _ _ (c_insert_at_to e0 q)). apply (text_only_trans _ _ _ (c_move_to (c_insert_at e0 q) (- zlen q))). apply c_move_to. }
  pose proof (nav_ready_to H e0 e3 T3 R0) as R3.
  destruct R3 as (Hh3 & Hp3 & Hc3 & Pe3). rewrite Pe3. cbn [rev app].
  replace (if negb (it_pending e3) then Ok e3 else Ok e3) with (Ok e3) by (destruct (negb (it_pending e3)); reflexivity). cbn [bind].
  assert (C4 : exists e4, (if kmain e3 =? M_vicmd then c_check_command e3 else Ok (c_check_append e3)) = Ok e4 /\ only_cursor e3 e4).
  { destruct (kmain e3 =? M_vicmd).
    - destruct (c_check_command_total e3) as [e4 C]. exists e4. split; [exact C | apply c_check_command_oc; exact C].
    - exists (c_check_append e3). split; [reflexivity | apply c_check_append_oc]. }
  destruct C4 as (e4 & C4 & O4). rewrite C4. cbn [bind].
  assert (O5 : only_cursor e4 (it_post_run e4)) by (unfold it_post_run; destruct (it_pending e4); repeat split).
  assert (R5 : nav_ready H (it_post_run e4)).
  { apply (nav_ready_to H e4 _ (only_cursor_to _ _ O5)), (nav_ready_to H e3 _ (only_cursor_to _ _ O4)). repeat split; assumption. }
  destruct R5 as (Hh5 & Hp5 & Hc5 & Pe5).
  destruct (h_save_bottom_any _ Hp5 Hc5) as (e6 & S & A & B & C & D). exists e6. split; [exact S|].
  split; [rewrite A; exact Hh5|]. split; [exact B|]. split; [exact D|].
  apply h_save_pending in S. destruct S as [S _]. rewrite S. exact Pe5.
Qed.

Fixpoint type_all (mk : bool) (mx : Z) (t : list Z) (e : ed) : res ed :=
  match t with
  | [] => Ok e
  | c :: r => do e' <- run_one s_self_insert [c] mk mx e; type_all mk mx r e'
  end.

Lemma typing_keeps_ready : forall H mk mx t e, nav_ready H e -> exists e', type_all mk mx t e = Ok e' /\ nav_ready H e'.
Proof.
  intros H mk mx t. induction t as [|c t IH]; intros e R; [exists e; split; [reflexivity | exact R]|].
  destruct (self_insert_keeps_ready H c mk mx e R) as (e1 & W & R1). cbn [type_all]. rewrite W. cbn [bind]. apply IH. exact R1.
Qed.

Lemma init_ready : forall vi h, nav_ready h (ed_init vi h).
Proof.
  intros vi h. split; [reflexivity|]. split; [reflexivity|]. split; [|reflexivity].
  intros k Hk. unfold ed_init. cbn [lines lh_get]. replace (-1 =? k) with false by lia. exact I.
Qed.

(* type ANY characters from the start of a call, then walk through the history in ANY way: at
   abstract position k > 0 the buffer is the k-th newest stored entry, at position 0 it is
   what was typed (the buffer at the end of the typing); the entries never change *)
Theorem type_then_navigate : forall vi mk mx h t cs, 0 < zlen h ->
  exists e1 e', type_all mk mx t (ed_init vi h) = Ok e1 /\ run_navs mk mx cs e1 = Ok e' /\ hist e' = h /\
    let k := nav_fold (zlen h) (map fst cs) 0 in
    (k = 0 -> hpos e' = -1 /\ line e' = line e1) /\
    (0 < k -> hpos e' = k /\ line e' = nth (Z.to_nat (zlen h - k)) h []).
Proof.
  intros vi mk mx h t cs Hn.
  destruct (typing_keeps_ready h mk mx t (ed_init vi h) (init_ready vi h)) as (e1 & T & (Hh & Hp & Hc & Pe)).
  rewrite <- Hh in Hn.
  destruct (navigation_is_faithful mk mx cs e1 Hn Hp Hc Pe) as (e' & W & Hh' & K).
  exists e1, e'. split; [exact T|]. split; [exact W|]. split; [rewrite Hh'; exact Hh|].
  cbv zeta in K |- *. rewrite Hh in K. destruct K as [K0 K1]. split; [exact K0|].
  intros Kp. destruct (K1 Kp) as [A B]. split; [exact A|]. rewrite B. unfold entry. rewrite Hh. reflexivity.
Qed.

(* characters that insert themselves unchanged (not NUL, not shown in caret notation) *)
Definition plain_char (c : Z) : Prop := c <> 0 /\ (if 128 <=? c then [c] else quote c) = [c].

Lemma type_all_line : forall mk mx t l e, typing l e -> Forall plain_char t ->
  exists e', type_all mk mx t e = Ok e' /\ typing (l ++ t) e'.
Proof.
  intros mk mx t. induction t as [|c t IH]; intros l e Ty F; [exists e; rewrite app_nil_r; split; [reflexivity | exact Ty]|].
  inversion F as [|c' t' [Hc Hq] F']; subst.
  destruct (run_one_self_insert c l mk mx e Ty Hc Hq) as (e1 & W & Ty1). cbn [type_all]. rewrite W. cbn [bind].
  destruct (IH (l ++ [c]) e1 Ty1 F') as (e2 & W2 & Ty2). exists e2. split; [exact W2|]. rewrite <- app_assoc in Ty2. exact Ty2.
Qed.

(* ... and when the text typed is made of such characters, position 0 shows exactly that text *)
Theorem type_then_navigate_text : forall vi mk mx h t cs, 0 < zlen h -> Forall plain_char t ->
  exists e', (do e1 <- type_all mk mx t (ed_init vi h); run_navs mk mx cs e1) = Ok e' /\ hist e' = h /\
    let k := nav_fold (zlen h) (map fst cs) 0 in
    (k = 0 -> hpos e' = -1 /\ line e' = t) /\
    (0 < k -> hpos e' = k /\ line e' = nth (Z.to_nat (zlen h - k)) h []).
Proof.
  intros vi mk mx h t cs Hn F.
  destruct (type_then_navigate vi mk mx h t cs Hn) as (e1 & e' & T & W & Hh & K).
  destruct (type_all_line mk mx t [] (ed_init vi h) (typing_init vi h) F) as (e1' & T' & (L & _)).
  rewrite T in T'. inversion T'; subst e1'. cbn [app] in L.
  exists e'. rewrite T. cbn [bind]. split; [exact W|]. split; [exact Hh|].
  cbv zeta in K |- *. destruct K as [K0 K1]. split; [|exact K1]. intros Kz. destruct (K0 Kz) as [A B]. split; [exact A|]. rewrite B. exact L.
Qed.
