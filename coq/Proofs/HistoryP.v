(* C09: history navigation and search on the editor model. *)
From Coq Require Import String.
From Model Require Import Base Uni Utf8 Notation Inputrc HistFile Editor.
From Proofs Require Import EditorP BoundsP.
From Coq Require Import ZifyBool.
Open Scope Z_scope.

(* ---------------------------------------------------------------- (c) what a search can put in the buffer *)

Definition matches (regex : bool) (cline : list Z) (entry : list Z) : bool :=
  let hl := utf8_encode entry in
  if regex then is_substring cline hl
  else negb ((zlen hl <? zlen cline) || (negb (zlen cline =? 0) && negb (has_prefix cline hl))).

Lemma has_prefix_len : forall p l, has_prefix p l = true -> zlen p <= zlen l.
Proof.
  induction p as [|x p IH]; intros l H; [unfold zlen; cbn; lia|].
  destruct l as [|y l]; [discriminate|]. cbn in H. apply andb_true_iff in H. destruct H as [_ H].
  apply IH in H. unfold zlen in *. cbn [length]. lia.
Qed.

(* prefix search: the entry's UTF-8 string starts with the search bytes *)
Lemma matches_prefix : forall cline entry, matches false cline entry = true -> has_prefix cline (utf8_encode entry) = true.
Proof.
  intros cline entry H. unfold matches in H.
  destruct (zlen cline =? 0) eqn:Z.
  - destruct cline; [reflexivity | unfold zlen in Z; cbn in Z; lia].
  - cbn [negb andb] in H. destruct (has_prefix cline (utf8_encode entry)); [reflexivity|].
    cbn in H. rewrite orb_true_r in H. discriminate.
Qed.

(* the search loop only ever returns an entry of the history, at its own index, that matches *)
Theorem match_go_sound : forall f h pos fwd regex cline m p,
  match_go f h pos fwd regex cline = Some (m, p) ->
  0 <= p < zlen h /\ m = nth (Z.to_nat p) h [] /\ matches regex cline m = true.
Proof.
  induction f as [|f IH]; intros h pos fwd regex cline m p H; cbn [match_go] in H; [discriminate|].
  destruct (if fwd then pos <? zlen h else 0 <? pos); [|discriminate].
  set (pos' := if fwd then pos + 1 else pos - 1) in *.
  destruct ((pos' <? 0) || (zlen h <=? pos')) eqn:B; [discriminate|].
  fold (matches regex cline (nth (Z.to_nat pos') h [])) in H.
  destruct (matches regex cline (nth (Z.to_nat pos') h [])) eqn:M.
  - inversion H; subst. split; [lia|]. split; [reflexivity | exact M].
  - apply IH in H. exact H.
Qed.

(* ---------------------------------------------------------------- non-destructive: the entries never change *)

Definition same_hist (e e' : ed) : Prop := hist e' = hist e.
Lemma same_hist_refl : forall e, same_hist e e. Proof. reflexivity. Qed.
Lemma same_hist_trans : forall a b c, same_hist a b -> same_hist b c -> same_hist a c.
Proof. unfold same_hist. intros. congruence. Qed.

Lemma h_save_hist : forall e, match h_save e with Ok e' => hist e' = hist e | _ => True end.
Proof.
  intros e. pose proof (h_save_shape e) as S. destruct (h_save e) as [e'| |]; auto.
  destruct S as [S | [u S]]; subst e'; unfold h_reset, put_undo; destruct (undoing _); reflexivity.
Qed.

Lemma h_undo_hist : forall e, match h_undo e with Ok e' => hist e' = hist e | _ => True end.
Proof.
  intros e. unfold h_undo. destruct (u_items (cur_undo (set_undo e (lines e) true true))); [reflexivity|].
  destruct (undo_go _ _ _ _) as [[pos it]| |]; cbn [bind]; auto. destruct it as [[l0 p0]|]; reflexivity.
Qed.

Lemma h_walk_to_hist : forall mk e pos, match h_walk_to mk e pos with Ok e' => hist e' = hist e | _ => True end.
Proof.
  intros mk e pos0. unfold h_walk_to.
  set (pos := if (0 <? hpos e) && (hpos e + pos0 <? 0) then - hpos e else pos0). clearbody pos.
  set (e2 := set_hist e (hpos e + pos) (hcpos e)).
  assert (H2 : hist e2 = hist e) by reflexivity.
  destruct (hpos e2 <? -1); [reflexivity|].
  destruct (hpos e2 =? 0); [unfold h_restore_line; destruct (rev _) as [|[l p] r]; reflexivity|].
  match goal with |- context[cur_undo ?x] => set (e3 := x) end.
  assert (H3 : hist e3 = hist e) by (unfold e3; destruct (zlen (hist e) <? hpos e2); reflexivity).
  destruct (rev (u_items (cur_undo e3))) as [|[l p] r].
  + destruct (hist_get mk (hist e3) (zlen (hist e) - hpos e3)) as [g| |]; cbn [bind]; auto.
    destruct g; [unfold h_set_line_match; destruct (_ && _); cbn; exact H3 | exact H3].
  + unfold h_set_line_match. destruct (_ && _); cbn; exact H3.
Qed.

Lemma h_walk_hist : forall mk e pos, match h_walk mk e pos with Ok e' => hist e' = hist e | _ => True end.
Proof.
  intros mk e pos. unfold h_walk.
  destruct (zlen (hist e) =? 0); [reflexivity|].
  destruct (pos =? 0); [reflexivity|].
  destruct ((hpos e =? zlen (hist e)) && (pos =? 1)); [reflexivity|].
  destruct ((hpos e =? -1) && (0 <? pos)).
  - pose proof (h_save_hist (set_undo e (lines e) false (undoing e))) as S.
    destruct (h_save (set_undo e (lines e) false (undoing e))) as [e1| |]; cbn [bind]; auto.
    change (hist (set_undo e (lines e) false (undoing e))) with (hist e) in S.
    pose proof (h_walk_to_hist mk (set_hist e1 0 (-1)) pos) as W.
    destruct (h_walk_to mk (set_hist e1 0 (-1)) pos); auto. rewrite W. cbn. exact S.
  - cbn [bind]. apply h_walk_to_hist.
Qed.

Lemma h_insert_match_hist : forall e fwd regex,
  match h_insert_match e fwd regex with Ok e' => hist e' = hist e | _ => True end.
Proof.
  intros e fwd regex. unfold h_insert_match.
  assert (P : match (if hpos e =? -1 then
                       do e1 <- h_save (set_undo e (lines e) false (undoing e));
                       Ok (set_undo e1 (lines e1) (uskip e) (undoing e1))
                     else Ok e) with Ok e0 => hist e0 = hist e | _ => True end).
  { destruct (hpos e =? -1); [|reflexivity].
    pose proof (h_save_hist (set_undo e (lines e) false (undoing e))) as S.
    destruct (h_save (set_undo e (lines e) false (undoing e))) as [e1| |]; cbn [bind]; auto. }
  destruct (if hpos e =? -1 then _ else Ok e) as [e0| |]; cbn [bind]; auto.
  destruct (h_search_text e0) as [sl sp].
  destruct (fwd && (hpos e0 <=? -1)); [cbn; exact P|].
  destruct (match_go _ _ _ _ _ _) as [[m pos]|].
  - destruct (negb (sp =? 0)); cbn; exact P.
  - destruct fwd; [|exact P]. unfold h_restore_line. destruct (rev _) as [|[l p] r]; cbn; exact P.
Qed.

(* ---------------------------------------------------------------- (d) nothing fails at either end *)

Lemma idx_ok' : forall s l i, 0 <= i < zlen l -> idx s l i = Ok (nthZ l i).
Proof. intros s l i H. unfold idx. replace ((0 <=? i) && (i <? zlen l)) with true by lia. reflexivity. Qed.

Lemma c_on_empty_line_ok : forall e, 0 <= cpos e <= llen e -> exists b, c_on_empty_line e = Ok b.
Proof.
  intros e H. unfold c_on_empty_line. destruct (llen e =? 0) eqn:Z; [eexists; reflexivity|].
  destruct (cpos e =? 0) eqn:C0.
  - rewrite idx_ok' by (unfold llen in *; lia). eexists. reflexivity.
  - destruct (cpos e =? llen e) eqn:C1.
    + rewrite idx_ok' by (unfold llen in *; lia). eexists. reflexivity.
    + rewrite !idx_ok' by (unfold llen in *; lia). eexists. reflexivity.
Qed.

Lemma c_check_command_total : forall e, exists e', c_check_command e = Ok e'.
Proof.
  intros e. unfold c_check_command.
  pose proof (c_check_append_bounds e) as B0. set (e0 := c_check_append e) in *.
  destruct (c_on_empty_line_ok e0 B0) as [oe OE]. rewrite OE. cbn [bind].
  set (e1 := if (cpos e0 =? llen e0) && negb oe then set_cpos e0 (cpos e0 - 1) else e0).
  destruct ((0 <? llen e1) && (cpos e1 <? llen e1) && (c_char e1 =? 10)); [|eexists; reflexivity].
  destruct (c_on_empty_line_ok (c_check_append e1) (c_check_append_bounds e1)) as [oe2 OE2]. rewrite OE2. cbn [bind].
  eexists. reflexivity.
Qed.

Theorem h_save_total : forall e, exists e', h_save e = Ok e'.
Proof.
  intros e. unfold h_save. destruct (uskip e); [eexists; reflexivity|].
  destruct (rev (u_items (cur_undo e))) as [|[l p] r].
  - destruct (c_check_command_total (c_set e (c_pos e))) as [cc C]. rewrite C. cbn [bind]. eexists. reflexivity.
  - destruct (eqlZ l (line e)); [eexists; reflexivity|].
    match goal with |- context[0 <=? ?x] => replace (0 <=? x) with true end.
    + cbn [bind]. destruct (c_check_command_total (c_set e (c_pos e))) as [cc C]. rewrite C. cbn [bind]. eexists. reflexivity.
    + symmetry. destruct (zlen (u_items (cur_undo e)) <? u_pos (cur_undo e)) eqn:Q; lia.
Qed.

(* walking never fails, from any state, in any direction, by any amount, on any history (empty, one entry, ...) *)
Lemma h_walk_to_total : forall mk e pos, exists e', h_walk_to mk e pos = Ok e'.
Proof.
  intros mk e pos0. unfold h_walk_to.
  set (pos := if (0 <? hpos e) && (hpos e + pos0 <? 0) then - hpos e else pos0). clearbody pos.
  destruct (hpos (set_hist e (hpos e + pos) (hcpos e)) <? -1); [eexists; reflexivity|].
  destruct (hpos (set_hist e (hpos e + pos) (hcpos e)) =? 0); [eexists; reflexivity|].
  match goal with |- context[cur_undo ?x] => set (e3 := x) end.
  destruct (rev (u_items (cur_undo e3))) as [|[l p] r]; [|eexists; reflexivity].
  unfold hist_get.
  destruct (mk && (zlen (hist e3) =? 0)); cbn [bind]; [eexists; reflexivity|].
  destruct ((zlen (hist e) - hpos e3 <? 0) || (zlen (hist e3) <=? zlen (hist e) - hpos e3)); cbn [bind]; eexists; reflexivity.
Qed.

Theorem h_walk_total : forall mk e pos, exists e', h_walk mk e pos = Ok e'.
Proof.
  intros mk e pos. unfold h_walk.
  destruct (zlen (hist e) =? 0); [eexists; reflexivity|].
  destruct (pos =? 0); [eexists; reflexivity|].
  destruct ((hpos e =? zlen (hist e)) && (pos =? 1)); [eexists; reflexivity|].
  destruct ((hpos e =? -1) && (0 <? pos)); [|cbn [bind]; apply h_walk_to_total].
  destruct (h_save_total (set_undo e (lines e) false (undoing e))) as [e1 S]. rewrite S. cbn [bind]. apply h_walk_to_total.
Qed.
