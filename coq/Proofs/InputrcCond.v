(* C13: which directives of an inputrc program take effect. *)
From Model Require Import Base Uni Utf8 Notation Inputrc.
From Coq Require Import ZifyBool.

(* The parser's treatment of a list of lexed statements (haltOnErr off): the loop
   of Parse with the lexing taken out. *)
Fixpoint run_stmts (o : popts) (inc : config -> list Z -> res (config * Z))
         (ss : list stmt) (p : pstate) : res pstate :=
  match ss with
  | [] => Ok p
  | st :: r => do x <- exec_stmt o inc p st; run_stmts o inc r (fst x)
  end.

(* ---- the property's reference: a directive takes effect iff EVERY enclosing
   $if/$else block is active.  The reference keeps the own test of each open
   block (flipped by its $else), innermost first. *)
Record rstate := { r_keymap : list Z; r_stack : list bool; r_cfg : config }.

Definition r_active (r : rstate) : bool := forallb (fun b => b) (r_stack r).

Definition is_kw (st : stmt) (kw : list Z) : bool :=
  let '(a, _, tok, err) := st in (err =? E_none) && (tok =? T_construct) && eqlZ a kw.

Definition if_test (o : popts) (val : list Z) : bool :=
  if has_prefix s_mode_eq val then eqlZ (skipn 5 val) (o_mode o)
  else if has_prefix s_term_eq val then eqlZ (skipn 5 val) (o_term o)
  else eqlZ (lower val) (o_app o).

(* a leaf (bind, macro, set, $include, unknown construct) applied unconditionally:
   the code's own functions run in a context whose only condition is true *)
Definition apply_leaf (o : popts) (inc : config -> list Z -> res (config * Z))
           (r : rstate) (st : stmt) : res rstate :=
  do x <- exec_stmt o inc {| p_keymap := r_keymap r; p_conds := [true]; p_cfg := r_cfg r |} st;
  Ok {| r_keymap := p_keymap (fst x); r_stack := r_stack r; r_cfg := p_cfg (fst x) |}.

Definition ref_step (o : popts) (inc : config -> list Z -> res (config * Z))
           (r : rstate) (st : stmt) : res rstate :=
  let '(a, b, tok, err) := st in
  if is_kw st s_if then
    Ok {| r_keymap := r_keymap r; r_stack := if_test o b :: r_stack r; r_cfg := r_cfg r |}
  else if is_kw st s_else then
    match r_stack r with
    | [] => Ok r
    | c :: rest => Ok {| r_keymap := r_keymap r; r_stack := negb c :: rest; r_cfg := r_cfg r |}
    end
  else if is_kw st s_endif then
    match r_stack r with
    | [] => Ok r
    | _ :: rest => Ok {| r_keymap := r_keymap r; r_stack := rest; r_cfg := r_cfg r |}
    end
  else if r_active r then apply_leaf o inc r st
  else Ok r.

Fixpoint ref_run (o : popts) (inc : config -> list Z -> res (config * Z))
         (ss : list stmt) (r : rstate) : res rstate :=
  match ss with
  | [] => Ok r
  | st :: rest => do r' <- ref_step o inc r st; ref_run o inc rest r'
  end.

(* ---- the class of programs on which the pinned code is known to deviate: an
   $if or $else reached while an enclosing block is inactive.  nni = "no nested
   block in an inactive block", computed along the reference run. *)
Fixpoint nni (o : popts) (stack : list bool) (ss : list stmt) : bool :=
  match ss with
  | [] => true
  | st :: rest =>
    let '(a, b, tok, err) := st in
    if is_kw st s_if then forallb (fun x => x) stack && nni o (if_test o b :: stack) rest
    else if is_kw st s_else then
      match stack with
      | [] => nni o stack rest
      | c :: tl => forallb (fun x => x) tl && nni o (negb c :: tl) rest
      end
    else if is_kw st s_endif then nni o (tl stack) rest
    else nni o stack rest
  end.

(* the code's conds stack is the reference's stack on top of the base `true` *)
Definition related (p : pstate) (r : rstate) : Prop :=
  p_keymap p = r_keymap r /\ p_cfg p = r_cfg r /\ p_conds p = r_stack r ++ [true].

Definition outer_active (stack : list bool) : bool := forallb (fun x => x) (tl stack).

Lemma top_related : forall p r, related p r -> outer_active (r_stack r) = true ->
  top p = Ok (r_active r).
Proof.
  intros p r (_ & _ & Hc) Ho. unfold top, r_active. rewrite Hc.
  destruct (r_stack r) as [|b rest]; cbn; [reflexivity|].
  unfold outer_active in Ho. cbn in Ho. rewrite Ho. rewrite andb_true_r. reflexivity.
Qed.

(* exec_stmt only looks at the top condition *)
Lemma exec_top_true : forall o inc p st,
  is_kw st s_if = false -> is_kw st s_else = false -> is_kw st s_endif = false ->
  top p = Ok true ->
  match exec_stmt o inc {| p_keymap := p_keymap p; p_conds := [true]; p_cfg := p_cfg p |} st with
  | Ok (q, e) => exec_stmt o inc p st =
                 Ok ({| p_keymap := p_keymap q; p_conds := p_conds p; p_cfg := p_cfg q |}, e)
  | Panic s => exec_stmt o inc p st = Panic s
  | OutOfFuel => exec_stmt o inc p st = OutOfFuel
  end.
Proof.
  intros o inc p [[[a b] tok] err] Hif Helse Hendif Htop. unfold exec_stmt.
  unfold is_kw in *.
  destruct (err =? E_none) eqn:Eerr; cbn [negb andb] in *; [|destruct p; reflexivity].
  destruct (tok =? T_bind).
  { unfold do_bind. rewrite Htop. cbn [top p_conds bind negb]. destruct p; reflexivity. }
  destruct (tok =? T_macro).
  { unfold do_bind. rewrite Htop. cbn [top p_conds bind negb]. destruct p; reflexivity. }
  destruct (tok =? T_set).
  { unfold do_set. rewrite Htop. cbn [top p_conds bind negb p_cfg p_keymap].
    destruct (eqlZ a s_keymap).
    { destruct (o_strict o && negb (nm b strict_keymaps)); destruct p; reflexivity. }
    destruct (eqlZ a s_editing_mode).
    { destruct (nm b [s_emacs; s_vi]); destruct p; reflexivity. }
    destruct (get_var (c_vars (p_cfg p)) a) as [[x|x|x|]|]; try (destruct p; reflexivity).
    - destruct (atoi b); destruct p; reflexivity.
    - destruct (atoi b); [destruct p; reflexivity|].
      destruct (eqlZ (lower b) s_off); [destruct p; reflexivity|].
      destruct (eqlZ (lower b) s_on); destruct p; reflexivity. }
  destruct (tok =? T_construct) eqn:Etok; [|destruct p; reflexivity].
  cbn [andb] in *. unfold do_construct. rewrite Hif, Helse, Hendif.
  rewrite Htop. cbn [top p_conds bind negb p_cfg].
  destruct (eqlZ a s_include); [|destruct p; reflexivity].
  destruct (inc (p_cfg p) b) as [[c' e]| |]; cbn [bind fst snd]; destruct p; reflexivity.
Qed.

Lemma exec_top_false : forall o inc p st,
  is_kw st s_if = false -> is_kw st s_else = false -> is_kw st s_endif = false ->
  top p = Ok false ->
  exists e, exec_stmt o inc p st = Ok (p, e).
Proof.
  intros o inc p [[[a b] tok] err] Hif Helse Hendif Htop. unfold exec_stmt.
  unfold is_kw in *.
  destruct (err =? E_none) eqn:Eerr; cbn [negb andb] in *; [|eexists; reflexivity].
  destruct (tok =? T_bind); [unfold do_bind; rewrite Htop; eexists; reflexivity|].
  destruct (tok =? T_macro); [unfold do_bind; rewrite Htop; eexists; reflexivity|].
  destruct (tok =? T_set); [unfold do_set; rewrite Htop; eexists; reflexivity|].
  destruct (tok =? T_construct) eqn:Etok; [|eexists; reflexivity].
  cbn [andb] in *. unfold do_construct. rewrite Hif, Helse, Hendif. rewrite Htop. cbn [bind negb].
  destruct (eqlZ a s_include); eexists; reflexivity.
Qed.

(* one statement: the code and the reference stay related, as long as no block is
   opened or flipped inside an inactive block *)
Lemma step_related : forall o inc p r st,
  related p r -> outer_active (r_stack r) = true ->
  nni o (r_stack r) [st] = true ->
  match ref_step o inc r st with
  | Ok r' => exists p' e, exec_stmt o inc p st = Ok (p', e) /\ related p' r'
  | Panic s => exec_stmt o inc p st = Panic s
  | OutOfFuel => exec_stmt o inc p st = OutOfFuel
  end.
Proof.
  intros o inc p r st Hrel Hout Hn.
  pose proof (top_related p r Hrel Hout) as Htop.
  destruct Hrel as (Hk & Hc & Hs).
  unfold ref_step. destruct st as [[[a b] tok] err].
  cbn [nni] in Hn.
  destruct (is_kw (a, b, tok, err) s_if) eqn:Kif.
  { unfold is_kw in Kif. apply andb_true_iff in Kif. destruct Kif as [K1 K3]. apply andb_true_iff in K1. destruct K1 as [K1 K2].
    unfold exec_stmt. rewrite K1. cbn [negb].
    assert (T1 : (tok =? T_bind) = false) by (unfold T_bind, T_construct in *; lia).
    assert (T2 : (tok =? T_macro) = false) by (unfold T_macro, T_construct in *; lia).
    assert (T3 : (tok =? T_set) = false) by (unfold T_set, T_construct in *; lia).
    rewrite T1, T2, T3, K2. unfold do_construct. rewrite K3.
    do 2 eexists. split; [reflexivity|]. repeat split; cbn; try assumption.
    unfold if_test. rewrite Hs. reflexivity. }
  destruct (is_kw (a, b, tok, err) s_else) eqn:Kelse.
  { unfold is_kw in Kelse. apply andb_true_iff in Kelse. destruct Kelse as [K1 K3]. apply andb_true_iff in K1. destruct K1 as [K1 K2].
    unfold exec_stmt. rewrite K1. cbn [negb].
    assert (T1 : (tok =? T_bind) = false) by (unfold T_bind, T_construct in *; lia).
    assert (T2 : (tok =? T_macro) = false) by (unfold T_macro, T_construct in *; lia).
    assert (T3 : (tok =? T_set) = false) by (unfold T_set, T_construct in *; lia).
    rewrite T1, T2, T3, K2. unfold do_construct.
    assert (Kne : eqlZ a s_if = false).
    { unfold is_kw in Kif. rewrite K1, K2 in Kif. cbn in Kif. exact Kif. }
    rewrite Kne, K3. rewrite Hs.
    unfold related. destruct (r_stack r) as [|c rest] eqn:Er; cbn [app].
    - do 2 eexists. split; [reflexivity|]. repeat split; try assumption. rewrite Er. exact Hs.
    - destruct (rest ++ [true]) as [|x y] eqn:E; [destruct rest; discriminate|].
      do 2 eexists. split; [reflexivity|]. repeat split; cbn in *; try assumption. rewrite <- E. reflexivity. }
  destruct (is_kw (a, b, tok, err) s_endif) eqn:Kendif.
  { unfold is_kw in Kendif. apply andb_true_iff in Kendif. destruct Kendif as [K1 K3]. apply andb_true_iff in K1. destruct K1 as [K1 K2].
    unfold exec_stmt. rewrite K1. cbn [negb].
    assert (T1 : (tok =? T_bind) = false) by (unfold T_bind, T_construct in *; lia).
    assert (T2 : (tok =? T_macro) = false) by (unfold T_macro, T_construct in *; lia).
    assert (T3 : (tok =? T_set) = false) by (unfold T_set, T_construct in *; lia).
    rewrite T1, T2, T3, K2. unfold do_construct.
    assert (Kne : eqlZ a s_if = false).
    { unfold is_kw in Kif. rewrite K1, K2 in Kif. cbn in Kif. exact Kif. }
    assert (Kne2 : eqlZ a s_else = false).
    { unfold is_kw in Kelse. rewrite K1, K2 in Kelse. cbn in Kelse. exact Kelse. }
    rewrite Kne, Kne2, K3. rewrite Hs.
    unfold related. destruct (r_stack r) as [|c rest] eqn:Er; cbn [app].
    - do 2 eexists. split; [reflexivity|]. repeat split; try assumption. rewrite Er. exact Hs.
    - destruct (rest ++ [true]) as [|x y] eqn:E; [destruct rest; discriminate|].
      do 2 eexists. split; [reflexivity|]. repeat split; cbn in *; try assumption. rewrite <- E. reflexivity. }
  destruct (r_active r) eqn:Hact.
  - unfold apply_leaf.
    pose proof (exec_top_true o inc p (a, b, tok, err) Kif Kelse Kendif Htop) as H.
    rewrite <- Hk, <- Hc.
    destruct (exec_stmt o inc {| p_keymap := p_keymap p; p_conds := [true]; p_cfg := p_cfg p |} (a, b, tok, err))
      as [[q e]| |]; cbn [bind fst]; try exact H.
    do 2 eexists. split; [exact H|]. repeat split; cbn in *; assumption.
  - destruct (exec_top_false o inc p (a, b, tok, err) Kif Kelse Kendif Htop) as [e He].
    do 2 eexists. split; [exact He|]. repeat split; assumption.
Qed.

(* nni of a program splits into its first statement and the rest *)
Lemma nni_cons : forall o stack st rest r' inc r,
  r_stack r = stack -> nni o stack (st :: rest) = true -> ref_step o inc r st = Ok r' ->
  nni o stack [st] = true /\ (outer_active stack = true -> nni o (r_stack r') rest = true /\ outer_active (r_stack r') = true).
Proof.
  intros o stack st rest r' inc r Hst Hn Hstep.
  destruct st as [[[a b] tok] err]. cbn [nni] in *. unfold ref_step in Hstep.
  destruct (is_kw (a, b, tok, err) s_if).
  { apply andb_true_iff in Hn. destruct Hn as [H1 H2]. inversion Hstep. subst. cbn.
    split; [rewrite H1; reflexivity|]. intros _. split; [exact H2 | exact H1]. }
  destruct (is_kw (a, b, tok, err) s_else).
  { rewrite Hst in Hstep. destruct stack as [|c tl0].
    - inversion Hstep. subst. split; [reflexivity|]. intros H. rewrite Hst. split; [exact Hn | exact H].
    - apply andb_true_iff in Hn. destruct Hn as [H1 H2]. inversion Hstep. subst. cbn.
      split; [rewrite H1; reflexivity|]. intros _. split; [exact H2 | exact H1]. }
  destruct (is_kw (a, b, tok, err) s_endif).
  { rewrite Hst in Hstep. destruct stack as [|c tl0].
    - inversion Hstep. subst. split; [reflexivity|]. intros H. rewrite Hst. split; [exact Hn | exact H].
    - inversion Hstep. subst. cbn. split; [reflexivity|]. intros H. split; [exact Hn|].
      unfold outer_active in *. cbn in H. destruct tl0; [reflexivity|]. cbn in *. apply andb_true_iff in H. tauto. }
  split; [reflexivity|]. intros H.
  assert (r_stack r' = stack).
  { destruct (r_active r); [|inversion Hstep; subst; reflexivity].
    unfold apply_leaf in Hstep. destruct (exec_stmt _ _ _ _) as [[q e]| |]; cbn [bind] in Hstep; inversion Hstep. subst. reflexivity. }
  rewrite H0. split; [exact Hn | exact H].
Qed.

Theorem run_related : forall o inc ss p r,
  related p r -> outer_active (r_stack r) = true -> nni o (r_stack r) ss = true ->
  match ref_run o inc ss r with
  | Ok r' => exists p', run_stmts o inc ss p = Ok p' /\ related p' r'
  | Panic s => run_stmts o inc ss p = Panic s
  | OutOfFuel => run_stmts o inc ss p = OutOfFuel
  end.
Proof.
  intros o inc ss. induction ss as [|st rest IH]; intros p r Hrel Hout Hn; cbn [ref_run run_stmts].
  - eexists. split; [reflexivity | exact Hrel].
  - destruct (ref_step o inc r st) as [r'| |] eqn:Hstep; cbn [bind].
    + destruct (nni_cons o (r_stack r) st rest r' inc r eq_refl Hn Hstep) as [H1 H2].
      specialize (H2 Hout). destruct H2 as [H2 H3].
      pose proof (step_related o inc p r st Hrel Hout H1) as Hs. rewrite Hstep in Hs.
      destruct Hs as (p' & e & He & Hrel'). rewrite He. cbn [bind fst].
      apply IH; assumption.
    + assert (H1 : nni o (r_stack r) [st] = true).
      { destruct st as [[[a b] tok] err]. cbn [nni] in *.
        destruct (is_kw (a, b, tok, err) s_if); [apply andb_true_iff in Hn; destruct Hn as [Hx _]; rewrite Hx; reflexivity|].
        destruct (is_kw (a, b, tok, err) s_else); [destruct (r_stack r); [reflexivity|]; apply andb_true_iff in Hn; destruct Hn as [Hx _]; rewrite Hx; reflexivity|].
        destruct (is_kw (a, b, tok, err) s_endif); reflexivity. }
      pose proof (step_related o inc p r st Hrel Hout H1) as Hs. rewrite Hstep in Hs. rewrite Hs. reflexivity.
    + assert (H1 : nni o (r_stack r) [st] = true).
      { destruct st as [[[a b] tok] err]. cbn [nni] in *.
        destruct (is_kw (a, b, tok, err) s_if); [apply andb_true_iff in Hn; destruct Hn as [Hx _]; rewrite Hx; reflexivity|].
        destruct (is_kw (a, b, tok, err) s_else); [destruct (r_stack r); [reflexivity|]; apply andb_true_iff in Hn; destruct Hn as [Hx _]; rewrite Hx; reflexivity|].
        destruct (is_kw (a, b, tok, err) s_endif); reflexivity. }
      pose proof (step_related o inc p r st Hrel Hout H1) as Hs. rewrite Hstep in Hs. rewrite Hs. reflexivity.
Qed.

(* ---- Parse is the statement loop applied to the lexed lines *)
From Proofs Require Import InputrcSafe.

Fixpoint stmts_of (lines : list (list Z)) : list stmt :=
  match lines with
  | [] => []
  | raw :: rest =>
    let line := utf8_decode raw in
    let e := zlen line in
    let pos := find_non_space line 0 e in
    if pos =? e then stmts_of rest
    else
      let c := nthZ line pos in
      if (c =? 0) || (c =? 13) || (c =? 10) || (c =? 35) then stmts_of rest
      else match read_next line pos e with
           | Ok st => st :: stmts_of rest
           | _ => stmts_of rest
           end
  end.

Lemma parse_lines_run : forall o inc lines tl p n errs,
  o_halt o = false -> inc_good inc -> good p ->
  exists p' errs' ret, parse_lines o inc lines tl p n errs = Ok (p', errs', ret) /\
                       run_stmts o inc (stmts_of lines) p = Ok p'.
Proof.
  intros o inc lines. induction lines as [|raw rest IH]; intros tl p n errs Hh Hinc G; cbn [parse_lines stmts_of run_stmts].
  - destruct tl; do 3 eexists; split; reflexivity.
  - set (line := utf8_decode raw).
    pose proof (fns_range (S (length line)) line 0 (zlen line) (zlen_nonneg _ line)) as Hr.
    pose proof (fns_exit (S (length line)) line 0 (zlen line)) as Hx.
    fold (find_non_space line 0 (zlen line)) in Hr, Hx.
    set (pos := find_non_space line 0 (zlen line)) in *.
    destruct (pos =? zlen line) eqn:Epos; [apply IH; assumption|].
    rewrite idx_ok by lia. cbn [bind].
    destruct ((nthZ line pos =? 0) || (nthZ line pos =? 13) || (nthZ line pos =? 10) || (nthZ line pos =? 35));
      [apply IH; assumption|].
    assert (Hsp : is_space (nthZ line pos) = false).
    { cbv zeta in Hx. unfold zlen in Hx at 1 2. specialize (Hx ltac:(lia)).
      destruct (pos <? zlen line) eqn:L; [|lia]. cbn in Hx. exact Hx. }
    destruct (read_next_ok line pos ltac:(lia) Hsp) as [st Hst].
    destruct (next_stmt_ok o inc p line pos Hinc G ltac:(lia) Hsp) as (p' & e & Hn & G').
    rewrite Hn. unfold next_stmt in Hn. rewrite Hst in *. cbn [bind] in Hn.
    cbn [run_stmts]. rewrite Hn. cbn [bind fst]. rewrite Hh.
    destruct (e =? E_none); apply IH; assumption.
Qed.
