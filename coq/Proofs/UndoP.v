(* C07: the undo log. Theorems on the text projection (Model/UndoLog.v) and the proof
   that Editor.v's Save/Undo/Redo project onto it. *)
From Coq Require Import String.
From Model Require Import Base Uni Utf8 Notation Inputrc HistFile Editor UndoLog.
From Proofs Require Import EditorP.
From Coq Require Import ZifyBool.
Open Scope Z_scope.

(* ---------------------------------------------------------------- (a) undo shows earlier states *)

Definition inv (shown : list (list Z)) (st : list Z * ulog) : Prop :=
  In (fst st) shown /\ (forall it, In it (ul_items (snd st)) -> In it shown) /\ 0 <= ul_pos (snd st).

Lemma In_firstn_sub : forall (A : Type) (n : nat) (l : list A) (x : A), In x (firstn n l) -> In x l.
Proof.
  induction n as [|n IH]; intros l x H; [destruct H|]. destruct l as [|y l]; [destruct H|].
  cbn in H. destruct H as [H|H]; [left; exact H | right; apply IH; exact H].
Qed.

Lemma zlen_nonneg_l : forall (l : list (list Z)), 0 <= zlen l.
Proof. intros. unfold zlen. lia. Qed.

Lemma reset_items : forall l, ul_items (ul_reset l) = ul_items l.
Proof. reflexivity. Qed.

Lemma save_items_sub : forall cur l it, In it (ul_items (ul_save cur l)) -> it = cur \/ In it (ul_items l).
Proof.
  intros cur l it H. unfold ul_save in H.
  destruct (ul_skip l); [right; exact H|].
  destruct (rev (ul_items l)) as [|last r].
  - cbn in H. destruct H as [H|[]]. left. symmetry. exact H.
  - destruct (eqlZ last cur); [right; exact H|].
    cbn [ul_reset ul_items] in H. apply in_app_or in H. destruct H as [H|H].
    + right. eapply In_firstn_sub. exact H.
    + cbn in H. destruct H as [H|[]]. left. symmetry. exact H.
Qed.

Lemma undo_go_out : forall f items pos cur pos' it, 0 <= pos -> ul_undo_go f items pos cur = (pos', Some it) -> In it items.
Proof.
  induction f as [|f IH]; intros items pos cur pos' it Hp H; cbn [ul_undo_go] in H; [discriminate|].
  destruct (zlen items <? pos + 1) eqn:E; [discriminate|].
  destruct (eqlZ (nth (Z.to_nat (zlen items - (pos + 1))) items []) cur) eqn:Q.
  - eapply IH; [|exact H]. lia.
  - inversion H; subst. apply nth_In. unfold zlen in *. lia.
Qed.

Lemma undo_go_pos : forall f items pos cur, 0 <= pos -> 0 <= fst (ul_undo_go f items pos cur).
Proof.
  induction f as [|f IH]; intros items pos cur Hp; cbn [ul_undo_go]; [exact Hp|].
  destruct (zlen items <? pos + 1); [cbn; unfold zlen; lia|].
  destruct (eqlZ _ cur); [apply IH; lia | cbn; lia].
Qed.

(* Undo returns the current text or a text from the log; it does not touch the items *)
Lemma undo_out : forall cur l, 0 <= ul_pos l ->
  (fst (ul_undo cur l) = cur \/ In (fst (ul_undo cur l)) (ul_items l))
  /\ ul_items (snd (ul_undo cur l)) = ul_items l /\ 0 <= ul_pos (snd (ul_undo cur l)).
Proof.
  intros cur l Hp. unfold ul_undo. destruct (ul_items l) as [|i0 items] eqn:E; [split; [left|split]; [reflexivity | reflexivity | exact Hp]|].
  pose proof (undo_go_pos (S (length (i0 :: items))) (i0 :: items) (ul_pos l) cur Hp) as Gp.
  destruct (ul_undo_go (S (length (i0 :: items))) (i0 :: items) (ul_pos l) cur) as [pos it] eqn:G.
  cbn [fst snd ul_items ul_pos] in *. split; [|split; [reflexivity | exact Gp]].
  destruct it as [t|]; [right; eapply undo_go_out; [exact Hp | exact G] | left; reflexivity].
Qed.

Lemma redo_out : forall cur l, 0 <= ul_pos l ->
  (fst (ul_redo cur l) = cur \/ In (fst (ul_redo cur l)) (ul_items l))
  /\ ul_items (snd (ul_redo cur l)) = ul_items l /\ 0 <= ul_pos (snd (ul_redo cur l)).
Proof.
  intros cur l Hp. unfold ul_redo. destruct (ul_items l) as [|i0 items] eqn:E; [split; [left|split]; [reflexivity | reflexivity | exact Hp]|].
  destruct (ul_pos l - 1 <? 1) eqn:P; cbn [fst snd ul_items ul_pos].
  - split; [left; reflexivity|]. split; [reflexivity|]. destruct (ul_pos l - 1 <? 0) eqn:Q; lia.
  - split; [|split; [reflexivity | lia]]. right. apply nth_In. unfold zlen. cbn [length] in *. lia.
Qed.

Lemma save_pos_nonneg : forall cur l, 0 <= ul_pos l -> 0 <= ul_pos (ul_save cur l).
Proof.
  intros cur l H. unfold ul_save. destruct (ul_skip l); [unfold ul_reset; cbn; destruct (ul_undoing l); lia|].
  destruct (rev (ul_items l)).
  - unfold ul_reset. cbn. destruct (ul_undoing l); [|lia]. destruct (0 <? ul_pos l) eqn:Q; lia.
  - destruct (eqlZ l0 cur); unfold ul_reset; cbn; destruct (ul_undoing l); try lia.
    pose proof (zlen_nonneg_l (ul_items l)). destruct (zlen (ul_items l) <? ul_pos l) eqn:Q; lia.
Qed.

(* one step keeps every logged text among the texts shown so far, and what undo or
   redo shows was shown before *)
Lemma step_inv : forall shown st o, inv shown st ->
  inv (shown ++ [fst (ul_step st o)]) (ul_step st o) /\
  (match o with UEdit _ _ _ => True | _ => In (fst (ul_step st o)) shown end).
Proof.
  intros shown [cur l] o (Hc & Hi & Hp). cbn [fst snd] in *. destruct o as [pre t skp| |]; cbn [ul_step].
  - split; [|exact I].
    assert (S1 : forall it, In it (ul_items (if pre then ul_save cur l else l)) -> In it shown).
    { intros x Hx. destruct pre; [|apply Hi; exact Hx]. apply save_items_sub in Hx. destruct Hx as [Hx|Hx]; [subst; exact Hc | apply Hi; exact Hx]. }
    assert (P1 : 0 <= ul_pos (if pre then ul_save cur l else l)) by (destruct pre; [apply save_pos_nonneg; exact Hp | exact Hp]).
    split; [cbn [fst]; apply in_or_app; right; left; reflexivity|]. cbn [snd fst]. split.
    + intros it H. apply save_items_sub in H. apply in_or_app.
      destruct H as [H|H]; [right; left; symmetry; exact H|]. left. apply S1. destruct skp; exact H.
    + apply save_pos_nonneg. destruct skp; exact P1.
  - destruct (undo_out cur l Hp) as (Ho & Hit & Hpp). destruct (ul_undo cur l) as [t l'] eqn:U. cbn [fst snd] in *.
    assert (Ht : In t shown) by (destruct Ho as [Ho|Ho]; [subst; exact Hc | apply Hi; exact Ho]).
    split; [|exact Ht]. split; [apply in_or_app; right; left; reflexivity|]. split.
    + intros it H. apply save_items_sub in H. apply in_or_app. destruct H as [H|H]; [right; left; symmetry; exact H|].
      left. apply Hi. rewrite <- Hit. exact H.
    + apply save_pos_nonneg. exact Hpp.
  - destruct (redo_out cur l Hp) as (Ho & Hit & Hpp). destruct (ul_redo cur l) as [t l'] eqn:U. cbn [fst snd] in *.
    assert (Ht : In t shown) by (destruct Ho as [Ho|Ho]; [subst; exact Hc | apply Hi; exact Ho]).
    split; [|exact Ht]. split; [apply in_or_app; right; left; reflexivity|]. split.
    + intros it H. apply save_items_sub in H. apply in_or_app. destruct H as [H|H]; [right; left; symmetry; exact H|].
      left. apply Hi. rewrite <- Hit. exact H.
    + apply save_pos_nonneg. exact Hpp.
Qed.

Lemma inv_weaken : forall shown x st, inv shown st -> inv (shown ++ [x]) st.
Proof. intros shown x st (A & B & C). split; [apply in_or_app; left; exact A | split; [intros it H; apply in_or_app; left; apply B; exact H | exact C]]. Qed.

(* (a) over every sequence of commands: every text an undo (or redo) step shows is one
   of the texts shown at an earlier step *)
Theorem undo_shows_earlier : forall ops shown st pre o post,
  inv shown st -> ops = pre ++ o :: post -> (o = UUndo \/ o = URedo) ->
  In (fst (ul_step (ul_final st pre) o)) (shown ++ tl (ul_run st pre)).
Proof.
  intros ops shown st pre. revert ops shown st. induction pre as [|p pre IH]; intros ops shown st o post Hinv Hops Ho.
  - cbn [ul_final ul_run tl]. rewrite app_nil_r.
    destruct (step_inv shown st o Hinv) as [_ H]. destruct Ho; subst o; exact H.
  - cbn [ul_final ul_run tl].
    destruct (step_inv shown st p Hinv) as [Hinv' _].
    specialize (IH (pre ++ o :: post) (shown ++ [fst (ul_step st p)]) (ul_step st p) o post Hinv' eq_refl Ho).
    rewrite <- app_assoc in IH. cbn [app] in IH.
    destruct pre as [|q pre']; cbn [ul_run tl] in *; exact IH.
Qed.

(* ---------------------------------------------------------------- (d) a new edit discards the redo branch *)

Lemma save_undoing_false : forall cur l, ul_undoing (ul_save cur l) = false.
Proof.
  intros cur l. unfold ul_save. destruct (ul_skip l); [reflexivity|].
  destruct (rev (ul_items l)); [reflexivity|]. destruct (eqlZ l0 cur); reflexivity.
Qed.

Lemma step_undoing_false : forall st o, ul_undoing (snd (ul_step st o)) = false.
Proof.
  intros [cur l] o. destruct o; cbn [ul_step].
  - apply save_undoing_false.
  - destruct (ul_undo cur l). apply save_undoing_false.
  - destruct (ul_redo cur l). apply save_undoing_false.
Qed.

Lemma save_pos_zero : forall cur l, ul_undoing l = false -> ul_pos (ul_save cur l) = 0.
Proof.
  intros cur l H. unfold ul_save. destruct (ul_skip l); [unfold ul_reset; cbn; rewrite H; reflexivity|].
  destruct (rev (ul_items l)); [unfold ul_reset; cbn; rewrite H; reflexivity|].
  destruct (eqlZ l0 cur); unfold ul_reset; cbn; rewrite H; reflexivity.
Qed.

(* any edit (saved or not) right after undos: redo then changes nothing *)
Theorem edit_discards_redo : forall st pre t skp,
  ul_undoing (snd st) = false ->
  fst (ul_step (ul_step st (UEdit pre t skp)) URedo) = t.
Proof.
  intros [cur l] pre t skp H. cbn [snd] in H. cbn [ul_step].
  set (l1 := if pre then ul_save cur l else l).
  assert (U1 : ul_undoing l1 = false) by (unfold l1; destruct pre; [apply save_undoing_false | exact H]).
  set (l2 := if skp then ul_skip_save l1 else l1).
  assert (U2 : ul_undoing l2 = false) by (unfold l2; destruct skp; [exact U1 | exact U1]).
  pose proof (save_pos_zero t l2 U2) as P0.
  unfold ul_redo. destruct (ul_items (ul_save t l2)); [reflexivity|]. rewrite P0. reflexivity.
Qed.

(* ---------------------------------------------------------------- (b), (c): false of the code *)

Definition t_abc : list Z := [97; 98; 99].

(* "abc" typed (self-insert never saves), undo, redo: the text is gone *)
Lemma redo_does_not_restore_typed_text :
  fst (ul_final (ul_init []) [UEdit false t_abc true; UUndo; URedo]) = [] .
Proof. vm_compute. reflexivity. Qed.

(* abc, C-a, C-k, undo, undo, C-y, then any number of undos: the initial empty line is never reached *)
Lemma undo_never_reaches_initial :
  fst (ul_final (ul_init []) [UEdit false t_abc true; UEdit true [] false; UUndo; UUndo; UEdit false t_abc false;
                              UUndo; UUndo; UUndo; UUndo; UUndo]) = t_abc.
Proof. vm_compute. reflexivity. Qed.

(* ---------------------------------------------------------------- Editor.v projects onto UndoLog.v *)

Definition proj (e : ed) : ulog :=
  {| ul_items := map fst (u_items (cur_undo e)); ul_pos := u_pos (cur_undo e); ul_skip := uskip e; ul_undoing := undoing e |}.

Lemma lh_get_set : forall ls k u, lh_get (lh_set ls k u) k = u.
Proof.
  induction ls as [|[k' u'] ls IH]; intros k u; cbn [lh_set lh_get].
  - rewrite Z.eqb_refl. reflexivity.
  - destruct (k' =? k) eqn:E; cbn [lh_get]; [rewrite Z.eqb_refl; reflexivity | rewrite E; apply IH].
Qed.

Lemma cur_undo_put : forall e u, cur_undo (put_undo e u) = u.
Proof. intros e u. unfold cur_undo, put_undo, line_key. cbn. apply lh_get_set. Qed.

Lemma cur_undo_set_undo_flags : forall e sk un, cur_undo (set_undo e (lines e) sk un) = cur_undo e.
Proof. reflexivity. Qed.

Lemma proj_reset : forall e, proj (h_reset e) = ul_reset (proj e).
Proof.
  intros e. unfold h_reset, proj, ul_reset. cbn [ul_undoing ul_items ul_pos].
  destruct (undoing e) eqn:U.
  - reflexivity.
  - rewrite !cur_undo_set_undo_flags. rewrite !cur_undo_put. reflexivity.
Qed.

Lemma map_fst_rev_head : forall (items : list (list Z * Z)),
  rev (map fst items) = map fst (rev items).
Proof. intros. symmetry. apply map_rev. Qed.

Lemma h_reset_line : forall e, line (h_reset e) = line e.
Proof. intros e. apply (h_reset_core e). Qed.
Lemma h_reset_put_line : forall e u, line (h_reset (put_undo e u)) = line e.
Proof. intros e u. rewrite h_reset_line. reflexivity. Qed.

(* Save *)
Lemma proj_save : forall e,
  match h_save e with
  | Ok e' => proj e' = ul_save (line e) (proj e) /\ line e' = line e
  | _ => True
  end.
Proof.
  intros e. unfold h_save, ul_save. cbn [proj ul_skip ul_items].
  destruct (uskip e) eqn:Sk; [split; [apply proj_reset | apply h_reset_line]|].
  rewrite map_fst_rev_head.
  destruct (rev (u_items (cur_undo e))) as [|[l p] r] eqn:R; cbn [map fst].
  - destruct (c_check_command (c_set e (c_pos e))) as [cc| |]; cbn [bind]; auto.
    split; [|apply h_reset_put_line]. rewrite proj_reset. f_equal.
    unfold proj. rewrite cur_undo_put. cbn.
    assert (E : u_items (cur_undo e) = []) by (destruct (u_items (cur_undo e)) as [|x y]; [reflexivity | apply (f_equal (@length _)) in R; rewrite rev_length in R; discriminate]).
    rewrite E. cbn. rewrite Sk. reflexivity.
  - destruct (eqlZ l (line e)) eqn:Q.
    + split; [|apply h_reset_put_line]. rewrite proj_reset. f_equal. unfold proj. rewrite cur_undo_put. cbn.
      rewrite Sk. f_equal. rewrite <- (rev_involutive (u_items (cur_undo e))). rewrite R. cbn [rev].
      rewrite !map_app. cbn. reflexivity.
    + unfold zlen. rewrite map_length.
      destruct (0 <=? Z.of_nat (length (u_items (cur_undo e))) - _) eqn:G; cbn [bind]; auto.
      destruct (c_check_command (c_set e (c_pos e))) as [cc| |]; cbn [bind]; auto.
      split; [|apply h_reset_put_line]. rewrite proj_reset. f_equal. unfold proj. rewrite cur_undo_put. cbn.
      rewrite Sk. f_equal. rewrite map_app. cbn. f_equal. rewrite firstn_map. reflexivity.
Qed.

Lemma undo_go_proj : forall f items pos cur,
  match undo_go f items pos cur with
  | Ok (pos', it) => ul_undo_go f (map fst items) pos cur = (pos', option_map fst it)
  | _ => pos < 0
  end.
Proof.
  induction f as [|f IH]; intros items pos cur; cbn [undo_go ul_undo_go]; [reflexivity|].
  unfold zlen. rewrite map_length.
  destruct (Z.of_nat (length items) <? pos + 1) eqn:E; [reflexivity|].
  destruct ((Z.of_nat (length items) - (pos + 1) <? 0) || (Z.of_nat (length items) <=? Z.of_nat (length items) - (pos + 1))) eqn:B; [lia|].
  set (k := Z.to_nat (Z.of_nat (length items) - (pos + 1))).
  replace (nth k (map fst items) []) with (fst (nth k items ([], 0))) by (symmetry; apply (map_nth fst items ([], 0))).
  destruct (eqlZ (fst (nth k items ([], 0))) cur) eqn:Q; [|reflexivity].
  specialize (IH items (pos + 1) cur). destruct (undo_go f items (pos + 1) cur) as [[p' it']| |]; try exact IH; lia.
Qed.

Lemma proj_c_set_line : forall e l p, proj (c_set (set_line e l) p) = proj e.
Proof. reflexivity. Qed.

Lemma proj_undo : forall e, 0 <= u_pos (cur_undo e) ->
  match h_undo e with
  | Ok e' => (line e', proj e') = ul_undo (line e) (proj e)
  | _ => False
  end.
Proof.
  intros e Hp. unfold h_undo, ul_undo. cbn [proj ul_items ul_pos].
  rewrite cur_undo_set_undo_flags. change (line (set_undo e (lines e) true true)) with (line e).
  destruct (u_items (cur_undo e)) as [|i0 items] eqn:E; cbn [map].
  - unfold proj. rewrite cur_undo_set_undo_flags. rewrite E. reflexivity.
  - pose proof (undo_go_proj (S (length (i0 :: items))) (i0 :: items) (u_pos (cur_undo e)) (line e)) as G.
    cbn [map length] in G |- *. rewrite ?map_length.
    match goal with |- context[undo_go ?a ?b ?c ?d] => destruct (undo_go a b c d) as [[pos it]| |] end; try lia.
    cbn [bind]. rewrite G.
    destruct it as [[l p]|]; cbn [option_map fst].
    + rewrite proj_c_set_line. unfold proj. rewrite cur_undo_put. reflexivity.
    + unfold proj. rewrite cur_undo_put. reflexivity.
Qed.

Lemma proj_redo : forall e, 0 <= u_pos (cur_undo e) <= zlen (u_items (cur_undo e)) ->
  match h_redo e with
  | Ok e' => (line e', proj e') = ul_redo (line e) (proj e)
  | _ => False
  end.
Proof.
  intros e Hp. unfold h_redo, ul_redo. cbn [proj ul_items ul_pos].
  rewrite cur_undo_set_undo_flags.
  destruct (u_items (cur_undo e)) as [|i0 items] eqn:E; cbn [map]; unfold zlen in Hp; cbn [length] in Hp.
  - unfold proj. rewrite cur_undo_set_undo_flags. rewrite E. reflexivity.
  - destruct (u_pos (cur_undo e) - 1 <? 1) eqn:P.
    + unfold proj. rewrite cur_undo_put. reflexivity.
    + unfold zlen. cbn [length map]. rewrite map_length.
      destruct ((Z.of_nat (S (length items)) - (u_pos (cur_undo e) - 1) <? 0) || (Z.of_nat (S (length items)) <=? Z.of_nat (S (length items)) - (u_pos (cur_undo e) - 1))) eqn:B; [lia|].
      rewrite proj_c_set_line. unfold proj. rewrite cur_undo_put. cbn [line c_set c_check_append set_cpos set_cmark set_line].
      f_equal. set (k := Z.to_nat (Z.of_nat (S (length items)) - (u_pos (cur_undo e) - 1))).
      change (fst i0 :: map fst items) with (map fst (i0 :: items)).
      symmetry. apply (map_nth fst (i0 :: items) ([], 0)).
Qed.
