(* C12: the inputrc parser never panics and every loop exits by its own condition. *)
From Model Require Import Base Uni Utf8 Notation Inputrc.
From Coq Require Import ZifyBool.

Lemma zlen_nonneg : forall (A : Type) (l : list A), 0 <= zlen l.
Proof. intros. unfold zlen. lia. Qed.

Lemma idx_ok : forall s l i, 0 <= i < zlen l -> idx s l i = Ok (nthZ l i).
Proof. intros s l i H. unfold idx. replace ((0 <=? i) && (i <? zlen l)) with true by lia. reflexivity. Qed.

Lemma slice_ok : forall s l lo hi, 0 <= lo <= hi -> hi <= zlen l -> slice s l lo hi = Ok (sub l lo hi).
Proof. intros s l lo hi H1 H2. unfold slice. replace ((0 <=? lo) && (lo <=? hi) && (hi <=? zlen l)) with true by lia. reflexivity. Qed.

(* ---- ranges of the scanning loops: they never leave [i, e] *)

Lemma fns_range : forall f r i e, i <= e -> i <= find_non_space_go f r i e <= e.
Proof.
  induction f as [|f IH]; intros r i e H; cbn [find_non_space_go]; [lia|].
  destruct ((i <? e) && is_space (nthZ r i)) eqn:E; [|lia].
  assert (i < e) by lia. specialize (IH r (i + 1) e). lia.
Qed.

Lemma fend_range : forall f r i e c, i <= e -> i <= find_end_go f r i e c <= e.
Proof.
  induction f as [|f IH]; intros r i e c H; cbn [find_end_go]; [lia|].
  destruct ((i <? e) && sym_char c) eqn:E; [|lia].
  assert (i < e) by lia. specialize (IH r (i + 1) e (grab r (i + 1) e)). lia.
Qed.

Lemma dkend_range : forall f r i e c, i <= e -> i <= dk_end_go f r i e c <= e.
Proof.
  induction f as [|f IH]; intros r i e c H; cbn [dk_end_go]; [lia|].
  destruct ((i <? e) && key_char c) eqn:E; [|lia].
  assert (i < e) by lia. specialize (IH r (i + 1) e (grab r (i + 1) e)). lia.
Qed.

Lemma colon_range : forall f r i e, i <= e -> i <= seek_colon f r i e <= e.
Proof.
  induction f as [|f IH]; intros r i e H; cbn [seek_colon]; [lia|].
  destruct ((i <? e) && negb (nthZ r i =? 58)) eqn:E; [|lia].
  assert (i < e) by lia. specialize (IH r (i + 1) e). lia.
Qed.

Lemma fse_range : forall f seq pos e q p, fse_go f seq pos e q = (p, true) -> pos < p <= e.
Proof.
  induction f as [|f IH]; intros seq pos e q p H; cbn [fse_go] in H; [discriminate|].
  destruct (pos <? e) eqn:E; [|discriminate].
  destruct (nthZ seq pos =? bsl).
  - apply IH in H. lia.
  - destruct (nthZ seq pos =? q).
    + inversion H. lia.
    + apply IH in H. lia.
Qed.

(* ---- every loop exits by its own condition, not by running out of fuel *)

Lemma fns_exit : forall f r i e, 0 <= e - i < Z.of_nat f ->
  let p := find_non_space_go f r i e in (p <? e) && is_space (nthZ r p) = false.
Proof.
  induction f as [|f IH]; intros r i e H; cbn [find_non_space_go]; [lia|].
  destruct ((i <? e) && is_space (nthZ r i)) eqn:E; [|exact E].
  apply IH. lia.
Qed.

Lemma fns_fix : forall f r i e, (i <? e) && is_space (nthZ r i) = false -> find_non_space_go (S f) r i e = i.
Proof. intros f r i e H. cbn [find_non_space_go]. rewrite H. reflexivity. Qed.

Lemma fend_exit : forall f r i e c, 0 <= e - i < Z.of_nat f -> c = grab r i e ->
  let p := find_end_go f r i e c in (p <? e) && sym_char (grab r p e) = false.
Proof.
  induction f as [|f IH]; intros r i e c H Hc; cbn [find_end_go]; [lia|].
  destruct ((i <? e) && sym_char c) eqn:E; [|subst c; exact E].
  apply IH; [lia | reflexivity].
Qed.

Lemma dkend_exit : forall f r i e c, 0 <= e - i < Z.of_nat f -> c = grab r i e ->
  let p := dk_end_go f r i e c in (p <? e) && key_char (grab r p e) = false.
Proof.
  induction f as [|f IH]; intros r i e c H Hc; cbn [dk_end_go]; [lia|].
  destruct ((i <? e) && key_char c) eqn:E; [|subst c; exact E].
  apply IH; [lia | reflexivity].
Qed.

Lemma colon_exit : forall f r i e, 0 <= e - i < Z.of_nat f ->
  let p := seek_colon f r i e in (p <? e) && negb (nthZ r p =? 58) = false.
Proof.
  induction f as [|f IH]; intros r i e H; cbn [seek_colon]; [lia|].
  destruct ((i <? e) && negb (nthZ r i =? 58)) eqn:E; [|exact E].
  apply IH. lia.
Qed.

(* findStringEnd: with fuel for every remaining rune the loop ends at the closing
   quote or at (or one past) the end of the line *)
Lemma fse_exit : forall f seq pos e q, e - pos < Z.of_nat f -> pos <= e + 1 ->
  let r := fse_go f seq pos e q in snd r = true \/ e <= fst r.
Proof.
  induction f as [|f IH]; intros seq pos e q H H1; cbn [fse_go].
  - cbn. lia.
  - destruct (pos <? e) eqn:E; [|cbn; lia].
    destruct (nthZ seq pos =? bsl); [apply IH; lia|].
    destruct (nthZ seq pos =? q); [cbn; auto|]. apply IH; lia.
Qed.

Lemma fns_fix' : forall r i e, (i <? e) && is_space (nthZ r i) = false -> find_non_space r i e = i.
Proof. intros. unfold find_non_space. apply fns_fix. assumption. Qed.

(* ---- readSymbols, decodeKey, readNext never panic *)

Lemma read_symbols_ok : forall seq pos tok a, 0 <= pos <= zlen seq ->
  exists st, read_symbols seq pos (zlen seq) tok a = Ok st.
Proof.
  intros seq pos tok a Hpos. unfold read_symbols.
  set (e := zlen seq).
  pose proof (fns_range (S (length seq)) seq pos e ltac:(lia)) as H1. fold (find_non_space seq pos e) in H1.
  set (start := find_non_space seq pos e) in *.
  pose proof (fend_range (S (length seq)) seq start e (grab seq start e) ltac:(lia)) as H2.
  fold (find_end seq start e) in H2. set (pos1 := find_end seq start e) in *.
  rewrite slice_ok by (unfold e in *; lia). cbn [bind].
  pose proof (fns_range (S (length seq)) seq pos1 e ltac:(lia)) as H3. fold (find_non_space seq pos1 e) in H3.
  set (start2 := find_non_space seq pos1 e) in *.
  pose proof (fend_range (S (length seq)) seq start2 e (grab seq start2 e) ltac:(lia)) as H4.
  fold (find_end seq start2 e) in H4.
  destruct (a && is_quote (grab seq start2 e)) eqn:Q.
  - assert (Hlt : start2 < e).
    { apply andb_true_iff in Q. destruct Q as [_ Q]. unfold grab in Q.
      destruct (start2 <? e) eqn:L; [lia|]. cbn in Q. discriminate. }
    unfold find_string_end. rewrite idx_ok by (unfold e in *; lia). cbn [bind].
    destruct (fse_go (S (length seq)) seq (start2 + 1) e (nthZ seq start2)) as [p ok] eqn:F.
    cbn [snd fst]. destruct ok.
    + apply fse_range in F. cbn [negb orb].
      assert (a = true) by (destruct a; [reflexivity | discriminate]). subst a. cbn [negb orb].
      rewrite slice_ok by (unfold e in *; lia). cbn [bind]. eexists. reflexivity.
    + rewrite orb_true_r. rewrite slice_ok by (unfold e in *; lia). cbn [bind]. eexists. reflexivity.
  - cbn [bind negb]. rewrite orb_true_r. rewrite slice_ok by (unfold e in *; lia). cbn [bind]. eexists. reflexivity.
Qed.

Lemma decode_key_ok : forall seq pos, 0 <= pos <= zlen seq ->
  exists k p err, decode_key seq pos (zlen seq) = Ok (k, p, err) /\ pos <= p <= zlen seq.
Proof.
  intros seq pos Hpos. unfold decode_key.
  pose proof (dkend_range (S (length seq)) seq pos (zlen seq) (grab seq pos (zlen seq)) ltac:(lia)) as H1.
  set (p := dk_end_go (S (length seq)) seq pos (zlen seq) (grab seq pos (zlen seq))) in *.
  rewrite slice_ok by lia. cbn [bind].
  destruct (dk_mods _ _ false false) as [[[val meta] control]|].
  - destruct val as [|c0 val'].
    + do 3 eexists. split; [reflexivity | lia].
    + destruct (control && meta); [do 3 eexists; split; [reflexivity | lia]|].
      destruct control; [do 3 eexists; split; [reflexivity | lia]|].
      destruct meta; do 3 eexists; (split; [reflexivity | lia]).
  - do 3 eexists. split; [reflexivity | lia].
Qed.

(* the checks unescapeRunes relies on: its range lies inside the line *)
Lemma read_next_ok : forall seq pos, 0 <= pos < zlen seq -> is_space (nthZ seq pos) = false ->
  exists st, read_next seq pos (zlen seq) = Ok st.
Proof.
  intros seq pos Hpos Hsp. unfold read_next.
  set (e := zlen seq) in *.
  rewrite fns_fix' by (rewrite Hsp; apply andb_false_r).
  rewrite idx_ok by (unfold e in *; lia). cbn [bind].
  set (c0 := nthZ seq pos).
  destruct ((c0 =? 115) && (grab seq (pos + 1) e =? 101) && (grab seq (pos + 2) e =? 116)
            && is_space (grab seq (pos + 3) e)) eqn:ESet.
  { apply read_symbols_ok.
    assert (pos + 3 < e).
    { apply andb_true_iff in ESet. destruct ESet as [_ S3]. unfold grab in S3.
      destruct (pos + 3 <? e) eqn:L; [lia|]. vm_compute in S3. discriminate. }
    unfold e in *. lia. }
  destruct (c0 =? 36) eqn:EDollar.
  { apply read_symbols_ok. unfold e in *. lia. }
  (* key sequence *)
  cbv zeta.
  assert (Hkey : exists k p err,
    (if is_quote c0
     then do r <- find_string_end 122 seq pos e;
          if negb (snd r) then do _ <- slice 123 seq pos e; Ok ([], fst r, E_bind_quote)
          else Ok (unescape_range seq (pos + 1) (fst r - 1), fst r, E_none)
     else decode_key seq pos e) = Ok (k, p, err) /\ (err = E_none -> pos <= p <= e)).
  { destruct (is_quote c0).
    - unfold find_string_end. rewrite idx_ok by (unfold e in *; lia). cbn [bind].
      destruct (fse_go (S (length seq)) seq (pos + 1) e (nthZ seq pos)) as [p ok] eqn:F. cbn [snd fst].
      destruct ok; cbn [negb].
      + apply fse_range in F. do 3 eexists. split; [reflexivity|]. intros _. lia.
      + rewrite slice_ok by (unfold e in *; lia). cbn [bind]. do 3 eexists. split; [reflexivity|].
        intros H. discriminate H.
    - destruct (decode_key_ok seq pos ltac:(unfold e in *; lia)) as (k & p & err & Hd & Hr).
      fold e in Hd. rewrite Hd. do 3 eexists. split; [reflexivity|]. intros _. fold e in Hr. lia. }
  destruct Hkey as (k & p & err & Hk & Hr). rewrite Hk. cbn [bind].
  destruct (err =? E_none) eqn:Eerr; cbn [negb]; [|eexists; reflexivity].
  assert (err = E_none) by lia. specialize (Hr H). clear H.
  pose proof (colon_range (S (length seq)) seq p e ltac:(lia)) as Hc.
  set (pc := seek_colon (S (length seq)) seq p e) in *.
  destruct (pc =? e) eqn:Epc; cbn [bind negb].
  { eexists. reflexivity. }
  rewrite idx_ok by (unfold e in *; lia). cbn [bind].
  destruct (nthZ seq pc =? 58) eqn:Ecol; cbn [negb]; [|eexists; reflexivity].
  pose proof (fns_range (S (length seq)) seq (pc + 1) e ltac:(lia)) as Hn.
  fold (find_non_space seq (pc + 1) e) in Hn. set (pn := find_non_space seq (pc + 1) e) in *.
  destruct (pn =? e) eqn:Epn; cbn [bind].
  { eexists. reflexivity. }
  rewrite idx_ok by (unfold e in *; lia). cbn [bind].
  destruct (nthZ seq pn =? 35); [eexists; reflexivity|].
  rewrite idx_ok by (unfold e in *; lia). cbn [bind].
  destruct (is_quote (nthZ seq pn)).
  - unfold find_string_end. rewrite idx_ok by (unfold e in *; lia). cbn [bind].
    destruct (fse_go (S (length seq)) seq (pn + 1) e (nthZ seq pn)) as [q ok] eqn:F. cbn [snd fst].
    destruct ok; cbn [negb]; [eexists; reflexivity|].
    rewrite slice_ok by (unfold e in *; lia). cbn [bind]. eexists. reflexivity.
  - pose proof (fend_range (S (length seq)) seq pn e (grab seq pn e) ltac:(lia)) as He.
    fold (find_end seq pn e) in He.
    rewrite slice_ok by (unfold e in *; lia). cbn [bind]. eexists. reflexivity.
Qed.

(* ---- directives: the invariant that excludes the remaining panic sites *)

Definition typed (vs : vars) : Prop := Forall (fun kv => snd kv <> VOther) vs.
Definition cfg_typed (c : config) : Prop := typed (c_vars c).
Definition good (p : pstate) : Prop := p_conds p <> [] /\ cfg_typed (p_cfg p).

Lemma get_var_typed : forall vs n, typed vs -> get_var vs n <> Some VOther.
Proof.
  induction vs as [|[k w] vs IH]; intros n H; cbn [get_var]; [discriminate|].
  inversion H as [|? ? Hw Hr]; subst. destruct (eqlZ k n).
  - intros E. inversion E. subst. apply Hw. reflexivity.
  - apply IH. exact Hr.
Qed.

Lemma set_var_typed : forall vs n v, typed vs -> v <> VOther -> typed (set_var vs n v).
Proof.
  induction vs as [|[k w] vs IH]; intros n v H Hv; cbn [set_var].
  - constructor; [exact Hv | constructor].
  - inversion H as [|? ? Hw Hr]; subst. destruct (eqlZ k n); constructor; auto.
    apply IH; assumption.
Qed.

Lemma cfg_set_typed : forall c n v, cfg_typed c -> v <> VOther -> cfg_typed (cfg_set c n v).
Proof. intros. unfold cfg_typed, cfg_set. cbn. apply set_var_typed; assumption. Qed.

Lemma top_ok : forall p, good p -> exists b, top p = Ok b.
Proof. intros p [H _]. unfold top. destruct (p_conds p); [contradiction | eexists; reflexivity]. Qed.

Definition step_good (r : res (pstate * Z)) : Prop := exists p' e, r = Ok (p', e) /\ good p'.

Lemma do_bind_ok : forall p sq act m, good p -> step_good (do_bind p sq act m).
Proof.
  intros p sq act m G. unfold do_bind. destruct (top_ok p G) as [b Hb]. rewrite Hb. cbn [bind].
  destruct b; cbn [negb]; do 2 eexists; (split; [reflexivity|]); [|exact G].
  destruct G as [G1 G2]. split; assumption.
Qed.

Ltac good_set G := destruct G as [G1 G2]; split; [exact G1 | apply cfg_set_typed; [exact G2 | discriminate]].

Lemma do_set_ok : forall o p name value, good p -> step_good (do_set o p name value).
Proof.
  intros o p name value G. unfold do_set. destruct (top_ok p G) as [b Hb]. rewrite Hb. cbn [bind].
  destruct b; cbn [negb]; [|do 2 eexists; split; [reflexivity | exact G]].
  destruct (eqlZ name s_keymap).
  { destruct (o_strict o && negb (nm value strict_keymaps)); do 2 eexists; (split; [reflexivity|]); [exact G|].
    destruct G as [G1 G2]. split; assumption. }
  destruct (eqlZ name s_editing_mode).
  { destruct (nm value [s_emacs; s_vi]); do 2 eexists; (split; [reflexivity|]); [good_set G | exact G]. }
  pose proof (get_var_typed (c_vars (p_cfg p)) name (proj2 G)) as Hty.
  destruct (get_var (c_vars (p_cfg p)) name) as [[b|z|s|]|].
  - do 2 eexists; split; [reflexivity | good_set G].
  - destruct (atoi value); do 2 eexists; (split; [reflexivity|]); [good_set G | exact G].
  - do 2 eexists; split; [reflexivity | good_set G].
  - exfalso. apply Hty. reflexivity.
  - destruct (atoi value); [do 2 eexists; split; [reflexivity | good_set G]|].
    destruct (eqlZ (lower value) s_off); [do 2 eexists; split; [reflexivity | good_set G]|].
    destruct (eqlZ (lower value) s_on); do 2 eexists; (split; [reflexivity | good_set G]).
Qed.

Definition inc_good (inc : config -> list Z -> res (config * Z)) : Prop :=
  forall c name, cfg_typed c -> exists c' e, inc c name = Ok (c', e) /\ cfg_typed c'.

Lemma do_construct_ok : forall o inc p kw val, inc_good inc -> good p -> step_good (do_construct o inc p kw val).
Proof.
  intros o inc p kw val Hinc G. unfold do_construct.
  destruct (eqlZ kw s_if).
  { do 2 eexists; split; [reflexivity|]. destruct G as [G1 G2]. split; [cbn; discriminate | exact G2]. }
  destruct (eqlZ kw s_else).
  { destruct G as [G1 G2]. destruct (p_conds p) as [|c [|c' r]] eqn:E; [contradiction| |].
    - do 2 eexists; split; [reflexivity|]. split; [rewrite E; discriminate | exact G2].
    - do 2 eexists; split; [reflexivity|]. split; [cbn; discriminate | exact G2]. }
  destruct (eqlZ kw s_endif).
  { destruct G as [G1 G2]. destruct (p_conds p) as [|c [|c' r]] eqn:E; [contradiction| |].
    - do 2 eexists; split; [reflexivity|]. split; [rewrite E; discriminate | exact G2].
    - do 2 eexists; split; [reflexivity|]. split; [cbn; discriminate | exact G2]. }
  destruct (top_ok p G) as [b Hb]. rewrite Hb. cbn [bind].
  destruct (eqlZ kw s_include).
  { destruct b; cbn [negb]; [|do 2 eexists; split; [reflexivity | exact G]].
    destruct (Hinc (p_cfg p) val (proj2 G)) as (c' & e & Hi & Hc'). rewrite Hi. cbn [bind fst snd].
    do 2 eexists; split; [reflexivity|]. destruct G as [G1 G2]. split; [exact G1 | exact Hc']. }
  do 2 eexists; split; [reflexivity | exact G].
Qed.

Lemma next_stmt_ok : forall o inc p seq pos, inc_good inc -> good p ->
  0 <= pos < zlen seq -> is_space (nthZ seq pos) = false ->
  step_good (next_stmt o inc p seq pos (zlen seq)).
Proof.
  intros o inc p seq pos Hinc G Hpos Hsp. unfold next_stmt.
  destruct (read_next_ok seq pos Hpos Hsp) as [[[[a b] tok] err] Hr]. rewrite Hr. cbn [bind]. unfold exec_stmt.
  destruct (negb (err =? E_none)); [do 2 eexists; split; [reflexivity | exact G]|].
  destruct (tok =? T_bind); [apply do_bind_ok; exact G|].
  destruct (tok =? T_macro); [apply do_bind_ok; exact G|].
  destruct (tok =? T_set); [apply do_set_ok; exact G|].
  destruct (tok =? T_construct); [apply do_construct_ok; assumption|].
  do 2 eexists; split; [reflexivity | exact G].
Qed.

Lemma parse_lines_ok : forall o inc lines tl p n errs, inc_good inc -> good p ->
  exists p' errs' ret, parse_lines o inc lines tl p n errs = Ok (p', errs', ret) /\ good p'.
Proof.
  intros o inc lines. induction lines as [|raw rest IH]; intros tl p n errs Hinc G; cbn [parse_lines].
  - destruct tl; do 3 eexists; (split; [reflexivity | exact G]).
  - set (line := utf8_decode raw).
    pose proof (fns_range (S (length line)) line 0 (zlen line) (zlen_nonneg _ line)) as Hr.
    pose proof (fns_exit (S (length line)) line 0 (zlen line)) as Hx.
    fold (find_non_space line 0 (zlen line)) in Hr, Hx.
    set (pos := find_non_space line 0 (zlen line)) in *.
    destruct (pos =? zlen line) eqn:Epos; [apply IH; assumption|].
    rewrite idx_ok by lia. cbn [bind].
    destruct ((nthZ line pos =? 0) || (nthZ line pos =? 13) || (nthZ line pos =? 10) || (nthZ line pos =? 35));
      [apply IH; assumption|].
    assert (Hsp : is_space (nthZ line pos) = false).
    { cbv zeta in Hx. unfold zlen in Hx at 1 2. specialize (Hx ltac:(lia)).
      destruct (pos <? zlen line) eqn:L; [|lia]. cbn in Hx. exact Hx. }
    destruct (next_stmt_ok o inc p line pos Hinc G ltac:(lia) Hsp) as (p' & e & Hn & G').
    rewrite Hn. cbn [bind].
    destruct (e =? E_none); [apply IH; assumption|].
    destruct (o_halt o); [do 3 eexists; split; [reflexivity | exact G']|].
    apply IH; assumption.
Qed.

Theorem parse_at_ok : forall d fs o c src, cfg_typed c ->
  exists c' errs ret, parse_at d fs o c src = Ok (c', errs, ret) /\ cfg_typed c'.
Proof.
  induction d as [|d IH]; intros fs o c src Hc; cbn [parse_at].
  - destruct (scan_lines (S (length src)) src) as [lines tl].
    match goal with |- context[parse_lines o ?inc lines tl ?p0 1 []] =>
      destruct (parse_lines_ok o inc lines tl p0 1 []) as (p' & errs & ret & Hp & G) end.
    + intros c0 name H0. do 2 eexists. split; [reflexivity | exact H0].
    + split; [cbn; discriminate | exact Hc].
    + rewrite Hp. cbn [bind]. do 3 eexists. split; [reflexivity | exact (proj2 G)].
  - destruct (scan_lines (S (length src)) src) as [lines tl].
    match goal with |- context[parse_lines o ?inc lines tl ?p0 1 []] =>
      destruct (parse_lines_ok o inc lines tl p0 1 []) as (p' & errs & ret & Hp & G) end.
    + intros c0 name H0. destruct (read_file fs name) as [bs| |].
      * match goal with |- context[parse_at d fs ?o' c0 bs] =>
          destruct (IH fs o' c0 bs H0) as (c1 & e1 & r1 & H1 & T1) end.
        rewrite H1. cbn [bind fst snd]. do 2 eexists. split; [reflexivity | exact T1].
      * do 2 eexists. split; [reflexivity | exact H0].
      * do 2 eexists. split; [reflexivity | exact H0].
    + split; [cbn; discriminate | exact Hc].
    + rewrite Hp. cbn [bind]. do 3 eexists. split; [reflexivity | exact (proj2 G)].
Qed.

Theorem parse_never_panics : forall fs o c src, cfg_typed c ->
  exists c' errs ret, parse fs o c src = Ok (c', errs, ret).
Proof.
  intros fs o c src Hc. unfold parse.
  destruct (parse_at_ok max_include_depth fs o c src Hc) as (c' & errs & ret & H & _).
  do 3 eexists. exact H.
Qed.

(* scan_lines consumes all of its input within its fuel: either every byte was
   delivered as a line, or it stopped at a line of 64 KiB or more *)
Lemma span_nl_len : forall bs l rest found, span_nl bs = (l, rest, found) ->
  (length rest <= length bs)%nat /\ (found = true -> length rest < length bs)%nat /\ (found = false -> rest = []).
Proof.
  induction bs as [|b r IH]; intros l rest found H; cbn [span_nl] in H.
  - inversion H. subst. cbn. repeat split; auto; intros; discriminate.
  - destruct (b =? 10).
    + inversion H. subst. cbn. repeat split; auto; intros; discriminate.
    + destruct (span_nl r) as [[l' rest'] found'] eqn:E. inversion H. subst.
      destruct (IH l' rest found eq_refl) as (H1 & H2 & H3). cbn. repeat split; auto.
      intros Hf. specialize (H2 Hf). lia.
Qed.

Fixpoint scan_consumed (fuel : nat) (bs : list Z) : bool :=
  match fuel with
  | O => match bs with [] => true | _ => false end
  | S f =>
    match bs with
    | [] => true
    | _ => let '(l, rest, found) := span_nl bs in
           if max_token <=? zlen l then true else if found then scan_consumed f rest else true
    end
  end.

Lemma scan_lines_fuel : forall f bs, (length bs <= f)%nat -> scan_consumed f bs = true.
Proof.
  induction f as [|f IH]; intros bs H.
  - destruct bs; [reflexivity | cbn in H; lia].
  - cbn [scan_consumed]. destruct bs as [|b r]; [reflexivity|].
    destruct (span_nl (b :: r)) as [[l rest] found] eqn:E.
    destruct (max_token <=? zlen l); [reflexivity|].
    destruct found; [|reflexivity].
    apply IH. destruct (span_nl_len _ _ _ _ E) as (_ & H2 & _). specialize (H2 eq_refl). lia.
Qed.
