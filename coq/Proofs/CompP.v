(* C14: inserting a candidate only rewrites the word before the cursor. *)
From Model Require Import Base Uni Utf8 HistFile Editor CompInsert.
From Proofs Require Import EditorP.
From Coq Require Import ZifyBool.
Open Scope Z_scope.

Lemma firstn_app_exact : forall (A : Type) (a b : list A), firstn (length a) (a ++ b) = a.
Proof. intros. rewrite firstn_app, Nat.sub_diag, firstn_all. cbn. apply app_nil_r. Qed.

Lemma skipn_app_exact' : forall (A : Type) (a b : list A), skipn (length a) (a ++ b) = b.
Proof. intros. rewrite skipn_app, Nat.sub_diag, skipn_all. reflexivity. Qed.

Lemma mk_ed_line : forall l c, line (mk_ed l c) = l. Proof. reflexivity. Qed.
Lemma mk_ed_cpos : forall l c, cpos (mk_ed l c) = c. Proof. reflexivity. Qed.

(* the line is before ++ p ++ after with the cursor right after p: removing p and
   inserting v there gives before ++ v ++ after, cursor right after v *)
Theorem replace_prefix_local : forall before p after v,
  strip_zeros v = v ->
  replace_prefix (before ++ p ++ after) (zlen (before ++ p)) p v = (before ++ v ++ after, zlen before + zlen v).
Proof.
  intros before p after v Hv. unfold replace_prefix.
  set (l := before ++ p ++ after).
  assert (Ll : zlen l = zlen before + zlen p + zlen after) by (unfold l; rewrite !zlen_app; lia).
  pose proof (zlen_ge0 _ before) as Hb. pose proof (zlen_ge0 _ p) as Hp. pose proof (zlen_ge0 _ after) as Ha.
  set (e0 := mk_ed l (zlen (before ++ p))).
  set (e1 := c_move e0 (- zlen p)).
  assert (L1 : line e1 = l) by (unfold e1, c_move; rewrite c_check_append_line; reflexivity).
  assert (C1 : cpos e1 = zlen before).
  { unfold e1, c_move. rewrite c_check_append_cpos_in.
    - cbn [cpos set_cpos]. unfold e0. rewrite mk_ed_cpos. rewrite zlen_app. lia.
    - cbn [cpos set_cpos]. unfold e0. rewrite mk_ed_cpos. rewrite zlen_app.
      replace (llen (set_cpos (mk_ed l (zlen before + zlen p)) (zlen before + zlen p + - zlen p))) with (zlen l) by reflexivity. lia. }
  assert (P1 : c_pos e1 = zlen before).
  { unfold c_pos. rewrite c_check_append_cpos_in; [exact C1|]. unfold llen. rewrite L1, C1. lia. }
  rewrite P1.
  set (e2 := set_line e1 (l_cut (line e1) (zlen before) (zlen before + zlen p))).
  assert (L2 : line e2 = before ++ after).
  { unfold e2. cbn [line set_line]. rewrite L1. rewrite l_cut_spec by lia.
    unfold l. unfold zlen at 1. rewrite Nat2Z.id. rewrite firstn_app_exact.
    replace (Z.to_nat (zlen before + zlen p)) with (length (before ++ p)) by (rewrite app_length; unfold zlen; lia).
    rewrite app_assoc. rewrite skipn_app_exact'. reflexivity. }
  assert (C2 : cpos e2 = zlen before) by exact C1.
  unfold c_insert_at. cbn [line cpos set_cpos set_line].
  rewrite c_check_append_line. rewrite c_check_append_cpos_in by (unfold llen; rewrite L2, C2, zlen_app; lia).
  rewrite L2, C2. f_equal.
  unfold l_insert. rewrite Hv.
  replace ((zlen before <? 0) || (zlen (before ++ after) <? zlen before)) with false by (rewrite zlen_app; lia).
  unfold zlen at 1 2. rewrite !Nat2Z.id. rewrite firstn_app_exact, skipn_app_exact'. reflexivity.
Qed.

(* insertCandidate: a candidate at least as long as the prefix (in bytes) *)
Theorem insert_candidate_local : forall before p after v,
  strip_zeros v = v -> blen p <= blen v ->
  insert_candidate (before ++ p ++ after) (zlen (before ++ p)) p v = (before ++ v ++ after, zlen before + zlen v).
Proof.
  intros before p after v Hv Hl. unfold insert_candidate. replace (blen v <? blen p) with false by lia.
  apply replace_prefix_local. exact Hv.
Qed.

(* a shorter candidate is not inserted: the completed line is the line *)
Theorem insert_candidate_short : forall l c p v, blen v < blen p -> insert_candidate l c p v = (l, c).
Proof. intros l c p v H. unfold insert_candidate. replace (blen v <? blen p) with true by lia. reflexivity. Qed.

(* acceptCandidate (unique match): the same replacement, in the real line *)
Theorem accept_candidate_local : forall before p after v,
  strip_zeros v = v -> blen p <= blen v ->
  accept_candidate (before ++ p ++ after) (zlen (before ++ p)) p v = Ok (before ++ v ++ after, zlen before + zlen v).
Proof.
  intros before p after v Hv Hl. unfold accept_candidate.
  replace ((0 <? blen v) && (blen v <? blen p)) with false by lia.
  rewrite replace_prefix_local by exact Hv. reflexivity.
Qed.

(* C-c on the menu: whatever was inserted, the buffer and cursor are the ones completion started from *)
Theorem cancel_restores : forall l c p v, cancel_completed l c (insert_candidate l c p v) = (l, c).
Proof. reflexivity. Qed.
