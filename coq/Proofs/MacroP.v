(* C18: what the macro recorder stores and replays. *)
From Model Require Import Base Uni Notation Utf8 Macro.
From Proofs Require Import NotationP.
From Coq Require Import ZifyBool.
Open Scope Z_scope.

(* the caller keys a command sees: the bytes matched, decoded (Keys.matched) *)
Definition norm (k : list Z) : list Z := utf8_decode (utf8_encode k).

(* what m_cur will be after the next RecordKeys *)
Definition eff (s : mstate) : list Z := if m_started s then m_cur s else m_cur s ++ m_matched s.

Definition recording (s : mstate) : Prop := m_rec s = true /\ m_wait s = false /\ m_matched s <> [].

Lemma matched_by_norm : forall s k, norm k <> [] -> m_matched (matched_by s k) = norm k.
Proof.
  intros s k H. unfold matched_by. cbn [m_matched]. destruct k; [exfalso; apply H; reflexivity | reflexivity].
Qed.

Lemma step_keys : forall s k, recording s -> norm k <> [] ->
  let s' := mstep s (MKeys k) in
  recording s' /\ m_started s' = false /\ eff s' = eff s ++ norm k /\ m_macros s' = m_macros s /\ m_fed s' = m_fed s.
Proof.
  intros s k (R & W & M) Hk. cbv zeta. unfold mstep.
  assert (L : loop_top s = {| m_rec := true; m_started := false; m_cur := eff s; m_macros := m_macros s;
                              m_matched := []; m_wait := false; m_fed := m_fed s |}).
  { unfold loop_top. rewrite W, R. destruct (m_matched s) as [|a r] eqn:E; [contradiction|].
    cbn [m_rec m_started m_cur m_macros m_wait m_fed]. unfold eff. rewrite E. reflexivity. }
  rewrite L. unfold recording, eff.
  rewrite (matched_by_norm _ k Hk). unfold matched_by.
  cbn [m_rec m_wait m_started m_cur m_macros m_fed m_matched].
  repeat split; try reflexivity. exact Hk.
Qed.

Lemma fold_keys : forall kss s, recording s -> Forall (fun k => norm k <> []) kss ->
  let s' := fold_left mstep (map MKeys kss) s in
  recording s' /\ eff s' = eff s ++ concat (map norm kss) /\ m_macros s' = m_macros s /\ m_fed s' = m_fed s /\
  (kss <> [] -> m_started s' = false).
Proof.
  induction kss as [|k kss IH]; intros s Hr Hk; cbv zeta; cbn [map fold_left concat].
  - rewrite app_nil_r. repeat split; try reflexivity; try apply Hr. intros H; contradiction.
  - inversion Hk as [|? ? Hk1 Hk2]; subst.
    destruct (step_keys s k Hr Hk1) as (R1 & S1 & E1 & M1 & F1).
    destruct (IH (mstep s (MKeys k)) R1 Hk2) as (R2 & E2 & M2 & F2 & S2).
    split; [exact R2|]. split; [rewrite E2, E1, <- app_assoc; reflexivity|].
    split; [congruence|]. split; [congruence|]. intros _.
    destruct kss as [|k2 kss]; [exact S1 | apply S2; discriminate].
Qed.

Lemma massoc_last : forall key text ms, massoc 0 (mset 0 text (mset key text ms)) = Some text.
Proof. intros. reflexivity. Qed.

Lemma massoc_named : forall key text ms, massoc key (mset 0 text (mset key text ms)) = Some text.
Proof.
  intros key text ms. unfold mset. cbn [massoc fst].
  destruct (key =? 0) eqn:E; [reflexivity|].
  cbn [filter fst]. replace (key =? 0) with false by lia. cbn [negb massoc]. rewrite Z.eqb_refl. reflexivity.
Qed.

Lemma stop_record_ne : forall s key, m_cur s <> [] ->
  stop_record s key =
  {| m_rec := false; m_started := m_started s; m_cur := [];
     m_macros := mset 0 (escape true (m_cur s)) (mset key (escape true (m_cur s)) (m_macros s));
     m_matched := m_matched s; m_wait := m_wait s; m_fed := m_fed s |}.
Proof. intros s key H. unfold stop_record. destruct (m_cur s); [contradiction | reflexivity]. Qed.

Lemma feed_ne : forall l (s : mstate), l <> [] ->
  match l with [] => s | z :: l0 => feed_keys s (z :: l0) end = feed_keys s l.
Proof. intros l s H. destruct l; [contradiction | reflexivity]. Qed.

(* Record K (the caller keys of the commands run between start and stop), then replay:
   exactly those keys are fed back, in order.  `named` = Vi style (register `key`, run by
   name), otherwise Emacs style (call-last). *)
Theorem replay_feeds_recorded_keys : forall (named : bool) key sk ek ck kss s0,
  m_rec s0 = false -> m_cur s0 = [] ->
  (valid_macro_id key || (key =? 0)) = true ->
  norm sk <> [] -> Forall (fun k => norm k <> []) kss -> kss <> [] ->
  forallb dom (concat (map norm kss)) = true ->
  let s := fold_left mstep ([MStart key sk] ++ map MKeys kss ++ [MStop key ek; if named then MRun key ck else MCallLast ck]) s0 in
  m_fed s = m_fed s0 ++ concat (map norm kss) /\ m_rec s = false.
Proof.
  intros named key sk ek ck kss s0 R0 C0 Hkey Hsk Hks Hne Hdom. cbv zeta.
  rewrite fold_left_app. cbn [fold_left].
  set (s1 := mstep s0 (MStart key sk)).
  assert (S1 : recording s1 /\ m_started s1 = true /\ m_cur s1 = [] /\ m_macros s1 = m_macros s0 /\ m_fed s1 = m_fed s0).
  { unfold s1, mstep.
    assert (L : m_rec (loop_top s0) = false /\ m_cur (loop_top s0) = [] /\ m_macros (loop_top s0) = m_macros s0 /\ m_fed (loop_top s0) = m_fed s0).
    { unfold loop_top. rewrite R0. cbn. repeat split; auto. }
    destruct L as (L1 & L2 & L3 & L4).
    unfold start_record. rewrite Hkey. unfold recording.
    cbn [m_rec m_wait m_started m_cur m_macros m_fed m_matched].
    rewrite (matched_by_norm _ sk Hsk). unfold matched_by. cbn [m_wait m_cur m_macros m_fed].
    repeat split; auto. }
  destruct S1 as (Rec1 & St1 & Cur1 & Mac1 & Fed1).
  rewrite fold_left_app.
  destruct (fold_keys kss s1 Rec1 Hks) as (R2 & E2 & M2 & F2 & S2).
  remember (fold_left mstep (map MKeys kss) s1) as s2 eqn:Es2.
  assert (Eff1 : eff s1 = []) by (unfold eff; rewrite St1; exact Cur1).
  rewrite Eff1 in E2. cbn [app] in E2.
  cbn [fold_left].
  remember (concat (map norm kss)) as K eqn:EK.
  assert (KN : K <> []).
  { subst K. destruct kss as [|k kss']; [contradiction|]. cbn [map concat]. inversion Hks; subst.
    destruct (norm k); [contradiction | discriminate]. }
  (* the stop command *)
  remember (mstep s2 (MStop key ek)) as s3 eqn:Es3.
  assert (S3 : m_rec s3 = false /\ m_fed s3 = m_fed s0 /\ m_macros s3 = mset 0 (escape true K) (mset key (escape true K) (m_macros s2))).
  { subst s3. unfold mstep. destruct R2 as (Ra & Wa & Ma).
    assert (L : loop_top s2 = {| m_rec := true; m_started := false; m_cur := K; m_macros := m_macros s2;
                                 m_matched := []; m_wait := false; m_fed := m_fed s2 |}).
    { unfold loop_top. rewrite Wa, Ra. destruct (m_matched s2) as [|a r] eqn:E; [contradiction|].
      cbn [m_rec m_started m_cur m_macros m_wait m_fed]. unfold eff in E2. rewrite E in E2. rewrite E2. reflexivity. }
    rewrite L. rewrite stop_record_ne by (unfold matched_by; cbn [m_cur]; exact KN).
    unfold matched_by. cbn [m_cur m_rec m_started m_macros m_wait m_fed m_matched].
    repeat split; congruence. }
  destruct S3 as (R3 & F3 & M3).
  assert (U : unescape (escape true K) = K) by (apply unescape_escape; exact Hdom).
  assert (L3 : m_rec (loop_top s3) = false /\ m_fed (loop_top s3) = m_fed s0 /\ m_macros (loop_top s3) = m_macros s3).
  { unfold loop_top. rewrite R3. cbn. repeat split; auto. }
  destruct L3 as (L3a & L3b & L3c).
  assert (Neg : negb (valid_macro_id key) && negb (key =? 0) = false).
  { destruct (valid_macro_id key), (key =? 0); cbn in *; try reflexivity; discriminate. }
  destruct named; unfold mstep.
  - unfold run_macro. rewrite Neg.
    change (m_macros (matched_by (loop_top s3) ck)) with (m_macros (loop_top s3)).
    rewrite L3c, M3, massoc_named, U. rewrite (feed_ne K _ KN). unfold feed_keys. cbn [m_fed m_rec].
    change (m_fed (matched_by (loop_top s3) ck)) with (m_fed (loop_top s3)).
    change (m_rec (matched_by (loop_top s3) ck)) with (m_rec (loop_top s3)).
    rewrite L3b, L3a. split; reflexivity.
  - unfold run_last.
    change (m_macros (matched_by (loop_top s3) ck)) with (m_macros (loop_top s3)).
    rewrite L3c, M3, massoc_last, U. rewrite (feed_ne K _ KN). unfold feed_keys. cbn [m_fed m_rec].
    change (m_fed (matched_by (loop_top s3) ck)) with (m_fed (loop_top s3)).
    change (m_rec (matched_by (loop_top s3) ck)) with (m_rec (loop_top s3)).
    rewrite L3b, L3a. split; reflexivity.
Qed.

(* keys below 0x80 are what the command saw, and are popped as themselves *)
Lemma decode_ascii : forall k f, Forall (fun c => 0 <= c < 128) k -> (length k <= f)%nat -> decode_go f k = k.
Proof.
  induction k as [|c k IH]; intros f H Hf; [destruct f; reflexivity|].
  destruct f as [|f]; [cbn in Hf; lia|]. inversion H; subst. cbn [decode_go].
  unfold decode1. replace (c <? 128) with true by lia. cbn [skipn]. rewrite IH; [reflexivity | assumption | cbn in Hf; lia].
Qed.

Lemma norm_ascii : forall k, Forall (fun c => 0 <= c < 128) k -> norm k = k.
Proof.
  intros k H. unfold norm.
  assert (E : utf8_encode k = k).
  { induction k as [|c k IH]; [reflexivity|]. inversion H; subst. cbn [utf8_encode flat_map]. fold (utf8_encode k).
    rewrite IH by assumption. unfold encode1.
    replace ((c <? 0) || (1114111 <? c) || ((55296 <=? c) && (c <=? 57343))) with false by lia.
    replace (c <? 128) with true by lia. reflexivity. }
  rewrite E. unfold utf8_decode. apply decode_ascii; [exact H | lia].
Qed.

Lemma fed_bytes_small : forall s, Forall (fun c => 0 <= c < 256) (m_fed s) -> fed_bytes s = m_fed s.
Proof.
  intros s H. unfold fed_bytes. induction (m_fed s) as [|c l IH]; [reflexivity|].
  inversion H; subst. cbn [map]. rewrite IH by assumption. rewrite Z.mod_small by lia. reflexivity.
Qed.
