(* C15: the selector of one completion group walks its grid in rank order.
   rank (y, x) counts the cells before (y, x) in the visiting order; a forward step
   from a cell of the grid lands on the cell of the next rank (or reports "done, next
   group" from the last one), a backward step on the previous rank (or "done, previous
   group" from the first one).  rank is a bijection between the cells and [0, total),
   so a full cycle shows every candidate exactly once. *)
From Model Require Import Base Grid.
From Proofs Require Import HistoryP.
From Coq Require Import ZifyBool.
Open Scope Z_scope.

Definition rowlen (g : grp) (y : Z) : Z := nth (Z.to_nat y) (g_rows g) 0.
Definition valid (g : grp) (c : Z * Z) : Prop :=
  let '(y, x) := c in 0 <= y < nrows g /\ 0 <= x < rowlen g y.
Definition at_cell (g : grp) (c : Z * Z) : grp := set_pos g (snd c) (fst c).
Definition pos_of (g : grp) : Z * Z := (g_py g, g_px g).

Fixpoint zsum (l : list Z) : Z := match l with [] => 0 | a :: r => a + zsum r end.
Definition total (g : grp) : Z := zsum (g_rows g).
Definition prefix (g : grp) (y : Z) : Z := zsum (firstn (Z.to_nat y) (g_rows g)).

Lemma idx_rows : forall s g y, 0 <= y < nrows g -> idx s (g_rows g) y = Ok (rowlen g y).
Proof.
  intros s g y H. unfold nrows in H. rewrite idx_ok' by exact H. unfold nthZ, rowlen.
  replace (y <? 0) with false by lia. reflexivity.
Qed.

Lemma zsum_app : forall a b, zsum (a ++ b) = zsum a + zsum b.
Proof. induction a as [|x a IH]; intros b; cbn [zsum app]; [lia | rewrite IH; lia]. Qed.

Lemma firstn_succ_nth : forall (l : list Z) (k : nat), (k < length l)%nat ->
  firstn (S k) l = firstn k l ++ [nth k l 0].
Proof.
  induction l as [|a l IH]; intros k H; [cbn in H; lia|].
  destruct k as [|k]; [reflexivity|]. rewrite !firstn_cons. cbn [nth app]. rewrite IH by (cbn in H; lia). reflexivity.
Qed.

Lemma prefix_succ : forall g y, 0 <= y < nrows g -> prefix g (y + 1) = prefix g y + rowlen g y.
Proof.
  intros g y H. unfold prefix, rowlen, nrows, zlen in *.
  replace (Z.to_nat (y + 1)) with (S (Z.to_nat y)) by lia.
  rewrite firstn_succ_nth by lia. rewrite zsum_app. cbn [zsum]. lia.
Qed.

Lemma prefix_total : forall g, prefix g (nrows g) = total g.
Proof. intros g. unfold prefix, total, nrows, zlen. rewrite Nat2Z.id. rewrite firstn_all. reflexivity. Qed.

Lemma prefix_0 : forall g, prefix g 0 = 0.
Proof. reflexivity. Qed.

(* every row holds at least one candidate *)
Definition rows_pos (g : grp) : Prop := Forall (fun l => 1 <= l) (g_rows g).

Lemma rowlen_pos : forall g y, rows_pos g -> 0 <= y < nrows g -> 1 <= rowlen g y.
Proof.
  intros g y R H. unfold rows_pos in R. rewrite Forall_forall in R. apply R.
  unfold rowlen. apply nth_In. unfold nrows, zlen in H. lia.
Qed.

Lemma prefix_mono_step : forall g (k : nat) y, rows_pos g -> 0 <= y -> y + Z.of_nat k <= nrows g ->
  prefix g y + Z.of_nat k <= prefix g (y + Z.of_nat k).
Proof.
  induction k as [|k IH]; intros y R H0 H; [cbn [Z.of_nat]; rewrite !Z.add_0_r; lia|].
  replace (y + Z.of_nat (S k)) with ((y + Z.of_nat k) + 1) by lia.
  rewrite prefix_succ by lia. pose proof (rowlen_pos g (y + Z.of_nat k) R ltac:(lia)).
  specialize (IH y R H0 ltac:(lia)). lia.
Qed.

Lemma prefix_lt : forall g y1 y2, rows_pos g -> 0 <= y1 -> y1 < y2 -> y2 <= nrows g ->
  prefix g y1 + rowlen g y1 <= prefix g y2.
Proof.
  intros g y1 y2 R H0 H1 H2. rewrite <- prefix_succ by lia.
  pose proof (prefix_mono_step g (Z.to_nat (y2 - (y1 + 1))) (y1 + 1) R ltac:(lia) ltac:(lia)) as M.
  replace (y1 + 1 + Z.of_nat (Z.to_nat (y2 - (y1 + 1)))) with y2 in M by lia. lia.
Qed.

(* ---------------------------------------------------------------- plain groups: row-major *)

Definition wf_plain (g : grp) : Prop :=
  g_aliased g = false /\ g_maxy g = nrows g /\ rows_pos g /\ 0 < nrows g.

Definition rank_plain (g : grp) (c : Z * Z) : Z := prefix g (fst c) + snd c.

Lemma rank_plain_range : forall g c, wf_plain g -> valid g c -> 0 <= rank_plain g c < total g.
Proof.
  intros g [y x] (_ & _ & R & _) [Hy Hx]. unfold rank_plain. cbn [fst snd].
  pose proof (prefix_mono_step g (Z.to_nat y) 0 R ltac:(lia) ltac:(lia)) as M0. rewrite prefix_0 in M0.
  replace (0 + Z.of_nat (Z.to_nat y)) with y in M0 by lia.
  rewrite <- prefix_total.
  destruct (Z.eq_dec (y + 1) (nrows g)) as [E|E].
  - rewrite <- E. rewrite prefix_succ by lia. lia.
  - pose proof (prefix_lt g y (nrows g) R ltac:(lia) ltac:(lia) ltac:(lia)). lia.
Qed.

Lemma rank_plain_inj : forall g c1 c2, wf_plain g -> valid g c1 -> valid g c2 ->
  rank_plain g c1 = rank_plain g c2 -> c1 = c2.
Proof.
  intros g [y1 x1] [y2 x2] (_ & _ & R & _) [Hy1 Hx1] [Hy2 Hx2] E. unfold rank_plain in E. cbn [fst snd] in E.
  destruct (Z.lt_trichotomy y1 y2) as [L|[L|L]].
  - pose proof (prefix_lt g y1 y2 R ltac:(lia) L ltac:(lia)). lia.
  - subst y2. f_equal. lia.
  - pose proof (prefix_lt g y2 y1 R ltac:(lia) L ltac:(lia)). lia.
Qed.

(* menu-complete on a plain group: Select(1, 0) moves along the row *)
Lemma plain_forward : forall g y x, wf_plain g -> valid g (y, x) ->
  move_selector (set_pos g x y) 1 0 =
  Ok (if x + 1 <? rowlen g y then (set_pos g (x + 1) y, false, false)
      else if y <? nrows g - 1 then (set_pos g 0 (y + 1), false, false)
      else (set_pos g 0 y, true, true)).
Proof.
  intros g y x (A & MY & R & N) [Hy Hx]. unfold move_selector. cbn [g_px g_py set_pos g_rows g_aliased g_maxy g_maxx].
  replace (x =? -1) with false by lia. cbn [andb]. rewrite Z.add_0_r.
  replace (x + 1 <? 0) with false by lia. cbn [bind].
  replace (y <? 0) with false by lia.
  replace (g_maxy g - 1 <? y) with false by lia.
  change (g_rows (set_pos g x y)) with (g_rows g).
  rewrite (idx_rows 403 g y Hy). cbn [bind]. rewrite A.
  replace (rowlen g y - 1 <? x + 1) with (negb (x + 1 <? rowlen g y)) by lia.
  destruct (x + 1 <? rowlen g y); cbn [negb]; [reflexivity|].
  rewrite MY. destruct (y <? nrows g - 1); reflexivity.
Qed.

(* menu-complete-backward on a plain group: Select(-1, 0) *)
Lemma plain_backward : forall g y x, wf_plain g -> valid g (y, x) ->
  move_selector (set_pos g x y) (-1) 0 =
  Ok (if 0 <? x then (set_pos g (x - 1) y, false, false)
      else if y =? 0 then (set_pos g 0 0, true, false)
      else (set_pos g (rowlen g (y - 1) - 1) (y - 1), false, false)).
Proof.
  intros g y x (A & MY & R & N) [Hy Hx]. unfold move_selector. cbn [g_px g_py set_pos g_rows g_aliased g_maxy g_maxx].
  replace (x =? -1) with false by lia. cbn [andb]. rewrite Z.add_0_r.
  replace (x + -1) with (x - 1) by lia. change ((-1 <? 0) || (0 <? 0)) with true.
  destruct (0 <? x) eqn:X.
  - replace (x - 1 <? 0) with false by lia. cbn [bind].
    replace (y <? 0) with false by lia. replace (g_maxy g - 1 <? y) with false by lia.
    change (g_rows (set_pos g x y)) with (g_rows g). rewrite (idx_rows 403 g y Hy). cbn [bind].
    replace (rowlen g y - 1 <? x - 1) with false by lia. reflexivity.
  - replace (x - 1 <? 0) with true by lia. rewrite andb_true_r.
    destruct (y =? 0) eqn:Y; [reflexivity|].
    change (g_rows (set_pos g x y)) with (g_rows g). rewrite (idx_rows 402 g (y - 1) ltac:(lia)). cbn [bind].
    replace (y - 1 <? 0) with false by lia. replace (g_maxy g - 1 <? y - 1) with false by lia.
    rewrite (idx_rows 403 g (y - 1) ltac:(lia)). cbn [bind].
    replace (rowlen g (y - 1) - 1 <? rowlen g (y - 1) - 1) with false by lia. reflexivity.
Qed.

(* the first use of a group *)
Lemma plain_fresh_forward : forall g, wf_plain g -> g_px g = -1 -> g_py g = -1 ->
  move_selector g 1 0 = Ok (set_pos g 0 0, false, false).
Proof.
  intros g (A & MY & R & N) PX PY. unfold move_selector. rewrite PX, PY. cbn -[idx Z.sub nrows find_first Z.ltb].
  do 3 (change (0 <? 0) with false; cbn [bind]). replace (g_maxy g - 1 <? 0) with false by lia.
  rewrite (idx_rows 403 g 0 ltac:(lia)). cbn [bind].
  pose proof (rowlen_pos g 0 R ltac:(lia)). replace (rowlen g 0 - 1 <? 0) with false by lia. reflexivity.
Qed.

Lemma plain_fresh_backward : forall g, wf_plain g -> g_px g = -1 -> g_py g = -1 ->
  move_selector g (-1) 0 = Ok (set_pos g 0 0, true, false).
Proof.
  intros g (A & MY & R & N) PX PY. unfold move_selector. rewrite PX, PY. cbn -[idx Z.sub nrows find_first Z.ltb].
  change (-2 <? 0) with true. change ((-1 <? 0) || (0 <? 0)) with true. reflexivity.
Qed.

Lemma plain_last_cell : forall g, wf_plain g ->
  last_cell g = Ok (set_pos g (rowlen g (nrows g - 1) - 1) (nrows g - 1)).
Proof.
  intros g (A & MY & R & N). unfold last_cell. rewrite A. rewrite (idx_rows 404 g (nrows g - 1) ltac:(lia)). reflexivity.
Qed.

(* forward: the next rank, or "done, next group" from the last cell *)
Theorem plain_forward_rank : forall g c, wf_plain g -> valid g c ->
  match move_selector (at_cell g c) 1 0 with
  | Ok (g', false, _) => g' = at_cell g (pos_of g') /\ valid g (pos_of g') /\ rank_plain g (pos_of g') = rank_plain g c + 1
  | Ok (_, true, next) => next = true /\ rank_plain g c = total g - 1
  | _ => False
  end.
Proof.
  intros g [y x] W V. pose proof W as (A & MY & R & N). pose proof V as [Hy Hx].
  unfold at_cell. cbn [fst snd]. rewrite (plain_forward g y x W V).
  destruct (x + 1 <? rowlen g y) eqn:E1.
  - unfold pos_of, at_cell, rank_plain. cbn. repeat split; lia.
  - destruct (y <? nrows g - 1) eqn:E2.
    + unfold pos_of, at_cell, rank_plain. cbn [g_px g_py set_pos fst snd]. split; [reflexivity|]. split.
      * split; [lia|]. pose proof (rowlen_pos g (y + 1) R ltac:(lia)). lia.
      * rewrite prefix_succ by lia. lia.
    + split; [reflexivity|]. unfold rank_plain. cbn [fst snd]. rewrite <- prefix_total.
      replace (nrows g) with (y + 1) by lia. rewrite prefix_succ by lia. lia.
Qed.

(* backward: the previous rank, or "done, previous group" from the first cell *)
Theorem plain_backward_rank : forall g c, wf_plain g -> valid g c ->
  match move_selector (at_cell g c) (-1) 0 with
  | Ok (g', false, _) => g' = at_cell g (pos_of g') /\ valid g (pos_of g') /\ rank_plain g (pos_of g') = rank_plain g c - 1
  | Ok (_, true, next) => next = false /\ rank_plain g c = 0
  | _ => False
  end.
Proof.
  intros g [y x] W V. pose proof W as (A & MY & R & N). pose proof V as [Hy Hx].
  unfold at_cell. cbn [fst snd]. rewrite (plain_backward g y x W V).
  destruct (0 <? x) eqn:E1.
  - unfold pos_of, at_cell, rank_plain. cbn. repeat split; lia.
  - destruct (y =? 0) eqn:E2.
    + split; [reflexivity|]. unfold rank_plain. cbn [fst snd]. replace y with 0 by lia. rewrite prefix_0. lia.
    + unfold pos_of, at_cell, rank_plain. cbn [g_px g_py set_pos fst snd]. split; [reflexivity|].
      pose proof (rowlen_pos g (y - 1) R ltac:(lia)). split; [split; lia|].
      replace (prefix g y) with (prefix g ((y - 1) + 1)) by (f_equal; lia). rewrite prefix_succ by lia. lia.
Qed.

(* entering the group from the next one lands on the last rank *)
Theorem plain_last_rank : forall g, wf_plain g ->
  exists g', last_cell g = Ok g' /\ g' = at_cell g (pos_of g') /\ valid g (pos_of g') /\ rank_plain g (pos_of g') = total g - 1.
Proof.
  intros g W. pose proof W as (A & MY & R & N). rewrite (plain_last_cell g W). eexists. split; [reflexivity|].
  unfold pos_of, at_cell, rank_plain. cbn [g_px g_py set_pos fst snd].
  pose proof (rowlen_pos g (nrows g - 1) R ltac:(lia)). split; [reflexivity|]. split; [split; lia|].
  rewrite <- prefix_total. replace (prefix g (nrows g)) with (prefix g ((nrows g - 1) + 1)) by (f_equal; lia).
  rewrite prefix_succ by lia. lia.
Qed.
