(* C15: the selector of one completion group walks its grid in rank order.
   rank (y, x) counts the cells before (y, x) in the visiting order; a forward step
   from a cell of the grid lands on the cell of the next rank (or reports "done, next
   group" from the last one), a backward step on the previous rank (or "done, previous
   group" from the first one).  rank is a bijection between the cells and [0, total),
   so a full cycle shows every candidate exactly once. *)
From Model Require Import Base Grid.
From Proofs Require Import HistoryP.
From Coq Require Import ZifyBool.
Open Scope Z_scope.

Definition rowlen (g : grp) (y : Z) : Z := nth (Z.to_nat y) (g_rows g) 0.
Definition valid (g : grp) (c : Z * Z) : Prop :=
  let '(y, x) := c in 0 <= y < nrows g /\ 0 <= x < rowlen g y.
Definition at_cell (g : grp) (c : Z * Z) : grp := set_pos g (snd c) (fst c).
Definition pos_of (g : grp) : Z * Z := (g_py g, g_px g).

Fixpoint zsum (l : list Z) : Z := match l with [] => 0 | a :: r => a + zsum r end.
Definition total (g : grp) : Z := zsum (g_rows g).
Definition prefix (g : grp) (y : Z) : Z := zsum (firstn (Z.to_nat y) (g_rows g)).

Lemma idx_rows : forall s g y, 0 <= y < nrows g -> idx s (g_rows g) y = Ok (rowlen g y).
Proof.
  intros s g y H. unfold nrows in H. rewrite idx_ok' by exact H. unfold nthZ, rowlen.
  replace (y <? 0) with false by lia. reflexivity.
Qed.

Lemma zsum_app : forall a b, zsum (a ++ b) = zsum a + zsum b.
Proof. induction a as [|x a IH]; intros b; cbn [zsum app]; [lia | rewrite IH; lia]. Qed.

Lemma firstn_succ_nth : forall (l : list Z) (k : nat), (k < length l)%nat ->
  firstn (S k) l = firstn k l ++ [nth k l 0].
Proof.
  induction l as [|a l IH]; intros k H; [cbn in H; lia|].
  destruct k as [|k]; [reflexivity|]. rewrite !firstn_cons. cbn [nth app]. rewrite IH by (cbn in H; lia). reflexivity.
Qed.

Lemma prefix_succ : forall g y, 0 <= y < nrows g -> prefix g (y + 1) = prefix g y + rowlen g y.
Proof.
  intros g y H. unfold prefix, rowlen, nrows, zlen in *.
  replace (Z.to_nat (y + 1)) with (S (Z.to_nat y)) by lia.
  rewrite firstn_succ_nth by lia. rewrite zsum_app. cbn [zsum]. lia.
Qed.

Lemma prefix_total : forall g, prefix g (nrows g) = total g.
Proof. intros g. unfold prefix, total, nrows, zlen. rewrite Nat2Z.id. rewrite firstn_all. reflexivity. Qed.

Lemma prefix_0 : forall g, prefix g 0 = 0.
Proof. reflexivity. Qed.

(* every row holds at least one candidate *)
Definition rows_pos (g : grp) : Prop := Forall (fun l => 1 <= l) (g_rows g).

Lemma rowlen_pos : forall g y, rows_pos g -> 0 <= y < nrows g -> 1 <= rowlen g y.
Proof.
  intros g y R H. unfold rows_pos in R. rewrite Forall_forall in R. apply R.
  unfold rowlen. apply nth_In. unfold nrows, zlen in H. lia.
Qed.

Lemma prefix_mono_step : forall g (k : nat) y, rows_pos g -> 0 <= y -> y + Z.of_nat k <= nrows g ->
  prefix g y + Z.of_nat k <= prefix g (y + Z.of_nat k).
Proof.
  induction k as [|k IH]; intros y R H0 H; [cbn [Z.of_nat]; rewrite !Z.add_0_r; lia|].
  replace (y + Z.of_nat (S k)) with ((y + Z.of_nat k) + 1) by lia.
  rewrite prefix_succ by lia. pose proof (rowlen_pos g (y + Z.of_nat k) R ltac:(lia)).
  specialize (IH y R H0 ltac:(lia)). lia.
Qed.

Lemma prefix_lt : forall g y1 y2, rows_pos g -> 0 <= y1 -> y1 < y2 -> y2 <= nrows g ->
  prefix g y1 + rowlen g y1 <= prefix g y2.
Proof.
  intros g y1 y2 R H0 H1 H2. rewrite <- prefix_succ by lia.
  pose proof (prefix_mono_step g (Z.to_nat (y2 - (y1 + 1))) (y1 + 1) R ltac:(lia) ltac:(lia)) as M.
  replace (y1 + 1 + Z.of_nat (Z.to_nat (y2 - (y1 + 1)))) with y2 in M by lia. lia.
Qed.

(* ---------------------------------------------------------------- plain groups: row-major *)

Definition wf_plain (g : grp) : Prop :=
  g_aliased g = false /\ g_maxy g = nrows g /\ rows_pos g /\ 0 < nrows g.

Definition rank_plain (g : grp) (c : Z * Z) : Z := prefix g (fst c) + snd c.

Lemma rank_plain_range : forall g c, wf_plain g -> valid g c -> 0 <= rank_plain g c < total g.
Proof.
  intros g [y x] (_ & _ & R & _) [Hy Hx]. unfold rank_plain. cbn [fst snd].
  pose proof (prefix_mono_step g (Z.to_nat y) 0 R ltac:(lia) ltac:(lia)) as M0. rewrite prefix_0 in M0.
  replace (0 + Z.of_nat (Z.to_nat y)) with y in M0 by lia.
  rewrite <- prefix_total.
  destruct (Z.eq_dec (y + 1) (nrows g)) as [E|E].
  - rewrite <- E. rewrite prefix_succ by lia. lia.
  - pose proof (prefix_lt g y (nrows g) R ltac:(lia) ltac:(lia) ltac:(lia)). lia.
Qed.

Lemma rank_plain_inj : forall g c1 c2, wf_plain g -> valid g c1 -> valid g c2 ->
  rank_plain g c1 = rank_plain g c2 -> c1 = c2.
Proof.
  intros g [y1 x1] [y2 x2] (_ & _ & R & _) [Hy1 Hx1] [Hy2 Hx2] E. unfold rank_plain in E. cbn [fst snd] in E.
  destruct (Z.lt_trichotomy y1 y2) as [L|[L|L]].
  - pose proof (prefix_lt g y1 y2 R ltac:(lia) L ltac:(lia)). lia.
  - subst y2. f_equal. lia.
  - pose proof (prefix_lt g y2 y1 R ltac:(lia) L ltac:(lia)). lia.
Qed.

(* menu-complete on a plain group: Select(1, 0) moves along the row *)
Lemma plain_forward : forall g y x, wf_plain g -> valid g (y, x) ->
  move_selector (set_pos g x y) 1 0 =
  Ok (if x + 1 <? rowlen g y then (set_pos g (x + 1) y, false, false)
      else if y <? nrows g - 1 then (set_pos g 0 (y + 1), false, false)
      else (set_pos g 0 y, true, true)).
Proof.
  intros g y x (A & MY & R & N) [Hy Hx]. unfold move_selector. cbn [g_px g_py set_pos g_rows g_aliased g_maxy g_maxx].
  replace (x =? -1) with false by lia. cbn [andb]. rewrite Z.add_0_r.
  replace (x + 1 <? 0) with false by lia. cbn [bind].
  replace (y <? 0) with false by lia.
  replace (g_maxy g - 1 <? y) with false by lia.
  change (g_rows (set_pos g x y)) with (g_rows g).
  rewrite (idx_rows 403 g y Hy). cbn [bind]. rewrite A.
  replace (rowlen g y - 1 <? x + 1) with (negb (x + 1 <? rowlen g y)) by lia.
  destruct (x + 1 <? rowlen g y); cbn [negb]; [reflexivity|].
  rewrite MY. destruct (y <? nrows g - 1); reflexivity.
Qed.

(* menu-complete-backward on a plain group: Select(-1, 0) *)
Lemma plain_backward : forall g y x, wf_plain g -> valid g (y, x) ->
  move_selector (set_pos g x y) (-1) 0 =
  Ok (if 0 <? x then (set_pos g (x - 1) y, false, false)
      else if y =? 0 then (set_pos g 0 0, true, false)
      else (set_pos g (rowlen g (y - 1) - 1) (y - 1), false, false)).
Proof.
  intros g y x (A & MY & R & N) [Hy Hx]. unfold move_selector. cbn [g_px g_py set_pos g_rows g_aliased g_maxy g_maxx].
  replace (x =? -1) with false by lia. cbn [andb]. rewrite Z.add_0_r.
  replace (x + -1) with (x - 1) by lia. change ((-1 <? 0) || (0 <? 0)) with true.
  destruct (0 <? x) eqn:X.
  - replace (x - 1 <? 0) with false by lia. cbn [bind].
    replace (y <? 0) with false by lia. replace (g_maxy g - 1 <? y) with false by lia.
    change (g_rows (set_pos g x y)) with (g_rows g). rewrite (idx_rows 403 g y Hy). cbn [bind].
    replace (rowlen g y - 1 <? x - 1) with false by lia. reflexivity.
  - replace (x - 1 <? 0) with true by lia. rewrite andb_true_r.
    destruct (y =? 0) eqn:Y; [reflexivity|].
    change (g_rows (set_pos g x y)) with (g_rows g). rewrite (idx_rows 402 g (y - 1) ltac:(lia)). cbn [bind].
    replace (y - 1 <? 0) with false by lia. replace (g_maxy g - 1 <? y - 1) with false by lia.
    rewrite (idx_rows 403 g (y - 1) ltac:(lia)). cbn [bind].
    replace (rowlen g (y - 1) - 1 <? rowlen g (y - 1) - 1) with false by lia. reflexivity.
Qed.

(* the first use of a group *)
Lemma plain_fresh_forward : forall g, wf_plain g -> g_px g = -1 -> g_py g = -1 ->
  move_selector g 1 0 = Ok (set_pos g 0 0, false, false).
Proof.
  intros g (A & MY & R & N) PX PY. unfold move_selector. rewrite PX, PY. cbn -[idx Z.sub nrows find_first Z.ltb].
  do 3 (change (0 <? 0) with false; cbn [bind]). replace (g_maxy g - 1 <? 0) with false by lia.
  rewrite (idx_rows 403 g 0 ltac:(lia)). cbn [bind].
  pose proof (rowlen_pos g 0 R ltac:(lia)). replace (rowlen g 0 - 1 <? 0) with false by lia. reflexivity.
Qed.

Lemma plain_fresh_backward : forall g, wf_plain g -> g_px g = -1 -> g_py g = -1 ->
  move_selector g (-1) 0 = Ok (set_pos g 0 0, true, false).
Proof.
  intros g (A & MY & R & N) PX PY. unfold move_selector. rewrite PX, PY. cbn -[idx Z.sub nrows find_first Z.ltb].
  change (-2 <? 0) with true. change ((-1 <? 0) || (0 <? 0)) with true. reflexivity.
Qed.

Lemma plain_last_cell : forall g, wf_plain g ->
  last_cell g = Ok (set_pos g (rowlen g (nrows g - 1) - 1) (nrows g - 1)).
Proof.
  intros g (A & MY & R & N). unfold last_cell. rewrite A. rewrite (idx_rows 404 g (nrows g - 1) ltac:(lia)). reflexivity.
Qed.

(* forward: the next rank, or "done, next group" from the last cell *)
Theorem plain_forward_rank : forall g c, wf_plain g -> valid g c ->
  match move_selector (at_cell g c) 1 0 with
  | Ok (g', false, _) => g' = at_cell g (pos_of g') /\ valid g (pos_of g') /\ rank_plain g (pos_of g') = rank_plain g c + 1
  | Ok (g', true, next) => (exists a b, g' = set_pos g a b) /\ next = true /\ rank_plain g c = total g - 1
  | _ => False
  end.
Proof.
  intros g [y x] W V. pose proof W as (A & MY & R & N). pose proof V as [Hy Hx].
  unfold at_cell. cbn [fst snd]. rewrite (plain_forward g y x W V).
  destruct (x + 1 <? rowlen g y) eqn:E1.
  - unfold pos_of, at_cell, rank_plain. cbn. repeat split; lia.
  - destruct (y <? nrows g - 1) eqn:E2.
    + unfold pos_of, at_cell, rank_plain. cbn [g_px g_py set_pos fst snd]. split; [reflexivity|]. split.
      * split; [lia|]. pose proof (rowlen_pos g (y + 1) R ltac:(lia)). lia.
      * rewrite prefix_succ by lia. lia.
    + split; [eexists; eexists; reflexivity|]. split; [reflexivity|]. unfold rank_plain. cbn [fst snd]. rewrite <- prefix_total.
      replace (nrows g) with (y + 1) by lia. rewrite prefix_succ by lia. lia.
Qed.

(* backward: the previous rank, or "done, previous group" from the first cell *)
Theorem plain_backward_rank : forall g c, wf_plain g -> valid g c ->
  match move_selector (at_cell g c) (-1) 0 with
  | Ok (g', false, _) => g' = at_cell g (pos_of g') /\ valid g (pos_of g') /\ rank_plain g (pos_of g') = rank_plain g c - 1
  | Ok (g', true, next) => (exists a b, g' = set_pos g a b) /\ next = false /\ rank_plain g c = 0
  | _ => False
  end.
Proof.
  intros g [y x] W V. pose proof W as (A & MY & R & N). pose proof V as [Hy Hx].
  unfold at_cell. cbn [fst snd]. rewrite (plain_backward g y x W V).
  destruct (0 <? x) eqn:E1.
  - unfold pos_of, at_cell, rank_plain. cbn. repeat split; lia.
  - destruct (y =? 0) eqn:E2.
    + split; [eexists; eexists; reflexivity|]. split; [reflexivity|]. unfold rank_plain. cbn [fst snd]. replace y with 0 by lia. rewrite prefix_0. lia.
    + unfold pos_of, at_cell, rank_plain. cbn [g_px g_py set_pos fst snd]. split; [reflexivity|].
      pose proof (rowlen_pos g (y - 1) R ltac:(lia)). split; [split; lia|].
      replace (prefix g y) with (prefix g ((y - 1) + 1)) by (f_equal; lia). rewrite prefix_succ by lia. lia.
Qed.

(* entering the group from the next one lands on the last rank *)
Theorem plain_last_rank : forall g, wf_plain g ->
  exists g', last_cell g = Ok g' /\ g' = at_cell g (pos_of g') /\ valid g (pos_of g') /\ rank_plain g (pos_of g') = total g - 1.
Proof.
  intros g W. pose proof W as (A & MY & R & N). rewrite (plain_last_cell g W). eexists. split; [reflexivity|].
  unfold pos_of, at_cell, rank_plain. cbn [g_px g_py set_pos fst snd].
  pose proof (rowlen_pos g (nrows g - 1) R ltac:(lia)). split; [reflexivity|]. split; [split; lia|].
  rewrite <- prefix_total. replace (prefix g (nrows g)) with (prefix g ((nrows g - 1) + 1)) by (f_equal; lia).
  rewrite prefix_succ by lia. lia.
Qed.

(* ---------------------------------------------------------------- aliased groups: column-major over ragged rows *)

(* rows of the list that have a cell in column x *)
Definition ccount (x : Z) (l : list Z) : Z := zlen (filter (fun len => x <? len) l).
Definition cbelow (g : grp) (x y : Z) : Z := ccount x (firstn (Z.to_nat y) (g_rows g)).
Definition ctotal (g : grp) (x : Z) : Z := ccount x (g_rows g).
Fixpoint colsum_n (g : grp) (k : nat) : Z := match k with O => 0 | S j => colsum_n g j + ctotal g (Z.of_nat j) end.
Definition colsum (g : grp) (x : Z) : Z := colsum_n g (Z.to_nat x).

(* cells before position (y, x) in column-major order *)
Definition vrank (g : grp) (x y : Z) : Z := colsum g x + cbelow g x y.
Definition rank_al (g : grp) (c : Z * Z) : Z := vrank g (snd c) (fst c).
Definition total_al (g : grp) : Z := colsum g (g_maxx g).

Definition wf_aliased (g : grp) : Prop :=
  g_aliased g = true /\ g_maxy g = nrows g /\ g_ncols g = g_maxx g /\ 0 < nrows g /\ 0 < g_maxx g /\
  Forall (fun l => 1 <= l <= g_maxx g) (g_rows g).

Lemma ccount_app : forall x a b, ccount x (a ++ b) = ccount x a + ccount x b.
Proof. intros. unfold ccount. rewrite filter_app. unfold zlen. rewrite app_length. lia. Qed.

Lemma ccount_ge0 : forall x l, 0 <= ccount x l.
Proof. intros. unfold ccount, zlen. lia. Qed.

Lemma cbelow_succ : forall g x y, 0 <= y < nrows g ->
  cbelow g x (y + 1) = cbelow g x y + (if x <? rowlen g y then 1 else 0).
Proof.
  intros g x y H. unfold cbelow, rowlen, nrows, zlen in *.
  replace (Z.to_nat (y + 1)) with (S (Z.to_nat y)) by lia.
  rewrite firstn_succ_nth by lia. rewrite ccount_app. f_equal.
  unfold ccount. cbn [filter]. destruct (x <? nth (Z.to_nat y) (g_rows g) 0); reflexivity.
Qed.

Lemma cbelow_all : forall g x, cbelow g x (nrows g) = ctotal g x.
Proof. intros. unfold cbelow, ctotal, nrows, zlen. rewrite Nat2Z.id, firstn_all. reflexivity. Qed.

Lemma cbelow_0 : forall g x, cbelow g x 0 = 0.
Proof. reflexivity. Qed.

Lemma colsum_succ : forall g x, 0 <= x -> colsum g (x + 1) = colsum g x + ctotal g x.
Proof.
  intros g x H. unfold colsum. replace (Z.to_nat (x + 1)) with (S (Z.to_nat x)) by lia.
  cbn [colsum_n]. rewrite Z2Nat.id by lia. reflexivity.
Qed.

Lemma vrank_wrap : forall g x, 0 <= x -> vrank g x (nrows g) = vrank g (x + 1) 0.
Proof. intros g x H. unfold vrank. rewrite cbelow_all, cbelow_0, colsum_succ by lia. lia. Qed.

(* the forward scan of findFirstCandidate from any position of the grid: it stops on the
   first cell at or after the position in column-major order - the cell whose rank is the
   number of cells before the position - or reports the end of the group when there is none *)
Lemma find_first_forward : forall fuel g px py, wf_aliased g ->
  0 <= px < g_maxx g -> 0 <= py < nrows g ->
  (g_maxx g - px) * (nrows g + 1) + (nrows g - py) < Z.of_nat fuel ->
  match find_first fuel g 0 1 px py with
  | Ok (px', py', false, _) => 0 <= py' < nrows g /\ 0 <= px' < rowlen g py' /\ px' < g_maxx g /\ vrank g px' py' = vrank g px py
  | Ok (_, _, true, next) => next = true /\ vrank g px py = total_al g
  | _ => False
  end.
Proof.
  induction fuel as [|fuel IH]; intros g px py W Hx Hy Hf; [destruct W as (_ & _ & _ & N0 & _); cbn in Hf; nia|].
  pose proof W as (A & MY & NC & N & MX & R).
  cbn [find_first]. rewrite (idx_rows 401 g py Hy). cbn [bind].
  destruct (rowlen g py - 1 <? px) eqn:E.
  - (* no cell here: go down *)
    rewrite Z.add_0_r.
    replace (py + 1 <? 0) with false by lia.
    assert (V : vrank g px (py + 1) = vrank g px py).
    { unfold vrank. rewrite cbelow_succ by lia. replace (px <? rowlen g py) with false by lia. lia. }
    rewrite MY.
    destruct (nrows g - 1 <? py + 1) eqn:E2.
    + assert (py + 1 = nrows g) by lia.
      rewrite NC. destruct (px <? g_maxx g - 1) eqn:E3.
      * specialize (IH g (px + 1) 0 W ltac:(lia) ltac:(lia) ltac:(nia)).
        destruct (find_first fuel g 0 1 (px + 1) 0) as [[[[px' py'] done] next]| |]; try contradiction.
        assert (V2 : vrank g (px + 1) 0 = vrank g px py) by (rewrite <- vrank_wrap by lia; rewrite <- V; f_equal; lia).
        destruct done; [destruct IH as [I1 I2]; split; [exact I1 | lia] | destruct IH as (I1 & I2 & I3 & I4); repeat split; try lia].
      * split; [reflexivity|]. unfold total_al. replace (g_maxx g) with (px + 1) by lia.
        rewrite <- V. replace (py + 1) with (nrows g) by lia. rewrite vrank_wrap by lia. unfold vrank. rewrite cbelow_0. lia.
    + specialize (IH g px (py + 1) W Hx ltac:(lia) ltac:(nia)).
      destruct (find_first fuel g 0 1 px (py + 1)) as [[[[px' py'] done] next]| |]; try contradiction.
      destruct done; [destruct IH as [I1 I2]; split; [exact I1 | lia] | destruct IH as (I1 & I2 & I3 & I4); repeat split; try lia].
  - repeat split; lia.
Qed.

Lemma ff_fuel_enough : forall g px py, wf_aliased g -> 0 <= px < g_maxx g -> 0 <= py < nrows g ->
  (g_maxx g - px) * (nrows g + 1) + (nrows g - py) < Z.of_nat (ff_fuel g).
Proof.
  intros g px py (A & MY & NC & N & MX & R) Hx Hy. unfold ff_fuel. rewrite NC.
  rewrite Nat2Z.inj_succ. rewrite Z2Nat.id by nia. nia.
Qed.

Lemma find_first_set_pos : forall f g a b x y px py,
  find_first f (set_pos g a b) x y px py = find_first f g x y px py.
Proof.
  induction f as [|f IH]; intros g a b x y px py; [reflexivity|]. cbn [find_first]. cbv zeta.
  change (g_rows (set_pos g a b)) with (g_rows g). change (nrows (set_pos g a b)) with (nrows g).
  change (g_maxy (set_pos g a b)) with (g_maxy g). change (g_ncols (set_pos g a b)) with (g_ncols g).
  destruct (idx 401 (g_rows g) py) as [l| |]; cbn [bind]; try reflexivity.
  destruct (l - 1 <? px); [|reflexivity].
  destruct (py + y + x <? 0).
  - destruct (px =? 0); [reflexivity|].
    destruct (g_maxy g - 1 <? nrows g - 1); [destruct (px - 1 <? g_ncols g - 1); [apply IH | reflexivity] | apply IH].
  - destruct (g_maxy g - 1 <? py + y + x); [destruct (px <? g_ncols g - 1); [apply IH | reflexivity] | apply IH].
Qed.

Definition valid_al (g : grp) (c : Z * Z) : Prop := valid g c /\ snd c < g_maxx g.

(* menu-complete on an aliased group (Select moves down the column): from any cell, the
   cell of the next rank in column-major order, or "done, next group" from the last one *)
Theorem aliased_forward_rank : forall g c, wf_aliased g -> valid_al g c ->
  match move_selector (at_cell g c) 0 1 with
  | Ok (g', false, _) => g' = at_cell g (pos_of g') /\ valid_al g (pos_of g') /\ rank_al g (pos_of g') = rank_al g c + 1
  | Ok (g', true, next) => (exists a b, g' = set_pos g a b) /\ next = true /\ rank_al g c + 1 = total_al g
  | _ => False
  end.
Proof.
  intros g [y x] W [[Hy Hx] Hm]. cbn [snd fst] in *. pose proof W as (A & MY & NC & N & MX & R).
  unfold at_cell, move_selector. cbn [fst snd g_px g_py set_pos g_rows g_aliased g_maxy g_maxx].
  replace (x =? -1) with false by lia. cbn [andb]. rewrite Z.add_0_r.
  replace (x <? 0) with false by lia. cbn [bind].
  replace (y + 1 <? 0) with false by lia.
  assert (RK : rank_al g (y, x) + 1 = vrank g x (y + 1)).
  { unfold rank_al, vrank. cbn [fst snd]. rewrite cbelow_succ by lia. replace (x <? rowlen g y) with true by lia. lia. }
  change (g_rows (set_pos g x y)) with (g_rows g). change (nrows (set_pos g x y)) with (nrows g).
  rewrite MY.
  (* the position the scan starts from, after the wrap of step 3 *)
  destruct (nrows g - 1 <? y + 1) eqn:E3.
  - assert (Yl : y + 1 = nrows g) by lia.
    destruct (x <? g_maxx g - 1) eqn:E4.
    + pose proof (find_first_forward (ff_fuel g) g (x + 1) 0 W ltac:(lia) ltac:(lia) (ff_fuel_enough g (x + 1) 0 W ltac:(lia) ltac:(lia))) as F.
      assert (V0 : vrank g (x + 1) 0 = rank_al g (y, x) + 1) by (rewrite RK, Yl; symmetry; apply vrank_wrap; lia).
      rewrite (idx_rows 403 g 0 ltac:(lia)). cbn [bind]. rewrite A.
      destruct (rowlen g 0 - 1 <? x + 1) eqn:E5.
      * change (ff_fuel (set_pos g x y)) with (ff_fuel g).
        rewrite find_first_set_pos.
        destruct (find_first (ff_fuel g) g 0 1 (x + 1) 0) as [[[[px' py'] done] next]| |]; try contradiction. cbn [bind].
        destruct done.
        -- destruct F as [F1 F2]. split; [eexists; eexists; reflexivity|]. split; [exact F1 | lia].
        -- destruct F as (F1 & F2 & F3 & F4). unfold pos_of, at_cell, valid_al, valid. cbn [g_px g_py set_pos fst snd].
           repeat split; try lia; unfold rank_al in *; cbn [fst snd] in *; lia.
      * unfold pos_of, at_cell, valid_al, valid. cbn [g_px g_py set_pos fst snd]. repeat split; try lia; unfold rank_al in *; cbn [fst snd] in *; lia.
    + split; [eexists; eexists; reflexivity|]. split; [reflexivity|]. rewrite RK, Yl. rewrite vrank_wrap by lia. unfold total_al, vrank. rewrite cbelow_0.
      replace (g_maxx g) with (x + 1) by lia. lia.
  - pose proof (find_first_forward (ff_fuel g) g x (y + 1) W ltac:(lia) ltac:(lia) (ff_fuel_enough g x (y + 1) W ltac:(lia) ltac:(lia))) as F.
    rewrite (idx_rows 403 g (y + 1) ltac:(lia)). cbn [bind]. rewrite A.
    destruct (rowlen g (y + 1) - 1 <? x) eqn:E5.
    + change (ff_fuel (set_pos g x y)) with (ff_fuel g).
      rewrite find_first_set_pos.
      destruct (find_first (ff_fuel g) g 0 1 x (y + 1)) as [[[[px' py'] done] next]| |]; try contradiction. cbn [bind].
      destruct done.
      * destruct F as [F1 F2]. split; [eexists; eexists; reflexivity|]. split; [exact F1 | lia].
      * destruct F as (F1 & F2 & F3 & F4). unfold pos_of, at_cell, valid_al, valid. cbn [g_px g_py set_pos fst snd].
        repeat split; try lia; unfold rank_al in *; cbn [fst snd] in *; lia.
    + unfold pos_of, at_cell, valid_al, valid. cbn [g_px g_py set_pos fst snd]. repeat split; try lia; unfold rank_al in *; cbn [fst snd] in *; lia.
Qed.

(* the backward scan (menu-complete-backward, and lastCell): the last cell at or before the position *)
Lemma find_first_backward : forall fuel g px py, wf_aliased g ->
  0 <= px < g_maxx g -> 0 <= py < nrows g ->
  px * (nrows g + 1) + py < Z.of_nat fuel ->
  match find_first fuel g 0 (-1) px py with
  | Ok (px', py', false, _) => 0 <= py' < nrows g /\ 0 <= px' < rowlen g py' /\ px' < g_maxx g /\ vrank g px' (py' + 1) = vrank g px (py + 1)
  | Ok (_, _, true, next) => next = false /\ vrank g px (py + 1) = 0
  | _ => False
  end.
Proof.
  induction fuel as [|fuel IH]; intros g px py W Hx Hy Hf; [destruct W as (_ & _ & _ & N0 & _); cbn in Hf; nia|].
  pose proof W as (A & MY & NC & N & MX & R).
  cbn [find_first]. rewrite (idx_rows 401 g py Hy). cbn [bind].
  destruct (rowlen g py - 1 <? px) eqn:E.
  - rewrite Z.add_0_r. replace (py + -1) with (py - 1) by lia.
    assert (V : vrank g px (py + 1) = vrank g px py).
    { unfold vrank. rewrite cbelow_succ by lia. replace (px <? rowlen g py) with false by lia. lia. }
    rewrite MY.
    destruct (py - 1 <? 0) eqn:E2.
    + assert (py = 0) by lia. subst py.
      destruct (px =? 0) eqn:E3.
      * split; [reflexivity|]. rewrite V. assert (px = 0) by lia. subst px. reflexivity.
      * replace (nrows g - 1 <? nrows g - 1) with false by lia.
        specialize (IH g (px - 1) (nrows g - 1) W ltac:(lia) ltac:(lia) ltac:(nia)).
        destruct (find_first fuel g 0 (-1) (px - 1) (nrows g - 1)) as [[[[px' py'] done] next]| |]; try contradiction.
        assert (V2 : vrank g (px - 1) (nrows g - 1 + 1) = vrank g px (0 + 1)).
        { rewrite V. replace (nrows g - 1 + 1) with (nrows g) by lia. rewrite vrank_wrap by lia. f_equal. lia. }
        destruct done; [destruct IH as [I1 I2]; split; [exact I1 | lia] | destruct IH as (I1 & I2 & I3 & I4); repeat split; try lia].
    + replace (nrows g - 1 <? py - 1) with false by lia.
      specialize (IH g px (py - 1) W Hx ltac:(lia) ltac:(nia)).
      destruct (find_first fuel g 0 (-1) px (py - 1)) as [[[[px' py'] done] next]| |]; try contradiction.
      replace (py - 1 + 1) with py in IH by lia.
      destruct done; [destruct IH as [I1 I2]; split; [exact I1 | lia] | destruct IH as (I1 & I2 & I3 & I4); repeat split; try lia].
  - repeat split; lia.
Qed.

Lemma ff_fuel_enough_back : forall g px py, wf_aliased g -> 0 <= px < g_maxx g -> 0 <= py < nrows g ->
  px * (nrows g + 1) + py < Z.of_nat (ff_fuel g).
Proof.
  intros g px py (A & MY & NC & N & MX & R) Hx Hy. unfold ff_fuel. rewrite NC.
  rewrite Nat2Z.inj_succ. rewrite Z2Nat.id by nia. nia.
Qed.

Lemma rank_al_succ : forall g y x, valid_al g (y, x) -> vrank g x (y + 1) = rank_al g (y, x) + 1.
Proof.
  intros g y x [[Hy Hx] Hm]. cbn [fst snd] in *. unfold rank_al, vrank. cbn [fst snd].
  rewrite cbelow_succ by lia. replace (x <? rowlen g y) with true by lia. lia.
Qed.

(* menu-complete-backward on an aliased group: the previous rank, or "done, previous group" from the first cell *)
Theorem aliased_backward_rank : forall g c, wf_aliased g -> valid_al g c ->
  match move_selector (at_cell g c) 0 (-1) with
  | Ok (g', false, _) => g' = at_cell g (pos_of g') /\ valid_al g (pos_of g') /\ rank_al g (pos_of g') = rank_al g c - 1
  | Ok (g', true, next) => (exists a b, g' = set_pos g a b) /\ next = false /\ rank_al g c = 0
  | _ => False
  end.
Proof.
  intros g [y x] W V. pose proof V as [[Hy Hx] Hm]. cbn [snd fst] in *. pose proof W as (A & MY & NC & N & MX & R).
  unfold at_cell, move_selector. cbn [fst snd g_px g_py set_pos g_rows g_aliased g_maxy g_maxx].
  replace (x =? -1) with false by lia. cbn [andb]. rewrite Z.add_0_r. replace (y + -1) with (y - 1) by lia.
  replace (x <? 0) with false by lia. cbn [bind].
  change (g_rows (set_pos g x y)) with (g_rows g). change (nrows (set_pos g x y)) with (nrows g).
  rewrite MY.
  destruct (y - 1 <? 0) eqn:E2.
  - assert (y = 0) by lia. subst y.
    destruct (x =? 0) eqn:E3.
    + split; [eexists; eexists; reflexivity|]. split; [reflexivity|]. assert (x = 0) by lia. subst x. reflexivity.
    + replace (nrows g - 1 <? nrows g - 1) with false by lia.
      pose proof (find_first_backward (ff_fuel g) g (x - 1) (nrows g - 1) W ltac:(lia) ltac:(lia)
                    (ff_fuel_enough_back g (x - 1) (nrows g - 1) W ltac:(lia) ltac:(lia))) as F.
      assert (V0 : vrank g (x - 1) (nrows g - 1 + 1) = rank_al g (0, x)).
      { replace (nrows g - 1 + 1) with (nrows g) by lia. rewrite vrank_wrap by lia. unfold rank_al. cbn [fst snd]. f_equal. lia. }
      rewrite (idx_rows 403 g (nrows g - 1) ltac:(lia)). cbn [bind]. rewrite A.
      destruct (rowlen g (nrows g - 1) - 1 <? x - 1) eqn:E5.
      * change (ff_fuel (set_pos g x 0)) with (ff_fuel g). rewrite find_first_set_pos.
        destruct (find_first (ff_fuel g) g 0 (-1) (x - 1) (nrows g - 1)) as [[[[px' py'] done] next]| |]; try contradiction. cbn [bind].
        destruct done.
        -- destruct F as [F1 F2]. split; [eexists; eexists; reflexivity|]. split; [exact F1|]. pose proof (ccount_ge0 (x - 1) (firstn (Z.to_nat (nrows g)) (g_rows g))).
           unfold rank_al in *. cbn [fst snd] in *. lia.
        -- destruct F as (F1 & F2 & F3 & F4). unfold pos_of, at_cell. cbn [g_px g_py set_pos].
           assert (VA : valid_al g (py', px')) by (unfold valid_al, valid; cbn [fst snd]; repeat split; lia).
           split; [reflexivity|]. split; [exact VA|]. pose proof (rank_al_succ g py' px' VA). lia.
      * unfold pos_of, at_cell. cbn [g_px g_py set_pos].
        assert (VA : valid_al g (nrows g - 1, x - 1)) by (unfold valid_al, valid; cbn [fst snd]; repeat split; lia).
        split; [reflexivity|]. split; [exact VA|]. pose proof (rank_al_succ g (nrows g - 1) (x - 1) VA). lia.
  - replace (nrows g - 1 <? y - 1) with false by lia.
    pose proof (find_first_backward (ff_fuel g) g x (y - 1) W ltac:(lia) ltac:(lia) (ff_fuel_enough_back g x (y - 1) W ltac:(lia) ltac:(lia))) as F.
    replace (y - 1 + 1) with y in F by lia.
    rewrite (idx_rows 403 g (y - 1) ltac:(lia)). cbn [bind]. rewrite A.
    destruct (rowlen g (y - 1) - 1 <? x) eqn:E5.
    + change (ff_fuel (set_pos g x y)) with (ff_fuel g). rewrite find_first_set_pos.
      destruct (find_first (ff_fuel g) g 0 (-1) x (y - 1)) as [[[[px' py'] done] next]| |]; try contradiction. cbn [bind].
      destruct done.
      * destruct F as [F1 F2]. split; [eexists; eexists; reflexivity|]. split; [exact F1|]. unfold rank_al. cbn [fst snd]. exact F2.
      * destruct F as (F1 & F2 & F3 & F4). unfold pos_of, at_cell. cbn [g_px g_py set_pos].
        assert (VA : valid_al g (py', px')) by (unfold valid_al, valid; cbn [fst snd]; repeat split; lia).
        split; [reflexivity|]. split; [exact VA|]. pose proof (rank_al_succ g py' px' VA). unfold rank_al in *. cbn [fst snd] in *. lia.
    + unfold pos_of, at_cell. cbn [g_px g_py set_pos].
      assert (VA : valid_al g (y - 1, x)) by (unfold valid_al, valid; cbn [fst snd]; repeat split; lia).
      split; [reflexivity|]. split; [exact VA|]. pose proof (rank_al_succ g (y - 1) x VA).
      replace (y - 1 + 1) with y in H by lia. unfold rank_al in *. cbn [fst snd] in *. lia.
Qed.

Lemma cbelow_mono : forall g x y1 y2, 0 <= y1 -> y1 <= y2 -> y2 <= nrows g -> cbelow g x y1 <= cbelow g x y2.
Proof.
  intros g x y1 y2 H0 H1 H2.
  replace y2 with (y1 + Z.of_nat (Z.to_nat (y2 - y1))) by lia.
  assert (G : forall k, y1 + Z.of_nat k <= nrows g -> cbelow g x y1 <= cbelow g x (y1 + Z.of_nat k)).
  { induction k; intros Hk; [rewrite Z.add_0_r; lia|].
    replace (y1 + Z.of_nat (S k)) with ((y1 + Z.of_nat k) + 1) by lia. rewrite cbelow_succ by lia.
    specialize (IHk ltac:(lia)). destruct (x <? rowlen g (y1 + Z.of_nat k)); lia. }
  apply G. lia.
Qed.

Lemma colsum_mono : forall g x1 x2, 0 <= x1 -> x1 <= x2 -> colsum g x1 <= colsum g x2.
Proof.
  intros g x1 x2 H0 H1. replace x2 with (x1 + Z.of_nat (Z.to_nat (x2 - x1))) by lia.
  induction (Z.to_nat (x2 - x1)) as [|k IH]; [rewrite Z.add_0_r; lia|].
  replace (x1 + Z.of_nat (S k)) with ((x1 + Z.of_nat k) + 1) by lia. rewrite colsum_succ by lia.
  pose proof (ccount_ge0 (x1 + Z.of_nat k) (g_rows g)). unfold ctotal. lia.
Qed.

Lemma total_al_pos : forall g, wf_aliased g -> 0 < total_al g.
Proof.
  intros g (A & MY & NC & N & MX & R). unfold total_al.
  pose proof (colsum_mono g 1 (g_maxx g) ltac:(lia) ltac:(lia)) as M.
  assert (C1 : colsum g 1 = ctotal g 0) by reflexivity.
  assert (P : 0 < ctotal g 0).
  { unfold ctotal, ccount. destruct (g_rows g) as [|l0 rs] eqn:RS; [unfold nrows, zlen in N; rewrite RS in N; cbn in N; lia|].
    inversion R; subst. cbn [filter]. replace (0 <? l0) with true by lia. unfold zlen. cbn [length]. lia. }
  lia.
Qed.

(* lastCell of an aliased group: the last rank *)
Theorem aliased_last_rank : forall g, wf_aliased g ->
  exists g', last_cell g = Ok g' /\ g' = at_cell g (pos_of g') /\ valid_al g (pos_of g') /\ rank_al g (pos_of g') = total_al g - 1.
Proof.
  intros g W. pose proof W as (A & MY & NC & N & MX & R). unfold last_cell. rewrite A. rewrite NC.
  pose proof (find_first_backward (ff_fuel g) g (g_maxx g - 1) (nrows g - 1) W ltac:(lia) ltac:(lia)
                (ff_fuel_enough_back g (g_maxx g - 1) (nrows g - 1) W ltac:(lia) ltac:(lia))) as F.
  destruct (find_first (ff_fuel g) g 0 (-1) (g_maxx g - 1) (nrows g - 1)) as [[[[px' py'] done] next]| |]; try contradiction.
  cbn [bind]. eexists. split; [reflexivity|]. unfold pos_of, at_cell. cbn [g_px g_py set_pos].
  assert (T : vrank g (g_maxx g - 1) (nrows g - 1 + 1) = total_al g).
  { replace (nrows g - 1 + 1) with (nrows g) by lia. rewrite vrank_wrap by lia. unfold total_al, vrank. rewrite cbelow_0.
    replace (g_maxx g - 1 + 1) with (g_maxx g) by lia. lia. }
  destruct done.
  - (* the scan cannot fall off the front: column 0 has a cell in every row *)
    destruct F as [_ F2]. exfalso. pose proof (total_al_pos g W). lia.
  - destruct F as (F1 & F2 & F3 & F4).
    assert (VA : valid_al g (py', px')) by (unfold valid_al, valid; cbn [fst snd]; repeat split; lia).
    split; [reflexivity|]. split; [exact VA|]. pose proof (rank_al_succ g py' px' VA). lia.
Qed.

(* the first use of an aliased group *)
Lemma aliased_fresh_forward : forall g, wf_aliased g -> g_px g = -1 -> g_py g = -1 ->
  move_selector g 0 1 = Ok (set_pos g 0 0, false, false).
Proof.
  intros g (A & MY & NC & N & MX & R) PX PY. unfold move_selector. rewrite PX, PY. cbn -[idx Z.sub nrows find_first Z.ltb].
  do 3 (change (0 <? 0) with false; cbn [bind]). replace (g_maxy g - 1 <? 0) with false by lia.
  rewrite (idx_rows 403 g 0 ltac:(lia)). cbn [bind].
  assert (1 <= rowlen g 0).
  { unfold rowlen. rewrite Forall_forall in R. apply R. apply nth_In. unfold nrows, zlen in N. lia. }
  replace (rowlen g 0 - 1 <? 0) with false by lia. reflexivity.
Qed.

(* the rank numbers the cells of an aliased grid: no two cells share one *)
Theorem rank_al_inj : forall g c1 c2, wf_aliased g -> valid_al g c1 -> valid_al g c2 -> rank_al g c1 = rank_al g c2 -> c1 = c2.
Proof.
  intros g [y1 x1] [y2 x2] W V1 V2 E. pose proof V1 as [[Hy1 Hx1] Hm1]. pose proof V2 as [[Hy2 Hx2] Hm2]. cbn [fst snd] in *.
  pose proof (rank_al_succ g y1 x1 V1) as S1. pose proof (rank_al_succ g y2 x2 V2) as S2.
  unfold rank_al, vrank in *. cbn [fst snd] in *.
  destruct (Z.lt_trichotomy x1 x2) as [L|[L|L]].
  - (* every cell of column x1 is before column x2 *)
    pose proof (cbelow_mono g x1 (y1 + 1) (nrows g) ltac:(lia) ltac:(lia) ltac:(lia)). rewrite cbelow_all in H.
    pose proof (colsum_mono g (x1 + 1) x2 ltac:(lia) ltac:(lia)). rewrite colsum_succ in H0 by lia.
    pose proof (ccount_ge0 x2 (firstn (Z.to_nat y2) (g_rows g))). unfold cbelow in *. lia.
  - subst x2. destruct (Z.lt_trichotomy y1 y2) as [M|[M|M]]; [|subst; reflexivity|].
    + pose proof (cbelow_mono g x1 (y1 + 1) y2 ltac:(lia) ltac:(lia) ltac:(lia)). lia.
    + pose proof (cbelow_mono g x1 (y2 + 1) y1 ltac:(lia) ltac:(lia) ltac:(lia)). lia.
  - pose proof (cbelow_mono g x2 (y2 + 1) (nrows g) ltac:(lia) ltac:(lia) ltac:(lia)). rewrite cbelow_all in H.
    pose proof (colsum_mono g (x2 + 1) x1 ltac:(lia) ltac:(lia)). rewrite colsum_succ in H0 by lia.
    pose proof (ccount_ge0 x1 (firstn (Z.to_nat y1) (g_rows g))). unfold cbelow in *. lia.
Qed.

Theorem rank_al_range : forall g c, wf_aliased g -> valid_al g c -> 0 <= rank_al g c < total_al g.
Proof.
  intros g [y x] W V. pose proof V as [[Hy Hx] Hm]. cbn [fst snd] in *.
  pose proof (rank_al_succ g y x V) as S. unfold rank_al, vrank, total_al in *. cbn [fst snd] in *.
  pose proof (cbelow_mono g x (y + 1) (nrows g) ltac:(lia) ltac:(lia) ltac:(lia)) as M. rewrite cbelow_all in M.
  pose proof (colsum_mono g (x + 1) (g_maxx g) ltac:(lia) ltac:(lia)) as C. rewrite colsum_succ in C by lia.
  pose proof (colsum_mono g 0 x ltac:(lia) ltac:(lia)) as C0. change (colsum g 0) with 0 in C0.
  pose proof (ccount_ge0 x (firstn (Z.to_nat y) (g_rows g))). unfold cbelow in *. lia.
Qed.
