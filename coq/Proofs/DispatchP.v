(* C03: which command a key sequence runs. *)
From Model Require Import Base Uni Utf8 Notation Dispatch.
From Coq Require Import ZifyBool.

(* ---- matchBind says what the table says *)

Definition entry_exact (keys : list Z) (e : list Z * bind_t) : bool := eqlZ keys (seq_bytes (fst e)).
Definition entry_ext (keys : list Z) (e : list Z * bind_t) : bool := strict_prefix keys (seq_bytes (fst e)).

Lemma match_fold_ext : forall l keys acc,
  snd (fold_left (fun acc e => (if entry_exact keys e then snd e else fst acc, snd acc || entry_ext keys e)) l acc)
  = snd acc || existsb (entry_ext keys) l.
Proof.
  induction l as [|e l IH]; intros keys acc; cbn [fold_left existsb].
  - rewrite orb_false_r. reflexivity.
  - rewrite IH. cbn [snd]. rewrite orb_assoc. reflexivity.
Qed.

Lemma match_fold_exact : forall l keys acc,
  let r := fst (fold_left (fun acc e => (if entry_exact keys e then snd e else fst acc, snd acc || entry_ext keys e)) l acc) in
  (existsb (entry_exact keys) l = false /\ r = fst acc) \/
  (exists e, In e l /\ entry_exact keys e = true /\ r = snd e).
Proof.
  induction l as [|e l IH]; intros keys acc; cbn [fold_left existsb].
  - left. split; reflexivity.
  - specialize (IH keys (if entry_exact keys e then snd e else fst acc, snd acc || entry_ext keys e)).
    cbv zeta in IH. destruct IH as [[Hn Hr] | (e' & Hin & He & Hr)].
    + cbn [fst] in Hr. destruct (entry_exact keys e) eqn:E.
      * right. exists e. split; [left; reflexivity | split; [exact E | exact Hr]].
      * left. split; [cbn; exact Hn | exact Hr].
    + right. exists e'. split; [right; exact Hin | split; assumption].
Qed.

Lemma insert_sorted_in : forall x l e, In e (insert_sorted x l) <-> e = x \/ In e l.
Proof.
  induction l as [|y l IH]; intros e; cbn [insert_sorted].
  - cbn. intuition.
  - destruct (seq_le (fst x) (fst y)); cbn [In]; [intuition|]. rewrite IH. intuition.
Qed.

Lemma sort_table_in : forall t e, In e (sort_table t) <-> In e t.
Proof.
  induction t as [|x t IH]; intros e; cbn [sort_table fold_right]; [tauto|].
  fold (sort_table t). rewrite insert_sorted_in. rewrite IH. cbn. intuition.
Qed.

Lemma match_table_unfold : forall t keys, match_table t keys =
  fold_left (fun acc e => (if entry_exact keys e then snd e else fst acc, snd acc || entry_ext keys e)) (sort_table t) (no_bind, false).
Proof. reflexivity. Qed.

(* an exact match of the table scan is the bind of an entry whose sequence is exactly
   the keys; none is returned when no entry is *)
Theorem match_table_exact : forall t keys,
  (fst (match_table t keys) = no_bind /\ forall e, In e t -> entry_exact keys e = false) \/
  (exists e, In e t /\ entry_exact keys e = true /\ fst (match_table t keys) = snd e).
Proof.
  intros t keys. rewrite match_table_unfold.
  destruct (match_fold_exact (sort_table t) keys (no_bind, false)) as [[Hn Hr] | (e & Hin & He & Hr)].
  - left. split; [exact Hr|]. intros e Hin. apply sort_table_in in Hin.
    destruct (entry_exact keys e) eqn:E; [|reflexivity].
    assert (existsb (entry_exact keys) (sort_table t) = true) by (apply existsb_exists; exists e; split; assumption).
    congruence.
  - right. exists e. split; [apply sort_table_in; exact Hin | split; assumption].
Qed.

(* the prefix flag of the table scan is set iff the keys are a proper prefix of some entry's sequence *)
Theorem match_table_ext : forall t keys,
  snd (match_table t keys) = true <-> exists e, In e t /\ entry_ext keys e = true.
Proof.
  intros t keys. rewrite match_table_unfold.
  rewrite (match_fold_ext (sort_table t) keys (no_bind, false)). cbn [snd orb].
  rewrite existsb_exists. split; intros (e & Hin & He); exists e; (split; [apply sort_table_in; exact Hin | exact He]).
Qed.

(* the keys start a character encoded on several bytes in a keymap where characters
   insert themselves *)
Definition uni_keys (t : table) (keys : list Z) : bool :=
  match keys with k0 :: _ => (128 <=? k0) && inserts_text t | [] => false end.

(* matchBind: what the table says; and where the table binds nothing to the keys, the
   complete encoding of a character runs self-insert *)
Theorem match_bind_exact : forall t keys,
  (fst (match_bind t keys) = no_bind /\ forall e, In e t -> entry_exact keys e = false) \/
  (exists e, In e t /\ entry_exact keys e = true /\ fst (match_bind t keys) = snd e) \/
  (fst (match_bind t keys) = self_insert_bind /\ is_bound (fst (match_table t keys)) = false /\
   uni_keys t keys = true /\ utf8_char keys = true).
Proof.
  intros t keys. pose proof (match_table_exact t keys) as T. unfold match_bind, uni_keys.
  destruct (match_table t keys) as [m ext]. cbn [fst] in *.
  destruct keys as [|k0 r]; [destruct T as [T | T]; [left | right; left]; exact T|].
  destruct ((128 <=? k0) && inserts_text t); [|destruct T as [T | T]; [left | right; left]; exact T].
  destruct (negb (full_rune (k0 :: r))); [destruct T as [T | T]; [left | right; left]; exact T|].
  destruct (negb (is_bound m) && utf8_char (k0 :: r)) eqn:E; [|destruct T as [T | T]; [left | right; left]; exact T].
  apply andb_true_iff in E. destruct E as [E1 E2].
  right. right. cbn [fst]. split; [reflexivity|]. split; [destruct (is_bound m); [discriminate | reflexivity]|].
  split; [reflexivity | exact E2].
Qed.

(* the prefix flag: some entry's sequence extends the keys, or the keys are the incomplete
   encoding of a character in a keymap where characters insert themselves *)
Theorem match_bind_ext : forall t keys,
  snd (match_bind t keys) = true <->
  (exists e, In e t /\ entry_ext keys e = true) \/ (uni_keys t keys = true /\ full_rune keys = false).
Proof.
  intros t keys. rewrite <- match_table_ext. unfold match_bind, uni_keys.
  destruct (match_table t keys) as [m ext]. cbn [snd].
  destruct keys as [|k0 r]; [cbn [snd]; intuition discriminate|].
  destruct ((128 <=? k0) && inserts_text t); [|cbn [snd]; intuition discriminate].
  destruct (full_rune (k0 :: r)); cbn [negb].
  - destruct (negb (is_bound m) && utf8_char (k0 :: r)); cbn [snd]; intuition discriminate.
  - cbn [snd]. intuition.
Qed.

(* no macro comes from the fallback *)
Lemma match_bind_macro : forall t keys,
  snd (fst (match_bind t keys)) = false \/ exists e, In e t /\ fst (match_bind t keys) = snd e.
Proof.
  intros t keys. destruct (match_bind_exact t keys) as [[H _] | [(e & Hin & _ & H) | [H _]]].
  - left. rewrite H. reflexivity.
  - right. exists e. split; assumption.
  - left. rewrite H. reflexivity.
Qed.

(* ---- one token of dispatchKeys as a function of the buffered keys *)

Inductive tok_res :=
| TokMore (mem : bind_t) (read : list Z)                  (* keys ran out while still a prefix *)
| TokDone (b : bind_t) (read : list Z) (rest : list Z).   (* ended: the bind to run (possibly none), keys consumed, keys left *)

Fixpoint token (t : table) (mem : bind_t) (read buf : list Z) : tok_res :=
  match buf with
  | [] => TokMore mem read
  | key :: r =>
    let read' := read ++ [key] in
    let '(m, ext) := match_bind t read' in
    if negb (is_bound m) && negb ext then TokDone mem read' r
    else if ext then token t (if is_bound m then m else mem) read' r
    else TokDone m read' r
  end.

Definition with_buf (k : keys) (b : list Z) : keys :=
  {| k_buf := b; k_macro := k_macro k; k_matched := k_matched k; k_must_wait := k_must_wait k |}.

(* dispatchKeys is that scan (no macro keys pending, enough fuel for the buffer) *)
Lemma dispatch_go_token : forall f t e k prefix read matched,
  k_macro k = [] -> (length (k_buf k) < f)%nat ->
  match token t (e_prefixed e) read (k_buf k) with
  | TokMore mem read' =>
    exists matched', dispatch_go f t e k prefix read matched =
      ({| e_active := e_active e; e_prefixed := mem; e_vi := e_vi e |}, with_buf k [],
       match k_buf k with [] => prefix | _ => true end, read', matched')
  | TokDone b read' rest =>
    exists matched', dispatch_go f t e k prefix read matched =
      ({| e_active := b; e_prefixed := no_bind; e_vi := e_vi e |}, with_buf k rest, false, read', matched')
  end.
Proof.
  induction f as [|f IH]; intros t e k prefix read matched Hm Hf; [lia|].
  destruct k as [buf mac mt mw]. cbn [k_macro k_buf] in *. subst mac.
  destruct buf as [|key r]; cbn [token dispatch_go peek_key k_buf].
  - exists matched. destruct e. reflexivity.
  - destruct (match_bind t (read ++ [key])) as [m ext] eqn:E.
    destruct (negb (is_bound m) && negb ext) eqn:F.
    + exists matched. reflexivity.
    + cbn [pop_key k_buf k_macro k_matched k_must_wait].
      destruct ext.
      * specialize (IH t {| e_active := e_active e; e_prefixed := if is_bound m then m else e_prefixed e; e_vi := e_vi e |}
                       {| k_buf := r; k_macro := []; k_matched := mt; k_must_wait := mw |} true (read ++ [key]) (matched ++ [key])
                       eq_refl ltac:(cbn in *; lia)).
        cbn [e_prefixed e_active e_vi k_buf] in IH.
        destruct (token t (if is_bound m then m else e_prefixed e) (read ++ [key]) r) as [mem read' | b read' rest].
        -- destruct IH as [m' IH]. exists m'. rewrite IH. unfold with_buf. cbn. destruct r; reflexivity.
        -- destruct IH as [m' IH]. exists m'. rewrite IH. reflexivity.
      * exists (matched ++ [key]). reflexivity.
Qed.

(* ---- the sentences of the property, on one token *)

(* every non-empty proper prefix of s is a proper prefix of some binding *)
Fixpoint all_ext (t : table) (read s : list Z) : bool :=
  match s with
  | [] => true
  | key :: r => match r with
                | [] => true
                | _ => snd (match_bind t (read ++ [key])) && all_ext t (read ++ [key]) r
                end
  end.

(* "typing a bound sequence that no longer binding extends runs exactly that binding's
   command, once, when its last key arrives" - whatever follows it in the buffer *)
Theorem bound_unextended_runs : forall t s read mem rest,
  s <> [] -> all_ext t read s = true ->
  snd (match_bind t (read ++ s)) = false -> is_bound (fst (match_bind t (read ++ s))) = true ->
  token t mem read (s ++ rest) = TokDone (fst (match_bind t (read ++ s))) (read ++ s) rest.
Proof.
  intros t s. induction s as [|key r IH]; intros read mem rest Hne Hall Hext Hb; [contradiction|].
  cbn [app token]. destruct r as [|key2 r'].
  - cbn [app] in *. destruct (match_bind t (read ++ [key])) as [m ext] eqn:E. cbn [fst snd] in *. subst ext.
    rewrite Hb. cbn [negb andb]. reflexivity.
  - cbn [all_ext] in Hall. apply andb_true_iff in Hall. destruct Hall as [H1 H2].
    destruct (match_bind t (read ++ [key])) as [m ext] eqn:E. cbn [snd] in H1. subst ext.
    rewrite andb_false_r.
    replace (read ++ key :: key2 :: r') with ((read ++ [key]) ++ key2 :: r') in * by (rewrite <- app_assoc; reflexivity).
    apply IH; [discriminate | exact H2 | exact Hext | exact Hb].
Qed.

(* "while the keys typed so far are only a proper prefix of bindings no command runs" *)
Theorem prefix_runs_nothing : forall t s read mem,
  all_ext t read (s ++ [0]) = true ->
  exists mem', token t mem read s = TokMore mem' (read ++ s).
Proof.
  intros t s. induction s as [|key r IH]; intros read mem Hall.
  - exists mem. cbn. rewrite app_nil_r. reflexivity.
  - cbn [app token]. cbn [app all_ext] in Hall.
    assert (Hall' : snd (match_bind t (read ++ [key])) && all_ext t (read ++ [key]) (r ++ [0]) = true).
    { destruct (r ++ [0]) as [|x y] eqn:Er; [destruct r; discriminate | exact Hall]. }
    clear Hall. apply andb_true_iff in Hall'. destruct Hall' as [H1 H2].
    destruct (match_bind t (read ++ [key])) as [m ext] eqn:E. cbn [snd] in H1. subst ext.
    rewrite andb_false_r.
    destruct (IH (read ++ [key]) (if is_bound m then m else mem) H2) as [mem' Hm].
    exists mem'. rewrite Hm. rewrite <- app_assoc. reflexivity.
Qed.

(* "keys matching no binding run nothing": at the start of a token nothing is
   remembered, and a first key that is neither bound nor a prefix is dropped *)
Theorem unbound_key_runs_nothing : forall t key rest,
  match_bind t [key] = (no_bind, false) ->
  token t no_bind [] (key :: rest) = TokDone no_bind [key] rest.
Proof. intros t key rest H. cbn [token app]. rewrite H. reflexivity. Qed.

(* "never trigger a command bound to a different sequence": whatever a token runs is
   the exact match of the keys it read, or the remembered exact match of a proper
   prefix of them (the shorter binding, once the next key rules the longer ones out) *)
Fixpoint remembered (t : table) (mem : bind_t) (read s : list Z) : bind_t :=
  match s with
  | [] => mem
  | key :: r => let m := fst (match_bind t (read ++ [key])) in
                remembered t (if is_bound m then m else mem) (read ++ [key]) r
  end.

Theorem token_runs_only_bound : forall t buf mem read b read' rest,
  token t mem read buf = TokDone b read' rest ->
  exists s key, read' = read ++ s ++ [key] /\ buf = s ++ key :: rest /\
    (b = fst (match_bind t read') /\ snd (match_bind t read') = false /\ is_bound b = true
     \/ b = remembered t mem read s /\ match_bind t read' = (fst (match_bind t read'), false)
        /\ is_bound (fst (match_bind t read')) = false).
Proof.
  intros t buf. induction buf as [|key r IH]; intros mem read b read' rest H; cbn [token] in H; [discriminate|].
  destruct (match_bind t (read ++ [key])) as [m ext] eqn:E.
  destruct (negb (is_bound m) && negb ext) eqn:F.
  - inversion H; subst. exists [], key. split; [reflexivity | split; [reflexivity|]]. right.
    apply andb_true_iff in F. destruct F as [F1 F2].
    cbn [app]. rewrite E. cbn [fst]. split; [reflexivity|]. split; [destruct ext; [discriminate | reflexivity] | destruct (is_bound m); [discriminate | reflexivity]].
  - destruct ext.
    + apply IH in H. destruct H as (s & k2 & H1 & H2 & H3).
      exists (key :: s), k2. split; [rewrite H1; rewrite <- app_assoc; reflexivity|].
      split; [rewrite H2; reflexivity|]. cbn [remembered]. rewrite E. cbn [fst]. exact H3.
    + inversion H; subst. exists [], key. split; [reflexivity | split; [reflexivity|]]. left.
      cbn [app]. rewrite E. cbn [fst snd]. split; [reflexivity | split; [reflexivity|]].
      destruct (is_bound b); [reflexivity | discriminate].
Qed.
