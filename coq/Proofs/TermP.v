(* C01: the input loop never spins.  For every bind table without macro bindings, every
   engine mode (emacs or vi main keymap), convert-meta on or off, every script of reads
   (empty reads and the end of input included) and whatever the commands do to the
   application state, the loop reaches - within a number of iterations bounded by the
   bytes typed - a blocking read, a return, or the end of input. *)
From Model Require Import Base Uni Utf8 Notation Dispatch.
From Proofs Require Import DispatchP LoopP.

Lemma match_main_nonempty : forall t e k, t <> [] ->
  match_main t e k =
  let '(e1, k1, prefix, read, _) := dispatch_keys t e k in
  let b := e_active e1 in
  let k2 := if prefix then matched_prefix k1 read else matched_keys k1 read [] in
  if prefix && e_vi e1 && eqlZ (k_matched k2) [27] then
    let b' := if eqlZ (fst (e_prefixed e1)) s_vi_movement then e_prefixed e1 else no_bind in
    ({| e_active := e_active e1; e_prefixed := no_bind; e_vi := e_vi e1 |}, pop_force k2, b', false)
  else (e1, k2, b, prefix).
Proof. intros t e k H. destruct t; [contradiction | reflexivity]. Qed.

Section Term.
  Variable A : Type.
  Variable exec : list Z -> list Z -> A -> option (A * bool).
  Variable t : table.
  Hypothesis t_nonempty : t <> [].
  Hypothesis no_macros : forall e, In e t -> snd (snd e) = false.

  (* the bytes a read adds to the key buffer *)
  Definition conv (cm : bool) (c : list Z) : list Z :=
    if cm then conv_read c else c.

  Fixpoint iweight (cm : bool) (ins : list input) : nat :=
    match ins with
    | [] => 0
    | Chunk c :: r => 2 * length (conv cm c) + 2 + iweight cm r
    | Eof :: r => 1 + iweight cm r
    end.
  Definition kweight (k : keys) : nat := 2 * length (k_buf k) + (if k_must_wait k then 0 else 1).

  Definition finished (o : outcome A) : Prop := match o with NoFuel _ _ => False | _ => True end.

  (* what one MatchMain does to the key buffer *)
  Lemma match_main_progress : forall e k,
    k_macro k = [] -> k_buf k <> [] -> snd (e_prefixed e) = false ->
    match match_main t e k with
    | (e', k', b, prefix) =>
      k_macro k' = [] /\ snd (e_prefixed e') = false /\
      (if prefix then k_buf k' = k_buf k /\ k_must_wait k' = true
       else snd b = false /\ (length (k_buf k') < length (k_buf k))%nat)
    end.
  Proof.
    intros e k Hm Hb Hp. rewrite (match_main_nonempty t e k t_nonempty).
    unfold dispatch_keys.
    pose proof (dispatch_go_token (S (length (k_buf k) + length (k_macro k))) t e k false [] [] Hm ltac:(lia)) as D.
    destruct (token t (e_prefixed e) [] (k_buf k)) as [mem' r | b r rest] eqn:T.
    - destruct D as [m' D]. rewrite D.
      destruct (token_app_more t (k_buf k) (e_prefixed e) [] [] mem' r T) as [Er _]. cbn [app] in Er. subst r.
      pose proof (token_more_no_macro t no_macros _ _ _ _ _ Hp T) as Nm.
      destruct (k_buf k) as [|b0 buf'] eqn:Eb; [contradiction|].
      unfold with_buf, matched_prefix. cbn [k_buf k_macro k_matched k_must_wait e_active e_prefixed e_vi andb app].
      rewrite app_nil_r.
      destruct (e_vi e && eqlZ (utf8_decode (b0 :: buf')) [27]).
      + unfold pop_force, peek_key, pop_key. cbn [k_buf k_macro k_matched k_must_wait e_prefixed].
        split; [exact Hm|]. split; [reflexivity|]. split; [|cbn; lia].
        destruct (eqlZ (fst mem') s_vi_movement); [exact Nm | reflexivity].
      + cbn [k_buf k_macro k_must_wait e_prefixed]. split; [exact Hm|]. split; [exact Nm|]. split; reflexivity.
    - destruct D as [m' D]. rewrite D.
      pose proof (token_done_no_macro t no_macros _ _ _ _ _ _ Hp T) as Nb.
      pose proof (token_done_shorter t _ _ _ _ _ _ T) as Hs.
      unfold with_buf, matched_keys. cbn [k_buf k_macro k_matched k_must_wait e_active e_prefixed e_vi andb app].
      split; [exact Hm|]. split; [reflexivity|]. split; [exact Nb | exact Hs].
  Qed.

  Theorem loop_terminates : forall fuel cm st ins,
    k_macro (l_keys A st) = [] -> snd (e_prefixed (l_eng A st)) = false ->
    (kweight (l_keys A st) + iweight cm ins < fuel)%nat ->
    finished (loop A exec fuel cm t st ins).
  Proof.
    induction fuel as [|f IH]; intros cm st ins Hm Hp Hw; [lia|].
    cbn [loop].
    destruct st as [e k a]. cbn [l_keys l_eng l_app] in *.
    (* what the wait gives: the buffer and the rest of the script, with a smaller weight or
       the same weight and the right to dispatch *)
    assert (W : match wait_keys cm (flush_used k) ins with
                | None => True
                | Some (k1, ins1, true) => True
                | Some (k1, ins1, false) =>
                  k_macro k1 = [] /\
                  ((kweight k1 + iweight cm ins1 < kweight k + iweight cm ins)%nat \/
                   (kweight k1 + iweight cm ins1 = kweight k + iweight cm ins)%nat /\ k_buf k1 <> [] /\ k_must_wait k1 = false)
                end).
    { unfold wait_keys, flush_used. cbn [k_buf k_macro k_must_wait k_matched]. rewrite Hm.
      destruct (k_buf k) as [|b0 buf'] eqn:Eb.
      - destruct ins as [|[c|] ins1]; [exact I | | exact I].
        cbn [k_macro k_buf]. split; [reflexivity|]. left. unfold kweight. cbn [k_buf k_must_wait iweight app]. rewrite Eb.
        unfold conv. destruct cm; destruct (k_must_wait k); cbn [length]; lia.
      - destruct (k_must_wait k) eqn:Emw.
        + destruct ins as [|[c|] ins1]; [exact I | | exact I].
          cbn [k_macro]. split; [reflexivity|]. left. unfold kweight. cbn [k_buf k_must_wait iweight]. rewrite Eb, Emw.
          unfold conv. destruct cm; rewrite app_length; cbn [length]; lia.
        + cbn [k_macro]. split; [reflexivity|]. right. unfold kweight. cbn [k_buf k_must_wait]. rewrite Eb, Emw.
          split; [reflexivity|]. split; [discriminate | reflexivity]. }
    destruct (wait_keys cm (flush_used k) ins) as [[[k1 ins1] ended]|]; [|exact I].
    destruct ended; [exact I|].
    destruct W as [Hm1 W].
    destruct (k_buf k1) as [|x xs] eqn:Eb1.
    - rewrite Hm1. apply IH; cbn [l_keys l_eng]; [exact Hm1 | exact Hp|].
      destruct W as [W | [_ [W _]]]; [lia | contradiction].
    - assert (Hne : k_buf k1 <> []) by (rewrite Eb1; discriminate).
      pose proof (match_main_progress e k1 Hm1 Hne Hp) as M.
      destruct (match_main t e k1) as [[[e' k'] b] prefix].
      destruct M as [Hm' [Hp' M]].
      destruct prefix.
      + destruct M as [Eb' Emw']. apply IH; cbn [l_keys l_eng]; [exact Hm' | exact Hp'|].
        unfold kweight in *. rewrite Eb', Emw'.
        destruct W as [W | [W [_ Wmw]]]; [destruct (k_must_wait k1); lia | rewrite Wmw in W; lia].
      + destruct M as [Nb Hl]. rewrite Nb. cbn [negb andb].
        assert (Hk : (kweight k' + iweight cm ins1 < f)%nat).
        { unfold kweight in *. destruct W as [W | [W _]]; destruct (k_must_wait k'), (k_must_wait k1); lia. }
        destruct (is_bound b).
        * destruct (exec (fst b) (k_matched k') a) as [[a' acc]|]; [destruct acc; [exact I|] |];
            (apply IH; cbn [l_keys l_eng]; [exact Hm' | exact Hp' | exact Hk]).
        * apply IH; cbn [l_keys l_eng]; [exact Hm' | exact Hp' | exact Hk].
  Qed.

  (* from the start of a Readline call *)
  Corollary readline_loop_terminates : forall cm vi a ins,
    finished (loop A exec (S (S (iweight cm ins))) cm t (init_state A vi a) ins).
  Proof.
    intros cm vi a ins. apply loop_terminates; [reflexivity | reflexivity|].
    unfold init_state, kweight. cbn [l_keys k_buf k_must_wait length]. lia.
  Qed.

  (* the end of input is where the loop stops *)
  Lemma loop_stops_at_eof : forall f cm st r,
    k_macro (l_keys A st) = [] -> (k_buf (l_keys A st) = [] \/ k_must_wait (l_keys A st) = true) ->
    exists st', loop A exec (S f) cm t st (Eof :: r) = Ended A st' /\ l_app A st' = l_app A st.
  Proof.
    intros f cm st r Hm Hw. cbn [loop]. unfold wait_keys, flush_used. cbn [k_buf k_macro k_must_wait]. rewrite Hm.
    destruct (k_buf (l_keys A st)) as [|b0 buf'] eqn:Eb.
    - eexists. split; reflexivity.
    - destruct Hw as [Hw | Hw]; [discriminate|]. rewrite Hw. eexists. split; reflexivity.
  Qed.
End Term.

(* with a macro bound to its own key the loop never blocks again: no fuel is enough *)
Definition self_macro : table := [([97], ([97], true))].
Lemma self_macro_step : forall A exec f cm e mt mw a,
  loop A exec (S f) cm self_macro
       {| l_eng := e; l_keys := {| k_buf := []; k_macro := [97]; k_matched := mt; k_must_wait := mw |}; l_app := a |} []
  = loop A exec f cm self_macro
       {| l_eng := {| e_active := ([97], true); e_prefixed := no_bind; e_vi := e_vi e |};
          l_keys := {| k_buf := []; k_macro := [97]; k_matched := [97]; k_must_wait := false |}; l_app := a |} [].
Proof. intros. destruct mw; reflexivity. Qed.

Theorem self_macro_spins : forall A exec f cm e mt mw a,
  exists st, loop A exec f cm self_macro
       {| l_eng := e; l_keys := {| k_buf := []; k_macro := [97]; k_matched := mt; k_must_wait := mw |}; l_app := a |} []
  = NoFuel A st.
Proof.
  intros A exec f. induction f as [|f IH]; intros cm e mt mw a.
  - eexists. reflexivity.
  - rewrite self_macro_step. apply IH.
Qed.
