(* C15: the composition over several groups: Engine.Select around the per-group theorems. *)
From Model Require Import Base Grid.
From Proofs Require Import HistoryP GridP.
From Coq Require Import ZifyBool.
Open Scope Z_scope.

(* one interface for plain and aliased groups *)
Definition gwf (g : grp) : Prop := if g_aliased g then wf_aliased g else wf_plain g.
Definition gvalid (g : grp) (c : Z * Z) : Prop := if g_aliased g then valid_al g c else valid g c.
Definition grank (g : grp) (c : Z * Z) : Z := if g_aliased g then rank_al g c else rank_plain g c.
Definition gtotal (g : grp) : Z := if g_aliased g then total_al g else total g.
Definition gdir (g : grp) (d : Z) : Z * Z := if g_aliased g then (0, d) else (d, 0).

Lemma set_pos_eta : forall g, set_pos g (g_px g) (g_py g) = g.
Proof. destruct g; reflexivity. Qed.

Lemma at_cell_aliased : forall g c, g_aliased (at_cell g c) = g_aliased g. Proof. reflexivity. Qed.

Lemma gwf_nonempty : forall g, gwf g -> 0 < nrows g.
Proof. intros g H. unfold gwf in H. destruct (g_aliased g); [destruct H as (_ & _ & _ & N & _) | destruct H as (_ & _ & _ & N)]; exact N. Qed.

(* a step inside a group, both kinds, forward *)
Lemma group_forward : forall g c, gwf g -> gvalid g c ->
  match move_selector (at_cell g c) (fst (gdir g 1)) (snd (gdir g 1)) with
  | Ok (g', false, _) => g' = at_cell g (pos_of g') /\ gvalid g (pos_of g') /\ grank g (pos_of g') = grank g c + 1
  | Ok (g', true, next) => (exists a b, g' = set_pos g a b) /\ next = true /\ grank g c + 1 = gtotal g
  | _ => False
  end.
Proof.
  intros g c W V. unfold gwf, gvalid, grank, gtotal, gdir in *. destruct (g_aliased g) eqn:A; cbn [fst snd].
  - exact (aliased_forward_rank g c W V).
  - pose proof (plain_forward_rank g c W V) as P.
    destruct (move_selector (at_cell g c) 1 0) as [[[g' done] next]| |]; try contradiction.
    destruct done; [destruct P as (P0 & P1 & P2); split; [exact P0|]; split; [exact P1 | lia] | exact P].
Qed.

Lemma group_backward : forall g c, gwf g -> gvalid g c ->
  match move_selector (at_cell g c) (fst (gdir g (-1))) (snd (gdir g (-1))) with
  | Ok (g', false, _) => g' = at_cell g (pos_of g') /\ gvalid g (pos_of g') /\ grank g (pos_of g') = grank g c - 1
  | Ok (g', true, next) => (exists a b, g' = set_pos g a b) /\ next = false /\ grank g c = 0
  | _ => False
  end.
Proof.
  intros g c W V. unfold gwf, gvalid, grank, gdir in *. destruct (g_aliased g) eqn:A; cbn [fst snd].
  - exact (aliased_backward_rank g c W V).
  - exact (plain_backward_rank g c W V).
Qed.

Lemma group_first : forall g, gwf g -> gvalid g (pos_of (first_cell g)) /\ grank g (pos_of (first_cell g)) = 0.
Proof.
  intros g W. unfold gwf, gvalid, grank in *. unfold first_cell, pos_of. cbn [g_px g_py set_pos].
  destruct (g_aliased g) eqn:A.
  - destruct W as (_ & _ & _ & N & MX & R). split; [|reflexivity]. unfold valid_al, valid. cbn [fst snd].
    assert (1 <= rowlen g 0 <= g_maxx g).
    { unfold rowlen. rewrite Forall_forall in R. apply R. apply nth_In. unfold nrows, zlen in N. lia. }
    repeat split; lia.
  - destruct W as (_ & _ & R & N). split; [|reflexivity]. unfold valid. pose proof (rowlen_pos g 0 R ltac:(lia)). lia.
Qed.

Lemma group_last : forall g, gwf g ->
  exists g', last_cell g = Ok g' /\ g' = at_cell g (pos_of g') /\ gvalid g (pos_of g') /\ grank g (pos_of g') = gtotal g - 1.
Proof.
  intros g W. unfold gwf, gvalid, grank, gtotal in *. destruct (g_aliased g) eqn:A.
  - exact (aliased_last_rank g W).
  - exact (plain_last_rank g W).
Qed.

(* ---- lists of groups *)

Lemma nth_grp_some : forall e i g, nth_grp e i = Some g -> 0 <= i < zlen (e_groups e).
Proof.
  intros e i g H. unfold nth_grp in H. destruct (i <? 0) eqn:E; [discriminate|].
  assert (nth_error (e_groups e) (Z.to_nat i) <> None) by congruence.
  apply nth_error_Some in H0. unfold zlen. lia.
Qed.

Lemma nth_error_set_nth_same : forall (A : Type) (l : list A) i a, (i < length l)%nat -> nth_error (set_nth l i a) i = Some a.
Proof. induction l as [|x l IH]; intros i a H; [cbn in H; lia|]. destruct i; cbn; [reflexivity | apply IH; cbn in H; lia]. Qed.

Lemma nth_error_set_nth_other : forall (A : Type) (l : list A) i j a, i <> j -> nth_error (set_nth l j a) i = nth_error l i.
Proof.
  induction l as [|x l IH]; intros i j a H; [destruct j; reflexivity|].
  destruct i, j; cbn; try reflexivity; try congruence. apply IH. congruence.
Qed.

Lemma set_nth_length : forall (A : Type) (l : list A) i a, length (set_nth l i a) = length l.
Proof. induction l as [|x l IH]; intros i a; [reflexivity|]. destruct i; cbn; [reflexivity | rewrite IH; reflexivity]. Qed.

Lemma put_grp_same : forall e i g, 0 <= i < zlen (e_groups e) -> nth_grp (put_grp e i g) i = Some g.
Proof.
  intros e i g H. unfold nth_grp, put_grp. cbn [e_groups]. replace (i <? 0) with false by lia.
  apply nth_error_set_nth_same. unfold zlen in H. lia.
Qed.

Lemma put_grp_other : forall e i j g, 0 <= i -> 0 <= j -> i <> j -> nth_grp (put_grp e j g) i = nth_grp e i.
Proof.
  intros e i j g Hi Hj H. unfold nth_grp, put_grp. cbn [e_groups]. replace (i <? 0) with false by lia.
  apply nth_error_set_nth_other. lia.
Qed.

Lemma put_grp_len : forall e i g, zlen (e_groups (put_grp e i g)) = zlen (e_groups e).
Proof. intros. unfold put_grp, zlen. cbn [e_groups]. rewrite set_nth_length. reflexivity. Qed.

(* every group holds candidates and has the shape its constructor gives it *)
Definition all_wf (e : eng) : Prop := forall i g, nth_grp e i = Some g -> gwf g.

Lemma current_id : forall e, 0 <= e_cur e -> current e = e.
Proof. intros e H. unfold current. replace (0 <=? e_cur e) with true by lia. reflexivity. Qed.

(* with every group non-empty, cycling moves to the neighbour, around the ends *)
Lemma cycle_group_step : forall f e dir, all_wf e -> 0 <= e_cur e < zlen (e_groups e) -> (dir = 1 \/ dir = -1) ->
  cycle_group (S f) e dir =
  Ok {| e_groups := e_groups e;
        e_cur := if 0 <? dir then (if e_cur e =? zlen (e_groups e) - 1 then 0 else e_cur e + 1)
                 else (if e_cur e =? 0 then zlen (e_groups e) - 1 else e_cur e - 1) |}.
Proof.
  intros f e dir W Hc Hd. cbn [cycle_group]. cbv zeta.
  replace (e_cur e <? 0) with false by lia.
  set (c' := if 0 <? dir then (if e_cur e =? zlen (e_groups e) - 1 then 0 else e_cur e + 1)
             else (if e_cur e =? 0 then zlen (e_groups e) - 1 else e_cur e - 1)).
  assert (Hc' : 0 <= c' < zlen (e_groups e)).
  { unfold c'. destruct (0 <? dir); [destruct (e_cur e =? zlen (e_groups e) - 1) eqn:E | destruct (e_cur e =? 0) eqn:E]; lia. }
  rewrite current_id by (cbn [e_cur]; lia). cbn [e_cur].
  destruct (nth_grp {| e_groups := e_groups e; e_cur := c' |} c') as [g|] eqn:G.
  - assert (Wg : gwf g) by (apply (W c' g); exact G).
    pose proof (gwf_nonempty g Wg). replace (nrows g =? 0) with false by lia. reflexivity.
  - exfalso. unfold nth_grp in G. cbn [e_groups] in G. replace (c' <? 0) with false in G by lia.
    apply nth_error_None in G. unfold zlen in Hc'. lia.
Qed.

(* ---- global rank: candidates of the earlier groups, then the rank inside the group *)

Definition gtotals (e : eng) : list Z := map gtotal (e_groups e).
Definition goffset (e : eng) (i : Z) : Z := zsum (firstn (Z.to_nat i) (gtotals e)).
Definition Gtotal (e : eng) : Z := zsum (gtotals e).

Lemma gwf_at_cell : forall g c, gwf g -> gwf (at_cell g c).
Proof. intros g c H. exact H. Qed.
Lemma colsum_n_set_pos : forall g a b k, colsum_n (set_pos g a b) k = colsum_n g k.
Proof. induction k as [|k IH]; cbn [colsum_n]; [reflexivity | rewrite IH; reflexivity]. Qed.
Lemma gtotal_set_pos : forall g a b, gtotal (set_pos g a b) = gtotal g.
Proof.
  intros. unfold gtotal. change (g_aliased (set_pos g a b)) with (g_aliased g). destruct (g_aliased g); [|reflexivity].
  unfold total_al, colsum. change (g_maxx (set_pos g a b)) with (g_maxx g). apply colsum_n_set_pos.
Qed.
Lemma grank_set_pos : forall g a b c, grank (set_pos g a b) c = grank g c.
Proof.
  intros. unfold grank. change (g_aliased (set_pos g a b)) with (g_aliased g). destruct (g_aliased g); [|reflexivity].
  unfold rank_al, vrank, colsum. rewrite colsum_n_set_pos. reflexivity.
Qed.
Lemma gtotal_at_cell : forall g c, gtotal (at_cell g c) = gtotal g. Proof. intros. apply gtotal_set_pos. Qed.
Lemma grank_at_cell : forall g c c', grank (at_cell g c) c' = grank g c'. Proof. intros. apply grank_set_pos. Qed.
Lemma gvalid_at_cell : forall g c c', gvalid (at_cell g c) c' <-> gvalid g c'. Proof. intros; split; intros H; exact H. Qed.

Lemma gtotal_pos : forall g, gwf g -> 0 < gtotal g.
Proof.
  intros g W. unfold gwf, gtotal in *. destruct (g_aliased g); [apply total_al_pos; exact W|].
  destruct W as (_ & _ & R & N). unfold total. destruct (g_rows g) as [|l0 rs] eqn:RS; [unfold nrows, zlen in N; rewrite RS in N; cbn in N; lia|].
  assert (P : forall l, Forall (fun x => 1 <= x) l -> 0 <= zsum l) by (induction l; intros F; cbn [zsum]; [lia | inversion F; subst; specialize (IHl H2); lia]).
  unfold rows_pos in R. rewrite RS in R. inversion R; subst. cbn [zsum]. specialize (P rs H2). lia.
Qed.

Lemma nth_gtotals : forall e i g, nth_grp e i = Some g -> nth (Z.to_nat i) (gtotals e) 0 = gtotal g.
Proof.
  intros e i g H. unfold nth_grp in H. destruct (i <? 0); [discriminate|]. unfold gtotals.
  apply (map_nth_error gtotal) in H. apply nth_error_nth. exact H.
Qed.

Lemma gtotals_len : forall e, zlen (gtotals e) = zlen (e_groups e).
Proof. intros. unfold gtotals, zlen. rewrite map_length. reflexivity. Qed.

Lemma goffset_succ : forall e i g, nth_grp e i = Some g -> goffset e (i + 1) = goffset e i + gtotal g.
Proof.
  intros e i g H. pose proof (nth_grp_some e i g H) as Hi. unfold goffset.
  replace (Z.to_nat (i + 1)) with (S (Z.to_nat i)) by lia.
  rewrite firstn_succ_nth by (pose proof (gtotals_len e); unfold zlen in *; lia).
  rewrite zsum_app. cbn [zsum]. rewrite (nth_gtotals e i g H). lia.
Qed.

Lemma goffset_all : forall e, goffset e (zlen (e_groups e)) = Gtotal e.
Proof. intros e. unfold goffset, Gtotal. rewrite <- gtotals_len. unfold zlen. rewrite Nat2Z.id, firstn_all. reflexivity. Qed.

Lemma gtotals_nonneg : forall e, all_wf e -> Forall (fun t => 0 < t) (gtotals e).
Proof.
  intros e W. unfold gtotals. rewrite Forall_forall. intros t Ht. apply in_map_iff in Ht. destruct Ht as (g & <- & Hg).
  apply In_nth_error in Hg. destruct Hg as [k Hk]. apply gtotal_pos. apply (W (Z.of_nat k) g).
  unfold nth_grp. replace (Z.of_nat k <? 0) with false by lia. rewrite Nat2Z.id. exact Hk.
Qed.

Lemma zsum_pos_list : forall l, Forall (fun t => 0 < t) l -> 0 <= zsum l.
Proof. induction l; intros F; cbn [zsum]; [lia | inversion F; subst; specialize (IHl H2); lia]. Qed.

Lemma in_firstn' : forall (A : Type) n (l : list A) x, In x (firstn n l) -> In x l.
Proof. induction n as [|n IH]; intros l x H; [contradiction|]. destruct l as [|a l]; [contradiction|]. cbn in *. destruct H; [left; assumption | right; apply IH; assumption]. Qed.
Lemma in_skipn' : forall (A : Type) n (l : list A) x, In x (skipn n l) -> In x l.
Proof. induction n as [|n IH]; intros l x H; [exact H|]. destruct l as [|a l]; [contradiction|]. cbn in *. right. apply IH. assumption. Qed.

Lemma goffset_le : forall e i j, all_wf e -> 0 <= i -> i <= j -> j <= zlen (e_groups e) -> goffset e i <= goffset e j.
Proof.
  intros e i j W Hi Hij Hj. unfold goffset.
  replace (Z.to_nat j) with (Z.to_nat i + Z.to_nat (j - i))%nat by lia.
  rewrite <- (firstn_skipn (Z.to_nat i) (firstn (Z.to_nat i + Z.to_nat (j - i)) (gtotals e))).
  rewrite zsum_app. rewrite firstn_firstn. replace (Init.Nat.min (Z.to_nat i) (Z.to_nat i + Z.to_nat (j - i))) with (Z.to_nat i) by lia.
  assert (P : 0 <= zsum (skipn (Z.to_nat i) (firstn (Z.to_nat i + Z.to_nat (j - i)) (gtotals e)))).
  { apply zsum_pos_list. pose proof (gtotals_nonneg e W) as F. rewrite Forall_forall in *. intros t Ht. apply F.
    apply (in_firstn' _ (Z.to_nat i + Z.to_nat (j - i))%nat). apply (in_skipn' _ (Z.to_nat i)). exact Ht. }
  lia.
Qed.

Lemma gtotals_put : forall e i g g', nth_grp e i = Some g -> gtotal g' = gtotal g -> gtotals (put_grp e i g') = gtotals e.
Proof.
  intros e i g g' H E. unfold gtotals, put_grp. cbn [e_groups]. unfold nth_grp in H. destruct (i <? 0); [discriminate|].
  revert H. generalize (Z.to_nat i) as k. generalize (e_groups e) as l.
  induction l as [|x l IH]; intros k H; [destruct k; discriminate|].
  destruct k; cbn [nth_error set_nth map] in *; [inversion H; subst; rewrite E; reflexivity | rewrite IH by exact H; reflexivity].
Qed.

Lemma all_wf_put : forall e i g', all_wf e -> 0 <= i -> gwf g' -> all_wf (put_grp e i g').
Proof.
  intros e i g' W Hi Wg j g H. destruct (Z.eq_dec j i) as [->|N].
  - pose proof (nth_grp_some _ _ _ H) as R. rewrite put_grp_len in R. rewrite put_grp_same in H by exact R. inversion H; subst. exact Wg.
  - pose proof (nth_grp_some _ _ _ H) as R. rewrite put_grp_other in H by lia. apply (W j g H).
Qed.

(* One menu-complete from any candidate of any group: the engine ends on the candidate whose
   global rank is one more, modulo the number of candidates: the next one of the group, or
   the first of the next group (of the first group after the last). *)
Theorem select_forward_step : forall e i g, all_wf e -> e_cur e = i -> nth_grp e i = Some g -> gvalid g (pos_of g) ->
  exists e' i' g', select e 1 = Ok e' /\ all_wf e' /\ gtotals e' = gtotals e /\ zlen (e_groups e') = zlen (e_groups e) /\
    e_cur e' = i' /\ nth_grp e' i' = Some g' /\ gvalid g' (pos_of g') /\
    goffset e' i' + grank g' (pos_of g') = (goffset e i + grank g (pos_of g) + 1) mod Gtotal e.
Proof.
  intros e i g W Hc Hg V. pose proof (nth_grp_some e i g Hg) as Hi.
  assert (Wg : gwf g) by (apply (W i g Hg)). pose proof (gwf_nonempty g Wg) as Ng.
  unfold select. rewrite current_id by lia. rewrite Hc, Hg. replace (nrows g =? 0) with false by lia.
  pose proof (group_forward g (pos_of g) Wg V) as F. unfold at_cell in F. unfold pos_of in F at 1 2. cbn [fst snd] in F. rewrite set_pos_eta in F.
  assert (RG : 0 <= grank g (pos_of g) < gtotal g).
  { unfold grank, gtotal, gvalid, gwf in *. destruct (g_aliased g); [apply rank_al_range | apply rank_plain_range]; assumption. }
  assert (OL : goffset e i + gtotal g <= Gtotal e).
  { rewrite <- (goffset_succ e i g Hg). rewrite <- goffset_all. apply goffset_le; try assumption; lia. }
  assert (O0 : 0 <= goffset e i) by (replace 0 with (goffset e 0) by reflexivity; apply goffset_le; try assumption; lia).
  assert (D : (if g_aliased g then (0, 1) else (1, 0)) = gdir g 1) by reflexivity. rewrite D.
  destruct (gdir g 1) as [dx dy]. cbn [fst snd] in F.
  destruct (move_selector g dx dy) as [[[g1 done] next]| |]; try contradiction. cbn [bind].
  destruct done; cbn [negb].
  - (* the end of the group: the first candidate of the next one *)
    destruct F as ((a & b & ->) & -> & F2).
    set (e1 := put_grp e i (set_pos g a b)).
    assert (W1 : all_wf e1) by (apply all_wf_put; [exact W | lia | exact Wg]).
    assert (T1 : gtotals e1 = gtotals e) by (apply (gtotals_put e i g); [exact Hg | apply gtotal_set_pos]).
    assert (L1 : zlen (e_groups e1) = zlen (e_groups e)) by apply put_grp_len.
    rewrite (cycle_group_step (length (e_groups e1)) e1 1 W1) by (cbn [e_cur put_grp e1]; try lia; left; reflexivity).
    cbn [bind]. change (0 <? 1) with true. cbv iota.
    change (e_cur e1) with (e_cur e). rewrite Hc, L1.
    set (i' := if i =? zlen (e_groups e) - 1 then 0 else i + 1).
    assert (Hi' : 0 <= i' < zlen (e_groups e)) by (unfold i'; destruct (i =? zlen (e_groups e) - 1) eqn:E; lia).
    set (e2 := {| e_groups := e_groups e1; e_cur := i' |}).
    assert (N2 : forall j, nth_grp e2 j = nth_grp e1 j) by reflexivity.
    destruct (nth_grp e2 i') as [ng|] eqn:G2.
    + cbn [e_cur e2]. rewrite G2.
      assert (Wn : gwf ng) by (apply (W1 i' ng); rewrite <- N2; exact G2).
      exists (put_grp e2 i' (first_cell ng)), i', (first_cell ng).
      assert (W2 : all_wf e2) by (intros j gj Hj; apply (W1 j gj); rewrite <- N2; exact Hj).
      destruct (group_first ng Wn) as [V0 R0].
      split; [reflexivity|]. split; [apply all_wf_put; [exact W2 | lia | exact Wn]|].
      split; [rewrite (gtotals_put e2 i' ng (first_cell ng) G2 (gtotal_set_pos ng 0 0)); exact T1|].
      split; [rewrite put_grp_len; exact L1|]. split; [reflexivity|].
      split; [apply put_grp_same; cbn [e_groups e2]; rewrite L1; exact Hi'|]. split; [exact V0|].
      unfold goffset at 1. rewrite (gtotals_put e2 i' ng (first_cell ng) G2 (gtotal_set_pos ng 0 0)).
      change (gtotals e2) with (gtotals e1). rewrite T1. fold (goffset e i').
      unfold first_cell at 1. rewrite grank_set_pos. rewrite R0.
      unfold i'. destruct (i =? zlen (e_groups e) - 1) eqn:E.
      * (* the last group: back to the first candidate of the first *)
        assert (i + 1 = zlen (e_groups e)) by lia.
        assert (goffset e i + gtotal g = Gtotal e) by (rewrite <- (goffset_succ e i g Hg); rewrite H; apply goffset_all).
        replace (goffset e i + grank g (pos_of g) + 1) with (Gtotal e) by lia.
        rewrite Z.mod_same by (pose proof (gtotal_pos g Wg); lia). reflexivity.
      * assert (Hn : exists gn, nth_grp e (i + 1) = Some gn).
        { unfold nth_grp. replace (i + 1 <? 0) with false by lia.
          destruct (nth_error (e_groups e) (Z.to_nat (i + 1))) eqn:NE; [eexists; reflexivity|].
          apply nth_error_None in NE. unfold zlen in *. lia. }
        destruct Hn as [gn Hn]. pose proof (gtotal_pos gn (W _ _ Hn)) as Pn.
        assert (goffset e (i + 1) + gtotal gn <= Gtotal e).
        { rewrite <- (goffset_succ e (i + 1) gn Hn). rewrite <- goffset_all. apply goffset_le; try assumption; lia. }
        pose proof (goffset_succ e i g Hg) as GS. rewrite GS. rewrite Z.mod_small by lia. lia.
    + exfalso. unfold nth_grp in G2. cbn [e_groups e2] in G2. replace (i' <? 0) with false in G2 by lia.
      apply nth_error_None in G2. unfold zlen in *. lia.
  - (* inside the group *)
    destruct F as (F1 & F2 & F3).
    exists (put_grp e i g1), i, g1.
    assert (E1 : gtotal g1 = gtotal g) by (rewrite F1; apply gtotal_set_pos).
    split; [reflexivity|]. split; [apply all_wf_put; [exact W | lia | rewrite F1; exact Wg]|].
    split; [apply (gtotals_put e i g); [exact Hg | exact E1]|].
    split; [apply put_grp_len|]. split; [exact Hc|]. split; [apply put_grp_same; exact Hi|].
    split; [assert (GV : forall c, gvalid g1 c <-> gvalid g c) by (intros c; rewrite F1; split; intros X; exact X); apply GV; exact F2|].
    unfold goffset at 1. rewrite (gtotals_put e i g g1 Hg E1). fold (goffset e i).
    assert (GR : forall c, grank g1 c = grank g c) by (intros c; rewrite F1; apply grank_set_pos). rewrite GR.
    assert (RG1 : 0 <= grank g (pos_of g1) < gtotal g).
    { unfold grank, gtotal, gvalid, gwf in *. destruct (g_aliased g); [apply rank_al_range | apply rank_plain_range]; assumption. }
    rewrite F3 in *. rewrite Z.mod_small by lia. lia.
Qed.

(* the global rank tells the candidates apart: (group, cell) pairs with the same rank are the same *)
Theorem global_rank_inj : forall e i1 g1 c1 i2 g2 c2, all_wf e ->
  nth_grp e i1 = Some g1 -> nth_grp e i2 = Some g2 -> gvalid g1 c1 -> gvalid g2 c2 ->
  goffset e i1 + grank g1 c1 = goffset e i2 + grank g2 c2 -> i1 = i2 /\ c1 = c2.
Proof.
  intros e i1 g1 c1 i2 g2 c2 W H1 H2 V1 V2 E.
  pose proof (nth_grp_some _ _ _ H1) as R1. pose proof (nth_grp_some _ _ _ H2) as R2.
  assert (RG : forall g c, gwf g -> gvalid g c -> 0 <= grank g c < gtotal g).
  { intros g c Wg Vg. unfold grank, gtotal, gvalid, gwf in *. destruct (g_aliased g); [apply rank_al_range | apply rank_plain_range]; assumption. }
  pose proof (RG g1 c1 (W _ _ H1) V1) as B1. pose proof (RG g2 c2 (W _ _ H2) V2) as B2.
  destruct (Z.lt_trichotomy i1 i2) as [L|[L|L]].
  - pose proof (goffset_le e (i1 + 1) i2 W ltac:(lia) ltac:(lia) ltac:(lia)) as M. rewrite (goffset_succ e i1 g1 H1) in M. lia.
  - subst i2. rewrite H1 in H2. inversion H2; subst g2. split; [reflexivity|].
    assert (Eq : grank g1 c1 = grank g1 c2) by lia.
    unfold grank, gvalid, gwf in *. pose proof (W _ _ H1) as Wg. unfold gwf in Wg.
    destruct (g_aliased g1); [apply (rank_al_inj g1) | apply (rank_plain_inj g1)]; assumption.
  - pose proof (goffset_le e (i2 + 1) i1 W ltac:(lia) ltac:(lia) ltac:(lia)) as M. rewrite (goffset_succ e i2 g2 H2) in M. lia.
Qed.

(* ---- a whole cycle *)

Fixpoint selects (k : nat) (e : eng) : res eng :=
  match k with O => Ok e | S k' => do e1 <- select e 1; selects k' e1 end.

(* the engine is on the candidate of global rank r *)
Definition estate (e : eng) (r : Z) : Prop :=
  exists i g, e_cur e = i /\ nth_grp e i = Some g /\ gvalid g (pos_of g) /\ goffset e i + grank g (pos_of g) = r.

Lemma estate_range : forall e r, all_wf e -> estate e r -> 0 <= r < Gtotal e.
Proof.
  intros e r W (i & g & Hc & Hg & V & <-). pose proof (nth_grp_some e i g Hg) as Hi.
  assert (RG : 0 <= grank g (pos_of g) < gtotal g).
  { pose proof (W i g Hg) as Wg. unfold grank, gtotal, gvalid, gwf in *. destruct (g_aliased g); [apply rank_al_range | apply rank_plain_range]; assumption. }
  assert (OL : goffset e i + gtotal g <= Gtotal e).
  { rewrite <- (goffset_succ e i g Hg). rewrite <- goffset_all. apply goffset_le; try assumption; lia. }
  assert (O0 : 0 <= goffset e i) by (replace 0 with (goffset e 0) by reflexivity; apply goffset_le; try assumption; lia).
  lia.
Qed.

(* k menu-complete steps from the candidate of global rank r end on the candidate of rank
   (r + k) mod N, N the number of candidates of all groups: every candidate once per N steps,
   then the same ones again *)
Theorem forward_steps : forall k e r, all_wf e -> estate e r ->
  exists e', selects k e = Ok e' /\ all_wf e' /\ gtotals e' = gtotals e /\ estate e' ((r + Z.of_nat k) mod Gtotal e).
Proof.
  induction k as [|k IH]; intros e r W S.
  - exists e. pose proof (estate_range e r W S). cbn [selects Z.of_nat]. rewrite Z.add_0_r. rewrite Z.mod_small by lia.
    repeat split; try assumption; reflexivity.
  - pose proof (estate_range e r W S) as Rr. destruct S as (i & g & Hc & Hg & V & Er).
    destruct (select_forward_step e i g W Hc Hg V) as (e1 & i1 & g1 & S1 & W1 & T1 & L1 & C1 & G1 & V1 & R1).
    assert (GT : Gtotal e1 = Gtotal e) by (unfold Gtotal; rewrite T1; reflexivity).
    assert (S1' : estate e1 ((r + 1) mod Gtotal e)) by (exists i1, g1; repeat split; try assumption; rewrite R1, Er; reflexivity).
    destruct (IH e1 ((r + 1) mod Gtotal e) W1 S1') as (e' & Sk & Wk & Tk & Ek).
    exists e'. cbn [selects]. rewrite S1. cbn [bind]. split; [exact Sk|]. split; [exact Wk|]. split; [congruence|].
    rewrite GT in Ek. replace (r + Z.of_nat (S k)) with ((r + 1) + Z.of_nat k) by lia.
    rewrite Zplus_mod_idemp_l in Ek. exact Ek.
Qed.

(* the first menu-complete of a fresh engine (no group used yet) shows the first candidate *)
Theorem first_select : forall e g0 rest, all_wf e -> e_cur e = -1 -> e_groups e = g0 :: rest -> g_px g0 = -1 -> g_py g0 = -1 ->
  exists e', select e 1 = Ok e' /\ all_wf e' /\ gtotals e' = gtotals e /\ estate e' 0.
Proof.
  intros e g0 rest W Hc Hg PX PY.
  assert (H0 : nth_grp e 0 = Some g0) by (unfold nth_grp; rewrite Hg; reflexivity).
  pose proof (W 0 g0 H0) as Wg. pose proof (gwf_nonempty g0 Wg) as Ng.
  unfold select, current. rewrite Hc. change (0 <=? -1) with false. rewrite Hg. cbn [first_nonempty]. replace (0 <? nrows g0) with true by lia.
  cbn [e_cur]. change (nth_grp {| e_groups := g0 :: rest; e_cur := 0 |} 0) with (Some g0). cbv iota beta. replace (nrows g0 =? 0) with false by lia.
  assert (MS : move_selector g0 (fst (gdir g0 1)) (snd (gdir g0 1)) = Ok (set_pos g0 0 0, false, false)).
  { unfold gdir, gwf in *. destruct (g_aliased g0); cbn [fst snd]; [apply aliased_fresh_forward | apply plain_fresh_forward]; assumption. }
  assert (D : (if g_aliased g0 then (0, 1) else (1, 0)) = gdir g0 1) by reflexivity. rewrite D.
  destruct (gdir g0 1) as [dx dy]. cbn [fst snd] in MS. rewrite MS. cbn [bind negb].
  set (e0 := {| e_groups := g0 :: rest; e_cur := 0 |}).
  assert (W0 : all_wf e0) by (intros j gj Hj; apply (W j gj); unfold nth_grp in *; rewrite Hg; exact Hj).
  assert (H00 : nth_grp e0 0 = Some g0) by reflexivity.
  exists (put_grp e0 0 (set_pos g0 0 0)). split; [reflexivity|].
  split; [apply all_wf_put; [exact W0 | lia | exact Wg]|].
  split; [rewrite (gtotals_put e0 0 g0 _ H00 (gtotal_set_pos g0 0 0)); unfold gtotals; cbn [e_groups e0]; rewrite Hg; reflexivity|].
  exists 0, (set_pos g0 0 0). split; [reflexivity|]. split; [reflexivity|].
  destruct (group_first g0 Wg) as [V0 R0]. split; [exact V0|].
  change (goffset (put_grp e0 0 (set_pos g0 0 0)) 0) with 0. rewrite grank_set_pos. unfold first_cell in R0. cbn [Z.add]. exact R0.
Qed.

(* ---- backward: menu-complete-backward, cyclePreviousGroup, lastCell *)

Theorem select_backward_step : forall e i g, all_wf e -> e_cur e = i -> nth_grp e i = Some g -> gvalid g (pos_of g) ->
  exists e' i' g', select e (-1) = Ok e' /\ all_wf e' /\ gtotals e' = gtotals e /\ zlen (e_groups e') = zlen (e_groups e) /\
    e_cur e' = i' /\ nth_grp e' i' = Some g' /\ gvalid g' (pos_of g') /\
    goffset e' i' + grank g' (pos_of g') = (goffset e i + grank g (pos_of g) - 1) mod Gtotal e.
Proof.
  intros e i g W Hc Hg V. pose proof (nth_grp_some e i g Hg) as Hi.
  assert (Wg : gwf g) by (apply (W i g Hg)). pose proof (gwf_nonempty g Wg) as Ng.
  unfold select. rewrite current_id by lia. rewrite Hc, Hg. replace (nrows g =? 0) with false by lia.
  pose proof (group_backward g (pos_of g) Wg V) as F. unfold at_cell in F. unfold pos_of in F at 1 2. cbn [fst snd] in F. rewrite set_pos_eta in F.
  assert (RG : 0 <= grank g (pos_of g) < gtotal g).
  { unfold grank, gtotal, gvalid, gwf in *. destruct (g_aliased g); [apply rank_al_range | apply rank_plain_range]; assumption. }
  assert (OL : goffset e i + gtotal g <= Gtotal e).
  { rewrite <- (goffset_succ e i g Hg). rewrite <- goffset_all. apply goffset_le; try assumption; lia. }
  assert (O0 : 0 <= goffset e i) by (replace 0 with (goffset e 0) by reflexivity; apply goffset_le; try assumption; lia).
  assert (D : (if g_aliased g then (0, -1) else (-1, 0)) = gdir g (-1)) by reflexivity. rewrite D.
  destruct (gdir g (-1)) as [dx dy]. cbn [fst snd] in F.
  destruct (move_selector g dx dy) as [[[g1 done] next]| |]; try contradiction. cbn [bind].
  destruct done; cbn [negb].
  - (* the start of the group: the last candidate of the previous one *)
    destruct F as ((a & b & ->) & -> & F2).
    set (e1 := put_grp e i (set_pos g a b)).
    assert (W1 : all_wf e1) by (apply all_wf_put; [exact W | lia | exact Wg]).
    assert (T1 : gtotals e1 = gtotals e) by (apply (gtotals_put e i g); [exact Hg | apply gtotal_set_pos]).
    assert (L1 : zlen (e_groups e1) = zlen (e_groups e)) by apply put_grp_len.
    rewrite (cycle_group_step (length (e_groups e1)) e1 (-1) W1) by (cbn [e_cur put_grp e1]; try lia; right; reflexivity).
    cbn [bind]. change (0 <? -1) with false. cbv iota.
    change (e_cur e1) with (e_cur e). rewrite Hc, L1.
    set (i' := if i =? 0 then zlen (e_groups e) - 1 else i - 1).
    assert (Hi' : 0 <= i' < zlen (e_groups e)) by (unfold i'; destruct (i =? 0) eqn:E; lia).
    set (e2 := {| e_groups := e_groups e1; e_cur := i' |}).
    assert (N2 : forall j, nth_grp e2 j = nth_grp e1 j) by reflexivity.
    destruct (nth_grp e2 i') as [ng|] eqn:G2.
    + cbn [e_cur e2]. rewrite G2.
      assert (Wn : gwf ng) by (apply (W1 i' ng); rewrite <- N2; exact G2).
      destruct (group_last ng Wn) as (lg & LC & LE & LV & LR). rewrite LC. cbn [bind].
      assert (W2 : all_wf e2) by (intros j gj Hj; apply (W1 j gj); rewrite <- N2; exact Hj).
      assert (TL : gtotal lg = gtotal ng) by (rewrite LE; apply gtotal_set_pos).
      assert (GRl : forall c, grank lg c = grank ng c) by (intros c; rewrite LE; apply grank_set_pos).
      assert (GVl : forall c, gvalid lg c <-> gvalid ng c) by (intros c; rewrite LE; split; intros X; exact X).
      exists (put_grp e2 i' lg), i', lg.
      split; [reflexivity|]. split; [apply all_wf_put; [exact W2 | lia | rewrite LE; exact Wn]|].
      split; [rewrite (gtotals_put e2 i' ng lg G2 TL); exact T1|].
      split; [rewrite put_grp_len; exact L1|]. split; [reflexivity|].
      split; [apply put_grp_same; cbn [e_groups e2]; rewrite L1; exact Hi'|]. split; [apply GVl; exact LV|].
      unfold goffset at 1. rewrite (gtotals_put e2 i' ng lg G2 TL).
      change (gtotals e2) with (gtotals e1). rewrite T1. fold (goffset e i'). rewrite GRl, LR, F2.
      (* the group at i' in e1 is the one of e, unless it is the group we just left (a single group) *)
      assert (Gn : exists gn, nth_grp e i' = Some gn /\ gtotal gn = gtotal ng).
      { destruct (Z.eq_dec i' i) as [Ei|Ni].
        - exists g. rewrite Ei. split; [exact Hg|]. rewrite N2 in G2. unfold e1 in G2. rewrite Ei in G2. rewrite put_grp_same in G2 by exact Hi.
          inversion G2; subst ng. symmetry. apply gtotal_set_pos.
        - exists ng. rewrite N2 in G2. unfold e1 in G2. rewrite put_grp_other in G2 by lia. split; [exact G2 | reflexivity]. }
      destruct Gn as (gn & Hgn & Tgn). rewrite <- Tgn.
      pose proof (gtotal_pos gn (W _ _ Hgn)) as Pn.
      assert (OLn : goffset e i' + gtotal gn <= Gtotal e).
      { rewrite <- (goffset_succ e i' gn Hgn). rewrite <- goffset_all. apply goffset_le; try assumption; lia. }
      assert (O0n : 0 <= goffset e i') by (replace 0 with (goffset e 0) by reflexivity; apply goffset_le; try assumption; lia).
      unfold i' in *. destruct (i =? 0) eqn:E.
      * assert (I0 : i = 0) by lia.
        assert (G0 : goffset e i = 0) by (rewrite I0; reflexivity).
        rewrite G0.
        assert (goffset e (zlen (e_groups e) - 1) + gtotal gn = Gtotal e).
        { rewrite <- (goffset_succ e _ gn Hgn). replace (zlen (e_groups e) - 1 + 1) with (zlen (e_groups e)) by lia. apply goffset_all. }
        replace (0 + 0 - 1) with (Gtotal e - 1 + (-1) * Gtotal e) by lia. rewrite Z_mod_plus_full. rewrite Z.mod_small by lia. lia.
      * pose proof (goffset_succ e (i - 1) gn Hgn) as GS. replace (i - 1 + 1) with i in GS by lia.
        rewrite Z.mod_small by lia. lia.
    + exfalso. unfold nth_grp in G2. cbn [e_groups e2] in G2. replace (i' <? 0) with false in G2 by lia.
      apply nth_error_None in G2. unfold zlen in *. lia.
  - (* inside the group *)
    destruct F as (F1 & F2 & F3).
    exists (put_grp e i g1), i, g1.
    assert (E1 : gtotal g1 = gtotal g) by (rewrite F1; apply gtotal_set_pos).
    split; [reflexivity|]. split; [apply all_wf_put; [exact W | lia | rewrite F1; exact Wg]|].
    split; [apply (gtotals_put e i g); [exact Hg | exact E1]|].
    split; [apply put_grp_len|]. split; [exact Hc|]. split; [apply put_grp_same; exact Hi|].
    split; [assert (GV : forall c, gvalid g1 c <-> gvalid g c) by (intros c; rewrite F1; split; intros X; exact X); apply GV; exact F2|].
    unfold goffset at 1. rewrite (gtotals_put e i g g1 Hg E1). fold (goffset e i).
    assert (GR : forall c, grank g1 c = grank g c) by (intros c; rewrite F1; apply grank_set_pos). rewrite GR.
    assert (RG1 : 0 <= grank g (pos_of g1) < gtotal g).
    { unfold grank, gtotal, gvalid, gwf in *. destruct (g_aliased g); [apply rank_al_range | apply rank_plain_range]; assumption. }
    rewrite F3 in *. rewrite Z.mod_small by lia. lia.
Qed.

Fixpoint selects_back (k : nat) (e : eng) : res eng :=
  match k with O => Ok e | S k' => do e1 <- select e (-1); selects_back k' e1 end.

(* k menu-complete-backward steps from rank r end on rank (r - k) mod N *)
Theorem backward_steps : forall k e r, all_wf e -> estate e r ->
  exists e', selects_back k e = Ok e' /\ all_wf e' /\ gtotals e' = gtotals e /\ estate e' ((r - Z.of_nat k) mod Gtotal e).
Proof.
  induction k as [|k IH]; intros e r W S.
  - exists e. pose proof (estate_range e r W S). cbn [selects_back Z.of_nat]. rewrite Z.sub_0_r. rewrite Z.mod_small by lia.
    repeat split; try assumption; reflexivity.
  - pose proof (estate_range e r W S) as Rr. destruct S as (i & g & Hc & Hg & V & Er).
    destruct (select_backward_step e i g W Hc Hg V) as (e1 & i1 & g1 & S1 & W1 & T1 & L1 & C1 & G1 & V1 & R1).
    assert (GT : Gtotal e1 = Gtotal e) by (unfold Gtotal; rewrite T1; reflexivity).
    assert (S1' : estate e1 ((r - 1) mod Gtotal e)) by (exists i1, g1; repeat split; try assumption; rewrite R1, Er; reflexivity).
    destruct (IH e1 ((r - 1) mod Gtotal e) W1 S1') as (e' & Sk & Wk & Tk & Ek).
    exists e'. cbn [selects_back]. rewrite S1. cbn [bind]. split; [exact Sk|]. split; [exact Wk|]. split; [congruence|].
    rewrite GT in Ek. replace (r - Z.of_nat (S k)) with ((r - 1) - Z.of_nat k) by lia.
    rewrite Zminus_mod_idemp_l in Ek. exact Ek.
Qed.

Lemma nth_grp_in_range : forall e i, 0 <= i < zlen (e_groups e) -> exists g, nth_grp e i = Some g.
Proof.
  intros e i H. unfold nth_grp. replace (i <? 0) with false by lia.
  destruct (nth_error (e_groups e) (Z.to_nat i)) eqn:NE; [eexists; reflexivity|].
  apply nth_error_None in NE. unfold zlen in H. lia.
Qed.

Lemma aliased_fresh_backward : forall g, wf_aliased g -> g_px g = -1 -> g_py g = -1 ->
  move_selector g 0 (-1) = Ok (set_pos g 0 0, true, false).
Proof.
  intros g (A & MY & NC & N & MX & R) PX PY. unfold move_selector. rewrite PX, PY. cbn -[idx Z.sub nrows find_first Z.ltb].
  change (0 <? 0) with false. cbn [bind]. change (-2 <? 0) with true. cbv iota. reflexivity.
Qed.

(* the first menu-complete-backward of a fresh engine shows the last candidate *)
Theorem first_select_back : forall e g0 rest, all_wf e -> e_cur e = -1 -> e_groups e = g0 :: rest -> g_px g0 = -1 -> g_py g0 = -1 ->
  exists e', select e (-1) = Ok e' /\ all_wf e' /\ gtotals e' = gtotals e /\ estate e' (Gtotal e - 1).
Proof.
  intros e g0 rest W Hc Hg PX PY.
  assert (H0 : nth_grp e 0 = Some g0) by (unfold nth_grp; rewrite Hg; reflexivity).
  pose proof (W 0 g0 H0) as Wg. pose proof (gwf_nonempty g0 Wg) as Ng.
  unfold select, current. rewrite Hc. change (0 <=? -1) with false. rewrite Hg. cbn [first_nonempty]. replace (0 <? nrows g0) with true by lia.
  cbn [e_cur]. change (nth_grp {| e_groups := g0 :: rest; e_cur := 0 |} 0) with (Some g0). cbv iota beta. replace (nrows g0 =? 0) with false by lia.
  assert (MS : move_selector g0 (fst (gdir g0 (-1))) (snd (gdir g0 (-1))) = Ok (set_pos g0 0 0, true, false)).
  { unfold gdir, gwf in *. destruct (g_aliased g0); cbn [fst snd]; [apply aliased_fresh_backward | apply plain_fresh_backward]; assumption. }
  assert (D : (if g_aliased g0 then (0, -1) else (-1, 0)) = gdir g0 (-1)) by reflexivity. rewrite D.
  destruct (gdir g0 (-1)) as [dx dy]. cbn [fst snd] in MS. rewrite MS. cbn [bind negb].
  set (e0 := {| e_groups := g0 :: rest; e_cur := 0 |}).
  assert (W0 : all_wf e0) by (intros j gj Hj; apply (W j gj); unfold nth_grp in *; rewrite Hg; exact Hj).
  assert (H00 : nth_grp e0 0 = Some g0) by reflexivity.
  set (e1 := put_grp e0 0 (set_pos g0 0 0)).
  assert (W1 : all_wf e1) by (apply all_wf_put; [exact W0 | lia | exact Wg]).
  assert (T1 : gtotals e1 = gtotals e) by (unfold e1; rewrite (gtotals_put e0 0 g0 _ H00 (gtotal_set_pos g0 0 0)); unfold gtotals; cbn [e_groups e0]; rewrite Hg; reflexivity).
  assert (L1 : zlen (e_groups e1) = zlen (e_groups e)) by (unfold e1; rewrite put_grp_len; cbn [e_groups e0]; rewrite Hg; reflexivity).
  assert (Le : 0 < zlen (e_groups e)) by (rewrite Hg; unfold zlen; cbn [length]; lia).
  rewrite (cycle_group_step (length (e_groups e1)) e1 (-1) W1) by (cbn [e_cur put_grp e1 e0]; try lia; right; reflexivity).
  cbn [bind]. change (0 <? -1) with false. cbv iota. change (e_cur e1) with 0. change (0 =? 0) with true. cbv iota. rewrite L1.
  set (i' := zlen (e_groups e) - 1).
  set (e2 := {| e_groups := e_groups e1; e_cur := i' |}).
  assert (N2 : forall j, nth_grp e2 j = nth_grp e1 j) by reflexivity.
  destruct (nth_grp_in_range e2 i' ltac:(cbn [e_groups e2]; rewrite L1; subst i'; lia)) as [ng G2].
  cbn [e_cur e2]. rewrite G2.
    assert (Wn : gwf ng) by (apply (W1 i' ng); rewrite <- N2; exact G2).
    destruct (group_last ng Wn) as (lg & LC & LE & LV & LR). rewrite LC. cbn [bind].
    assert (W2 : all_wf e2) by (intros j gj Hj; apply (W1 j gj); rewrite <- N2; exact Hj).
    assert (TL : gtotal lg = gtotal ng) by (rewrite LE; apply gtotal_set_pos).
    assert (GRl : forall c, grank lg c = grank ng c) by (intros c; rewrite LE; apply grank_set_pos).
    assert (GVl : forall c, gvalid lg c <-> gvalid ng c) by (intros c; rewrite LE; split; intros X; exact X).
    exists (put_grp e2 i' lg). split; [reflexivity|]. split; [apply all_wf_put; [exact W2 | unfold i'; lia | rewrite LE; exact Wn]|].
    split; [rewrite (gtotals_put e2 i' ng lg G2 TL); exact T1|].
    exists i', lg. split; [reflexivity|].
    split; [apply put_grp_same; cbn [e_groups e2]; rewrite L1; unfold i'; lia|]. split; [apply GVl; exact LV|].
    unfold goffset. rewrite (gtotals_put e2 i' ng lg G2 TL). change (gtotals e2) with (gtotals e1). rewrite T1. fold (goffset e i').
    rewrite GRl, LR.
    (* the totals of the group at i' in e1 and in e are the same entry of gtotals *)
    assert (NT : nth (Z.to_nat i') (gtotals e1) 0 = gtotal ng) by (apply nth_gtotals; rewrite <- N2; exact G2).
    rewrite T1 in NT.
    assert (GS : goffset e (i' + 1) = goffset e i' + gtotal ng).
    { assert (LT : (Z.to_nat i' < length (gtotals e))%nat).
      { pose proof (gtotals_len e) as GL. unfold zlen in GL. unfold i', zlen. unfold zlen in Le. lia. }
      unfold goffset. replace (Z.to_nat (i' + 1)) with (S (Z.to_nat i')) by (unfold i'; unfold zlen in *; lia).
      rewrite firstn_succ_nth by exact LT. rewrite zsum_app. cbn [zsum]. rewrite NT. lia. }
    assert (E2 : i' + 1 = zlen (e_groups e)) by (subst i'; lia). rewrite E2 in GS. rewrite goffset_all in GS. lia.
Qed.
