(* Round trip of the inputrc key notation (C19 a, b). *)
From Model Require Import Base Uni Notation.
From Gen Require Import Binds.
From Coq Require Import ZifyBool.

(* What one escaped rune must look like to the unescaper, whatever follows it. *)
Definition step_ok (m : bool) (c : Z) (t : list Z) : Prop :=
  match escape1 m c with
  | [] => False
  | c0 :: e' => unesc_step c0 (e' ++ t) = ([c], S (length e'))
  end.

Lemma step_small_nat : forall m (k : nat), (k < 256)%nat -> forall t, step_ok m (Z.of_nat k) t.
Proof.
  intros m k Hk t. unfold step_ok.
  destruct m;
  do 256 (destruct k as [|k]; [ vm_compute; reflexivity | ]); lia.
Qed.

Lemma step_small : forall m c t, 0 <= c <= 255 -> step_ok m c t.
Proof.
  intros m c t Hc. replace c with (Z.of_nat (Z.to_nat c)) by lia.
  apply step_small_nat. lia.
Qed.

Ltac kill_eqb :=
  repeat match goal with
         | |- context[Z.eqb ?a ?b] =>
           let H := fresh in assert (H : Z.eqb a b = false) by lia; rewrite H; clear H
         end.

Lemma step_big : forall m c t, 255 < c -> is_print c = true -> step_ok m c t.
Proof.
  intros m c t Hc Hp. unfold step_ok, escape1, bsl, dq, sq.
  kill_eqb. cbn [orb].
  unfold hex_only, is_meta, is_control. kill_eqb.
  assert (H1 : (c <=? 255) = false) by lia. rewrite H1.
  assert (H2 : (c <? 32) = false) by lia. rewrite H2.
  rewrite ?andb_false_r. cbn [negb andb]. rewrite H1. rewrite ?andb_false_r. cbn iota. rewrite Hp.
  cbn [app length]. unfold unesc_step, bsl. kill_eqb. reflexivity.
Qed.

Lemma step_dom : forall m c t, dom c = true -> step_ok m c t.
Proof.
  intros m c t H. unfold dom in H.
  destruct ((0 <=? c) && (c <=? 255)) eqn:E.
  - apply step_small. lia.
  - cbn [orb] in H. apply step_big; [lia | ].
    destruct (is_print c); [reflexivity | rewrite andb_false_r in H; discriminate].
Qed.

Lemma escape_cons : forall m c s, escape m (c :: s) = escape1 m c ++ escape m s.
Proof. reflexivity. Qed.

Lemma skipn_app_exact : forall (A : Type) (a b : list A), skipn (length a) (a ++ b) = b.
Proof. induction a; simpl; auto. Qed.

Lemma unesc_escape : forall m s f,
  forallb dom s = true -> (length (escape m s) <= f)%nat -> unesc f (escape m s) = s.
Proof.
  intros m s. induction s as [|c s IH]; intros f Hd Hf.
  - destruct f; reflexivity.
  - cbn [forallb] in Hd. apply andb_true_iff in Hd. destruct Hd as [Hc Hs].
    rewrite escape_cons in *.
    pose proof (step_dom m c (escape m s) Hc) as Hstep. unfold step_ok in Hstep.
    destruct (escape1 m c) as [|c0 e'] eqn:E; [contradiction|].
    rewrite app_length in Hf. cbn [length] in Hf.
    destruct f as [|f]; [lia|].
    cbn [app unesc]. rewrite Hstep.
    change (c0 :: e' ++ escape m s) with ((c0 :: e') ++ escape m s).
    replace (S (length e')) with (length (c0 :: e')) by reflexivity.
    rewrite skipn_app_exact. cbn [app]. f_equal. apply IH; [exact Hs | lia].
Qed.

Lemma sub_all : forall r, sub r 0 (zlen r) = r.
Proof.
  intros r. unfold sub, zlen. cbn [Z.to_nat skipn].
  replace (Z.to_nat (Z.of_nat (length r) - 0)) with (length r) by lia.
  apply firstn_all.
Qed.

Lemma escape1_nonempty : forall m c, dom c = true -> escape1 m c <> [].
Proof.
  intros m c Hc E. pose proof (step_dom m c [] Hc) as H. unfold step_ok in H. rewrite E in H. exact H.
Qed.

(* a one-rune escape is the rune itself *)
Lemma step_one : forall c0 t out, unesc_step c0 t = (out, 1%nat) -> out = [c0].
Proof.
  intros c0 t out. unfold unesc_step.
  repeat match goal with
         | |- context[if ?b then _ else _] => destruct b
         end; intros H; inversion H; reflexivity.
Qed.

Theorem unescape_escape : forall m s, forallb dom s = true -> unescape (escape m s) = s.
Proof.
  intros m s Hd. unfold unescape, unescape_range.
  destruct (escape m s) as [|x [|y l]] eqn:E.
  - rewrite <- E. rewrite sub_all. apply unesc_escape; [exact Hd | lia].
  - (* single rune: returned as is *)
    destruct s as [|c s]; [discriminate|].
    rewrite escape_cons in E. cbn [forallb] in Hd. apply andb_true_iff in Hd. destruct Hd as [Hc Hs].
    pose proof (step_dom m c [] Hc) as Hstep. unfold step_ok in Hstep.
    destruct (escape1 m c) as [|c0 e'] eqn:E1; [contradiction|].
    cbn [app] in E. inversion E as [[Hx Happ]].
    apply app_eq_nil in Happ. destruct Happ as [He' Hrest]. subst e'.
    cbn [app length] in Hstep. apply step_one in Hstep. inversion Hstep. subst.
    destruct s as [|c' s']; [reflexivity|].
    exfalso. rewrite escape_cons in Hrest. apply app_eq_nil in Hrest. destruct Hrest as [Hn _].
    cbn [forallb] in Hs. apply andb_true_iff in Hs. destruct Hs as [Hc' _].
    exact (escape1_nonempty m c' Hc' Hn).
  - rewrite <- E. rewrite sub_all. apply unesc_escape; [exact Hd | lia].
Qed.

(* (b) every key sequence of every default keymap, as dumped from the live code *)
Definition key_roundtrips (k : list Z) : bool :=
  eqlZ (unescape (escape false k)) k && eqlZ (unescape (escape true k)) k.

Definition all_default_keys : list (list Z) :=
  flat_map (fun km => map fst (snd km)) default_binds.

Lemma default_keys_roundtrip_b : forallb key_roundtrips all_default_keys = true.
Proof. vm_compute. reflexivity. Qed.

Lemma eqlZ_eq : forall a b, eqlZ a b = true -> a = b.
Proof.
  induction a as [|x a IH]; destruct b as [|y b]; unfold eqlZ; cbn; intros H; try reflexivity; try discriminate.
  apply andb_true_iff in H. destruct H as [Hl H]. cbn in H. apply andb_true_iff in H. destruct H as [Hxy H].
  apply Z.eqb_eq in Hxy. subst. f_equal. apply IH. unfold eqlZ. rewrite Hl. exact H.
Qed.

Theorem default_keys_roundtrip : forall k, In k all_default_keys ->
  unescape (escape false k) = k /\ unescape (escape true k) = k.
Proof.
  intros k Hin. pose proof default_keys_roundtrip_b as H.
  rewrite forallb_forall in H. specialize (H k Hin). unfold key_roundtrips in H.
  apply andb_true_iff in H. destruct H as [H1 H2]. split; apply eqlZ_eq; assumption.
Qed.
