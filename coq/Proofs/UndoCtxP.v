(* C18, known finding undo-one-more-command, on the editor model: the same keys typed after
   one or after two commands that change nothing end with different buffers, because the
   save after every command refreshes the cursor kept in the newest undo snapshot. *)
From Coq Require Import String.
From Model Require Import Base Uni Utf8 Notation Inputrc HistFile Editor.
Open Scope Z_scope.

Definition ed_runs (cmds : list (list Z * list Z)) : res ed :=
  fold_left (fun r c => match r with Ok e => run_one (fst c) (snd c) true (-1) e | x => x end) cmds (Ok (ed_init false [])).
Definition ed_result (cmds : list (list Z * list Z)) : option (list Z * Z) :=
  match ed_runs cmds with Ok e => Some (line e, cpos e) | _ => None end.
Definition k_ins (c : Z) : list Z * list Z := (zs "self-insert", [c]).
(* K = a C-_ C-k a *)
Definition undo_K : list (list Z * list Z) := [k_ins 97; (zs "undo", [31]); (zs "kill-line", [11]); k_ins 97].
Definition undo_pre : list (list Z * list Z) := [k_ins 120; k_ins 32; k_ins 121].        (* x, space, y *)
Definition nop_cmd : list Z * list Z := (zs "set-mark", [0]).

Lemma one_more_command_changes_the_result :
  ed_result (undo_pre ++ [nop_cmd] ++ undo_K ++ [nop_cmd] ++ undo_K) = Some ([120; 32; 97], 3) /\
  ed_result (undo_pre ++ [nop_cmd] ++ undo_K ++ [nop_cmd; nop_cmd] ++ undo_K) = Some ([120; 32; 97; 97], 4).
Proof. split; vm_compute; reflexivity. Qed.
