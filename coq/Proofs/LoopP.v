(* C05 (and the chunk-independence half of C03): the outcome of the key loop depends
   only on the bytes typed, not on how they were cut into reads.  Main keymap, no macro
   bindings, commands that do not touch the key stack (argument-reading commands are
   outside: see DESIGN.md C05). *)
From Model Require Import Base Uni Utf8 Notation Dispatch.
From Proofs Require Import DispatchP.
From Coq Require Import ZifyBool.

Section Indep.
  Variable A : Type.
  Variable exec : list Z -> list Z -> A -> option (A * bool).
  Variable t : table.

  (* ---- the abstract machine: one pass over the typed bytes, never re-reading *)

  (* what running the bind of a finished token does to the application state *)
  Definition fire (b : bind_t) (read : list Z) (a : A) : A * bool :=
    if negb (snd b) && is_bound b then
      match exec (fst b) (utf8_decode read) a with
      | Some r => r
      | None => (a, false)
      end
    else (a, false).

  Inductive aout :=
  | AWait (mem : bind_t) (pend : list Z) (a : A)     (* blocked for input with `pend` read as a prefix *)
  | ARet (a : A).                                    (* a command accepted the line *)

  Fixpoint afeed (fuel : nat) (mem : bind_t) (pend : list Z) (a : A) (u : list Z) : aout :=
    match fuel with
    | O => AWait mem pend a
    | S f =>
      match token t mem pend u with
      | TokMore mem' r => AWait mem' r a
      | TokDone b r rest =>
        let '(a', acc) := fire b r a in
        if acc then ARet a' else afeed f no_bind [] a' rest
      end
    end.

  (* ---- token over a longer buffer *)

  Lemma token_app_more : forall x s r y s' r',
    token t s r x = TokMore s' r' -> r' = r ++ x /\ token t s r (x ++ y) = token t s' (r ++ x) y.
  Proof.
    induction x as [|k x IH]; intros s r y s' r' H; cbn [token] in H.
    - inversion H; subst. rewrite app_nil_r. split; reflexivity.
    - cbn [app token]. destruct (match_bind t (r ++ [k])) as [m ext].
      destruct (negb (is_bound m) && negb ext); [discriminate|].
      destruct ext; [|discriminate].
      destruct (IH _ _ y _ _ H) as [E1 E2]. rewrite <- app_assoc in E1, E2. cbn [app] in E1, E2.
      split; assumption.
  Qed.

  Lemma token_app_done : forall x s r y b r' rest,
    token t s r x = TokDone b r' rest -> token t s r (x ++ y) = TokDone b r' (rest ++ y).
  Proof.
    induction x as [|k x IH]; intros s r y b r' rest H; cbn [token] in H; [discriminate|].
    cbn [app token]. destruct (match_bind t (r ++ [k])) as [m ext].
    destruct (negb (is_bound m) && negb ext); [inversion H; subst; reflexivity|].
    destruct ext; [apply IH; exact H | inversion H; subst; reflexivity].
  Qed.

  Lemma token_done_shorter : forall x s r b r' rest, token t s r x = TokDone b r' rest -> (length rest < length x)%nat.
  Proof.
    induction x as [|k x IH]; intros s r b r' rest H; cbn [token] in H; [discriminate|].
    destruct (match_bind t (r ++ [k])) as [m ext].
    destruct (negb (is_bound m) && negb ext); [inversion H; subst; cbn; lia|].
    destruct ext; [apply IH in H; cbn; lia | inversion H; subst; cbn; lia].
  Qed.

  (* ---- feeding the bytes in two parts is feeding them at once *)

  Lemma afeed_fuel_mono : forall f1 f2 mem pend a u, (length u < f1)%nat -> (length u < f2)%nat ->
    afeed f1 mem pend a u = afeed f2 mem pend a u.
  Proof.
    induction f1 as [|f1 IH]; intros f2 mem pend a u H1 H2; [lia|]. destruct f2 as [|f2]; [lia|].
    cbn [afeed]. destruct (token t mem pend u) as [mem' r | b r rest] eqn:T; [reflexivity|].
    destruct (fire b r a) as [a' acc]. destruct acc; [reflexivity|].
    apply token_done_shorter in T. apply IH; lia.
  Qed.

  Lemma afeed_unfold : forall f mem pend a u, afeed (S f) mem pend a u =
    match token t mem pend u with
    | TokMore mem' r => AWait mem' r a
    | TokDone b r rest => let '(a', acc) := fire b r a in if acc then ARet a' else afeed f no_bind [] a' rest
    end.
  Proof. reflexivity. Qed.

  Theorem afeed_app : forall n u1 u2 f mem pend a, (length u1 <= n)%nat -> (length u1 + length u2 < f)%nat ->
    afeed f mem pend a (u1 ++ u2) =
    match afeed f mem pend a u1 with
    | ARet a' => ARet a'
    | AWait mem' pend' a' => afeed f mem' pend' a' u2
    end.
  Proof.
    induction n as [|n IH]; intros u1 u2 f mem pend a Hn Hf.
    - destruct u1; [|cbn in Hn; lia]. cbn [app]. destruct f as [|f]; [lia|]. rewrite (afeed_unfold f mem pend a []). reflexivity.
    - destruct f as [|f]; [lia|]. rewrite (afeed_unfold f mem pend a (u1 ++ u2)). rewrite (afeed_unfold f mem pend a u1).
      destruct (token t mem pend u1) as [mem' r | b r rest] eqn:T.
      + destruct (token_app_more u1 mem pend u2 mem' r T) as [Er E]. rewrite E. subst r.
        rewrite (afeed_unfold f mem' (pend ++ u1) a u2). reflexivity.
      + rewrite (token_app_done u1 mem pend u2 b r rest T).
        destruct (fire b r a) as [a' acc]. destruct acc; [reflexivity|].
        pose proof (token_done_shorter _ _ _ _ _ _ T) as Hs.
        rewrite (IH rest u2 f no_bind [] a') by lia.
        destruct (afeed f no_bind [] a' rest) as [m2 p2 a2|a2]; [|reflexivity].
        apply afeed_fuel_mono; lia.
  Qed.

  (* the whole input, read by read *)
  Fixpoint achunks (f : nat) (mem : bind_t) (pend : list Z) (a : A) (cs : list (list Z)) : aout :=
    match cs with
    | [] => AWait mem pend a
    | c :: r => match afeed f mem pend a c with
                | ARet a' => ARet a'
                | AWait mem' pend' a' => achunks f mem' pend' a' r
                end
    end.

  Theorem achunks_concat : forall cs f mem pend a, (length (concat cs) < f)%nat ->
    achunks f mem pend a cs = afeed f mem pend a (concat cs).
  Proof.
    induction cs as [|c cs IH]; intros f mem pend a Hf; cbn [achunks concat].
    - destruct f as [|f]; [cbn in Hf; lia|]. reflexivity.
    - cbn [concat] in Hf. rewrite app_length in Hf.
      rewrite (afeed_app (length c) c (concat cs) f mem pend a) by lia.
      destruct (afeed f mem pend a c) as [m2 p2 a2|a2]; [|reflexivity].
      apply IH. lia.
  Qed.
End Indep.

(* ---------------------------------------------------------------- the transliterated loop is that machine *)

Section Concrete.
  Variable A : Type.
  Variable exec : list Z -> list Z -> A -> option (A * bool).
  Variable t : table.
  Hypothesis t_nonempty : t <> [].
  (* no macro bindings: every bind of the table is a command *)
  Hypothesis no_macros : forall e, In e t -> snd (snd e) = false.

  Notation loop := (loop A exec).
  Notation afeed := (afeed A exec t).
  Notation achunks := (achunks A exec t).

  Lemma match_bind_no_macro : forall keys, snd (fst (match_bind t keys)) = false.
  Proof.
    intros keys. destruct (match_bind_macro t keys) as [H | (e & Hin & H)]; [exact H|]. rewrite H.
    apply no_macros. exact Hin.
  Qed.

  Lemma token_done_no_macro : forall x s r b r' rest, snd s = false -> token t s r x = TokDone b r' rest -> snd b = false.
  Proof.
    induction x as [|k x IH]; intros s r b r' rest Hs H; cbn [token] in H; [discriminate|].
    pose proof (match_bind_no_macro (r ++ [k])) as M.
    destruct (match_bind t (r ++ [k])) as [m ext]. cbn [fst] in M.
    destruct (negb (is_bound m) && negb ext); [inversion H; subst; exact Hs|].
    destruct ext; [|inversion H; subst; exact M].
    eapply IH; [|exact H]. destruct (is_bound m); assumption.
  Qed.

  Lemma token_more_no_macro : forall x s r s' r', snd s = false -> token t s r x = TokMore s' r' -> snd s' = false.
  Proof.
    induction x as [|k x IH]; intros s r s' r' Hs H; cbn [token] in H; [inversion H; subst; exact Hs|].
    pose proof (match_bind_no_macro (r ++ [k])) as M.
    destruct (match_bind t (r ++ [k])) as [m ext]. cbn [fst] in M.
    destruct (negb (is_bound m) && negb ext); [discriminate|].
    destruct ext; [|discriminate].
    eapply IH; [|exact H]. destruct (is_bound m); assumption.
  Qed.

  (* re-reading a pushed-back prefix from scratch lands where the scan had stopped *)
  Definition stable (mem : bind_t) (p : list Z) : Prop := token t mem [] p = TokMore mem p.

  Lemma token_replay : forall mem p u, stable mem p -> token t mem [] (p ++ u) = token t mem p u.
  Proof.
    intros mem p u H. destruct (token_app_more t p mem [] u mem p H) as [_ E]. exact E.
  Qed.

  Lemma scan_idem : forall x s r s' r', token t s r x = TokMore s' r' -> token t s' r x = TokMore s' r'.
  Proof.
    induction x as [|k x IH]; intros s r s' r' H; cbn [token] in *.
    - inversion H; subst. reflexivity.
    - destruct (match_bind t (r ++ [k])) as [m ext].
      destruct (negb (is_bound m) && negb ext); [discriminate|].
      destruct ext; [|discriminate].
      destruct (is_bound m) eqn:B.
      + exact H.
      + (* the remembered bind is only replaced by bound matches further on: two runs
           from s and from s' agree once one is met, and if none is met s' = s *)
        apply IH in H. exact H.
  Qed.

  Lemma stable_after_more : forall mem p u mem' r, stable mem p -> token t mem p u = TokMore mem' r -> stable mem' r.
  Proof.
    intros mem p u mem' r Hs H. unfold stable in *.
    destruct (token_app_more t u mem p [] mem' r H) as [Er _]. subst r.
    destruct (token_app_more t p mem [] u mem p Hs) as [_ E]. cbn [app] in E.
    assert (T : token t mem [] (p ++ u) = TokMore mem' (p ++ u)) by (rewrite E; exact H).
    apply scan_idem in T. exact T.
  Qed.

  Lemma stable_nil : forall mem, stable mem []. Proof. reflexivity. Qed.

  (* what is observable of an outcome: returned or waiting, the application state, the
     keys still buffered *)
  Definition obs (o : outcome A) : option (bool * A * list Z) :=
    match o with
    | Waiting _ st => Some (false, l_app A st, k_buf (l_keys A st))
    | Returned _ st => Some (true, l_app A st, [])
    | _ => None
    end.
  Definition aobs (o : aout A) : option (bool * A * list Z) :=
    match o with
    | AWait _ _ p a => Some (false, a, p)
    | ARet _ a => Some (true, a, [])
    end.

  Definition mk (act mem : bind_t) (buf matched : list Z) (mw : bool) (a : A) : lstate A :=
    {| l_eng := {| e_active := act; e_prefixed := mem; e_vi := false |};
       l_keys := {| k_buf := buf; k_macro := []; k_matched := matched; k_must_wait := mw |};
       l_app := a |}.

  Lemma token_done_read_longer : forall x s r b r' rest, token t s r x = TokDone b r' rest -> (length r < length r')%nat.
  Proof.
    induction x as [|k x IH]; intros s r b r' rest H; cbn [token] in H; [discriminate|].
    destruct (match_bind t (r ++ [k])) as [m ext].
    destruct (negb (is_bound m) && negb ext); [inversion H; subst; rewrite app_length; cbn; lia|].
    destruct ext; [apply IH in H; rewrite app_length in H; cbn in H; lia | inversion H; subst; rewrite app_length; cbn; lia].
  Qed.

  (* MatchMain on a buffer, in terms of the token scan *)
  Lemma match_main_token : forall act mem buf matched mw,
    buf <> [] ->
    match token t mem [] buf with
    | TokMore mem' r =>
      exists act', match_main t {| e_active := act; e_prefixed := mem; e_vi := false |}
                              {| k_buf := buf; k_macro := []; k_matched := matched; k_must_wait := mw |}
                   = ({| e_active := act'; e_prefixed := mem'; e_vi := false |},
                      {| k_buf := r; k_macro := []; k_matched := utf8_decode r; k_must_wait := true |}, act', true)
    | TokDone b r rest =>
      match_main t {| e_active := act; e_prefixed := mem; e_vi := false |}
                   {| k_buf := buf; k_macro := []; k_matched := matched; k_must_wait := mw |}
      = ({| e_active := b; e_prefixed := no_bind; e_vi := false |},
         {| k_buf := rest; k_macro := []; k_matched := utf8_decode r; k_must_wait := false |}, b, false)
    end.
  Proof.
    intros act mem buf matched mw Hne. unfold match_main. destruct t as [|t0 tr] eqn:Et; [contradiction|]. rewrite <- Et.
    unfold dispatch_keys. cbn [k_buf k_macro length Nat.add].
    pose proof (dispatch_go_token (S (length buf + 0)) t {| e_active := act; e_prefixed := mem; e_vi := false |}
                  {| k_buf := buf; k_macro := []; k_matched := matched; k_must_wait := mw |} false [] [] eq_refl ltac:(cbn; lia)) as D.
    cbn [e_prefixed k_buf] in D.
    destruct (token t mem [] buf) as [mem' r | b r rest] eqn:T.
    - destruct D as [m' D]. rewrite D. cbn [e_active e_prefixed e_vi].
      destruct buf as [|b0 buf']; [contradiction|].
      destruct (token_app_more t (b0 :: buf') mem [] [] mem' r T) as [Er _]. cbn [app] in Er. subst r.
      unfold with_buf. cbn [k_buf k_macro k_matched k_must_wait matched_prefix andb app].
      rewrite app_nil_r. eexists. reflexivity.
    - destruct D as [m' D]. rewrite D. unfold with_buf. cbn [e_active e_prefixed e_vi k_buf k_macro k_matched k_must_wait matched_keys andb app].
      assert (Hr : r <> []) by (apply token_done_read_longer in T; destruct r; [cbn in T; lia | discriminate]).
      destruct r as [|r0 r']; [contradiction|]. reflexivity.
  Qed.

  Fixpoint weight (cs : list (list Z)) : nat :=
    match cs with [] => 0%nat | c :: r => (2 * length c + 2 + weight r)%nat end.

  Lemma wait_keys_proceed : forall b0 buf matched ins,
    wait_keys false {| k_buf := b0 :: buf; k_macro := []; k_matched := matched; k_must_wait := false |} ins
    = Some ({| k_buf := b0 :: buf; k_macro := []; k_matched := matched; k_must_wait := false |}, ins, false).
  Proof. reflexivity. Qed.

  Lemma wait_keys_read : forall buf matched mw c ins, (buf = [] \/ mw = true) ->
    wait_keys false {| k_buf := buf; k_macro := []; k_matched := matched; k_must_wait := mw |} (Chunk c :: ins)
    = Some ({| k_buf := buf ++ c; k_macro := []; k_matched := matched; k_must_wait := mw |}, ins, false).
  Proof. intros buf matched mw c ins H. unfold wait_keys. cbn [k_buf k_must_wait k_macro k_matched]. destruct buf as [|b0 buf']; [reflexivity|]. destruct H as [H|H]; [discriminate | subst mw; reflexivity]. Qed.

  Lemma wait_keys_block : forall buf matched mw, (buf = [] \/ mw = true) ->
    wait_keys false {| k_buf := buf; k_macro := []; k_matched := matched; k_must_wait := mw |} [] = None.
  Proof. intros buf matched mw H. unfold wait_keys. cbn [k_buf k_must_wait k_macro]. destruct buf as [|b0 buf']; [reflexivity|]. destruct H as [H|H]; [discriminate | subst mw; reflexivity]. Qed.

  Definition after_match (fuel : nat) (a : A) (ins : list input) (r : engine * keys * bind_t * bool) : outcome A :=
    let '(e, k, b, prefix) := r in
    if prefix then loop fuel false t {| l_eng := e; l_keys := k; l_app := a |} ins
    else
      let k0 := if snd b then feed k (unescape (fst b)) else k in
      if negb (snd b) && is_bound b then
        match exec (fst b) (k_matched k0) a with
        | Some (a0, true) => Returned A {| l_eng := e; l_keys := k0; l_app := a0 |}
        | Some (a0, false) => loop fuel false t {| l_eng := e; l_keys := k0; l_app := a0 |} ins
        | None => loop fuel false t {| l_eng := e; l_keys := k0; l_app := a |} ins
        end
      else loop fuel false t {| l_eng := e; l_keys := k0; l_app := a |} ins.

  Lemma loop_proceed : forall fuel st ins k ins',
    wait_keys false (flush_used (l_keys A st)) ins = Some (k, ins', false) -> k_buf k <> [] ->
    loop (S fuel) false t st ins = after_match fuel (l_app A st) ins' (match_main t (l_eng A st) k).
  Proof.
    intros fuel st ins k ins' W Hne. cbn [Dispatch.loop]. rewrite W.
    destruct (k_buf k) as [|x xs] eqn:E; [contradiction|].
    unfold after_match. destruct (match_main t (l_eng A st) k) as [[[e k1] b] prefix]. reflexivity.
  Qed.

  Lemma loop_block : forall fuel st, wait_keys false (flush_used (l_keys A st)) [] = None ->
    loop (S fuel) false t st [] = Waiting A {| l_eng := l_eng A st; l_keys := flush_used (l_keys A st); l_app := l_app A st |}.
  Proof. intros fuel st W. cbn [Dispatch.loop]. rewrite W. reflexivity. Qed.

  (* continuing after a finished token *)
  Definition cont_state (b : bind_t) (rest r : list Z) (a : A) : lstate A :=
    {| l_eng := {| e_active := b; e_prefixed := no_bind; e_vi := false |};
       l_keys := {| k_buf := rest; k_macro := []; k_matched := utf8_decode r; k_must_wait := false |};
       l_app := a |}.

  Lemma after_match_done : forall fuel a ins b r rest, snd b = false ->
    after_match fuel a ins ({| e_active := b; e_prefixed := no_bind; e_vi := false |},
                            {| k_buf := rest; k_macro := []; k_matched := utf8_decode r; k_must_wait := false |}, b, false)
    = let '(a', acc) := fire A exec b r a in
      if acc then Returned A (cont_state b rest r a') else loop fuel false t (cont_state b rest r a') ins.
  Proof.
    intros fuel a ins b r rest Nb. unfold after_match, fire, cont_state. rewrite Nb. cbn [negb andb k_matched].
    destruct (is_bound b); [|reflexivity].
    destruct (exec (fst b) (utf8_decode r) a) as [[a' acc]|]; [destruct acc; reflexivity | reflexivity].
  Qed.

  (* the two kinds of states the loop is in between commands:
     process = keys buffered and nothing remembered; need = blocked for the next read with
     a (stable) pushed-back prefix *)
  Theorem loop_is_machine : forall n,
    (forall fuel F act buf matched a cs,
       buf <> [] -> Forall (fun c => c <> []) cs ->
       (2 * length buf + 1 + weight cs <= n)%nat -> (n < fuel)%nat -> (length buf + length (concat cs) < F)%nat ->
       obs (loop fuel false t (mk act no_bind buf matched false a) (map Chunk cs)) =
       aobs (match afeed F no_bind [] a buf with
             | ARet _ a' => ARet A a'
             | AWait _ m p a' => achunks F m p a' cs
             end)) /\
    (forall fuel F act mem buf matched mw a cs,
       (buf = [] \/ mw = true) -> stable mem buf -> snd mem = false -> Forall (fun c => c <> []) cs ->
       (2 * length buf + weight cs <= n)%nat -> (n < fuel)%nat -> (length buf + length (concat cs) < F)%nat ->
       obs (loop fuel false t (mk act mem buf matched mw a) (map Chunk cs)) = aobs (achunks F mem buf a cs)).
  Proof.
    induction n as [n IH] using lt_wf_ind.
    (* after a finished token, both kinds of continuation *)
    assert (Cont : forall fuel F b rest r a' cs m,
              (m < n)%nat -> (2 * length rest + 1 + weight cs <= m)%nat -> (m < fuel)%nat ->
              Forall (fun c => c <> []) cs -> (length rest + length (concat cs) < F)%nat ->
              obs (loop fuel false t (cont_state b rest r a') (map Chunk cs)) =
              aobs (match afeed F no_bind [] a' rest with ARet _ x => ARet A x | AWait _ mm p x => achunks F mm p x cs end)).
    { intros fuel F b rest r a' cs m Hm Hw Hfu Hcs HF. destruct rest as [|r0 rest'].
      - destruct F as [|F']; [lia|]. rewrite (afeed_unfold A exec t F' no_bind [] a' []). cbn [token].
        destruct (IH m Hm) as [_ IH2].
        apply (IH2 fuel (S F') b no_bind [] (utf8_decode r) false a' cs); auto; try (cbn in *; lia). apply stable_nil.
      - destruct (IH m Hm) as [IH1 _].
        apply (IH1 fuel F b (r0 :: rest') (utf8_decode r) a' cs); auto; try lia. discriminate. }
    split.
    - (* process *)
      intros fuel F act buf matched a cs Hne Hcs Hn Hf HF.
      destruct fuel as [|fuel]; [lia|]. destruct F as [|F]; [lia|].
      rewrite (loop_proceed fuel (mk act no_bind buf matched false a) (map Chunk cs)
                 {| k_buf := buf; k_macro := []; k_matched := []; k_must_wait := false |} (map Chunk cs));
        [| destruct buf as [|b0 buf']; [contradiction | reflexivity] | exact Hne].
      cbn [mk l_eng l_app].
      pose proof (match_main_token act no_bind buf [] false Hne) as M.
      rewrite (afeed_unfold A exec t F no_bind [] a buf).
      destruct (token t no_bind [] buf) as [mem' r | b r rest] eqn:T.
      + destruct M as [act' M]. rewrite M. unfold after_match.
        destruct (token_app_more t buf no_bind [] [] mem' r T) as [Er _]. cbn [app] in Er. subst r.
        assert (St : stable mem' buf) by (apply scan_idem in T; exact T).
        assert (Nm : snd mem' = false) by (exact (token_more_no_macro buf no_bind [] mem' buf eq_refl T)).
        destruct (IH (2 * length buf + weight cs)%nat ltac:(lia)) as [_ IH2].
        apply (IH2 fuel (S F) act' mem' buf (utf8_decode buf) true a cs); auto; lia.
      + rewrite M.
        assert (Nb : snd b = false) by (exact (token_done_no_macro buf no_bind [] b r rest eq_refl T)).
        rewrite after_match_done by exact Nb.
        pose proof (token_done_shorter t _ _ _ _ _ _ T) as Hs.
        destruct (fire A exec b r a) as [a' acc]. destruct acc; [reflexivity|].
        rewrite (afeed_fuel_mono A exec t F (S F) no_bind [] a' rest) by lia.
        rewrite (Cont fuel (S F) b rest r a' cs (2 * length rest + 1 + weight cs)%nat); auto; try lia.
    - (* need input *)
      intros fuel F act mem buf matched mw a cs Hw Hst Hnm Hcs Hn Hf HF.
      destruct fuel as [|fuel]; [lia|].
      destruct cs as [|c cs'].
      + cbn [map]. rewrite loop_block; [reflexivity|].
        cbn [mk l_keys]. unfold flush_used. cbn [k_buf k_macro k_matched k_must_wait]. apply wait_keys_block. exact Hw.
      + inversion Hcs as [|? ? Hc Hcs']; subst.
        assert (Hbc : buf ++ c <> []) by (destruct buf; [exact Hc | discriminate]).
        cbn [map].
        rewrite (loop_proceed fuel (mk act mem buf matched mw a) (Chunk c :: map Chunk cs')
                   {| k_buf := buf ++ c; k_macro := []; k_matched := []; k_must_wait := mw |} (map Chunk cs'));
          [| cbn [mk l_keys]; unfold flush_used; cbn [k_buf k_macro k_matched k_must_wait]; apply wait_keys_read; exact Hw | exact Hbc].
        cbn [mk l_eng l_app].
        pose proof (match_main_token act mem (buf ++ c) [] mw Hbc) as M.
        rewrite (token_replay mem buf c Hst) in M.
        cbn [Proofs.LoopP.achunks]. cbn [weight concat] in *. rewrite app_length in HF.
        destruct F as [|F]; [lia|]. rewrite (afeed_unfold A exec t F mem buf a c).
        destruct (token t mem buf c) as [mem' r | b r rest] eqn:T.
        * destruct M as [act' M]. rewrite M. unfold after_match.
          destruct (token_app_more t c mem buf [] mem' r T) as [Er _]. subst r.
          assert (St : stable mem' (buf ++ c)) by (eapply stable_after_more; [exact Hst | exact T]).
          assert (Nm : snd mem' = false) by (exact (token_more_no_macro c mem buf mem' (buf ++ c) Hnm T)).
          destruct (IH (2 * length (buf ++ c) + weight cs')%nat ltac:(rewrite app_length; lia)) as [_ IH2].
          apply (IH2 fuel (S F) act' mem' (buf ++ c) (utf8_decode (buf ++ c)) true a cs'); auto; rewrite ?app_length; lia.
        * rewrite M.
          assert (Nb : snd b = false) by (exact (token_done_no_macro c mem buf b r rest Hnm T)).
          rewrite after_match_done by exact Nb.
          pose proof (token_done_shorter t _ _ _ _ _ _ T) as Hs.
          destruct (fire A exec b r a) as [a' acc]. destruct acc; [reflexivity|].
          rewrite (Cont fuel (S F) b rest r a' cs' (2 * length rest + 1 + weight cs')%nat); auto; try lia.
          rewrite (afeed_fuel_mono A exec t (S F) F no_bind [] a' rest) by lia. reflexivity.
  Qed.
End Concrete.
