(* C04: for a printable-ASCII prompt and buffer, the cell the display arithmetic of the code
   computes for the cursor (CoordinatesCursor / LineSpan: division and remainder by the
   width) is the cell on which the terminal model puts the character at the cursor
   position when prompt and buffer are written character by character - for every
   width, prompt, buffer and cursor position (no bound on the length: any number of
   wrapped rows, rows exactly filled included). *)
From Model Require Import Base Utf8 Term Display.
From Coq Require Import ZifyBool.
Open Scope Z_scope.
Ltac Zify.zify_post_hook ::= Z.div_mod_to_equations.

Definition ascii_text (s : list Z) : bool := forallb (fun c => (32 <=? c) && (c <=? 126)) s.

Lemma ascii_width : forall c, 32 <= c <= 126 -> rune_width c = 1.
Proof. intros c H. unfold rune_width. repeat match goal with |- context [if ?b then _ else _] => replace b with false by lia end. reflexivity. Qed.

Lemma zlen_cons : forall (A : Type) (a : A) l, zlen (a :: l) = zlen l + 1.
Proof. intros. unfold zlen. cbn [length]. lia. Qed.

(* ---- the arithmetic of the code *)

Lemma real_length_acc : forall s a, ascii_text s = true ->
  fold_left (fun a c => a + (if c =? 9 then 5 else rune_width c)) s a = a + zlen s.
Proof.
  induction s as [|c s IH]; intros a H; cbn [fold_left]; [unfold zlen; cbn; lia|].
  cbn [ascii_text forallb] in H. apply andb_true_iff in H. destruct H as [Hc Hs].
  rewrite IH by exact Hs. replace (c =? 9) with false by lia. rewrite ascii_width by lia. rewrite zlen_cons. lia.
Qed.

Lemma real_length_ascii : forall s, ascii_text s = true -> real_length s = zlen s.
Proof. intros s H. unfold real_length. rewrite real_length_acc by exact H. lia. Qed.

Lemma encode_ascii : forall s, ascii_text s = true -> utf8_encode s = s.
Proof.
  induction s as [|c s IH]; intros H; [reflexivity|].
  cbn [ascii_text forallb] in H. apply andb_true_iff in H. destruct H as [Hc Hs].
  cbn [utf8_encode flat_map]. fold (utf8_encode s). rewrite IH by exact Hs. unfold encode1.
  replace ((c <? 0) || (1114111 <? c) || ((55296 <=? c) && (c <=? 57343))) with false by lia.
  replace (c <? 128) with true by lia. reflexivity.
Qed.

Lemma nl_go_ascii : forall s i, ascii_text s = true -> nl_offsets_go (s ++ [10]) i = [i + zlen s].
Proof.
  induction s as [|c s IH]; intros i H; cbn [app nl_offsets_go].
  - cbn. f_equal. unfold zlen. cbn. lia.
  - cbn [ascii_text forallb] in H. apply andb_true_iff in H. destruct H as [Hc Hs].
    replace (c =? 10) with false by lia. rewrite IH by exact Hs. rewrite zlen_cons. f_equal. lia.
Qed.

Lemma ascii_firstn : forall s n, ascii_text s = true -> ascii_text (firstn n s) = true.
Proof.
  induction s as [|c s IH]; intros n H; destruct n; try reflexivity.
  cbn [firstn ascii_text forallb] in *. apply andb_true_iff in H. destruct H as [Hc Hs].
  rewrite Hc. cbn [andb]. apply IH. exact Hs.
Qed.

Lemma zlen_firstn' : forall (l : list Z) n, 0 <= n <= zlen l -> zlen (firstn (Z.to_nat n) l) = n.
Proof. intros l n H. unfold zlen in *. rewrite firstn_length. lia. Qed.

(* CoordinatesCursor on a single-line ASCII buffer: column and row by remainder and division *)
Theorem coordinates_cursor_ascii : forall w l cpos indent, ascii_text l = true -> 0 <= cpos <= zlen l ->
  coordinates_cursor w l cpos indent = Ok ((cpos + indent) mod w, (cpos + indent) / w).
Proof.
  intros w l cpos indent H Hc. unfold coordinates_cursor.
  replace (cpos <? 0) with false by lia. replace (zlen l <? cpos) with false by lia.
  unfold nl_offsets. rewrite encode_ascii by exact H. rewrite nl_go_ascii by exact H.
  cbn [coord_cursor_go]. replace (0 + zlen l <? cpos) with false by lia.
  unfold slice. replace ((0 <=? 0) && (0 <=? cpos) && (cpos <=? zlen l)) with true by lia. cbn [bind].
  unfold line_span, sub. cbn [skipn Z.to_nat]. rewrite Z.sub_0_r.
  rewrite real_length_ascii by (apply ascii_firstn; exact H). rewrite zlen_firstn' by lia.
  cbn [Z.eqb]. rewrite Z.add_0_r. rewrite Z.add_0_l. reflexivity.
Qed.

(* ---- the terminal: where the next character lands *)

(* the linear position of the next cell *)
Definition npos (t : term) : Z := t_r t * t_cols t + t_c t + (if t_pend t then 1 else 0).
Definition tinv (t : term) : Prop :=
  0 < t_cols t /\ 0 <= t_r t /\ 0 <= t_c t < t_cols t /\ (t_pend t = true -> t_c t = t_cols t - 1).

Lemma next_cell_npos : forall t, tinv t -> next_cell t = (npos t / t_cols t, npos t mod t_cols t).
Proof.
  intros t (W & R & C & P). unfold next_cell, npos. destruct (t_pend t) eqn:E.
  - specialize (P eq_refl).
    replace (t_r t * t_cols t + t_c t + 1) with ((t_r t + 1) * t_cols t) by (rewrite P; ring).
    rewrite Z.div_mul, Z.mod_mul by lia. reflexivity.
  - rewrite Z.add_0_r. rewrite (Z.add_comm (t_r t * t_cols t)).
    rewrite Z.div_add, Z.mod_add by lia. rewrite Z.div_small, Z.mod_small by lia. f_equal; lia.
Qed.

(* what a width-1 character does to the cursor, when the screen does not scroll *)
Lemma put_cur : forall t ch, rune_width ch = 1 -> (t_pend t = true -> t_r t < t_rows t - 1) ->
  t_rows (put t ch) = t_rows t /\ t_cols (put t ch) = t_cols t /\
  t_r (put t ch) = (if t_pend t then t_r t + 1 else t_r t) /\
  t_c (put t ch) = (if t_cols t <=? (if t_pend t then 0 else t_c t) + 1 then t_cols t - 1 else (if t_pend t then 0 else t_c t) + 1) /\
  t_pend (put t ch) = (t_cols t <=? (if t_pend t then 0 else t_c t) + 1).
Proof.
  intros t ch Hw Hs. unfold put. rewrite Hw. destruct (t_pend t) eqn:E.
  - specialize (Hs eq_refl). unfold linefeed. cbn [t_r t_rows upd].
    replace (t_r t =? t_rows t - 1) with false by lia. cbn.
    destruct (t_cols t <=? 1) eqn:E1; cbn; rewrite ?E1; repeat split; reflexivity.
  - cbn. destruct (t_cols t <=? t_c t + 1) eqn:E1; cbn; rewrite ?E1; repeat split; reflexivity.
Qed.

(* a width-1 character moves the next cell one step *)
Lemma put_npos : forall t ch, tinv t -> rune_width ch = 1 -> npos t < t_rows t * t_cols t ->
  tinv (put t ch) /\ npos (put t ch) = npos t + 1 /\ t_cols (put t ch) = t_cols t /\ t_rows (put t ch) = t_rows t.
Proof.
  intros t ch (W & R & C & P) Hw Hn.
  assert (Hs : t_pend t = true -> t_r t < t_rows t - 1).
  { intros E. specialize (P E). unfold npos in Hn. rewrite E in Hn.
    assert (H1 : (t_r t + 1) * t_cols t < t_rows t * t_cols t) by (rewrite Z.mul_add_distr_r, Z.mul_1_l; rewrite P in Hn; lia).
    assert (H2 : t_r t + 1 < t_rows t) by (apply (Z.mul_lt_mono_pos_r (t_cols t)); [lia | exact H1]). lia. }
  destruct (put_cur t ch Hw Hs) as (Hr & Hc & R1 & C1 & P1).
  unfold tinv, npos. rewrite Hr, Hc, R1, C1, P1.
  destruct (t_pend t) eqn:E.
  - specialize (P eq_refl). destruct (t_cols t <=? 0 + 1) eqn:E1.
    + assert (t_cols t = 1) by lia. repeat split; try lia; try (rewrite Z.mul_add_distr_r; lia).
    + repeat split; try lia; try (rewrite Z.mul_add_distr_r; lia); try (intros; discriminate).
  - destruct (t_cols t <=? t_c t + 1) eqn:E1.
    + repeat split; try lia.
    + repeat split; try lia; try (intros; discriminate).
Qed.

Lemma puts_npos : forall s t, ascii_text s = true -> tinv t -> npos t + zlen s <= t_rows t * t_cols t ->
  tinv (fold_left put s t) /\ npos (fold_left put s t) = npos t + zlen s /\
  t_cols (fold_left put s t) = t_cols t /\ t_rows (fold_left put s t) = t_rows t.
Proof.
  induction s as [|c s IH]; intros t H I Hn; cbn [fold_left].
  - unfold zlen. cbn. repeat split; try apply I; lia.
  - cbn [ascii_text forallb] in H. apply andb_true_iff in H. destruct H as [Hc Hs]. rewrite zlen_cons in Hn.
    assert (Z0 : 0 <= zlen s) by (unfold zlen; lia).
    destruct (put_npos t c I (ascii_width c ltac:(lia)) ltac:(lia)) as (I1 & N1 & C1 & R1).
    destruct (IH (put t c) Hs I1 ltac:(rewrite N1, R1, C1; lia)) as (I2 & N2 & C2 & R2).
    rewrite zlen_cons. repeat split; try apply I2; try lia.
Qed.

(* ---- the reference layout on ASCII text *)

Lemma put_text_ascii : forall indent t c, 32 <= c <= 126 -> put_text_char indent t c = put t c.
Proof. intros indent t c H. unfold put_text_char. replace (c =? 10) with false by lia. replace (c =? 9) with false by lia. reflexivity. Qed.

Lemma layout_go_after : forall l indent t i cpos cell, cpos < i -> snd (layout_go indent t l i cpos cell) = cell.
Proof.
  induction l as [|c l IH]; intros indent t i cpos cell H; cbn [layout_go snd].
  - replace (i =? cpos) with false by lia. reflexivity.
  - replace (i =? cpos) with false by lia. apply IH. lia.
Qed.

Lemma layout_go_cell : forall l indent t i cpos cell, ascii_text l = true -> i <= cpos <= i + zlen l ->
  snd (layout_go indent t l i cpos cell) = next_cell (fold_left put (firstn (Z.to_nat (cpos - i)) l) t).
Proof.
  induction l as [|c l IH]; intros indent t i cpos cell H Hc.
  - unfold zlen in Hc. cbn in Hc. cbn [layout_go snd]. replace (i =? cpos) with true by lia.
    rewrite firstn_nil. reflexivity.
  - cbn [ascii_text forallb] in H. apply andb_true_iff in H. destruct H as [Hch Hl]. rewrite zlen_cons in Hc.
    cbn [layout_go]. rewrite put_text_ascii by lia.
    destruct (Z.eq_dec i cpos) as [E|E].
    + subst cpos. rewrite Z.eqb_refl. rewrite layout_go_after by lia. rewrite Z.sub_diag. reflexivity.
    + replace (i =? cpos) with false by lia. rewrite (IH indent (put t c) (i + 1) cpos cell Hl) by lia.
      replace (Z.to_nat (cpos - i)) with (S (Z.to_nat (cpos - (i + 1)))) by lia. reflexivity.
Qed.

Lemma term_init_inv : forall rows w, 0 < w -> tinv (term_init rows w) /\ npos (term_init rows w) = 0 /\
  t_rows (term_init rows w) = rows /\ t_cols (term_init rows w) = w.
Proof. intros rows w H. unfold tinv, npos. cbn. repeat split; try lia; try (intros; discriminate). Qed.

(* the cell on which the reference puts the cursor: division and remainder of prompt + cursor *)
Theorem layout_cursor_cell : forall rows w ps l cpos,
  0 < w -> ascii_text ps = true -> ascii_text l = true -> zlen ps + zlen l <= rows * w -> 0 <= cpos <= zlen l ->
  snd (layout rows w ps l cpos) = ((zlen ps + cpos) / w, (zlen ps + cpos) mod w).
Proof.
  intros rows w ps l cpos W Hp Hl Hfit Hc. unfold layout.
  destruct (term_init_inv rows w W) as (I0 & N0 & R0 & C0).
  assert (Zp : 0 <= zlen ps) by (unfold zlen; lia). assert (Zl : 0 <= zlen l) by (unfold zlen; lia).
  destruct (puts_npos ps (term_init rows w) Hp I0 ltac:(rewrite N0, R0, C0; lia)) as (I1 & N1 & C1 & R1).
  set (t1 := fold_left put ps (term_init rows w)) in *.
  rewrite (layout_go_cell l _ t1 0 cpos _ Hl) by lia. rewrite Z.sub_0_r.
  assert (Hf : ascii_text (firstn (Z.to_nat cpos) l) = true) by (apply ascii_firstn; exact Hl).
  assert (Lf : zlen (firstn (Z.to_nat cpos) l) = cpos) by (apply zlen_firstn'; lia).
  destruct (puts_npos (firstn (Z.to_nat cpos) l) t1 Hf I1 ltac:(rewrite Lf, N1, N0, R1, C1, R0, C0; lia)) as (I2 & N2 & C2 & R2).
  rewrite next_cell_npos by exact I2. rewrite N2, C2, C1, C0, Lf, N1, N0. rewrite Z.add_0_l. reflexivity.
Qed.

(* the code's cursor coordinates are that cell *)
Theorem cursor_on_the_right_cell : forall rows w ps l cpos,
  0 < w -> ascii_text ps = true -> ascii_text l = true -> zlen ps + zlen l <= rows * w -> 0 <= cpos <= zlen l ->
  exists x y, coordinates_cursor w l cpos (zlen ps) = Ok (x, y) /\ snd (layout rows w ps l cpos) = (y, x).
Proof.
  intros rows w ps l cpos W Hp Hl Hfit Hc.
  exists ((cpos + zlen ps) mod w), ((cpos + zlen ps) / w). split.
  - apply coordinates_cursor_ascii; assumption.
  - rewrite (layout_cursor_cell rows w ps l cpos W Hp Hl Hfit Hc). rewrite (Z.add_comm (zlen ps)). reflexivity.
Qed.

(* ---- C11: where AcceptLine leaves the cursor *)

Theorem coordinates_line_ascii : forall w l indent, ascii_text l = true ->
  coordinates_line w l indent = ((zlen l + indent) mod w, (zlen l + indent) / w).
Proof.
  intros w l indent H. unfold coordinates_line, split_nl.
  assert (S : forall s cur, ascii_text s = true -> split_nl_go s cur = [rev cur ++ s]).
  { induction s as [|c s IH]; intros cur Hs; cbn [split_nl_go]; [rewrite app_nil_r; reflexivity|].
    cbn [ascii_text forallb] in Hs. apply andb_true_iff in Hs. destruct Hs as [Hc Hs'].
    replace (c =? 10) with false by lia. rewrite IH by exact Hs'. cbn [rev]. rewrite <- app_assoc. reflexivity. }
  rewrite S by exact H. cbn [rev app coord_line_go]. unfold line_span. rewrite real_length_ascii by exact H.
  cbn [Z.eqb]. rewrite Z.add_0_r. rewrite Z.add_0_l. reflexivity.
Qed.

Lemma move_back_all : forall rows cols r c n, 0 <= c <= n -> do_move rows cols (r, c) (MBack n) = (r, 0).
Proof. intros. cbn [do_move]. unfold zmax. destruct (n <? 1) eqn:E; [f_equal; lia|]. destruct (0 <? c - n) eqn:F; f_equal; lia. Qed.
Lemma move_up_exact : forall rows cols r c n, 0 <= r -> 0 <= n -> do_move rows cols (r + n, c) (MUp n) = (r, c).
Proof. intros. cbn [do_move]. unfold zmax. destruct (n <? 1) eqn:E; [f_equal; lia|]. destruct (0 <? r + n - n) eqn:F; f_equal; lia. Qed.
Lemma move_down_free : forall rows cols r c n, 0 <= n -> r + n < rows -> do_move rows cols (r, c) (MDown n) = (r + n, c).
Proof. intros. cbn [do_move]. unfold zmin. destruct (n <? 1) eqn:E; [f_equal; lia|]. destruct (rows - 1 <? r + n) eqn:F; f_equal; lia. Qed.
Lemma move_fwd_in : forall rows cols r c n, 0 < cols -> 0 <= c < cols -> 0 <= n ->
  exists c', do_move rows cols (r, c) (MFwd n) = (r, c') /\ 0 <= c' < cols.
Proof.
  intros. cbn [do_move]. unfold zmin. destruct (n <? 1) eqn:E; [exists c; split; [reflexivity | lia]|].
  destruct (cols - 1 <? c + n) eqn:F; eexists; (split; [reflexivity | lia]).
Qed.

(* from the cursor cell of the frame (row r0 + cursor_row, column cursor_col), whatever
   the frame's coordinates are (any cursor, any start column within the screen), the
   moves of AcceptLine end in column 0 of the row below the row r0 + line_rows *)
Theorem accept_line_ends_below : forall rows cols r0 cursor_col cursor_row start_cols line_rows line_col,
  0 < cols -> 0 <= r0 -> 0 <= cursor_row -> 0 <= cursor_col < cols -> 0 <= start_cols -> 0 <= line_rows -> 0 <= line_col ->
  r0 + cursor_row < rows -> r0 + line_rows + 1 < rows ->
  fold_left (do_move rows cols) (accept_line_moves cols cursor_col cursor_row start_cols line_rows line_col)
            (r0 + cursor_row, cursor_col)
  = (r0 + line_rows + 1, 0).
Proof.
  intros rows cols r0 cc cr sc lr lc W R0 CR CC SC LR LC H1 H2.
  unfold accept_line_moves. cbn [fold_left].
  rewrite (move_back_all rows cols (r0 + cr) cc cc) by lia.
  rewrite (move_up_exact rows cols r0 0 cr) by lia.
  destruct (move_fwd_in rows cols r0 0 sc W ltac:(lia) SC) as (c1 & E1 & B1). rewrite E1.
  rewrite (move_back_all rows cols r0 c1 cols) by lia.
  rewrite (move_down_free rows cols r0 0 lr) by lia.
  destruct (move_fwd_in rows cols (r0 + lr) 0 lc W ltac:(lia) LC) as (c2 & E2 & B2). rewrite E2.
  rewrite (move_back_all rows cols (r0 + lr) c2 cols) by lia.
  cbn [do_move]. unfold zmin. destruct (rows - 1 <? r0 + lr + 1) eqn:F; f_equal; lia.
Qed.

Lemma move_fwd_exact : forall rows cols r n, 0 < cols -> 0 <= n < cols -> do_move rows cols (r, 0) (MFwd n) = (r, n).
Proof. intros. cbn [do_move]. unfold zmin. destruct (n <? 1) eqn:E; [f_equal; lia|]. destruct (cols - 1 <? 0 + n) eqn:F; f_equal; lia. Qed.

Lemma move_up_free : forall rows cols r c n, 0 <= n <= r -> do_move rows cols (r, c) (MUp n) = (r - n, c).
Proof. intros. cbn [do_move]. unfold zmax. destruct (n <? 1) eqn:E; [f_equal; lia|]. destruct (0 <? r - n) eqn:F; f_equal; lia. Qed.

(* from the end of the line just written (row r0 + line_rows, any column), with the rows of the
   frame and the one below them on the screen, the moves that end Refresh put the terminal
   cursor on row r0 + cursor_row, column cursor_col - the cell CoordinatesCursor computed *)
Theorem refresh_ends_on_the_cursor_cell : forall rows cols r0 c cursor_col cursor_row start_cols line_rows,
  0 < cols -> 0 <= r0 -> 0 <= c < cols -> 0 <= cursor_row <= line_rows -> 0 <= cursor_col < cols -> 0 <= start_cols ->
  r0 + line_rows + 1 < rows ->
  fold_left (do_move rows cols) (refresh_tail_moves cols cursor_col cursor_row start_cols line_rows) (r0 + line_rows, c)
  = (r0 + cursor_row, cursor_col).
Proof.
  intros rows cols r0 c cc cr sc lr W R0 C CR CC SC H.
  unfold refresh_tail_moves. cbn [fold_left].
  replace (do_move rows cols (r0 + lr, c) MCrLf) with (r0 + lr + 1, 0) by (cbn [do_move]; unfold zmin; destruct (rows - 1 <? r0 + lr + 1) eqn:F; f_equal; lia).
  rewrite (move_back_all rows cols (r0 + lr + 1) 0 cols) by lia.
  rewrite (move_up_free rows cols (r0 + lr + 1) 0 1) by lia.
  rewrite (move_up_free rows cols (r0 + lr + 1 - 1) 0 (lr - cr)) by lia.
  rewrite (move_back_all rows cols (r0 + lr + 1 - 1 - (lr - cr)) 0 cc) by lia.
  rewrite (move_up_free rows cols (r0 + lr + 1 - 1 - (lr - cr)) 0 cr) by lia.
  destruct (move_fwd_in rows cols (r0 + lr + 1 - 1 - (lr - cr) - cr) 0 sc W ltac:(lia) SC) as (c1 & E1 & B1). rewrite E1.
  rewrite (move_down_free rows cols (r0 + lr + 1 - 1 - (lr - cr) - cr) c1 cr) by lia.
  rewrite (move_back_all rows cols (r0 + lr + 1 - 1 - (lr - cr) - cr + cr) c1 cols) by lia.
  rewrite (move_fwd_exact rows cols _ cc W CC). f_equal. lia.
Qed.
