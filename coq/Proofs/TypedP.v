(* C02: what the user types is what Readline returns.
   Three layers, each closed on its own:
   - characters: for EVERY Unicode scalar value above 0x7f (a finite domain, swept by
     vm_compute and lifted to a forall) the UTF-8 encoding has the shape the dispatcher
     relies on: no proper prefix is a full rune, the whole is one, it decodes to the
     character;
   - table: a boolean check of a bind table (evaluated on the tables regenerated from
     the live code on every run) that is enough for every printable character to be
     dispatched to self-insert and RET to accept-line;
   - editor: self-insert at the end of the line appends the character, accept-line
     returns the line.
   They are put together on the abstract machine of LoopP.v (to which the loop is proved
   equal for every cutting of the input into reads). *)
From Coq Require Import String.
From Model Require Import Base Uni Utf8 Notation HistFile Dispatch Editor.
From Proofs Require Import NotationP DispatchP LoopP EditorP HistoryP Utf8P.
From Coq Require Import ZifyBool.
Open Scope Z_scope.

(* ---------------------------------------------------------------- the table check *)

Definition s_accept_line : list Z := zs "accept-line".
Definition bind_is (m : bind_t) (name : list Z) : bool := eqlZ (fst m) name && negb (snd m).

(* no sequence of the table starts (after ConvertMeta) with a byte above 0x7f, except
   that U+FFFD may be bound to self-insert (the default tables do: "\xff" read as a
   string is U+FFFD) *)
Definition fffd_bytes : list Z := [239; 191; 189].
Definition table_low (t : table) : bool :=
  forallb (fun e => match seq_bytes (fst e) with
                    | b :: _ => (b <? 128) || (eqlZ (seq_bytes (fst e)) fffd_bytes && bind_is (snd e) s_self_insert)
                    | [] => true
                    end) t.

Definition c02_table_ok (t : table) : bool :=
  inserts_text t && table_low t &&
  all_from 95 32 (fun b => let '(m, ext) := match_table t [b] in bind_is m s_self_insert && negb ext) &&
  (let '(m, ext) := match_table t [13] in bind_is m s_accept_line && negb ext).

Lemma bind_is_spec : forall m n, bind_is m n = true -> fst m = n /\ snd m = false.
Proof.
  intros m n H. unfold bind_is in H. apply andb_true_iff in H. destruct H as [H1 H2].
  split; [apply eqlZ_eq; exact H1 | destruct (snd m); [discriminate | reflexivity]].
Qed.

Section Table.
  Variable t : table.
  Hypothesis Hok : c02_table_ok t = true.

  Lemma ok_parts : inserts_text t = true /\ table_low t = true /\
    (forall b, 32 <= b <= 126 -> exists m, match_table t [b] = (m, false) /\ fst m = s_self_insert /\ snd m = false) /\
    (exists m, match_table t [13] = (m, false) /\ fst m = s_accept_line /\ snd m = false).
  Proof.
    unfold c02_table_ok in Hok.
    apply andb_true_iff in Hok. destruct Hok as [H H4]. apply andb_true_iff in H. destruct H as [H H3].
    apply andb_true_iff in H. destruct H as [H1 H2].
    split; [exact H1|]. split; [exact H2|]. split.
    - intros b Hb. pose proof (all_from_spec _ _ _ H3 b ltac:(lia)) as Hb'. cbv beta in Hb'.
      destruct (match_table t [b]) as [m ext]. apply andb_true_iff in Hb'. destruct Hb' as [B E].
      apply bind_is_spec in B. exists m. split; [destruct ext; [discriminate | reflexivity] | exact B].
    - destruct (match_table t [13]) as [m ext]. apply andb_true_iff in H4. destruct H4 as [B E].
      apply bind_is_spec in B. exists m. split; [destruct ext; [discriminate | reflexivity] | exact B].
  Qed.

  Lemma low_entry : forall e, In e t ->
    match seq_bytes (fst e) with
    | b :: _ => b < 128 \/ (seq_bytes (fst e) = fffd_bytes /\ fst (snd e) = s_self_insert /\ snd (snd e) = false)
    | [] => True
    end.
  Proof.
    intros e Hin. destruct ok_parts as (_ & L & _). unfold table_low in L.
    rewrite forallb_forall in L. specialize (L e Hin). destruct (seq_bytes (fst e)) as [|b sb] eqn:E; [exact I|].
    apply orb_true_iff in L. destruct L as [L|L]; [left; lia|]. right.
    apply andb_true_iff in L. destruct L as [L1 L2]. split; [apply eqlZ_eq; exact L1 | apply bind_is_spec; exact L2].
  Qed.

  (* keys that start with a byte above 0x7f and are not yet a full character: a prefix *)
  Lemma match_bind_part : forall k0 r, 128 <= k0 -> full_rune (k0 :: r) = false ->
    exists m, match_bind t (k0 :: r) = (m, true).
  Proof.
    intros k0 r Hk Hf. unfold match_bind. destruct (match_table t (k0 :: r)) as [m ext].
    destruct ok_parts as (I & _). rewrite I. replace (128 <=? k0) with true by lia. cbn [andb].
    rewrite Hf. cbn [negb]. exists m. reflexivity.
  Qed.

  (* keys that are the complete encoding of one character: self-insert, nothing longer *)
  Lemma match_bind_full : forall k0 r, 128 <= k0 -> utf8_char (k0 :: r) = true ->
    exists m, match_bind t (k0 :: r) = (m, false) /\ fst m = s_self_insert /\ snd m = false.
  Proof.
    intros k0 r Hk Hu.
    assert (Fu : full_rune (k0 :: r) = true).
    { unfold utf8_char in Hu. destruct (decode1 k0 r) as [cc w].
      repeat (apply andb_true_iff in Hu; destruct Hu as [Hu ?]). exact Hu. }
    assert (S : snd (match_table t (k0 :: r)) = false).
    { destruct (snd (match_table t (k0 :: r))) eqn:E; [|reflexivity].
      apply match_table_ext in E. destruct E as (e & Hin & He). unfold entry_ext in He.
      pose proof (low_entry e Hin) as L. destruct (seq_bytes (fst e)) as [|b sb] eqn:SB; cbn [strict_prefix] in He; [discriminate|].
      apply andb_true_iff in He. destruct He as [He1 He2].
      destruct L as [L | (L & _)]; [lia|]. unfold fffd_bytes in L. inversion L; subst b sb.
      destruct r as [|k1 [|k2 r']]; cbn [strict_prefix] in He2.
      - assert (k0 = 239) by lia. subst k0. vm_compute in Fu. discriminate.
      - apply andb_true_iff in He2. destruct He2 as [He2 _].
        assert (k0 = 239) by lia. assert (k1 = 191) by lia. subst k0 k1. vm_compute in Fu. discriminate.
      - destruct r'; cbn [strict_prefix] in He2; lia. }
    assert (F : fst (match_table t (k0 :: r)) = no_bind \/
                (fst (fst (match_table t (k0 :: r))) = s_self_insert /\ snd (fst (match_table t (k0 :: r))) = false)).
    { destruct (match_table_exact t (k0 :: r)) as [[H _] | (e & Hin & He & Hm)]; [left; exact H|]. right.
      unfold entry_exact in He. apply eqlZ_eq in He. pose proof (low_entry e Hin) as L. rewrite <- He in L.
      destruct L as [L | (_ & L)]; [lia|]. rewrite Hm. exact L. }
    unfold match_bind. destruct (match_table t (k0 :: r)) as [m ext]. cbn [fst snd] in *. subst ext.
    destruct ok_parts as (I & _). rewrite I. replace (128 <=? k0) with true by lia. cbn [andb].
    rewrite Fu. cbn [negb]. rewrite Hu. rewrite andb_true_r.
    destruct F as [F | (F1 & F2)].
    - subst m. cbn [is_bound no_bind fst negb]. exists self_insert_bind. repeat split.
    - assert (B : is_bound m = true) by (unfold is_bound; rewrite F1; reflexivity). rewrite B. cbn [negb].
      exists m. repeat split; assumption.
  Qed.

  Lemma match_bind_low : forall b, 0 <= b < 128 -> match_bind t [b] = match_table t [b].
  Proof.
    intros b Hb. unfold match_bind. destruct (match_table t [b]) as [m ext].
    replace (128 <=? b) with false by lia. reflexivity.
  Qed.

  Lemma token_step_part : forall mem read k r m, match_bind t (read ++ [k]) = (m, true) ->
    token t mem read (k :: r) = token t (if is_bound m then m else mem) (read ++ [k]) r.
  Proof. intros mem read k r m H. cbn [token]. rewrite H. rewrite andb_false_r. reflexivity. Qed.

  Lemma token_step_full : forall mem read k r m, match_bind t (read ++ [k]) = (m, false) -> is_bound m = true ->
    token t mem read (k :: r) = TokDone m (read ++ [k]) r.
  Proof. intros mem read k r m H B. cbn [token]. rewrite H. rewrite B. reflexivity. Qed.

  Lemma bound_self : forall m, fst m = s_self_insert -> is_bound m = true.
  Proof. intros m F. unfold is_bound. rewrite F. reflexivity. Qed.

  (* one printable ASCII character is one token that runs self-insert *)
  Lemma token_ascii : forall c rest, 32 <= c <= 126 ->
    exists m, token t no_bind [] (c :: rest) = TokDone m [c] rest /\ fst m = s_self_insert /\ snd m = false.
  Proof.
    intros c rest Hc. destruct ok_parts as (_ & _ & A & _). destruct (A c Hc) as (m & Hm & F & S).
    exists m. split; [|split; assumption].
    apply (token_step_full no_bind [] c rest m); [|apply bound_self; exact F].
    cbn [app]. rewrite (match_bind_low c ltac:(lia)). exact Hm.
  Qed.

  Lemma token_ret : forall rest,
    exists m, token t no_bind [] (13 :: rest) = TokDone m [13] rest /\ fst m = s_accept_line /\ snd m = false.
  Proof.
    intros rest. destruct ok_parts as (_ & _ & _ & (m & Hm & F & S)).
    exists m. split; [|split; assumption].
    apply (token_step_full no_bind [] 13 rest m); [|unfold is_bound; rewrite F; reflexivity].
    cbn [app]. rewrite (match_bind_low 13 ltac:(lia)). exact Hm.
  Qed.

  (* a character encoded on several bytes is one token that runs self-insert, and the
     keys the command sees decode to the character *)
  Lemma token_high : forall c rest, 128 <= c <= 1114111 -> ~ (55296 <= c <= 57343) ->
    (exists m, token t no_bind [] (encode1 c ++ rest) = TokDone m (encode1 c) rest /\
               fst m = s_self_insert /\ snd m = false) /\
    utf8_decode (encode1 c) = [c].
  Proof.
    intros c rest Hc Hs. pose proof (high_chars c Hc Hs) as H. unfold high_ok in H.
    destruct (encode1 c) as [|b0 [|b1 [|b2 [|b3 [|b4 r]]]]]; try discriminate.
    - repeat (apply andb_true_iff in H; destruct H as [H ?]).
      split; [|apply eqlZ_eq; assumption].
      assert (K : 128 <= b0) by lia.
      destruct (match_bind_part b0 [] K) as [m1 E1]; [destruct (full_rune [b0]); [discriminate | reflexivity]|].
      destruct (match_bind_full b0 [b1] K) as (m & E & F & S); [assumption|].
      exists m. split; [|split; assumption]. cbn [app].
      rewrite (token_step_part no_bind [] b0 (b1 :: rest) m1 E1).
      exact (token_step_full _ ([] ++ [b0]) b1 rest m E (bound_self m F)).
    - repeat (apply andb_true_iff in H; destruct H as [H ?]).
      split; [|apply eqlZ_eq; assumption].
      assert (K : 128 <= b0) by lia.
      destruct (match_bind_part b0 [] K) as [m1 E1]; [destruct (full_rune [b0]); [discriminate | reflexivity]|].
      destruct (match_bind_part b0 [b1] K) as [m2 E2]; [destruct (full_rune [b0; b1]); [discriminate | reflexivity]|].
      destruct (match_bind_full b0 [b1; b2] K) as (m & E & F & S); [assumption|].
      exists m. split; [|split; assumption]. cbn [app].
      rewrite (token_step_part no_bind [] b0 (b1 :: b2 :: rest) m1 E1).
      rewrite (token_step_part _ ([] ++ [b0]) b1 (b2 :: rest) m2 E2).
      exact (token_step_full _ (([] ++ [b0]) ++ [b1]) b2 rest m E (bound_self m F)).
    - repeat (apply andb_true_iff in H; destruct H as [H ?]).
      split; [|apply eqlZ_eq; assumption].
      assert (K : 128 <= b0) by lia.
      destruct (match_bind_part b0 [] K) as [m1 E1]; [destruct (full_rune [b0]); [discriminate | reflexivity]|].
      destruct (match_bind_part b0 [b1] K) as [m2 E2]; [destruct (full_rune [b0; b1]); [discriminate | reflexivity]|].
      destruct (match_bind_part b0 [b1; b2] K) as [m3 E3]; [destruct (full_rune [b0; b1; b2]); [discriminate | reflexivity]|].
      destruct (match_bind_full b0 [b1; b2; b3] K) as (m & E & F & S); [assumption|].
      exists m. split; [|split; assumption]. cbn [app].
      rewrite (token_step_part no_bind [] b0 (b1 :: b2 :: b3 :: rest) m1 E1).
      rewrite (token_step_part _ ([] ++ [b0]) b1 (b2 :: b3 :: rest) m2 E2).
      rewrite (token_step_part _ (([] ++ [b0]) ++ [b1]) b2 (b3 :: rest) m3 E3).
      exact (token_step_full _ ((([] ++ [b0]) ++ [b1]) ++ [b2]) b3 rest m E (bound_self m F)).
  Qed.
End Table.

(* ---------------------------------------------------------------- the editor *)

Lemma run_command_self_insert : forall k0 ks mk mx e,
  run_command s_self_insert (k0 :: ks) mk mx e =
  (let e := h_skip_save e in
   let q := if 128 <=? k0 then [k0] else quote k0 in
   let e := c_insert_at e q in
   Ok (c_move (c_move e (- zlen q)) (zlen q))).
Proof. reflexivity. Qed.

Lemma run_command_accept_line : forall keys mk mx e,
  run_command s_accept_line keys mk mx e = h_accept e false false 0 mx mk.
Proof. reflexivity. Qed.

(* the state while text is being typed at the end of the line: nothing pending *)
Definition typing (l : list Z) (e : ed) : Prop :=
  line e = l /\ cpos e = zlen l /\ pending e = [] /\ it_pending e = false /\
  (kmain e = M_emacs \/ kmain e = M_viins) /\ accepted e = false.

Lemma l_insert_end : forall l c, c <> 0 -> l_insert l (zlen l) [c] = l ++ [c].
Proof.
  intros l c Hc. unfold l_insert.
  assert (S : strip_zeros [c] = [c]) by (unfold strip_zeros; cbn; destruct c; reflexivity).
  rewrite S. replace ((zlen l <? 0) || (zlen l <? zlen l)) with false by (unfold zlen; lia).
  unfold zlen. rewrite Nat2Z.id. rewrite firstn_all, skipn_all. rewrite app_nil_r. reflexivity.
Qed.

(* same state except for the undo log: what h_save and h_skip_save may touch *)
Definition same_but_undo (e e' : ed) : Prop :=
  line e' = line e /\ cpos e' = cpos e /\ pending e' = pending e /\ it_pending e' = it_pending e /\
  kmain e' = kmain e /\ accepted e' = accepted e /\ accept_line e' = accept_line e /\ accept_err e' = accept_err e.

Lemma h_save_same : forall e e', h_save e = Ok e' -> same_but_undo e e'.
Proof.
  intros e e' H. pose proof (h_save_shape e) as S. rewrite H in S.
  destruct S as [S | [u S]]; subst e'; unfold h_reset, put_undo; destruct (undoing _); repeat split.
Qed.

Lemma it_post_run_same : forall e, line (it_post_run e) = line e /\ cpos (it_post_run e) = cpos e /\
  pending (it_post_run e) = pending e /\ it_pending (it_post_run e) = false /\ kmain (it_post_run e) = kmain e /\
  accepted (it_post_run e) = accepted e /\ accept_line (it_post_run e) = accept_line e /\ accept_err (it_post_run e) = accept_err e.
Proof. intros e. unfold it_post_run. destruct (it_pending e); repeat split. Qed.

Lemma kmain_not_vicmd : forall e, (kmain e = M_emacs \/ kmain e = M_viins) -> (kmain e =? M_vicmd) = false.
Proof. intros e [H|H]; rewrite H; reflexivity. Qed.

(* self-insert of one character at the end of the line appends it *)
Lemma run_one_self_insert : forall c l mk mx e, typing l e -> c <> 0 ->
  (if 128 <=? c then [c] else quote c) = [c] ->
  exists e', run_one s_self_insert [c] mk mx e = Ok e' /\ typing (l ++ [c]) e'.
Proof.
  intros c l mk mx e (L & C & P & I & K & A) Hc Hq.
  unfold run_one. rewrite run_command_self_insert. cbv zeta. rewrite Hq. cbn [bind].
  set (e0 := h_skip_save (set_active_cmd e s_self_insert)).
  assert (L0 : line e0 = l) by exact L.
  assert (C0 : cpos e0 = zlen l) by exact C.
  set (e1 := c_insert_at e0 [c]).
  assert (L1 : line e1 = l ++ [c]).
  { unfold e1, c_insert_at. cbn [line set_cpos set_line].
    rewrite c_check_append_line. rewrite c_check_append_cpos_in by (unfold llen; rewrite L0, C0; unfold zlen; lia).
    rewrite L0, C0. apply l_insert_end. exact Hc. }
  assert (C1 : cpos e1 = zlen l + 1).
  { unfold e1, c_insert_at. cbn [cpos set_cpos set_line].
    rewrite c_check_append_cpos_in by (unfold llen; rewrite L0, C0; unfold zlen; lia).
    rewrite C0. reflexivity. }
  assert (LL : forall x, line x = l ++ [c] -> llen x = zlen l + 1).
  { intros x Hx. unfold llen. rewrite Hx. rewrite zlen_app. reflexivity. }
  set (e2 := c_move e1 (- zlen [c])).
  assert (L2 : line e2 = l ++ [c]) by (unfold e2, c_move; rewrite c_check_append_line; exact L1).
  assert (C2 : cpos e2 = zlen l).
  { unfold e2, c_move. rewrite c_check_append_cpos_in.
    - cbn [cpos set_cpos]. rewrite C1. change (zlen [c]) with 1. lia.
    - cbn [cpos set_cpos]. replace (llen (set_cpos e1 (cpos e1 + - zlen [c]))) with (llen e1) by reflexivity.
      rewrite (LL e1 L1), C1. change (zlen [c]) with 1. pose proof (zlen_ge0 _ l). lia. }
  set (e3 := c_move e2 (zlen [c])).
  assert (L3 : line e3 = l ++ [c]) by (unfold e3, c_move; rewrite c_check_append_line; exact L2).
  assert (C3 : cpos e3 = zlen l + 1).
  { unfold e3, c_move. rewrite c_check_append_cpos_in.
    - cbn [cpos set_cpos]. rewrite C2. reflexivity.
    - cbn [cpos set_cpos]. replace (llen (set_cpos e2 (cpos e2 + zlen [c]))) with (llen e2) by reflexivity.
      rewrite (LL e2 L2), C2. change (zlen [c]) with 1. pose proof (zlen_ge0 _ l). lia. }
  assert (P3 : pending e3 = []) by exact P.
  assert (I3 : it_pending e3 = false) by exact I.
  assert (K3 : kmain e3 = kmain e) by reflexivity.
  assert (A3 : accepted e3 = false) by exact A.
  rewrite I3. cbn [negb]. rewrite P3. cbn [rev bind].
  rewrite (kmain_not_vicmd e3) by (rewrite K3; exact K). cbn [bind].
  set (e4 := c_check_append e3).
  assert (L4 : line e4 = l ++ [c]) by (unfold e4; rewrite c_check_append_line; exact L3).
  assert (C4 : cpos e4 = zlen l + 1).
  { unfold e4. rewrite c_check_append_cpos_in; [exact C3|]. rewrite (LL e3 L3), C3. pose proof (zlen_ge0 _ l). lia. }
  destruct (it_post_run_same e4) as (L5 & C5 & P5 & I5 & K5 & A5 & _).
  destruct (h_save_total (it_post_run e4)) as [e' He']. exists e'. split; [exact He'|].
  destruct (h_save_same _ _ He') as (L6 & C6 & P6 & I6 & K6 & A6 & _).
  unfold typing. rewrite L6, C6, P6, I6, K6, A6, L5, C5, P5, I5, K5, A5.
  rewrite L4, C4. rewrite zlen_app. change (zlen [c]) with 1.
  repeat split; try reflexivity; [exact P3 | | exact A3].
  unfold e4. replace (kmain (c_check_append e3)) with (kmain e3) by reflexivity. rewrite K3. exact K.
Qed.

Lemma h_accept_props : forall e mx mk,
  match h_accept e false false 0 mx mk with
  | Ok e1 => accepted e1 = true /\ line e1 = line e /\ accept_line e1 = line e /\ accept_err e1 = 0 /\
             cpos e1 = cpos e /\ pending e1 = pending e /\ it_pending e1 = it_pending e /\ kmain e1 = kmain e
  | _ => False
  end.
Proof.
  intros e mx mk. unfold h_accept, hist_get. cbv zeta.
  repeat (match goal with |- context [if ?b then _ else _] => destruct b end; cbn [bind]); cbn; repeat split.
Qed.

(* accept-line returns the line *)
Lemma run_one_accept_line : forall l keys mk mx e, typing l e ->
  exists e', run_one s_accept_line keys mk mx e = Ok e' /\ accepted e' = true /\ line e' = l /\
             accept_line e' = l /\ accept_err e' = 0.
Proof.
  intros l keys mk mx e (L & C & P & I & K & A).
  unfold run_one. rewrite run_command_accept_line.
  set (e0 := set_active_cmd e s_accept_line).
  pose proof (h_accept_props e0 mx mk) as Hacc.
  destruct (h_accept e0 false false 0 mx mk) as [e1| |] eqn:H1; try contradiction.
  destruct Hacc as (A1 & L1 & AL1 & AE1 & C1 & P1 & I1 & K1).
  change (line e0) with (line e) in L1, AL1. rewrite L in L1, AL1.
  change (pending e0) with (pending e) in P1. rewrite P in P1.
  change (it_pending e0) with (it_pending e) in I1. rewrite I in I1.
  change (kmain e0) with (kmain e) in K1.
  cbn [bind]. rewrite I1. cbn [negb]. rewrite P1. cbn [rev bind].
  rewrite (kmain_not_vicmd e1) by (rewrite K1; exact K). cbn [bind].
  set (e4 := c_check_append e1).
  destruct (it_post_run_same e4) as (L5 & C5 & P5 & I5 & K5 & A5 & AL5 & AE5).
  destruct (h_save_total (it_post_run e4)) as [e' He']. exists e'. split; [exact He'|].
  destruct (h_save_same _ _ He') as (L6 & C6 & P6 & I6 & K6 & A6 & AL6 & AE6).
  rewrite A6, L6, AL6, AE6, A5, L5, AL5, AE5. unfold e4. rewrite c_check_append_line.
  repeat split; assumption.
Qed.

(* ---------------------------------------------------------------- put together on the abstract machine *)

Section Typed.
  Variable t : table.
  Hypothesis Hok : c02_table_ok t = true.
  Variables (mk : bool) (mx : Z).

  Notation exec := (ed_exec mk mx).
  Notation afeed := (afeed (res ed) exec t).

  Lemma modelled_self_insert : existsb (eqlZ s_self_insert) modelled_commands = true.
  Proof. vm_compute. reflexivity. Qed.
  Lemma modelled_accept_line : existsb (eqlZ s_accept_line) modelled_commands = true.
  Proof. vm_compute. reflexivity. Qed.

  Lemma typable_cases : forall c, typable c = true ->
    (32 <= c <= 126) \/ (160 <= c <= 1114111 /\ ~ (55296 <= c <= 57343)).
  Proof. intros c H. unfold typable in H. lia. Qed.

  (* one typed character: the machine consumes exactly its bytes and appends it *)
  Lemma afeed_char : forall c l e rest f, typable c = true -> typing l e ->
    exists e', typing (l ++ [c]) e' /\
      afeed (S f) no_bind [] (Ok e) (encode1 c ++ rest) = afeed f no_bind [] (Ok e') rest.
  Proof.
    intros c l e rest f Hc Ht. destruct (typable_cases c Hc) as [Ha | [Hh Hs]].
    - destruct (ascii_chars c Ha) as (E & Q & D). rewrite E. cbn [app].
      destruct (token_ascii t Hok c rest Ha) as (m & Tk & F & S).
      destruct (run_one_self_insert c l mk mx e Ht ltac:(lia)) as (e' & R & T').
      { replace (128 <=? c) with false by lia. exact Q. }
      exists e'. split; [exact T'|]. rewrite afeed_unfold. rewrite Tk.
      unfold fire. rewrite S. cbn [negb andb]. assert (B : is_bound m = true) by (unfold is_bound; rewrite F; reflexivity).
      rewrite B. rewrite F, D. unfold ed_exec. rewrite modelled_self_insert. rewrite R.
      destruct T' as (_ & _ & _ & _ & _ & A'). rewrite A'. reflexivity.
    - destruct (token_high t Hok c rest ltac:(lia) Hs) as ((m & Tk & F & S) & D).
      destruct (run_one_self_insert c l mk mx e Ht ltac:(lia)) as (e' & R & T').
      { replace (128 <=? c) with true by lia. reflexivity. }
      exists e'. split; [exact T'|]. rewrite afeed_unfold. rewrite Tk.
      unfold fire. rewrite S. cbn [negb andb]. rewrite (bound_self m F). rewrite F, D.
      unfold ed_exec. rewrite modelled_self_insert. rewrite R.
      destruct T' as (_ & _ & _ & _ & _ & A'). rewrite A'. reflexivity.
  Qed.

  (* the typed text, then RET: the machine returns with exactly the text *)
  Theorem afeed_typed : forall s l e f, forallb typable s = true -> typing l e ->
    (length s < f)%nat ->
    exists e', afeed f no_bind [] (Ok e) (utf8_encode s ++ [13]) = ARet _ (Ok e') /\
               line e' = l ++ s /\ accept_line e' = l ++ s /\ accept_err e' = 0 /\ accepted e' = true.
  Proof.
    induction s as [|c s IH]; intros l e f Hs Ht Hf.
    - destruct f as [|f]; [cbn in Hf; lia|]. cbn [utf8_encode flat_map app].
      destruct (token_ret t Hok []) as (m & Tk & F & S).
      destruct (run_one_accept_line l [13] mk mx e Ht) as (e' & R & A & L & AL & AE).
      exists e'. rewrite app_nil_r. split; [|repeat split; assumption].
      rewrite afeed_unfold. rewrite Tk. unfold fire. rewrite S. cbn [negb andb].
      assert (B : is_bound m = true) by (unfold is_bound; rewrite F; reflexivity). rewrite B. rewrite F.
      change (utf8_decode [13]) with [13]. unfold ed_exec. rewrite modelled_accept_line. rewrite R. rewrite A. reflexivity.
    - cbn [forallb] in Hs. apply andb_true_iff in Hs. destruct Hs as [Hc Hs].
      destruct f as [|f]; [cbn in Hf; lia|].
      cbn [utf8_encode flat_map]. fold (utf8_encode s). rewrite <- app_assoc.
      destruct (afeed_char c l e (utf8_encode s ++ [13]) f Hc Ht) as (e1 & T1 & E1). rewrite E1.
      destruct (IH (l ++ [c]) e1 f Hs T1 ltac:(cbn in Hf; lia)) as (e' & E & L & AL & AE & A).
      exists e'. split; [exact E|]. rewrite <- app_assoc in L, AL. cbn [app] in L, AL. repeat split; assumption.
  Qed.
End Typed.

Lemma typing_init : forall vi h, typing [] (ed_init vi h).
Proof. intros vi h. unfold typing, ed_init. cbn. destruct vi; repeat split; auto. Qed.

Lemma encode1_length : forall c, (1 <= length (encode1 c) <= 4)%nat.
Proof.
  intros c. unfold encode1.
  destruct ((c <? 0) || (1114111 <? c) || ((55296 <=? c) && (c <=? 57343)));
    repeat match goal with |- context [if ?b then _ else _] => destruct b end; cbn; lia.
Qed.

Lemma utf8_encode_length : forall s, (length s <= length (utf8_encode s))%nat.
Proof.
  induction s as [|c s IH]; [cbn; lia|]. cbn [utf8_encode flat_map length]. fold (utf8_encode s).
  rewrite app_length. pose proof (encode1_length c). lia.
Qed.

(* ---------------------------------------------------------------- typed text contains no ESC byte *)

Lemma lor_not_esc : forall K x, Z.shiftr K 7 <> 0 -> Z.lor K x <> 27.
Proof.
  intros K x HK E. apply (f_equal (fun z => Z.shiftr z 7)) in E. rewrite Z.shiftr_lor in E.
  change (Z.shiftr 27 7) with 0 in E. apply Z.lor_eq_0_l in E. contradiction.
Qed.

Lemma encode1_no_esc : forall c, c <> 27 -> ~ In 27 (encode1 c).
Proof.
  intros c Hc. unfold encode1.
  set (c' := if (c <? 0) || (1114111 <? c) || ((55296 <=? c) && (c <=? 57343)) then rune_error else c).
  assert (Hc' : c' <> 27) by (unfold c', rune_error; destruct ((c <? 0) || (1114111 <? c) || ((55296 <=? c) && (c <=? 57343))); lia).
  assert (L : forall K x, (K = 128 \/ K = 192 \/ K = 224 \/ K = 240) -> Z.lor K x <> 27).
  { intros K x HK. apply lor_not_esc. destruct HK as [->|[->|[->| ->]]]; vm_compute; discriminate. }
  destruct (c' <? 128); [intros [E|[]]; lia|].
  destruct (c' <? 2048); [intros [E|[E|[]]]; revert E; apply L; auto|].
  destruct (c' <? 65536); [intros [E|[E|[E|[]]]]; revert E; apply L; auto | intros [E|[E|[E|[E|[]]]]]; revert E; apply L; auto].
Qed.

Lemma typable_not_esc : forall c, typable c = true -> c <> 27.
Proof. intros c H. unfold typable in H. lia. Qed.

Lemma typed_no_esc : forall s, forallb typable s = true -> ~ In 27 (utf8_encode s ++ [13]).
Proof.
  induction s as [|c s IH]; intros H; cbn [utf8_encode flat_map app].
  - intros [E|[]]. discriminate.
  - cbn [forallb] in H. apply andb_true_iff in H. destruct H as [Hc Hs]. fold (utf8_encode s). rewrite <- app_assoc.
    intros X. apply in_app_or in X. destruct X as [X|X]; [exact (encode1_no_esc c (typable_not_esc c Hc) X) | exact (IH Hs X)].
Qed.

Lemma concat_no_esc : forall cs, ~ In 27 (concat cs) -> Forall (fun c => ~ In 27 c) cs.
Proof.
  induction cs as [|c cs IH]; intros H; constructor.
  - intros X. apply H. cbn [concat]. apply in_or_app. left. exact X.
  - apply IH. intros X. apply H. cbn [concat]. apply in_or_app. right. exact X.
Qed.
