(* Facts about every Unicode scalar value, by a finite sweep under vm_compute lifted to
   a forall (the domain is finite: this is a proof, the bound is the whole code space). *)
From Coq Require Import String.
From Model Require Import Base Uni Utf8 Notation Dispatch.
From Proofs Require Import NotationP.
From Coq Require Import ZifyBool.
Open Scope Z_scope.

(* ---------------------------------------------------------------- finite sweeps *)

Fixpoint all_from (n : nat) (lo : Z) (f : Z -> bool) : bool :=
  match n with O => true | S k => if f lo then all_from k (lo + 1) f else false end.

Lemma all_from_spec : forall n lo f, all_from n lo f = true ->
  forall c, lo <= c < lo + Z.of_nat n -> f c = true.
Proof.
  induction n as [|n IH]; intros lo f H c Hc; [lia|].
  cbn [all_from] in H. destruct (f lo) eqn:F; [|discriminate].
  destruct (Z.eq_dec c lo) as [->|Hne]; [exact F|].
  apply (IH (lo + 1) f H). lia.
Qed.

(* ---------------------------------------------------------------- characters *)

(* the characters of the property: printable ASCII, and every scalar value from U+00A0
   up (the C1 controls 0x80-0x9f are not printable; surrogates are not characters) *)
Definition typable (c : Z) : bool :=
  ((32 <=? c) && (c <=? 126)) ||
  ((160 <=? c) && (c <=? 1114111) && negb ((55296 <=? c) && (c <=? 57343))).

Definition high_ok (c : Z) : bool :=
  match encode1 c with
  | [b0; b1] =>
    (128 <=? b0) && negb (full_rune [b0]) && utf8_char [b0; b1] && eqlZ (utf8_decode [b0; b1]) [c]
  | [b0; b1; b2] =>
    (128 <=? b0) && negb (full_rune [b0]) && negb (full_rune [b0; b1]) && utf8_char [b0; b1; b2]
    && eqlZ (utf8_decode [b0; b1; b2]) [c]
  | [b0; b1; b2; b3] =>
    (128 <=? b0) && negb (full_rune [b0]) && negb (full_rune [b0; b1]) && negb (full_rune [b0; b1; b2])
    && utf8_char [b0; b1; b2; b3] && eqlZ (utf8_decode [b0; b1; b2; b3]) [c]
  | _ => false
  end.

Definition scalar_ok (c : Z) : bool := ((55296 <=? c) && (c <=? 57343)) || high_ok c.

(* all 1 113 984 code points from U+0080 to U+10FFFF *)
Lemma high_sweep : all_from (Z.to_nat 1113984) 128 scalar_ok = true.
Proof. vm_compute. reflexivity. Qed.

Lemma high_chars : forall c, 128 <= c <= 1114111 -> ~ (55296 <= c <= 57343) -> high_ok c = true.
Proof.
  intros c Hc Hs. pose proof (all_from_spec _ _ _ high_sweep c) as H.
  assert (R : 128 <= c < 128 + Z.of_nat (Z.to_nat 1113984)) by lia.
  specialize (H R). unfold scalar_ok in H. apply orb_true_iff in H. destruct H as [H|H]; [lia | exact H].
Qed.

Definition ascii_ok (c : Z) : bool := eqlZ (encode1 c) [c] && eqlZ (quote c) [c] && eqlZ (utf8_decode [c]) [c].
Lemma ascii_sweep : all_from 95 32 ascii_ok = true.
Proof. vm_compute. reflexivity. Qed.
Lemma ascii_chars : forall c, 32 <= c <= 126 -> encode1 c = [c] /\ quote c = [c] /\ utf8_decode [c] = [c].
Proof.
  intros c Hc. pose proof (all_from_spec _ _ _ ascii_sweep c ltac:(lia)) as H. unfold ascii_ok in H.
  apply andb_true_iff in H. destruct H as [H H3]. apply andb_true_iff in H. destruct H as [H1 H2].
  repeat split; apply eqlZ_eq; assumption.
Qed.

