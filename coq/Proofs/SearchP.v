(* C09 (c) at the level of the command: what history-search-* / the substring searches
   (Sources.InsertMatch) leave in the buffer. *)
From Model Require Import Base Uni Utf8 Notation Inputrc HistFile Editor.
From Proofs Require Import EditorP BoundsP NotationP HistoryP WalkP.
From Coq Require Import ZifyBool.
Open Scope Z_scope.

(* the text searched for: the saved line being entered, cut at the cursor saved with it
   (the whole line when the cursor is at its end); the cut is made on the UTF-8 string *)
Definition search_key (t : list Z) (p : Z) : list Z :=
  let p := if p <? 0 then 0 else if zlen t <? p then zlen t else p in
  let cb := utf8_encode t in
  if p <? zlen t then firstn (Z.to_nat p) cb else cb.

(* what the search does once the line being entered is on file: the search text comes from
   the last snapshot (t, p) of the log of the line being entered *)
Lemma insert_match_core : forall e fwd regex t p r e',
  saved e = (t, p) :: r ->
  (let '(sl, sp) := h_search_text e in
   let preserve := negb (sp =? 0) in
   if fwd && (hpos e <=? -1) then Ok (set_hist e (-1) (hcpos e))
   else
     let n := zlen (hist e) in
     let start := if -1 <? hpos e then n - hpos e else if fwd then -1 else n in
     let cb := utf8_encode sl in
     let cline := if sp <? zlen sl then firstn (Z.to_nat sp) cb else cb in
     match match_go (S (S (length (hist e)))) (hist e) start fwd regex cline with
     | None => if fwd then Ok (h_restore_line e) else Ok e
     | Some (m, pos) =>
       let e := set_line (set_hist e (n - pos) (hcpos e)) m in
       Ok (if preserve then c_set e sp else c_set e (llen e))
     end) = Ok e' ->
  (line e' = line e /\ (hpos e' = hpos e \/ hpos e' = -1))
  \/ (exists q, 0 <= q < zlen (hist e) /\ line e' = nth (Z.to_nat q) (hist e) [] /\ hpos e' = zlen (hist e) - q /\
                matches regex (search_key t p) (nth (Z.to_nat q) (hist e) []) = true)
  \/ (fwd = true /\ -1 < hpos e /\ line e' = t /\ hpos e' = -1).
Proof.
  intros e fwd regex t p r e' Hs H. unfold h_search_text in H. fold (saved e) in H. rewrite Hs in H.
  destruct (fwd && (hpos e <=? -1)) eqn:B.
  - inversion H; subst e'. left. split; [reflexivity|]. right. reflexivity.
  - match type of H with context[match_go ?f ?h ?s ?fw ?rg ?cl] => destruct (match_go f h s fw rg cl) as [[m pos]|] eqn:M end.
    + apply match_go_sound in M. destruct M as (M1 & M2 & M3). right. left. exists pos. split; [exact M1|].
      assert (L : line e' = m /\ hpos e' = zlen (hist e) - pos).
      { destruct (negb _) in H; inversion H; subst e'; split; reflexivity. }
      destruct L as [L1 L2]. split; [rewrite L1; exact M2|]. split; [exact L2|].
      rewrite <- M2. unfold search_key. exact M3.
    + destruct fwd; [right; right; split; [reflexivity | split; [cbn [andb] in B; lia |]]; inversion H; subst e'; unfold h_restore_line; cbn [lines set_hist]; fold (saved e); rewrite Hs; split; reflexivity|]. inversion H; subst e'. left. split; [reflexivity | left; reflexivity].
Qed.

(* from the line being entered (the first search): the line is filed first, so the search
   text is the line itself, cut at the cursor filed with it *)
Theorem first_search_result : forall e fwd regex e', hpos e = -1 ->
  h_insert_match e fwd regex = Ok e' ->
  exists p,
    (line e' = line e /\ hpos e' = -1)
    \/ (exists q, 0 <= q < zlen (hist e) /\ line e' = nth (Z.to_nat q) (hist e) [] /\ hpos e' = zlen (hist e) - q /\
                  matches regex (search_key (line e) p) (nth (Z.to_nat q) (hist e) []) = true).
Proof.
  intros e fwd regex e' Hp H. unfold h_insert_match in H. rewrite Hp in H. replace (-1 =? -1) with true in H by reflexivity.
  set (e0 := set_undo e (lines e) false (undoing e)) in *.
  destruct (h_save_gen e0) as (e1 & S & A & B & C & D & E & _ & G).
  assert (K : line_key e0 = -1) by (unfold line_key; cbn; rewrite Hp; reflexivity). rewrite K in G.
  destruct (G eq_refl) as (p & r & Hr). rewrite S in H. cbn [bind] in H.
  set (e2 := set_undo e1 (lines e1) (uskip e) (undoing e1)) in *.
  assert (Hs2 : saved e2 = (line e, p) :: r) by (unfold saved, e2; cbn [lines set_undo]; exact Hr).
  exists p. pose proof (insert_match_core e2 fwd regex (line e) p r e' Hs2 H) as R.
  assert (L2 : line e2 = line e /\ hpos e2 = -1 /\ hist e2 = hist e) by (unfold e2; cbn; rewrite D, B, A; cbn; repeat split; exact Hp).
  destruct L2 as (L2a & L2b & L2c). rewrite L2a, L2b, L2c in R.
  destruct R as [[R1 R2] | [R | (F & U & _)]]; [left; split; [exact R1 | lia] | right; exact R | lia].
Qed.

(* a further search, from a history line: the search text is still the line that was being
   entered; the buffer becomes a matching stored entry, or stays, or - forward with no more
   match - goes back to the line being entered *)
Theorem later_search_result : forall e fwd regex t p r e', hpos e <> -1 -> saved e = (t, p) :: r ->
  h_insert_match e fwd regex = Ok e' ->
  (line e' = line e /\ (hpos e' = hpos e \/ hpos e' = -1))
  \/ (exists q, 0 <= q < zlen (hist e) /\ line e' = nth (Z.to_nat q) (hist e) [] /\ hpos e' = zlen (hist e) - q /\
                matches regex (search_key t p) (nth (Z.to_nat q) (hist e) []) = true)
  \/ (fwd = true /\ -1 < hpos e /\ line e' = t /\ hpos e' = -1).
Proof.
  intros e fwd regex t p r e' Hp Hs H. unfold h_insert_match in H. replace (hpos e =? -1) with false in H by lia. cbn [bind] in H.
  exact (insert_match_core e fwd regex t p r e' Hs H).
Qed.
