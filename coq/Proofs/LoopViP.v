(* The key loop is the abstract machine of LoopP.v also in a Vi main keymap (e_vi = true),
   for input that contains no ESC byte: the only place where the Vi loop differs is the
   lone-ESC special case of MatchMain, which needs the pending prefix to decode to exactly
   ESC - impossible without an ESC byte (Proofs/DecodeP.v).
   (A copy of the section Concrete of LoopP.v with the engine's e_vi flag a parameter and
   the no-ESC hypothesis threaded through.) *)
From Model Require Import Base Uni Utf8 Notation Dispatch.
From Proofs Require Import DispatchP LoopP DecodeP.
From Coq Require Import ZifyBool.

Section ConcreteVi.
  Variable A : Type.
  Variable exec : list Z -> list Z -> A -> option (A * bool).
  Variable t : table.
  Variable vi : bool.
  Hypothesis t_nonempty : t <> [].
  (* no macro bindings: every bind of the table is a command *)
  Hypothesis no_macros : forall e, In e t -> snd (snd e) = false.

  Notation loop := (loop A exec).
  Notation afeed := (afeed A exec t).
  Notation achunks := (achunks A exec t).

  Lemma match_bind_no_macro : forall keys, snd (fst (match_bind t keys)) = false.
  Proof.
    intros keys. destruct (match_bind_macro t keys) as [H | (e & Hin & H)]; [exact H|]. rewrite H.
    apply no_macros. exact Hin.
  Qed.

  Lemma token_done_no_macro : forall x s r b r' rest, snd s = false -> token t s r x = TokDone b r' rest -> snd b = false.
  Proof.
    induction x as [|k x IH]; intros s r b r' rest Hs H; cbn [token] in H; [discriminate|].
    pose proof (match_bind_no_macro (r ++ [k])) as M.
    destruct (match_bind t (r ++ [k])) as [m ext]. cbn [fst] in M.
    destruct (negb (is_bound m) && negb ext); [inversion H; subst; exact Hs|].
    destruct ext; [|inversion H; subst; exact M].
    eapply IH; [|exact H]. destruct (is_bound m); assumption.
  Qed.

  Lemma token_more_no_macro : forall x s r s' r', snd s = false -> token t s r x = TokMore s' r' -> snd s' = false.
  Proof.
    induction x as [|k x IH]; intros s r s' r' Hs H; cbn [token] in H; [inversion H; subst; exact Hs|].
    pose proof (match_bind_no_macro (r ++ [k])) as M.
    destruct (match_bind t (r ++ [k])) as [m ext]. cbn [fst] in M.
    destruct (negb (is_bound m) && negb ext); [discriminate|].
    destruct ext; [|discriminate].
    eapply IH; [|exact H]. destruct (is_bound m); assumption.
  Qed.

  (* re-reading a pushed-back prefix from scratch lands where the scan had stopped *)
  Definition stable (mem : bind_t) (p : list Z) : Prop := token t mem [] p = TokMore mem p.

  Lemma token_replay : forall mem p u, stable mem p -> token t mem [] (p ++ u) = token t mem p u.
  Proof.
    intros mem p u H. destruct (token_app_more t p mem [] u mem p H) as [_ E]. exact E.
  Qed.

  Lemma scan_idem : forall x s r s' r', token t s r x = TokMore s' r' -> token t s' r x = TokMore s' r'.
  Proof.
    induction x as [|k x IH]; intros s r s' r' H; cbn [token] in *.
    - inversion H; subst. reflexivity.
    - destruct (match_bind t (r ++ [k])) as [m ext].
      destruct (negb (is_bound m) && negb ext); [discriminate|].
      destruct ext; [|discriminate].
      destruct (is_bound m) eqn:B.
      + exact H.
      + (* the remembered bind is only replaced by bound matches further on: two runs
           from s and from s' agree once one is met, and if none is met s' = s *)
        apply IH in H. exact H.
  Qed.

  Lemma stable_after_more : forall mem p u mem' r, stable mem p -> token t mem p u = TokMore mem' r -> stable mem' r.
  Proof.
    intros mem p u mem' r Hs H. unfold stable in *.
    destruct (token_app_more t u mem p [] mem' r H) as [Er _]. subst r.
    destruct (token_app_more t p mem [] u mem p Hs) as [_ E]. cbn [app] in E.
    assert (T : token t mem [] (p ++ u) = TokMore mem' (p ++ u)) by (rewrite E; exact H).
    apply scan_idem in T. exact T.
  Qed.

  Lemma stable_nil : forall mem, stable mem []. Proof. reflexivity. Qed.

  Notation obs := (LoopP.obs A).
  Notation aobs := (LoopP.aobs A).

  (* the input contains no ESC byte *)
  Definition noesc (l : list Z) : Prop := ~ In 27 l.

  Lemma noesc_app : forall a b, noesc a -> noesc b -> noesc (a ++ b).
  Proof. intros a b Ha Hb H. apply in_app_or in H. destruct H; [apply Ha | apply Hb]; assumption. Qed.
  Lemma noesc_app_r : forall a b, noesc (a ++ b) -> noesc b.
  Proof. intros a b H X. apply H. apply in_or_app. right. exact X. Qed.

  Lemma decode_not_esc : forall b0 buf, noesc (b0 :: buf) -> eqlZ (utf8_decode (b0 :: buf)) [27] = false.
  Proof.
    intros b0 buf H. unfold utf8_decode. cbn [length decode_go].
    pose proof (decode1_not_esc b0 buf ltac:(intro E; apply H; left; exact E)) as R.
    destruct (decode1 b0 buf) as [r w]. cbn [fst] in R.
    unfold eqlZ. cbn [combine forallb fst snd]. replace (r =? 27) with false by lia. cbn [andb]. apply andb_false_r.
  Qed.

  Lemma token_done_suffix : forall x s r b r' rest, token t s r x = TokDone b r' rest -> exists p, x = p ++ rest.
  Proof.
    induction x as [|k x IH]; intros s r b r' rest H; cbn [token] in H; [discriminate|].
    destruct (match_bind t (r ++ [k])) as [m ext].
    destruct (negb (is_bound m) && negb ext); [inversion H; subst; exists [k]; reflexivity|].
    destruct ext; [destruct (IH _ _ _ _ _ H) as [p E]; exists (k :: p); rewrite E; reflexivity | inversion H; subst; exists [k]; reflexivity].
  Qed.

  Definition mk (act mem : bind_t) (buf matched : list Z) (mw : bool) (a : A) : lstate A :=
    {| l_eng := {| e_active := act; e_prefixed := mem; e_vi := vi |};
       l_keys := {| k_buf := buf; k_macro := []; k_matched := matched; k_must_wait := mw |};
       l_app := a |}.

  Lemma token_done_read_longer : forall x s r b r' rest, token t s r x = TokDone b r' rest -> (length r < length r')%nat.
  Proof.
    induction x as [|k x IH]; intros s r b r' rest H; cbn [token] in H; [discriminate|].
    destruct (match_bind t (r ++ [k])) as [m ext].
    destruct (negb (is_bound m) && negb ext); [inversion H; subst; rewrite app_length; cbn; lia|].
    destruct ext; [apply IH in H; rewrite app_length in H; cbn in H; lia | inversion H; subst; rewrite app_length; cbn; lia].
  Qed.

  (* MatchMain on a buffer, in terms of the token scan *)
  Lemma match_main_token : forall act mem buf matched mw,
    buf <> [] -> noesc buf ->
    match token t mem [] buf with
    | TokMore mem' r =>
      exists act', match_main t {| e_active := act; e_prefixed := mem; e_vi := vi |}
                              {| k_buf := buf; k_macro := []; k_matched := matched; k_must_wait := mw |}
                   = ({| e_active := act'; e_prefixed := mem'; e_vi := vi |},
                      {| k_buf := r; k_macro := []; k_matched := utf8_decode r; k_must_wait := true |}, act', true)
    | TokDone b r rest =>
      match_main t {| e_active := act; e_prefixed := mem; e_vi := vi |}
                   {| k_buf := buf; k_macro := []; k_matched := matched; k_must_wait := mw |}
      = ({| e_active := b; e_prefixed := no_bind; e_vi := vi |},
         {| k_buf := rest; k_macro := []; k_matched := utf8_decode r; k_must_wait := false |}, b, false)
    end.
  Proof.
    intros act mem buf matched mw Hne Hesc. unfold match_main. destruct t as [|t0 tr] eqn:Et; [contradiction|]. rewrite <- Et.
    unfold dispatch_keys. cbn [k_buf k_macro length Nat.add].
    pose proof (dispatch_go_token (S (length buf + 0)) t {| e_active := act; e_prefixed := mem; e_vi := vi |}
                  {| k_buf := buf; k_macro := []; k_matched := matched; k_must_wait := mw |} false [] [] eq_refl ltac:(cbn; lia)) as D.
    cbn [e_prefixed k_buf] in D.
    destruct (token t mem [] buf) as [mem' r | b r rest] eqn:T.
    - destruct D as [m' D]. rewrite D. cbn [e_active e_prefixed e_vi].
      destruct buf as [|b0 buf']; [contradiction|].
      destruct (token_app_more t (b0 :: buf') mem [] [] mem' r T) as [Er _]. cbn [app] in Er. subst r.
      unfold with_buf. cbn [k_buf k_macro k_matched k_must_wait matched_prefix andb app].
      rewrite app_nil_r. rewrite (decode_not_esc b0 buf' Hesc). rewrite andb_false_r. eexists. reflexivity.
    - destruct D as [m' D]. rewrite D. unfold with_buf. cbn [e_active e_prefixed e_vi k_buf k_macro k_matched k_must_wait matched_keys andb app].
      assert (Hr : r <> []) by (apply token_done_read_longer in T; destruct r; [cbn in T; lia | discriminate]).
      destruct r as [|r0 r']; [contradiction|]. reflexivity.
  Qed.

  Notation weight := LoopP.weight.

  Lemma wait_keys_proceed : forall b0 buf matched ins,
    wait_keys false {| k_buf := b0 :: buf; k_macro := []; k_matched := matched; k_must_wait := false |} ins
    = Some ({| k_buf := b0 :: buf; k_macro := []; k_matched := matched; k_must_wait := false |}, ins, false).
  Proof. reflexivity. Qed.

  Lemma wait_keys_read : forall buf matched mw c ins, (buf = [] \/ mw = true) ->
    wait_keys false {| k_buf := buf; k_macro := []; k_matched := matched; k_must_wait := mw |} (Chunk c :: ins)
    = Some ({| k_buf := buf ++ c; k_macro := []; k_matched := matched; k_must_wait := mw |}, ins, false).
  Proof. intros buf matched mw c ins H. unfold wait_keys. cbn [k_buf k_must_wait k_macro k_matched]. destruct buf as [|b0 buf']; [reflexivity|]. destruct H as [H|H]; [discriminate | subst mw; reflexivity]. Qed.

  Lemma wait_keys_block : forall buf matched mw, (buf = [] \/ mw = true) ->
    wait_keys false {| k_buf := buf; k_macro := []; k_matched := matched; k_must_wait := mw |} [] = None.
  Proof. intros buf matched mw H. unfold wait_keys. cbn [k_buf k_must_wait k_macro]. destruct buf as [|b0 buf']; [reflexivity|]. destruct H as [H|H]; [discriminate | subst mw; reflexivity]. Qed.

  Definition after_match (fuel : nat) (a : A) (ins : list input) (r : engine * keys * bind_t * bool) : outcome A :=
    let '(e, k, b, prefix) := r in
    if prefix then loop fuel false t {| l_eng := e; l_keys := k; l_app := a |} ins
    else
      let k0 := if snd b then feed k (unescape (fst b)) else k in
      if negb (snd b) && is_bound b then
        match exec (fst b) (k_matched k0) a with
        | Some (a0, true) => Returned A {| l_eng := e; l_keys := k0; l_app := a0 |}
        | Some (a0, false) => loop fuel false t {| l_eng := e; l_keys := k0; l_app := a0 |} ins
        | None => loop fuel false t {| l_eng := e; l_keys := k0; l_app := a |} ins
        end
      else loop fuel false t {| l_eng := e; l_keys := k0; l_app := a |} ins.

  Lemma loop_proceed : forall fuel st ins k ins',
    wait_keys false (flush_used (l_keys A st)) ins = Some (k, ins', false) -> k_buf k <> [] ->
    loop (S fuel) false t st ins = after_match fuel (l_app A st) ins' (match_main t (l_eng A st) k).
  Proof.
    intros fuel st ins k ins' W Hne. cbn [Dispatch.loop]. rewrite W.
    destruct (k_buf k) as [|x xs] eqn:E; [contradiction|].
    unfold after_match. destruct (match_main t (l_eng A st) k) as [[[e k1] b] prefix]. reflexivity.
  Qed.

  Lemma loop_block : forall fuel st, wait_keys false (flush_used (l_keys A st)) [] = None ->
    loop (S fuel) false t st [] = Waiting A {| l_eng := l_eng A st; l_keys := flush_used (l_keys A st); l_app := l_app A st |}.
  Proof. intros fuel st W. cbn [Dispatch.loop]. rewrite W. reflexivity. Qed.

  (* continuing after a finished token *)
  Definition cont_state (b : bind_t) (rest r : list Z) (a : A) : lstate A :=
    {| l_eng := {| e_active := b; e_prefixed := no_bind; e_vi := vi |};
       l_keys := {| k_buf := rest; k_macro := []; k_matched := utf8_decode r; k_must_wait := false |};
       l_app := a |}.

  Lemma after_match_done : forall fuel a ins b r rest, snd b = false ->
    after_match fuel a ins ({| e_active := b; e_prefixed := no_bind; e_vi := vi |},
                            {| k_buf := rest; k_macro := []; k_matched := utf8_decode r; k_must_wait := false |}, b, false)
    = let '(a', acc) := fire A exec b r a in
      if acc then Returned A (cont_state b rest r a') else loop fuel false t (cont_state b rest r a') ins.
  Proof.
    intros fuel a ins b r rest Nb. unfold after_match, fire, cont_state. rewrite Nb. cbn [negb andb k_matched].
    destruct (is_bound b); [|reflexivity].
    destruct (exec (fst b) (utf8_decode r) a) as [[a' acc]|]; [destruct acc; reflexivity | reflexivity].
  Qed.

  (* the two kinds of states the loop is in between commands:
     process = keys buffered and nothing remembered; need = blocked for the next read with
     a (stable) pushed-back prefix *)
  Theorem loop_is_machine : forall n,
    (forall fuel F act buf matched a cs,
       buf <> [] -> Forall (fun c => c <> []) cs -> noesc buf -> Forall noesc cs ->
       (2 * length buf + 1 + weight cs <= n)%nat -> (n < fuel)%nat -> (length buf + length (concat cs) < F)%nat ->
       obs (loop fuel false t (mk act no_bind buf matched false a) (map Chunk cs)) =
       aobs (match afeed F no_bind [] a buf with
             | ARet _ a' => ARet A a'
             | AWait _ m p a' => achunks F m p a' cs
             end)) /\
    (forall fuel F act mem buf matched mw a cs,
       (buf = [] \/ mw = true) -> stable mem buf -> snd mem = false -> Forall (fun c => c <> []) cs -> noesc buf -> Forall noesc cs ->
       (2 * length buf + weight cs <= n)%nat -> (n < fuel)%nat -> (length buf + length (concat cs) < F)%nat ->
       obs (loop fuel false t (mk act mem buf matched mw a) (map Chunk cs)) = aobs (achunks F mem buf a cs)).
  Proof.
    induction n as [n IH] using lt_wf_ind.
    (* after a finished token, both kinds of continuation *)
    assert (Cont : forall fuel F b rest r a' cs m,
              (m < n)%nat -> (2 * length rest + 1 + weight cs <= m)%nat -> (m < fuel)%nat ->
              Forall (fun c => c <> []) cs -> (length rest + length (concat cs) < F)%nat -> noesc rest -> Forall noesc cs ->
              obs (loop fuel false t (cont_state b rest r a') (map Chunk cs)) =
              aobs (match afeed F no_bind [] a' rest with ARet _ x => ARet A x | AWait _ mm p x => achunks F mm p x cs end)).
    { intros fuel F b rest r a' cs m Hm Hw Hfu Hcs HF Hnr Hnc. destruct rest as [|r0 rest'].
      - destruct F as [|F']; [lia|]. rewrite (afeed_unfold A exec t F' no_bind [] a' []). cbn [token].
        destruct (IH m Hm) as [_ IH2].
        apply (IH2 fuel (S F') b no_bind [] (utf8_decode r) false a' cs); auto; try (cbn in *; lia); try apply stable_nil.
      - destruct (IH m Hm) as [IH1 _].
        apply (IH1 fuel F b (r0 :: rest') (utf8_decode r) a' cs); auto; try lia. discriminate. }
    split.
    - (* process *)
      intros fuel F act buf matched a cs Hne Hcs Hnb Hnc Hn Hf HF.
      destruct fuel as [|fuel]; [lia|]. destruct F as [|F]; [lia|].
      rewrite (loop_proceed fuel (mk act no_bind buf matched false a) (map Chunk cs)
                 {| k_buf := buf; k_macro := []; k_matched := []; k_must_wait := false |} (map Chunk cs));
        [| destruct buf as [|b0 buf']; [contradiction | reflexivity] | exact Hne].
      cbn [mk l_eng l_app].
      pose proof (match_main_token act no_bind buf [] false Hne Hnb) as M.
      rewrite (afeed_unfold A exec t F no_bind [] a buf).
      destruct (token t no_bind [] buf) as [mem' r | b r rest] eqn:T.
      + destruct M as [act' M]. rewrite M. unfold after_match.
        destruct (token_app_more t buf no_bind [] [] mem' r T) as [Er _]. cbn [app] in Er. subst r.
        assert (St : stable mem' buf) by (apply scan_idem in T; exact T).
        assert (Nm : snd mem' = false) by (exact (token_more_no_macro buf no_bind [] mem' buf eq_refl T)).
        destruct (IH (2 * length buf + weight cs)%nat ltac:(lia)) as [_ IH2].
        apply (IH2 fuel (S F) act' mem' buf (utf8_decode buf) true a cs); auto; lia.
      + rewrite M.
        assert (Nb : snd b = false) by (exact (token_done_no_macro buf no_bind [] b r rest eq_refl T)).
        rewrite after_match_done by exact Nb.
        pose proof (token_done_shorter t _ _ _ _ _ _ T) as Hs.
        assert (Hnr : noesc rest) by (destruct (token_done_suffix _ _ _ _ _ _ T) as [p Ep]; rewrite Ep in Hnb; apply (noesc_app_r p rest Hnb)).
        destruct (fire A exec b r a) as [a' acc]. destruct acc; [reflexivity|].
        rewrite (afeed_fuel_mono A exec t F (S F) no_bind [] a' rest) by lia.
        rewrite (Cont fuel (S F) b rest r a' cs (2 * length rest + 1 + weight cs)%nat); auto; try lia.
    - (* need input *)
      intros fuel F act mem buf matched mw a cs Hw Hst Hnm Hcs Hnb Hnc Hn Hf HF.
      destruct fuel as [|fuel]; [lia|].
      destruct cs as [|c cs'].
      + cbn [map]. rewrite loop_block; [reflexivity|].
        cbn [mk l_keys]. unfold flush_used. cbn [k_buf k_macro k_matched k_must_wait]. apply wait_keys_block. exact Hw.
      + inversion Hcs as [|? ? Hc Hcs']; subst. inversion Hnc as [|? ? Hnc1 Hnc']; subst.
        assert (Hbc : buf ++ c <> []) by (destruct buf; [exact Hc | discriminate]).
        assert (Hnbc : noesc (buf ++ c)) by (apply noesc_app; assumption).
        cbn [map].
        rewrite (loop_proceed fuel (mk act mem buf matched mw a) (Chunk c :: map Chunk cs')
                   {| k_buf := buf ++ c; k_macro := []; k_matched := []; k_must_wait := mw |} (map Chunk cs'));
          [| cbn [mk l_keys]; unfold flush_used; cbn [k_buf k_macro k_matched k_must_wait]; apply wait_keys_read; exact Hw | exact Hbc].
        cbn [mk l_eng l_app].
        pose proof (match_main_token act mem (buf ++ c) [] mw Hbc Hnbc) as M.
        rewrite (token_replay mem buf c Hst) in M.
        cbn [Proofs.LoopP.achunks]. cbn [weight concat] in *. rewrite app_length in HF.
        destruct F as [|F]; [lia|]. rewrite (afeed_unfold A exec t F mem buf a c).
        destruct (token t mem buf c) as [mem' r | b r rest] eqn:T.
        * destruct M as [act' M]. rewrite M. unfold after_match.
          destruct (token_app_more t c mem buf [] mem' r T) as [Er _]. subst r.
          assert (St : stable mem' (buf ++ c)) by (eapply stable_after_more; [exact Hst | exact T]).
          assert (Nm : snd mem' = false) by (exact (token_more_no_macro c mem buf mem' (buf ++ c) Hnm T)).
          destruct (IH (2 * length (buf ++ c) + weight cs')%nat ltac:(rewrite app_length; lia)) as [_ IH2].
          apply (IH2 fuel (S F) act' mem' (buf ++ c) (utf8_decode (buf ++ c)) true a cs'); auto; rewrite ?app_length; lia.
        * rewrite M.
          assert (Nb : snd b = false) by (exact (token_done_no_macro c mem buf b r rest Hnm T)).
          rewrite after_match_done by exact Nb.
          pose proof (token_done_shorter t _ _ _ _ _ _ T) as Hs.
          assert (Hnr : noesc rest) by (destruct (token_done_suffix _ _ _ _ _ _ T) as [p Ep]; rewrite Ep in Hnc1; apply (noesc_app_r p rest Hnc1)).
          destruct (fire A exec b r a) as [a' acc]. destruct acc; [reflexivity|].
          rewrite (Cont fuel (S F) b rest r a' cs' (2 * length rest + 1 + weight cs')%nat); auto; try lia.
          rewrite (afeed_fuel_mono A exec t (S F) F no_bind [] a' rest) by lia. reflexivity.
  Qed.
End ConcreteVi.
