(* C09 (a), (b): walking through history shows the stored entries in order and walking
   back down past the newest restores the line being entered - for every history, every
   in-progress line and every sequence of Walk calls of any size and sign. *)
From Model Require Import Base Uni Utf8 Notation Inputrc HistFile Editor.
From Proofs Require Import EditorP BoundsP NotationP HistoryP.
From Coq Require Import ZifyBool.
Open Scope Z_scope.

Definition entry (e : ed) (k : Z) : list Z := nth (Z.to_nat (zlen (hist e) - k)) (hist e) [].
Definition saved (e : ed) : list (list Z * Z) := rev (u_items (lh_get (lines e) (-1))).
(* the undo log of a history line, when it has one, ends with that line's stored text: the
   lines of the history have not been edited in this call (walking to a line files it in
   its own log) *)
Definition clean (e : ed) : Prop := forall k, 0 <= k ->
  match rev (u_items (lh_get (lines e) k)) with [] => True | (l, _) :: _ => l = nth (Z.to_nat k) (hist e) [] end.

Lemma lh_get_set : forall ls k u k', lh_get (lh_set ls k u) k' = if k =? k' then u else lh_get ls k'.
Proof.
  induction ls as [|[k0 u0] r IH]; intros k u k'; cbn [lh_set lh_get].
  - destruct (k =? k'); reflexivity.
  - destruct (k0 =? k) eqn:A; cbn [lh_get].
    + destruct (k =? k') eqn:B; [replace (k =? k') with true by lia; reflexivity|].
      replace (k0 =? k') with false by lia. replace (k =? k') with false by lia. reflexivity.
    + destruct (k0 =? k') eqn:B; [replace (k =? k') with false by lia; reflexivity|]. apply IH.
Qed.

Lemma put_undo_at : forall e v,
  lh_get (lines (put_undo e v)) (line_key e) = v /\ (forall k, k <> line_key e -> lh_get (lines (put_undo e v)) k = lh_get (lines e) k) /\
  hist (put_undo e v) = hist e /\ hpos (put_undo e v) = hpos e /\ hcpos (put_undo e v) = hcpos e /\ line (put_undo e v) = line e /\
  line_key (put_undo e v) = line_key e /\ undoing (put_undo e v) = undoing e.
Proof.
  intros e v. unfold put_undo. cbn [lines set_undo hist hpos hcpos line undoing]. rewrite lh_get_set.
  replace (line_key e =? line_key e) with true by lia.
  repeat split; try reflexivity.
  intros k Hk. rewrite lh_get_set. replace (line_key e =? k) with false by lia. reflexivity.
Qed.

Lemma h_reset_at : forall e,
  u_items (lh_get (lines (h_reset e)) (line_key e)) = u_items (lh_get (lines e) (line_key e)) /\
  (forall k, k <> line_key e -> lh_get (lines (h_reset e)) k = lh_get (lines e) k) /\
  hist (h_reset e) = hist e /\ hpos (h_reset e) = hpos e /\ hcpos (h_reset e) = hcpos e /\ line (h_reset e) = line e.
Proof.
  intros e. unfold h_reset. destruct (undoing e).
  - cbn. repeat split; reflexivity.
  - destruct (put_undo_at e {| u_pos := 0; u_items := u_items (cur_undo e) |}) as (A & B & C & D & E & F & _).
    cbn [lines set_undo hist hpos hcpos line]. rewrite A. cbn [u_items].
    split; [reflexivity|]. split; [exact B|]. split; [exact C|]. split; [exact D|]. split; [exact E|exact F].
Qed.

(* Save, anywhere: only the log of the current line moves; it keeps its snapshots or ends with the current line *)
Lemma h_save_gen : forall e, exists e', h_save e = Ok e' /\ hist e' = hist e /\ hpos e' = hpos e /\ hcpos e' = hcpos e /\ line e' = line e /\
  (forall k, k <> line_key e -> lh_get (lines e') k = lh_get (lines e) k) /\
  (u_items (lh_get (lines e') (line_key e)) = u_items (lh_get (lines e) (line_key e)) \/
   exists p r, rev (u_items (lh_get (lines e') (line_key e))) = (line e, p) :: r) /\
  (uskip e = false -> exists p r, rev (u_items (lh_get (lines e') (line_key e))) = (line e, p) :: r).
Proof.
  intros e. unfold h_save.
  assert (Fin : forall u p r, rev (u_items u) = (line e, p) :: r ->
            let e' := h_reset (put_undo e u) in
            hist e' = hist e /\ hpos e' = hpos e /\ hcpos e' = hcpos e /\ line e' = line e /\
            (forall k, k <> line_key e -> lh_get (lines e') k = lh_get (lines e) k) /\
            rev (u_items (lh_get (lines e') (line_key e))) = (line e, p) :: r).
  { intros u p r Hu e'. subst e'.
    destruct (put_undo_at e u) as (A & B & C & D & E & F & G & _).
    destruct (h_reset_at (put_undo e u)) as (A' & B' & C' & D' & E' & F'). rewrite G in A', B'.
    rewrite C', D', E', F', C, D, E, F. repeat split; try reflexivity.
    - intros k Hk. rewrite B', B by exact Hk. reflexivity.
    - rewrite A', A. exact Hu. }
  destruct (uskip e) eqn:Hs.
  - exists (h_reset e). destruct (h_reset_at e) as (A & B & C & D & E & F).
    split; [reflexivity|]. split; [exact C|]. split; [exact D|]. split; [exact E|]. split; [exact F|]. split; [exact B|].
    split; [left; exact A | discriminate].
  - destruct (rev (u_items (cur_undo e))) as [|[l p] r] eqn:Rv.
    + destruct (c_check_command_total (c_set e (c_pos e))) as [cc C]. rewrite C. cbn [bind].
      eexists. split; [reflexivity|].
      destruct (Fin {| u_pos := (if zlen (u_items (cur_undo e)) <? u_pos (cur_undo e) then zlen (u_items (cur_undo e)) else u_pos (cur_undo e)); u_items := [(line e, cpos cc)] |} (cpos cc) [] eq_refl) as (F1 & F2 & F3 & F4 & F5 & F6).
      repeat split; try assumption; [right | intros _]; exists (cpos cc), []; exact F6.
    + destruct (eqlZ l (line e)) eqn:Q.
      * apply eqlZ_eq in Q. subst l. eexists. split; [reflexivity|].
        destruct (Fin {| u_pos := u_pos (cur_undo e); u_items := rev ((line e, c_pos e) :: r) |} (c_pos e) r (rev_involutive _)) as (F1 & F2 & F3 & F4 & F5 & F6).
        repeat split; try assumption; [right | intros _]; exists (c_pos e), r; exact F6.
      * match goal with |- context[0 <=? ?x] => replace (0 <=? x) with true end.
        -- cbn [bind]. destruct (c_check_command_total (c_set e (c_pos e))) as [cc C]. rewrite C. cbn [bind].
           eexists. split; [reflexivity|].
           match goal with |- context[put_undo e ?u] => destruct (Fin u (cpos cc) (rev (firstn (Z.to_nat (zlen (u_items (cur_undo e)) - (if zlen (u_items (cur_undo e)) <? u_pos (cur_undo e) then zlen (u_items (cur_undo e)) else u_pos (cur_undo e)))) (u_items (cur_undo e))))) as (F1 & F2 & F3 & F4 & F5 & F6) end;
             [cbn [u_items]; rewrite rev_app_distr; reflexivity|].
           repeat split; try assumption; [right | intros _]; eexists _, _; exact F6.
        -- symmetry. destruct (zlen (u_items (cur_undo e)) <? u_pos (cur_undo e)) eqn:Z1; lia.
Qed.

(* Save at the bottom of the history (hpos = -1): the line being entered becomes the last
   snapshot of its own log, and nothing else moves *)
Lemma h_save_bottom : forall e, uskip e = false -> hpos e = -1 -> clean e ->
  exists e' p r, h_save e = Ok e' /\ hist e' = hist e /\ hpos e' = -1 /\ hcpos e' = hcpos e /\ line e' = line e /\
    saved e' = (line e, p) :: r /\ clean e'.
Proof.
  intros e Hs Hp Hc. destruct (h_save_gen e) as (e' & S & A & B & C & D & E & _ & G).
  assert (K : line_key e = -1) by (unfold line_key; rewrite Hp; reflexivity). rewrite K in E, G.
  destruct (G Hs) as (p & r & Hr). exists e', p, r. split; [exact S|]. split; [exact A|]. split; [lia|]. split; [exact C|]. split; [exact D|].
  split; [exact Hr|]. intros k Hk. rewrite E by lia. rewrite A. apply Hc. exact Hk.
Qed.

(* Save on a history line that shows its stored text: the line is filed in its own log, nothing else moves *)
Lemma h_save_walking : forall e, 1 <= hpos e <= zlen (hist e) -> line e = entry e (hpos e) -> clean e ->
  exists e', h_save e = Ok e' /\ hist e' = hist e /\ hpos e' = hpos e /\ line e' = line e /\ saved e' = saved e /\ clean e'.
Proof.
  intros e Hp Hl Hc. destruct (h_save_gen e) as (e' & S & A & B & C & D & E & F & _).
  assert (K : line_key e = zlen (hist e) - hpos e) by (unfold line_key; replace (-1 <? hpos e) with true by lia; reflexivity).
  exists e'. split; [exact S|]. split; [exact A|]. split; [exact B|]. split; [exact D|].
  split; [unfold saved; rewrite E by lia; reflexivity|].
  intros k Hk. rewrite A. destruct (k =? line_key e) eqn:Q.
  - assert (k = line_key e) by lia. subst k. destruct F as [F | (p & r & F)].
    + rewrite F. apply Hc. exact Hk.
    + rewrite F. rewrite Hl. unfold entry. rewrite K. reflexivity.
  - rewrite E by lia. apply Hc. exact Hk.
Qed.

(* Save on the line being entered, whatever the skip flag: the history lines' logs do not move *)
Lemma h_save_bottom_any : forall e, hpos e = -1 -> clean e ->
  exists e', h_save e = Ok e' /\ hist e' = hist e /\ hpos e' = -1 /\ line e' = line e /\ clean e'.
Proof.
  intros e Hp Hc. destruct (h_save_gen e) as (e' & S & A & B & C & D & E & _).
  assert (K : line_key e = -1) by (unfold line_key; rewrite Hp; reflexivity). rewrite K in E.
  exists e'. split; [exact S|]. split; [exact A|]. split; [lia|]. split; [exact D|].
  intros k Hk. rewrite E by lia. rewrite A. apply Hc. exact Hk.
Qed.

Lemma set_line_match_facts : forall e l, hist (h_set_line_match e l) = hist e /\ hpos (h_set_line_match e l) = hpos e /\
  lines (h_set_line_match e l) = lines e /\ line (h_set_line_match e l) = l.
Proof. intros e l. unfold h_set_line_match. destruct (_ && _); repeat split. Qed.

(* the move, in a clean state: k' = the position asked for, kept within [0, n] *)
Lemma walk_to_spec : forall mk e pos, let n := zlen (hist e) in
  0 < n -> 0 <= hpos e <= n -> clean e ->
  let k' := Z.max 0 (Z.min n (hpos e + pos)) in
  (hpos e = 0 -> 0 < pos) ->
  exists e', h_walk_to mk e pos = Ok e' /\ hist e' = hist e /\ lines e' = lines e /\
    (0 < k' -> hpos e' = k' /\ line e' = entry e k') /\
    (k' = 0 -> hpos e' = -1 /\ match saved e with (t, _) :: _ => line e' = t | [] => line e' = line e end).
Proof.
  intros mk e pos0 n Hn Hk Hc k' H0. unfold h_walk_to. fold n.
  set (pos := if (0 <? hpos e) && (hpos e + pos0 <? 0) then - hpos e else pos0).
  assert (Hpos : Z.max 0 (Z.min n (hpos e + pos)) = k' /\ -1 <= hpos e + pos /\ (hpos e + pos = -1 -> False)).
  { subst pos k'. destruct ((0 <? hpos e) && (hpos e + pos0 <? 0)) eqn:B; lia. }
  clearbody pos. destruct Hpos as (Hk' & Hge & Hne).
  cbn [hpos set_hist hcpos].
  replace (hpos e + pos <? -1) with false by lia.
  destruct (hpos e + pos =? 0) eqn:Z0.
  - eexists. split; [reflexivity|]. unfold h_restore_line. cbn [lines set_hist].
    fold (saved e). destruct (saved e) as [|[t p] r]; cbn; (repeat split; try reflexivity; try lia).
  - assert (Kp : 0 < k') by lia.
    set (e3 := if n <? hpos e + pos then set_hist (set_hist e (hpos e + pos) (hcpos e)) n (hcpos e) else set_hist e (hpos e + pos) (hcpos e)).
    assert (E3 : hpos e3 = k' /\ hist e3 = hist e /\ lines e3 = lines e) by (subst e3; destruct (n <? hpos e + pos) eqn:B; cbn; repeat split; lia).
    destruct E3 as (E3a & E3b & E3c).
    assert (CU : match rev (u_items (cur_undo e3)) with [] => True | (l, _) :: _ => l = nth (Z.to_nat (n - k')) (hist e) [] end).
    { unfold cur_undo, line_key. rewrite E3a, E3b, E3c. replace (-1 <? k') with true by lia. apply Hc. fold n. lia. }
    destruct (rev (u_items (cur_undo e3))) as [|[l0 p0] r0].
    + unfold hist_get. rewrite E3b, E3a. fold n.
      replace (mk && (n =? 0)) with false by (destruct mk; cbn; lia).
      replace ((n - k' <? 0) || (n <=? n - k')) with false by lia. cbn [bind].
      eexists. split; [reflexivity|]. destruct (set_line_match_facts e3 (nth (Z.to_nat (n - k')) (hist e) [])) as (F1 & F2 & F3 & F4).
      rewrite F1, F2, F3, F4, E3a, E3b, E3c. repeat split; try lia.
    + subst l0. eexists. split; [reflexivity|]. destruct (set_line_match_facts e3 (nth (Z.to_nat (n - k')) (hist e) [])) as (F1 & F2 & F3 & F4).
      rewrite F1, F2, F3, F4, E3a, E3b, E3c. repeat split; try lia.
Qed.

(* ---------------------------------------------------------------- sequences of walks *)

(* the abstract walk: position 0 is the line being entered, k >= 1 the k-th newest entry *)
Definition apos (e : ed) : Z := Z.max 0 (hpos e).
Definition astep (n k pos : Z) : Z := if pos =? 0 then k else Z.max 0 (Z.min n (k + pos)).

Definition Inv (H : list (list Z)) (t : list Z) (e : ed) : Prop :=
  hist e = H /\ clean e /\
  ((hpos e = -1 /\ line e = t) \/
   (1 <= hpos e <= zlen H /\ line e = entry e (hpos e) /\ exists p r, saved e = (t, p) :: r)).

Lemma entry_hist : forall e e' k, hist e' = hist e -> entry e' k = entry e k.
Proof. intros e e' k H. unfold entry. rewrite H. reflexivity. Qed.

Lemma clean_transfer : forall e e', lines e' = lines e -> hist e' = hist e -> clean e -> clean e'.
Proof. intros e e' L H C k Hk. rewrite L, H. apply C. exact Hk. Qed.

Lemma walk_step : forall mk H t e pos, 0 < zlen H -> Inv H t e ->
  exists e', h_walk mk e pos = Ok e' /\ Inv H t e' /\ apos e' = astep (zlen H) (apos e) pos.
Proof.
  intros mk H t e pos Hn (Hh & Hc & St). unfold h_walk, astep. rewrite Hh.
  replace (zlen H =? 0) with false by lia.
  destruct (pos =? 0) eqn:P0; [exists e; split; [reflexivity|]; split; [split; [exact Hh|split; assumption]|reflexivity]|].
  destruct St as [[Hp Hl] | (Hp & Hl & p & r & Hs)].
  - (* on the line being entered *)
    rewrite Hp. replace ((-1 =? zlen H) && (pos =? 1)) with false by lia. replace (-1 =? -1) with true by reflexivity. cbn [andb].
    destruct (0 <? pos) eqn:Pp.
    + set (e0 := set_undo e (lines e) false (undoing e)).
      destruct (h_save_bottom e0 eq_refl Hp Hc) as (e1 & p & r & S1 & S2 & S3 & S4 & S5 & S6 & S7).
      rewrite S1. cbn [bind].
      assert (Hh1 : hist (set_hist e1 0 (-1)) = H) by (cbn; rewrite S2; exact Hh).
      destruct (walk_to_spec mk (set_hist e1 0 (-1)) pos) as (e' & W1 & W2 & W3 & W4 & W5).
      * rewrite Hh1. exact Hn.
      * rewrite Hh1. cbn. lia.
      * exact S7.
      * intros _. lia.
      * rewrite Hh1 in W4, W5. cbn [hpos set_hist] in W4, W5.
        assert (Kp : 0 < Z.max 0 (Z.min (zlen H) (0 + pos))) by lia.
        destruct (W4 Kp) as [W4a W4b].
        exists e'. split; [exact W1|]. split.
        -- split; [rewrite W2; exact Hh1|]. split; [apply (clean_transfer (set_hist e1 0 (-1)) e' W3 W2); exact S7|].
           right. split; [lia|]. split; [rewrite W4a, W4b; apply eq_sym, entry_hist; exact W2|].
           exists p, r. unfold saved. rewrite W3. cbn [lines set_hist]. fold (saved e1). rewrite S6. cbn. rewrite Hl. reflexivity.
        -- unfold apos. rewrite W4a, Hp. lia.
    + cbn [bind]. unfold h_walk_to. rewrite Hp. cbn [Z.ltb andb Z.compare hpos set_hist hcpos].
      replace (-1 + pos <? -1) with true by lia.
      eexists. split; [reflexivity|]. split; [split; [exact Hh|]; split; [exact Hc|]; left; split; [reflexivity | exact Hl]|].
      unfold apos. cbn [hpos set_hist]. lia.
  - (* on a history line *)
    destruct ((hpos e =? zlen H) && (pos =? 1)) eqn:Top.
    + exists e. split; [reflexivity|]. split; [split; [exact Hh|]; split; [exact Hc|]; right; split; [exact Hp|]; split; [exact Hl|]; exists p, r; exact Hs|].
      unfold apos. lia.
    + replace ((hpos e =? -1) && (0 <? pos)) with false by lia. cbn [bind].
      destruct (walk_to_spec mk e pos) as (e' & W1 & W2 & W3 & W4 & W5).
      * rewrite Hh. exact Hn.
      * rewrite Hh. lia.
      * exact Hc.
      * intros X. lia.
      * rewrite Hh in W4, W5. exists e'. split; [exact W1|].
        destruct (Z.max 0 (Z.min (zlen H) (hpos e + pos)) =? 0) eqn:K0.
        -- assert (K : Z.max 0 (Z.min (zlen H) (hpos e + pos)) = 0) by lia.
           destruct (W5 K) as [W5a W5b]. rewrite Hs in W5b. split.
           ++ split; [rewrite W2; exact Hh|]. split; [apply (clean_transfer e e' W3 W2); exact Hc|]. left. split; assumption.
           ++ unfold apos. rewrite W5a. lia.
        -- assert (K : 0 < Z.max 0 (Z.min (zlen H) (hpos e + pos))) by lia.
           destruct (W4 K) as [W4a W4b]. split.
           ++ split; [rewrite W2; exact Hh|]. split; [apply (clean_transfer e e' W3 W2); exact Hc|]. right.
              split; [lia|]. split; [rewrite W4a, W4b; apply eq_sym, entry_hist; exact W2|].
              exists p, r. unfold saved. rewrite W3. exact Hs.
           ++ unfold apos. rewrite W4a. lia.
Qed.

Fixpoint walks (mk : bool) (ps : list Z) (e : ed) : res ed :=
  match ps with
  | [] => Ok e
  | p :: r => do e' <- h_walk mk e p; walks mk r e'
  end.

Lemma walks_inv : forall mk H t ps e, 0 < zlen H -> Inv H t e ->
  exists e', walks mk ps e = Ok e' /\ Inv H t e' /\ apos e' = fold_left (astep (zlen H)) ps (apos e).
Proof.
  intros mk H t ps. induction ps as [|p ps IH]; intros e Hn I; [exists e; repeat split; try apply I; reflexivity|].
  destruct (walk_step mk H t e p Hn I) as (e1 & W & I1 & A1). cbn [walks fold_left]. rewrite W. cbn [bind].
  destruct (IH e1 Hn I1) as (e2 & W2 & I2 & A2). exists e2. split; [exact W2|]. split; [exact I2|]. rewrite A2, A1. reflexivity.
Qed.

(* (a)+(b) for every history, every line being entered and every sequence of Walk calls
   (previous-history = 1, next-history = -1, beginning-of-history = n, end-of-history =
   1 - n, up/down-line-or-history with any count): the buffer shows the k-th newest
   stored entry, where k is the position of the abstract walk, and when that position is
   back to 0 the buffer is the line that was being entered. *)
Theorem walks_show_the_entries : forall mk ps e, 0 < zlen (hist e) -> hpos e = -1 -> clean e ->
  exists e', walks mk ps e = Ok e' /\ hist e' = hist e /\
    let k := fold_left (astep (zlen (hist e))) ps 0 in
    (k = 0 -> hpos e' = -1 /\ line e' = line e) /\
    (0 < k -> hpos e' = k /\ line e' = entry e k).
Proof.
  intros mk ps e Hn Hp Hc.
  assert (I : Inv (hist e) (line e) e) by (split; [reflexivity|]; split; [exact Hc|]; left; split; [exact Hp | reflexivity]).
  destruct (walks_inv mk (hist e) (line e) ps e Hn I) as (e' & W & (Hh & Hc' & St) & A).
  exists e'. split; [exact W|]. split; [exact Hh|].
  assert (A0 : apos e = 0) by (unfold apos; rewrite Hp; reflexivity). rewrite A0 in A. cbv zeta. rewrite <- A.
  unfold apos. destruct St as [[P L] | (P & L & _)].
  - split; [intros _; split; assumption | intros K; rewrite P in K; lia].
  - split; [intros K; lia | intros _; split; [lia|]]. rewrite L. replace (Z.max 0 (hpos e')) with (hpos e') by lia. apply entry_hist. exact Hh.
Qed.

Lemma astep_range : forall n ps k, 0 <= k <= n -> 0 <= fold_left (astep n) ps k <= n.
Proof.
  intros n ps. induction ps as [|p ps IH]; intros k Hk; [exact Hk|]. cbn [fold_left]. apply IH. unfold astep. destruct (p =? 0); lia.
Qed.

Lemma astep_ups : forall n j k, 0 <= k <= n -> fold_left (astep n) (repeat 1 j) k = Z.min n (k + Z.of_nat j).
Proof.
  intros n j. induction j as [|j IH]; intros k Hk; [cbn; lia|]. cbn [repeat fold_left]. rewrite IH by (unfold astep; cbn; lia).
  unfold astep. cbn [Z.eqb]. lia.
Qed.

Lemma fold_astep_app : forall n a b k, fold_left (astep n) (a ++ b) k = fold_left (astep n) b (fold_left (astep n) a k).
Proof. intros. apply fold_left_app. Qed.

(* (a) j times previous-history from the line being entered shows the j-th newest entry (the oldest once j > n) *)
Corollary ups_show_the_jth_newest : forall mk j e, 0 < zlen (hist e) -> hpos e = -1 -> clean e -> (0 < j)%nat ->
  exists e', walks mk (repeat 1 j) e = Ok e' /\ hist e' = hist e /\ line e' = entry e (Z.min (zlen (hist e)) (Z.of_nat j)).
Proof.
  intros mk j e Hn Hp Hc Hj. destruct (walks_show_the_entries mk (repeat 1 j) e Hn Hp Hc) as (e' & W & Hh & _ & K).
  exists e'. split; [exact W|]. split; [exact Hh|]. cbv zeta in K. rewrite astep_ups in K by lia. apply K. lia.
Qed.

(* (b) any walk at all, then enough steps down (any mix of next-history and bigger jumps that
   add up to at least the distance walked up): the line being entered is back *)
Corollary walking_back_down_restores_the_line : forall mk ps downs e, 0 < zlen (hist e) -> hpos e = -1 -> clean e ->
  Forall (fun d => d < 0) downs -> fold_left Z.add downs 0 <= - zlen (hist e) ->
  exists e', walks mk (ps ++ downs) e = Ok e' /\ hist e' = hist e /\ hpos e' = -1 /\ line e' = line e.
Proof.
  intros mk ps downs e Hn Hp Hc Hd Hs.
  destruct (walks_show_the_entries mk (ps ++ downs) e Hn Hp Hc) as (e' & W & Hh & K0 & _).
  exists e'. split; [exact W|]. split; [exact Hh|]. apply K0. rewrite fold_astep_app.
  pose proof (astep_range (zlen (hist e)) ps 0 ltac:(lia)) as Rg. set (k := fold_left (astep (zlen (hist e))) ps 0) in *. clearbody k.
  set (n := zlen (hist e)) in *. clearbody n.
  assert (G : forall ds k a, Forall (fun d => d < 0) ds -> 0 <= k <= n -> fold_left (astep n) ds k = Z.max 0 (k + (fold_left Z.add ds a - a)) ).
  { induction ds as [|d ds IH]; intros k0 a F Hk0; [cbn; lia|]. inversion F; subst. cbn [fold_left].
    rewrite (IH _ (a + d)) by (try assumption; unfold astep; destruct (d =? 0); lia).
    unfold astep. replace (d =? 0) with false by lia.
    assert (M : forall ds a, Forall (fun d => d < 0) ds -> fold_left Z.add ds a <= a).
    { induction ds0 as [|d0 ds0 IH0]; intros a0 F0; [cbn; lia|]. inversion F0; subst. cbn [fold_left]. specialize (IH0 (a0 + d0) ltac:(assumption)). lia. }
    pose proof (M ds (a + d) ltac:(assumption)). lia. }
  rewrite (G downs k 0 Hd Rg). lia.
Qed.

(* ---------------------------------------------------------------- the four commands, as run_cmd runs them *)

Inductive nav := Prev | Next | Begin | End_.
Definition nav_run (mk : bool) (e : ed) (c : nav) : res ed :=
  match c with
  | Prev => do e1 <- h_save e; h_walk mk e1 1
  | Next => do e1 <- h_save e; h_walk mk e1 (-1)
  | Begin => h_walk mk (h_skip_save e) (zlen (hist e))
  | End_ => h_walk mk e (- zlen (hist e) + 1)
  end.
Definition nav_pos (n : Z) (c : nav) : Z := match c with Prev => 1 | Next => -1 | Begin => n | End_ => - n + 1 end.

Lemma save_keeps_inv : forall H t e, Inv H t e -> exists e1, h_save e = Ok e1 /\ Inv H t e1 /\ hpos e1 = hpos e.
Proof.
  intros H t e (Hh & Hc & St). destruct St as [[Hp Hl] | (Hp & Hl & p & r & Hs)].
  - destruct (h_save_bottom_any e Hp Hc) as (e1 & S & A & B & C & D). exists e1. split; [exact S|]. split; [|lia].
    split; [rewrite A; exact Hh|]. split; [exact D|]. left. split; [exact B | rewrite C; exact Hl].
  - rewrite <- Hh in Hp. destruct (h_save_walking e Hp Hl Hc) as (e1 & S & A & B & C & D & E). exists e1. split; [exact S|]. split; [|exact B].
    split; [rewrite A; exact Hh|]. split; [exact E|]. right. rewrite B. split; [rewrite <- Hh; exact Hp|].
    split; [rewrite C, Hl; apply eq_sym, entry_hist; exact A|]. exists p, r. rewrite D. exact Hs.
Qed.

Lemma nav_step : forall mk H t e c, 0 < zlen H -> Inv H t e ->
  exists e', nav_run mk e c = Ok e' /\ Inv H t e' /\ apos e' = astep (zlen H) (apos e) (nav_pos (zlen H) c).
Proof.
  intros mk H t e c Hn I. destruct c; cbn [nav_run nav_pos].
  - destruct (save_keeps_inv H t e I) as (e1 & S & I1 & P1). rewrite S. cbn [bind].
    destruct (walk_step mk H t e1 1 Hn I1) as (e' & W & I' & A). exists e'. split; [exact W|]. split; [exact I'|]. rewrite A. unfold apos. rewrite P1. reflexivity.
  - destruct (save_keeps_inv H t e I) as (e1 & S & I1 & P1). rewrite S. cbn [bind].
    destruct (walk_step mk H t e1 (-1) Hn I1) as (e' & W & I' & A). exists e'. split; [exact W|]. split; [exact I'|]. rewrite A. unfold apos. rewrite P1. reflexivity.
  - assert (I1 : Inv H t (h_skip_save e)) by exact I.
    destruct (walk_step mk H t (h_skip_save e) (zlen (hist e)) Hn I1) as (e' & W & I' & A). exists e'. split; [exact W|]. split; [exact I'|].
    destruct I as (Hh & _). rewrite A, Hh. reflexivity.
  - destruct (walk_step mk H t e (- zlen (hist e) + 1) Hn I) as (e' & W & I' & A). exists e'. split; [exact W|]. split; [exact I'|].
    destruct I as (Hh & _). rewrite A, Hh. reflexivity.
Qed.

Fixpoint nav_runs (mk : bool) (cs : list nav) (e : ed) : res ed :=
  match cs with
  | [] => Ok e
  | c :: r => do e' <- nav_run mk e c; nav_runs mk r e'
  end.

Definition nav_fold (n : Z) (cs : list nav) (k : Z) : Z := fold_left (fun k c => astep n k (nav_pos n c)) cs k.

Lemma nav_runs_inv : forall mk H t cs e, 0 < zlen H -> Inv H t e ->
  exists e', nav_runs mk cs e = Ok e' /\ Inv H t e' /\ apos e' = nav_fold (zlen H) cs (apos e).
Proof.
  intros mk H t cs. induction cs as [|c cs IH]; intros e Hn I; [exists e; repeat split; try apply I; reflexivity|].
  destruct (nav_step mk H t e c Hn I) as (e1 & W & I1 & A1). cbn [nav_runs]. rewrite W. cbn [bind].
  destruct (IH e1 Hn I1) as (e2 & W2 & I2 & A2). exists e2. split; [exact W2|]. split; [exact I2|]. rewrite A2, A1. reflexivity.
Qed.

(* every sequence of previous-history / next-history / beginning-of-history / end-of-history,
   each run as the command runs (its own Save or SkipSave, then Walk), on every history *)
Theorem nav_commands_show_the_entries : forall mk cs e, 0 < zlen (hist e) -> hpos e = -1 -> clean e ->
  exists e', nav_runs mk cs e = Ok e' /\ hist e' = hist e /\
    let k := nav_fold (zlen (hist e)) cs 0 in
    (k = 0 -> hpos e' = -1 /\ line e' = line e) /\
    (0 < k -> hpos e' = k /\ line e' = entry e k).
Proof.
  intros mk cs e Hn Hp Hc.
  assert (I : Inv (hist e) (line e) e) by (split; [reflexivity|]; split; [exact Hc|]; left; split; [exact Hp | reflexivity]).
  destruct (nav_runs_inv mk (hist e) (line e) cs e Hn I) as (e' & W & (Hh & Hc' & St) & A).
  exists e'. split; [exact W|]. split; [exact Hh|].
  assert (A0 : apos e = 0) by (unfold apos; rewrite Hp; reflexivity). rewrite A0 in A. cbv zeta. rewrite <- A.
  unfold apos. destruct St as [[P L] | (P & L & _)].
  - split; [intros _; split; assumption | intros K; rewrite P in K; lia].
  - split; [intros K; lia | intros _; split; [lia|]]. rewrite L. replace (Z.max 0 (hpos e')) with (hpos e') by lia. apply entry_hist. exact Hh.
Qed.

(* ---------------------------------------------------------------- ... and as the loop runs them: run_one *)

From Coq Require Import String.

Definition nav_name (c : nav) : list Z :=
  match c with
  | Prev => zs "previous-history" | Next => zs "next-history"
  | Begin => zs "beginning-of-history" | End_ => zs "end-of-history"
  end%string.

Lemma run_command_nav : forall c keys mk mx e, run_command (nav_name c) keys mk mx e = nav_run mk e c.
Proof.
  intros c keys mk mx e. destruct c; unfold nav_name, run_command; cbv zeta;
    repeat match goal with |- context[eqlZ (zs ?a) (zs ?b)] =>
             let v := eval vm_compute in (eqlZ (zs a) (zs b)) in change (eqlZ (zs a) (zs b)) with v; cbv iota end;
    reflexivity.
Qed.

(* nothing but the cursor and the mark differs *)
Definition only_cursor (e e' : ed) : Prop :=
  hist e' = hist e /\ lines e' = lines e /\ hpos e' = hpos e /\ line e' = line e /\ pending e' = pending e /\
  uskip e' = uskip e /\ undoing e' = undoing e /\ kmain e' = kmain e.

Lemma only_cursor_refl : forall e, only_cursor e e. Proof. intros e. repeat split. Qed.
Lemma only_cursor_trans : forall a b c, only_cursor a b -> only_cursor b c -> only_cursor a c.
Proof. unfold only_cursor. intros a b c H1 H2. intuition congruence. Qed.

Lemma c_check_append_oc : forall e, only_cursor e (c_check_append e).
Proof. intros e. unfold c_check_append. repeat split. Qed.

Lemma c_dec_oc : forall e, only_cursor e (c_dec e).
Proof. intros e. unfold c_dec. destruct (0 <? cpos e); repeat split. Qed.

Lemma c_check_command_oc : forall e e', c_check_command e = Ok e' -> only_cursor e e'.
Proof.
  intros e e' H. unfold c_check_command in H.
  destruct (c_on_empty_line (c_check_append e)) as [oe| |]; cbn [bind] in H; try discriminate.
  set (e1 := if (cpos (c_check_append e) =? llen (c_check_append e)) && negb oe then set_cpos (c_check_append e) (cpos (c_check_append e) - 1) else c_check_append e) in *.
  assert (O1 : only_cursor e e1) by (subst e1; destruct (_ && negb oe); [apply (only_cursor_trans _ _ _ (c_check_append_oc e)); repeat split | apply c_check_append_oc]).
  destruct ((0 <? llen e1) && (cpos e1 <? llen e1) && (c_char e1 =? 10)).
  - destruct (c_on_empty_line (c_check_append e1)) as [oe2| |]; cbn [bind] in H; try discriminate. inversion H; subst e'.
    apply (only_cursor_trans _ _ _ O1). apply (only_cursor_trans _ _ _ (c_check_append_oc e1)).
    destruct (negb oe2); [apply c_dec_oc | apply only_cursor_refl].
  - inversion H; subst e'. exact O1.
Qed.

Lemma Inv_oc : forall H t e e', only_cursor e e' -> Inv H t e -> Inv H t e'.
Proof.
  intros H t e e' (A & B & C & D & _) (Hh & Hc & St).
  split; [rewrite A; exact Hh|]. split; [apply (clean_transfer e e' B A Hc)|].
  destruct St as [[P L] | (P & L & p & r & S)]; [left; rewrite C, D; split; assumption|].
  right. rewrite C. split; [exact P|]. split; [rewrite D, L; apply eq_sym, entry_hist; exact A|]. exists p, r. unfold saved. rewrite B. exact S.
Qed.

Lemma h_walk_to_pending : forall mk e pos, match h_walk_to mk e pos with Ok e' => pending e' = pending e /\ it_pending e' = it_pending e | _ => True end.
Proof.
  intros mk e pos0. unfold h_walk_to.
  set (pos := if (0 <? hpos e) && (hpos e + pos0 <? 0) then - hpos e else pos0). clearbody pos.
  set (e2 := set_hist e (hpos e + pos) (hcpos e)).
  destruct (hpos e2 <? -1); [split; reflexivity|].
  destruct (hpos e2 =? 0); [unfold h_restore_line; destruct (rev _) as [|[l p] r]; split; reflexivity|].
  match goal with |- context[cur_undo ?x] => set (e3 := x) end.
  assert (H3 : pending e3 = pending e /\ it_pending e3 = it_pending e) by (unfold e3; destruct (zlen (hist e) <? hpos e2); split; reflexivity).
  destruct (rev (u_items (cur_undo e3))) as [|[l p] r].
  + destruct (hist_get mk (hist e3) (zlen (hist e) - hpos e3)) as [g| |]; cbn [bind]; auto.
    destruct g; [unfold h_set_line_match; destruct (_ && _); cbn; exact H3 | exact H3].
  + unfold h_set_line_match. destruct (_ && _); cbn; exact H3.
Qed.

Lemma h_save_pending : forall e e', h_save e = Ok e' -> pending e' = pending e /\ it_pending e' = it_pending e.
Proof.
  intros e e' H. pose proof (h_save_shape e) as S. rewrite H in S.
  destruct S as [S | [u S]]; subst e'; unfold h_reset, put_undo; destruct (undoing _); split; reflexivity.
Qed.

Lemma h_walk_pending : forall mk e pos e', h_walk mk e pos = Ok e' -> pending e' = pending e /\ it_pending e' = it_pending e.
Proof.
  intros mk e pos e' H. unfold h_walk in H.
  destruct (zlen (hist e) =? 0); [inversion H; split; reflexivity|].
  destruct (pos =? 0); [inversion H; split; reflexivity|].
  destruct ((hpos e =? zlen (hist e)) && (pos =? 1)); [inversion H; split; reflexivity|].
  destruct ((hpos e =? -1) && (0 <? pos)).
  - destruct (h_save (set_undo e (lines e) false (undoing e))) as [e1| |] eqn:S; cbn [bind] in H; try discriminate.
    apply h_save_pending in S. pose proof (h_walk_to_pending mk (set_hist e1 0 (-1)) pos) as W. rewrite H in W. cbn in W, S.
    destruct W as [W1 W2], S as [S1 S2]. split; congruence.
  - cbn [bind] in H. pose proof (h_walk_to_pending mk e pos) as W. rewrite H in W. exact W.
Qed.

Lemma nav_run_pending : forall mk e c e', nav_run mk e c = Ok e' -> pending e' = pending e /\ it_pending e' = it_pending e.
Proof.
  intros mk e c e' H. destruct c; cbn [nav_run] in H.
  - destruct (h_save e) as [e1| |] eqn:S; cbn [bind] in H; try discriminate. apply h_save_pending in S. apply h_walk_pending in H. intuition congruence.
  - destruct (h_save e) as [e1| |] eqn:S; cbn [bind] in H; try discriminate. apply h_save_pending in S. apply h_walk_pending in H. intuition congruence.
  - apply h_walk_pending in H. exact H.
  - apply h_walk_pending in H. exact H.
Qed.

(* one navigation command as the Readline loop runs it (run/execute of readline.go around
   the command: active command, pending operator - none here -, cursor check, iteration
   bookkeeping, the undo save after the command) *)
Lemma run_one_nav : forall mk mx keys H t e c, 0 < zlen H -> Inv H t e -> pending e = [] ->
  exists e', run_one (nav_name c) keys mk mx e = Ok e' /\ Inv H t e' /\ pending e' = [] /\
    apos e' = astep (zlen H) (apos e) (nav_pos (zlen H) c).
Proof.
  intros mk mx keys H t e c Hn I Pe. unfold run_one. rewrite run_command_nav.
  assert (I0 : Inv H t (set_active_cmd e (nav_name c))) by exact I.
  destruct (nav_step mk H t (set_active_cmd e (nav_name c)) c Hn I0) as (e1 & W & I1 & A1). rewrite W. cbn [bind].
  destruct (nav_run_pending _ _ _ _ W) as [P1 _]. cbn [pending set_active_cmd] in P1. rewrite Pe in P1.
  rewrite P1. cbn [rev app].
  replace (if negb (it_pending e1) then Ok e1 else Ok e1) with (Ok e1) by (destruct (negb (it_pending e1)); reflexivity). cbn [bind].
  assert (C3 : exists e2, (if kmain e1 =? M_vicmd then c_check_command e1 else Ok (c_check_append e1)) = Ok e2 /\ only_cursor e1 e2).
  { destruct (kmain e1 =? M_vicmd).
    - destruct (c_check_command_total e1) as [e2 C]. exists e2. split; [exact C | apply c_check_command_oc; exact C].
    - exists (c_check_append e1). split; [reflexivity | apply c_check_append_oc]. }
  destruct C3 as (e2 & C3 & O2). rewrite C3. cbn [bind].
  assert (O3 : only_cursor e2 (it_post_run e2)) by (unfold it_post_run; destruct (it_pending e2); repeat split).
  assert (I3 : Inv H t (it_post_run e2)) by (apply (Inv_oc _ _ _ _ O3), (Inv_oc _ _ _ _ O2); exact I1).
  destruct (save_keeps_inv H t _ I3) as (e4 & S & I4 & P4). exists e4. split; [exact S|]. split; [exact I4|].
  split.
  - apply h_save_pending in S. destruct S as [S _]. rewrite S. destruct O3 as (_ & _ & _ & _ & Q3 & _), O2 as (_ & _ & _ & _ & Q2 & _). congruence.
  - unfold apos in *. rewrite P4. destruct O3 as (_ & _ & Q3 & _), O2 as (_ & _ & Q2 & _). rewrite Q3, Q2. exact A1.
Qed.

Fixpoint run_navs (mk : bool) (mx : Z) (cs : list (nav * list Z)) (e : ed) : res ed :=
  match cs with
  | [] => Ok e
  | (c, keys) :: r => do e' <- run_one (nav_name c) keys mk mx e; run_navs mk mx r e'
  end.

(* THE statement for (a)+(b): any sequence of the four navigation commands, run the way the
   Readline loop runs a command, each called with any keys, on any history: the buffer is
   the k-th newest stored entry, k the abstract position (0 = the line being entered, kept
   within [0, n]); at 0 the buffer is the line that was being entered; the entries never change *)
Theorem navigation_is_faithful : forall mk mx cs e, 0 < zlen (hist e) -> hpos e = -1 -> clean e -> pending e = [] ->
  exists e', run_navs mk mx cs e = Ok e' /\ hist e' = hist e /\
    let k := nav_fold (zlen (hist e)) (map fst cs) 0 in
    (k = 0 -> hpos e' = -1 /\ line e' = line e) /\
    (0 < k -> hpos e' = k /\ line e' = entry e k).
Proof.
  intros mk mx cs e Hn Hp Hc Pe.
  assert (I : Inv (hist e) (line e) e) by (split; [reflexivity|]; split; [exact Hc|]; left; split; [exact Hp | reflexivity]).
  assert (G : forall cs e0, Inv (hist e) (line e) e0 -> pending e0 = [] ->
            exists e', run_navs mk mx cs e0 = Ok e' /\ Inv (hist e) (line e) e' /\ apos e' = nav_fold (zlen (hist e)) (map fst cs) (apos e0)).
  { induction cs0 as [|[c keys] cs0 IH]; intros e0 I0 P0; [exists e0; repeat split; try apply I0; reflexivity|].
    destruct (run_one_nav mk mx keys (hist e) (line e) e0 c Hn I0 P0) as (e1 & W & I1 & P1 & A1). cbn [run_navs map fst]. rewrite W. cbn [bind].
    destruct (IH e1 I1 P1) as (e2 & W2 & I2 & A2). exists e2. split; [exact W2|]. split; [exact I2|]. rewrite A2, A1. reflexivity. }
  destruct (G cs e I Pe) as (e' & W & (Hh & Hc' & St) & A).
  exists e'. split; [exact W|]. split; [exact Hh|].
  assert (A0 : apos e = 0) by (unfold apos; rewrite Hp; reflexivity). rewrite A0 in A. cbv zeta. rewrite <- A.
  unfold apos. destruct St as [[P L] | (P & L & _)].
  - split; [intros _; split; assumption | intros K; rewrite P in K; lia].
  - split; [intros K; lia | intros _; split; [lia|]]. rewrite L. replace (Z.max 0 (hpos e')) with (hpos e') by lia. apply entry_hist. exact Hh.
Qed.

(* the keys of the undo logs a state holds (-1 = the line being entered, k >= 0 = history line k) *)
Definition keys_of (e : ed) : list Z := map fst (lines e).
