(* C09 (a), (b): walking through history shows the stored entries in order and walking
   back down past the newest restores the line being entered - for every history, every
   in-progress line and every sequence of Walk calls of any size and sign. *)
From Model Require Import Base Uni Utf8 Notation Inputrc HistFile Editor.
From Proofs Require Import EditorP BoundsP NotationP HistoryP.
From Coq Require Import ZifyBool.
Open Scope Z_scope.

Definition entry (e : ed) (k : Z) : list Z := nth (Z.to_nat (zlen (hist e) - k)) (hist e) [].
Definition saved (e : ed) : list (list Z * Z) := rev (u_items (lh_get (lines e) (-1))).
(* no history line has been edited in this call: their undo logs are empty *)
Definition clean (e : ed) : Prop := forall k, 0 <= k -> u_items (lh_get (lines e) k) = [].

Lemma lh_get_set : forall ls k u k', lh_get (lh_set ls k u) k' = if k =? k' then u else lh_get ls k'.
Proof.
  induction ls as [|[k0 u0] r IH]; intros k u k'; cbn [lh_set lh_get].
  - destruct (k =? k'); reflexivity.
  - destruct (k0 =? k) eqn:A; cbn [lh_get].
    + destruct (k =? k') eqn:B; [replace (k =? k') with true by lia; reflexivity|].
      replace (k0 =? k') with false by lia. replace (k =? k') with false by lia. reflexivity.
    + destruct (k0 =? k') eqn:B; [replace (k =? k') with false by lia; reflexivity|]. apply IH.
Qed.

Lemma put_undo_at : forall e v, line_key e = -1 ->
  lh_get (lines (put_undo e v)) (-1) = v /\ (forall k, 0 <= k -> lh_get (lines (put_undo e v)) k = lh_get (lines e) k) /\
  hist (put_undo e v) = hist e /\ hpos (put_undo e v) = hpos e /\ hcpos (put_undo e v) = hcpos e /\ line (put_undo e v) = line e /\
  line_key (put_undo e v) = -1 /\ undoing (put_undo e v) = undoing e.
Proof.
  intros e v K. unfold put_undo. rewrite K. cbn [lines set_undo hist hpos hcpos line undoing]. rewrite lh_get_set. cbn.
  repeat split; try reflexivity; try exact K.
  intros k Hk. rewrite lh_get_set. replace (-1 =? k) with false by lia. reflexivity.
Qed.

Lemma h_reset_at : forall e, line_key e = -1 ->
  u_items (lh_get (lines (h_reset e)) (-1)) = u_items (lh_get (lines e) (-1)) /\
  (forall k, 0 <= k -> lh_get (lines (h_reset e)) k = lh_get (lines e) k) /\
  hist (h_reset e) = hist e /\ hpos (h_reset e) = hpos e /\ hcpos (h_reset e) = hcpos e /\ line (h_reset e) = line e.
Proof.
  intros e K. unfold h_reset. destruct (undoing e).
  - cbn. repeat split; reflexivity.
  - destruct (put_undo_at e {| u_pos := 0; u_items := u_items (cur_undo e) |} K) as (A & B & C & D & E & F & _).
    cbn [lines set_undo hist hpos hcpos line]. rewrite A. cbn [u_items].
    split; [unfold cur_undo; rewrite K; reflexivity|]. split; [exact B|]. split; [exact C|]. split; [exact D|]. split; [exact E|exact F].
Qed.

(* Save at the bottom of the history (hpos = -1): the line being entered becomes the last
   snapshot of its own log, and nothing else moves *)
Lemma h_save_bottom : forall e, uskip e = false -> hpos e = -1 -> clean e ->
  exists e' p r, h_save e = Ok e' /\ hist e' = hist e /\ hpos e' = -1 /\ hcpos e' = hcpos e /\ line e' = line e /\
    saved e' = (line e, p) :: r /\ clean e'.
Proof.
  intros e Hs Hp Hc. unfold h_save. rewrite Hs.
  assert (K : line_key e = -1) by (unfold line_key; rewrite Hp; reflexivity).
  assert (Fin : forall u p r, rev (u_items u) = (line e, p) :: r ->
            let e' := h_reset (put_undo e u) in
            hist e' = hist e /\ hpos e' = -1 /\ hcpos e' = hcpos e /\ line e' = line e /\ saved e' = (line e, p) :: r /\ clean e').
  { intros u p r Hu e'. subst e'.
    destruct (put_undo_at e u K) as (A & B & C & D & E & F & G & _).
    destruct (h_reset_at (put_undo e u) G) as (A' & B' & C' & D' & E' & F').
    rewrite C', D', E', F', C, D, E, F. repeat split; try assumption.
    - unfold saved. rewrite A', A. exact Hu.
    - intros k Hk. rewrite B', B by exact Hk. apply Hc. exact Hk. }
  destruct (rev (u_items (cur_undo e))) as [|[l p] r] eqn:Rv.
  - destruct (c_check_command_total (c_set e (c_pos e))) as [cc C]. rewrite C. cbn [bind].
    eexists _, (cpos cc), []. split; [reflexivity|]. apply Fin. reflexivity.
  - destruct (eqlZ l (line e)) eqn:Q.
    + apply eqlZ_eq in Q. subst l. eexists _, (c_pos e), r. split; [reflexivity|]. apply Fin. cbn [u_items]. apply rev_involutive.
    + match goal with |- context[0 <=? ?x] => replace (0 <=? x) with true end.
      * cbn [bind]. destruct (c_check_command_total (c_set e (c_pos e))) as [cc C]. rewrite C. cbn [bind].
        eexists _, (cpos cc), _. split; [reflexivity|]. apply Fin. cbn [u_items]. rewrite rev_app_distr. reflexivity.
      * symmetry. destruct (zlen (u_items (cur_undo e)) <? u_pos (cur_undo e)) eqn:Z1; lia.
Qed.

Lemma set_line_match_facts : forall e l, hist (h_set_line_match e l) = hist e /\ hpos (h_set_line_match e l) = hpos e /\
  lines (h_set_line_match e l) = lines e /\ line (h_set_line_match e l) = l.
Proof. intros e l. unfold h_set_line_match. destruct (_ && _); repeat split. Qed.

(* the move, in a clean state: k' = the position asked for, kept within [0, n] *)
Lemma walk_to_spec : forall mk e pos, let n := zlen (hist e) in
  0 < n -> 0 <= hpos e <= n -> clean e ->
  let k' := Z.max 0 (Z.min n (hpos e + pos)) in
  (hpos e = 0 -> 0 < pos) ->
  exists e', h_walk_to mk e pos = Ok e' /\ hist e' = hist e /\ lines e' = lines e /\
    (0 < k' -> hpos e' = k' /\ line e' = entry e k') /\
    (k' = 0 -> hpos e' = -1 /\ match saved e with (t, _) :: _ => line e' = t | [] => line e' = line e end).
Proof.
  intros mk e pos0 n Hn Hk Hc k' H0. unfold h_walk_to. fold n.
  set (pos := if (0 <? hpos e) && (hpos e + pos0 <? 0) then - hpos e else pos0).
  assert (Hpos : Z.max 0 (Z.min n (hpos e + pos)) = k' /\ -1 <= hpos e + pos /\ (hpos e + pos = -1 -> False)).
  { subst pos k'. destruct ((0 <? hpos e) && (hpos e + pos0 <? 0)) eqn:B; lia. }
  clearbody pos. destruct Hpos as (Hk' & Hge & Hne).
  cbn [hpos set_hist hcpos].
  replace (hpos e + pos <? -1) with false by lia.
  destruct (hpos e + pos =? 0) eqn:Z0.
  - eexists. split; [reflexivity|]. unfold h_restore_line. cbn [lines set_hist].
    fold (saved e). destruct (saved e) as [|[t p] r]; cbn; (repeat split; try reflexivity; try lia).
  - assert (Kp : 0 < k') by lia.
    set (e3 := if n <? hpos e + pos then set_hist (set_hist e (hpos e + pos) (hcpos e)) n (hcpos e) else set_hist e (hpos e + pos) (hcpos e)).
    assert (E3 : hpos e3 = k' /\ hist e3 = hist e /\ lines e3 = lines e) by (subst e3; destruct (n <? hpos e + pos) eqn:B; cbn; repeat split; lia).
    destruct E3 as (E3a & E3b & E3c).
    assert (CU : u_items (cur_undo e3) = []).
    { unfold cur_undo, line_key. rewrite E3a, E3b, E3c. replace (-1 <? k') with true by lia. apply Hc. fold n. lia. }
    rewrite CU. cbn [rev]. unfold hist_get. rewrite E3b, E3a. fold n.
    replace (mk && (n =? 0)) with false by (destruct mk; cbn; lia).
    replace ((n - k' <? 0) || (n <=? n - k')) with false by lia. cbn [bind].
    eexists. split; [reflexivity|]. destruct (set_line_match_facts e3 (nth (Z.to_nat (n - k')) (hist e) [])) as (F1 & F2 & F3 & F4).
    rewrite F1, F2, F3, F4, E3a, E3b, E3c. repeat split; try lia.
Qed.

(* ---------------------------------------------------------------- sequences of walks *)

(* the abstract walk: position 0 is the line being entered, k >= 1 the k-th newest entry *)
Definition apos (e : ed) : Z := Z.max 0 (hpos e).
Definition astep (n k pos : Z) : Z := if pos =? 0 then k else Z.max 0 (Z.min n (k + pos)).

Definition Inv (H : list (list Z)) (t : list Z) (e : ed) : Prop :=
  hist e = H /\ clean e /\
  ((hpos e = -1 /\ line e = t) \/
   (1 <= hpos e <= zlen H /\ line e = entry e (hpos e) /\ exists p r, saved e = (t, p) :: r)).

Lemma entry_hist : forall e e' k, hist e' = hist e -> entry e' k = entry e k.
Proof. intros e e' k H. unfold entry. rewrite H. reflexivity. Qed.

Lemma walk_step : forall mk H t e pos, 0 < zlen H -> Inv H t e ->
  exists e', h_walk mk e pos = Ok e' /\ Inv H t e' /\ apos e' = astep (zlen H) (apos e) pos.
Proof.
  intros mk H t e pos Hn (Hh & Hc & St). unfold h_walk, astep. rewrite Hh.
  replace (zlen H =? 0) with false by lia.
  destruct (pos =? 0) eqn:P0; [exists e; split; [reflexivity|]; split; [split; [exact Hh|split; assumption]|reflexivity]|].
  destruct St as [[Hp Hl] | (Hp & Hl & p & r & Hs)].
  - (* on the line being entered *)
    rewrite Hp. replace ((-1 =? zlen H) && (pos =? 1)) with false by lia. replace (-1 =? -1) with true by reflexivity. cbn [andb].
    destruct (0 <? pos) eqn:Pp.
    + set (e0 := set_undo e (lines e) false (undoing e)).
      destruct (h_save_bottom e0 eq_refl Hp Hc) as (e1 & p & r & S1 & S2 & S3 & S4 & S5 & S6 & S7).
      rewrite S1. cbn [bind].
      assert (Hh1 : hist (set_hist e1 0 (-1)) = H) by (cbn; rewrite S2; exact Hh).
      destruct (walk_to_spec mk (set_hist e1 0 (-1)) pos) as (e' & W1 & W2 & W3 & W4 & W5).
      * rewrite Hh1. exact Hn.
      * rewrite Hh1. cbn. lia.
      * exact S7.
      * intros _. lia.
      * rewrite Hh1 in W4, W5. cbn [hpos set_hist] in W4, W5.
        assert (Kp : 0 < Z.max 0 (Z.min (zlen H) (0 + pos))) by lia.
        destruct (W4 Kp) as [W4a W4b].
        exists e'. split; [exact W1|]. split.
        -- split; [rewrite W2; exact Hh1|]. split; [intros k Hk; rewrite W3; apply S7; exact Hk|].
           right. split; [lia|]. split; [rewrite W4a, W4b; apply eq_sym, entry_hist; exact W2|].
           exists p, r. unfold saved. rewrite W3. cbn [lines set_hist]. fold (saved e1). rewrite S6. cbn. rewrite Hl. reflexivity.
        -- unfold apos. rewrite W4a, Hp. lia.
    + cbn [bind]. unfold h_walk_to. rewrite Hp. cbn [Z.ltb andb Z.compare hpos set_hist hcpos].
      replace (-1 + pos <? -1) with true by lia.
      eexists. split; [reflexivity|]. split; [split; [exact Hh|]; split; [exact Hc|]; left; split; [reflexivity | exact Hl]|].
      unfold apos. cbn [hpos set_hist]. lia.
  - (* on a history line *)
    destruct ((hpos e =? zlen H) && (pos =? 1)) eqn:Top.
    + exists e. split; [reflexivity|]. split; [split; [exact Hh|]; split; [exact Hc|]; right; split; [exact Hp|]; split; [exact Hl|]; exists p, r; exact Hs|].
      unfold apos. lia.
    + replace ((hpos e =? -1) && (0 <? pos)) with false by lia. cbn [bind].
      destruct (walk_to_spec mk e pos) as (e' & W1 & W2 & W3 & W4 & W5).
      * rewrite Hh. exact Hn.
      * rewrite Hh. lia.
      * exact Hc.
      * intros X. lia.
      * rewrite Hh in W4, W5. exists e'. split; [exact W1|].
        destruct (Z.max 0 (Z.min (zlen H) (hpos e + pos)) =? 0) eqn:K0.
        -- assert (K : Z.max 0 (Z.min (zlen H) (hpos e + pos)) = 0) by lia.
           destruct (W5 K) as [W5a W5b]. rewrite Hs in W5b. split.
           ++ split; [rewrite W2; exact Hh|]. split; [intros k Hk; rewrite W3; apply Hc; exact Hk|]. left. split; assumption.
           ++ unfold apos. rewrite W5a. lia.
        -- assert (K : 0 < Z.max 0 (Z.min (zlen H) (hpos e + pos))) by lia.
           destruct (W4 K) as [W4a W4b]. split.
           ++ split; [rewrite W2; exact Hh|]. split; [intros k Hk; rewrite W3; apply Hc; exact Hk|]. right.
              split; [lia|]. split; [rewrite W4a, W4b; apply eq_sym, entry_hist; exact W2|].
              exists p, r. unfold saved. rewrite W3. exact Hs.
           ++ unfold apos. rewrite W4a. lia.
Qed.

Fixpoint walks (mk : bool) (ps : list Z) (e : ed) : res ed :=
  match ps with
  | [] => Ok e
  | p :: r => do e' <- h_walk mk e p; walks mk r e'
  end.

Lemma walks_inv : forall mk H t ps e, 0 < zlen H -> Inv H t e ->
  exists e', walks mk ps e = Ok e' /\ Inv H t e' /\ apos e' = fold_left (astep (zlen H)) ps (apos e).
Proof.
  intros mk H t ps. induction ps as [|p ps IH]; intros e Hn I; [exists e; repeat split; try apply I; reflexivity|].
  destruct (walk_step mk H t e p Hn I) as (e1 & W & I1 & A1). cbn [walks fold_left]. rewrite W. cbn [bind].
  destruct (IH e1 Hn I1) as (e2 & W2 & I2 & A2). exists e2. split; [exact W2|]. split; [exact I2|]. rewrite A2, A1. reflexivity.
Qed.

(* (a)+(b) for every history, every line being entered and every sequence of Walk calls
   (previous-history = 1, next-history = -1, beginning-of-history = n, end-of-history =
   1 - n, up/down-line-or-history with any count): the buffer shows the k-th newest
   stored entry, where k is the position of the abstract walk, and when that position is
   back to 0 the buffer is the line that was being entered. *)
Theorem walks_show_the_entries : forall mk ps e, 0 < zlen (hist e) -> hpos e = -1 -> clean e ->
  exists e', walks mk ps e = Ok e' /\ hist e' = hist e /\
    let k := fold_left (astep (zlen (hist e))) ps 0 in
    (k = 0 -> hpos e' = -1 /\ line e' = line e) /\
    (0 < k -> hpos e' = k /\ line e' = entry e k).
Proof.
  intros mk ps e Hn Hp Hc.
  assert (I : Inv (hist e) (line e) e) by (split; [reflexivity|]; split; [exact Hc|]; left; split; [exact Hp | reflexivity]).
  destruct (walks_inv mk (hist e) (line e) ps e Hn I) as (e' & W & (Hh & Hc' & St) & A).
  exists e'. split; [exact W|]. split; [exact Hh|].
  assert (A0 : apos e = 0) by (unfold apos; rewrite Hp; reflexivity). rewrite A0 in A. cbv zeta. rewrite <- A.
  unfold apos. destruct St as [[P L] | (P & L & _)].
  - split; [intros _; split; assumption | intros K; rewrite P in K; lia].
  - split; [intros K; lia | intros _; split; [lia|]]. rewrite L. replace (Z.max 0 (hpos e')) with (hpos e') by lia. apply entry_hist. exact Hh.
Qed.

Lemma astep_range : forall n ps k, 0 <= k <= n -> 0 <= fold_left (astep n) ps k <= n.
Proof.
  intros n ps. induction ps as [|p ps IH]; intros k Hk; [exact Hk|]. cbn [fold_left]. apply IH. unfold astep. destruct (p =? 0); lia.
Qed.

Lemma astep_ups : forall n j k, 0 <= k <= n -> fold_left (astep n) (repeat 1 j) k = Z.min n (k + Z.of_nat j).
Proof.
  intros n j. induction j as [|j IH]; intros k Hk; [cbn; lia|]. cbn [repeat fold_left]. rewrite IH by (unfold astep; cbn; lia).
  unfold astep. cbn [Z.eqb]. lia.
Qed.

Lemma fold_astep_app : forall n a b k, fold_left (astep n) (a ++ b) k = fold_left (astep n) b (fold_left (astep n) a k).
Proof. intros. apply fold_left_app. Qed.

(* (a) j times previous-history from the line being entered shows the j-th newest entry (the oldest once j > n) *)
Corollary ups_show_the_jth_newest : forall mk j e, 0 < zlen (hist e) -> hpos e = -1 -> clean e -> (0 < j)%nat ->
  exists e', walks mk (repeat 1 j) e = Ok e' /\ hist e' = hist e /\ line e' = entry e (Z.min (zlen (hist e)) (Z.of_nat j)).
Proof.
  intros mk j e Hn Hp Hc Hj. destruct (walks_show_the_entries mk (repeat 1 j) e Hn Hp Hc) as (e' & W & Hh & _ & K).
  exists e'. split; [exact W|]. split; [exact Hh|]. cbv zeta in K. rewrite astep_ups in K by lia. apply K. lia.
Qed.

(* (b) any walk at all, then enough steps down (any mix of next-history and bigger jumps that
   add up to at least the distance walked up): the line being entered is back *)
Corollary walking_back_down_restores_the_line : forall mk ps downs e, 0 < zlen (hist e) -> hpos e = -1 -> clean e ->
  Forall (fun d => d < 0) downs -> fold_left Z.add downs 0 <= - zlen (hist e) ->
  exists e', walks mk (ps ++ downs) e = Ok e' /\ hist e' = hist e /\ hpos e' = -1 /\ line e' = line e.
Proof.
  intros mk ps downs e Hn Hp Hc Hd Hs.
  destruct (walks_show_the_entries mk (ps ++ downs) e Hn Hp Hc) as (e' & W & Hh & K0 & _).
  exists e'. split; [exact W|]. split; [exact Hh|]. apply K0. rewrite fold_astep_app.
  pose proof (astep_range (zlen (hist e)) ps 0 ltac:(lia)) as Rg. set (k := fold_left (astep (zlen (hist e))) ps 0) in *. clearbody k.
  set (n := zlen (hist e)) in *. clearbody n.
  assert (G : forall ds k a, Forall (fun d => d < 0) ds -> 0 <= k <= n -> fold_left (astep n) ds k = Z.max 0 (k + (fold_left Z.add ds a - a)) ).
  { induction ds as [|d ds IH]; intros k0 a F Hk0; [cbn; lia|]. inversion F; subst. cbn [fold_left].
    rewrite (IH _ (a + d)) by (try assumption; unfold astep; destruct (d =? 0); lia).
    unfold astep. replace (d =? 0) with false by lia.
    assert (M : forall ds a, Forall (fun d => d < 0) ds -> fold_left Z.add ds a <= a).
    { induction ds0 as [|d0 ds0 IH0]; intros a0 F0; [cbn; lia|]. inversion F0; subst. cbn [fold_left]. specialize (IH0 (a0 + d0) ltac:(assumption)). lia. }
    pose proof (M ds (a + d) ltac:(assumption)). lia. }
  rewrite (G downs k 0 Hd Rg). lia.
Qed.
