(* utf8.DecodeRune never produces ESC from a byte that is not ESC: a multi-byte encoding
   decodes to a value whose high part, fixed by its first two bytes, is not zero
   (finite sweep over the lead byte and the first continuation byte). *)
From Model Require Import Base Utf8.
From Proofs Require Import Utf8P.
From Coq Require Import ZifyBool.
Open Scope Z_scope.

Definition hi2 (b0 : Z) : bool := negb (Z.land b0 31 =? 0).
Definition in3 (b0 b1 : Z) : bool :=
  let lo := if b0 =? 224 then 160 else 128 in let hi := if b0 =? 237 then 159 else 191 in (lo <=? b1) && (b1 <=? hi).
Definition hi3 (b0 : Z) : bool :=
  all_from 64 128 (fun b1 => negb (in3 b0 b1) || negb (Z.lor (Z.shiftl (Z.land b0 15) 6) (Z.land b1 63) =? 0)).
Definition in4 (b0 b1 : Z) : bool :=
  let lo := if b0 =? 240 then 144 else 128 in let hi := if b0 =? 244 then 143 else 191 in (lo <=? b1) && (b1 <=? hi).
Definition hi4 (b0 : Z) : bool :=
  all_from 64 128 (fun b1 => negb (in4 b0 b1) || negb (Z.lor (Z.shiftl (Z.land b0 7) 6) (Z.land b1 63) =? 0)).

Lemma sweep2 : all_from 30 194 hi2 = true. Proof. vm_compute. reflexivity. Qed.
Lemma sweep3 : all_from 16 224 hi3 = true. Proof. vm_compute. reflexivity. Qed.
Lemma sweep4 : all_from 5 240 hi4 = true. Proof. vm_compute. reflexivity. Qed.

Lemma fact2 : forall b0, 194 <= b0 <= 223 -> Z.land b0 31 <> 0.
Proof. intros b0 H. pose proof (all_from_spec _ _ _ sweep2 b0 ltac:(lia)) as S. unfold hi2 in S. lia. Qed.

Lemma fact3 : forall b0 b1, 224 <= b0 <= 239 -> in3 b0 b1 = true -> Z.lor (Z.shiftl (Z.land b0 15) 6) (Z.land b1 63) <> 0.
Proof.
  intros b0 b1 H I. pose proof (all_from_spec _ _ _ sweep3 b0 ltac:(lia)) as S. unfold hi3 in S.
  assert (R : 128 <= b1 < 128 + Z.of_nat 64) by (unfold in3 in I; destruct (b0 =? 224), (b0 =? 237); lia).
  pose proof (all_from_spec _ _ _ S b1 R) as S1. cbv beta in S1. rewrite I in S1. cbn [negb orb] in S1. lia.
Qed.

Lemma fact4 : forall b0 b1, 240 <= b0 <= 244 -> in4 b0 b1 = true -> Z.lor (Z.shiftl (Z.land b0 7) 6) (Z.land b1 63) <> 0.
Proof.
  intros b0 b1 H I. pose proof (all_from_spec _ _ _ sweep4 b0 ltac:(lia)) as S. unfold hi4 in S.
  assert (R : 128 <= b1 < 128 + Z.of_nat 64) by (unfold in4 in I; destruct (b0 =? 240), (b0 =? 244); lia).
  pose proof (all_from_spec _ _ _ S b1 R) as S1. cbv beta in S1. rewrite I in S1. cbn [negb orb] in S1. lia.
Qed.

Theorem decode1_not_esc : forall b0 t, b0 <> 27 -> fst (decode1 b0 t) <> 27.
Proof.
  intros b0 t H. unfold decode1. cbv zeta.
  destruct (b0 <? 128) eqn:E0; [cbn [fst]; exact H|].
  destruct ((194 <=? b0) && (b0 <=? 223)) eqn:E2.
  - destruct (cont (nth 0 t (-1))); [|cbn [fst]; unfold rune_error; lia]. cbn [fst]. intros E.
    apply (f_equal (fun z => Z.shiftr z 6)) in E. rewrite Z.shiftr_lor in E. rewrite Z.shiftr_shiftl_l in E by lia.
    change (6 - 6) with 0 in E. rewrite Z.shiftl_0_r in E. change (Z.shiftr 27 6) with 0 in E.
    apply Z.lor_eq_0_l in E. apply (fact2 b0); [lia | exact E].
  - destruct ((224 <=? b0) && (b0 <=? 239)) eqn:E3.
    + match goal with |- context [if ?c then _ else _] => destruct c eqn:C end; [|cbn [fst]; unfold rune_error; lia].
      cbn [fst]. intros E.
      apply (f_equal (fun z => Z.shiftr z 6)) in E. rewrite !Z.shiftr_lor in E. rewrite !Z.shiftr_shiftl_l in E by lia.
      change (12 - 6) with 6 in E. change (6 - 6) with 0 in E. rewrite Z.shiftl_0_r in E. change (Z.shiftr 27 6) with 0 in E.
      apply Z.lor_eq_0_l in E. apply (fact3 b0 (nth 0 t (-1))); [lia | | exact E].
      unfold in3. apply andb_true_iff in C. destruct C as [C _]. exact C.
    + destruct ((240 <=? b0) && (b0 <=? 244)) eqn:E4; [|cbn [fst]; unfold rune_error; lia].
      match goal with |- context [if ?c then _ else _] => destruct c eqn:C end; [|cbn [fst]; unfold rune_error; lia].
      cbn [fst]. intros E.
      apply (f_equal (fun z => Z.shiftr z 12)) in E. rewrite !Z.shiftr_lor in E. rewrite !Z.shiftr_shiftl_l in E by lia.
      change (18 - 12) with 6 in E. change (12 - 12) with 0 in E. rewrite Z.shiftl_0_r in E. change (Z.shiftr 27 12) with 0 in E.
      apply Z.lor_eq_0_l in E. apply Z.lor_eq_0_l in E. apply (fact4 b0 (nth 0 t (-1))); [lia | | exact E].
      unfold in4. apply andb_true_iff in C. destruct C as [C _]. apply andb_true_iff in C. destruct C as [C _]. exact C.
Qed.
