(* Lemmas about the editor model: C16 (kill/yank), C06 (bounds), C07 (undo), C17 (vi operators). *)
From Coq Require Import String.
From Model Require Import Base Uni Utf8 Notation Inputrc HistFile Editor.
From Coq Require Import ZifyBool.
Open Scope Z_scope.

Lemma zlen_app : forall (A : Type) (a b : list A), zlen (a ++ b) = zlen a + zlen b.
Proof. intros. unfold zlen. rewrite app_length. lia. Qed.

Lemma zlen_firstn : forall (A : Type) (l : list A) n, 0 <= n <= zlen l -> zlen (firstn (Z.to_nat n) l) = n.
Proof. intros A l n H. unfold zlen in *. rewrite firstn_length. lia. Qed.

Lemma zlen_ge0 : forall (A : Type) (l : list A), 0 <= zlen l.
Proof. intros. unfold zlen. lia. Qed.

(* ---------------------------------------------------------------- C16: cut then insert *)

(* text that Line.Insert takes as it is: it drops trailing NUL runes of its argument *)
Definition no_trailing_nul (t : list Z) : Prop := strip_zeros t = t.

Lemma skipn_skipn' : forall (A : Type) (a b : nat) (l : list A), skipn a (skipn b l) = skipn (a + b) l.
Proof.
  intros A a b. revert a. induction b as [|b IH]; intros a l.
  - rewrite Nat.add_0_r. reflexivity.
  - destruct l as [|x l]; [destruct a; reflexivity|]. cbn [skipn]. rewrite IH. replace (a + S b)%nat with (S (a + b)) by lia. reflexivity.
Qed.

Lemma firstn_skipn_mid : forall (l : list Z) b ep, 0 <= b <= ep -> ep <= zlen l ->
  firstn (Z.to_nat b) l ++ sub l b ep ++ skipn (Z.to_nat ep) l = l.
Proof.
  intros l b ep H1 H2. unfold sub.
  rewrite <- (firstn_skipn (Z.to_nat b) l) at 4. f_equal.
  rewrite <- (firstn_skipn (Z.to_nat (ep - b)) (skipn (Z.to_nat b) l)) at 2. f_equal.
  rewrite skipn_skipn'. f_equal. lia.
Qed.

Lemma l_cut_spec : forall l b ep, 0 <= b <= ep -> ep <= zlen l ->
  l_cut l b ep = firstn (Z.to_nat b) l ++ skipn (Z.to_nat ep) l.
Proof.
  intros l b ep H1 H2. unfold l_cut, l_check_range.
  replace ((b =? -1) && (ep =? -1)) with false by lia.
  replace (zlen l <? ep) with false by lia. replace (b <? 0) with false by lia.
  replace ((-1 <? ep) && (ep <? b)) with false by lia. cbn [negb].
  replace (ep =? -1) with false by lia. reflexivity.
Qed.

(* what was cut, put back where it was cut, gives the line back *)
Theorem cut_then_insert : forall l b ep, 0 <= b <= ep -> ep <= zlen l -> no_trailing_nul (sub l b ep) ->
  l_insert (l_cut l b ep) b (sub l b ep) = l.
Proof.
  intros l b ep H1 H2 Hn. rewrite l_cut_spec by assumption. unfold l_insert. rewrite Hn.
  assert (Hl : zlen (firstn (Z.to_nat b) l ++ skipn (Z.to_nat ep) l) >= b).
  { rewrite zlen_app. rewrite zlen_firstn by lia. pose proof (zlen_ge0 _ (skipn (Z.to_nat ep) l)). lia. }
  replace ((b <? 0) || (zlen (firstn (Z.to_nat b) l ++ skipn (Z.to_nat ep) l) <? b)) with false by lia.
  assert (Hf : length (firstn (Z.to_nat b) l) = Z.to_nat b) by (rewrite firstn_length; unfold zlen in *; lia).
  rewrite firstn_app. rewrite Hf. rewrite Nat.sub_diag. cbn [firstn]. rewrite app_nil_r. rewrite firstn_firstn. rewrite Nat.min_id.
  rewrite skipn_app. rewrite Hf. rewrite Nat.sub_diag. cbn [skipn].
  rewrite skipn_firstn_comm. rewrite Nat.sub_diag. cbn [firstn app].
  apply firstn_skipn_mid; assumption.
Qed.

(* the kill ring: a write goes on top, older kills stay below it *)
Theorem ring_write_top : forall e t, t <> [] -> ring_top (ring_write e t) = t /\
  (forall k, (k < 9)%nat -> nth (S k) (ring (ring_write e t)) [] = nth k (ring e) []).
Proof.
  intros e t Ht.
  assert (G : forall (n k : nat) (l : list (list Z)), (k < n)%nat -> nth k (firstn n l) [] = nth k l []).
  { induction n as [|n IH]; intros k l Hk; [lia|]. destruct l as [|x l]; [destruct k; reflexivity|].
    destruct k as [|k]; [reflexivity|]. cbn [firstn nth]. apply IH. lia. }
  unfold ring_write, ring_top. destruct t as [|c t']; [contradiction|].
  cbn [ring set_ring]. split; [reflexivity|].
  intros k Hk. cbn [nth]. apply G. exact Hk.
Qed.

(* decide every integer comparison in the goal from the context *)
Ltac decide_cmp :=
  repeat match goal with
         | |- context[Z.ltb ?a ?b] =>
           first [ replace (Z.ltb a b) with true by lia | replace (Z.ltb a b) with false by lia ]
         | |- context[Z.leb ?a ?b] =>
           first [ replace (Z.leb a b) with true by lia | replace (Z.leb a b) with false by lia ]
         | |- context[Z.eqb ?a ?b] =>
           first [ replace (Z.eqb a b) with true by lia | replace (Z.eqb a b) with false by lia ]
         end.

(* h_save only touches the undo log *)
Definition same_core (e e' : ed) : Prop :=
  line e' = line e /\ cpos e' = cpos e /\ ring e' = ring e /\ sel e' = sel e /\ it_times e' = it_times e
  /\ kmain e' = kmain e /\ cmark e' = cmark e /\ active_cmd e' = active_cmd e.

Lemma same_core_refl : forall e, same_core e e.
Proof. intros e. repeat split. Qed.

Lemma same_core_trans : forall a b c, same_core a b -> same_core b c -> same_core a c.
Proof.
  intros a b c (A1 & A2 & A3 & A4 & A5 & A6 & A7 & A8) (B1 & B2 & B3 & B4 & B5 & B6 & B7 & B8).
  repeat split; congruence.
Qed.

Lemma set_undo_core : forall e ls sk un, same_core e (set_undo e ls sk un).
Proof. intros. repeat split. Qed.

Lemma put_undo_core : forall e u, same_core e (put_undo e u).
Proof. intros. unfold put_undo. apply set_undo_core. Qed.

Lemma h_reset_core : forall e, same_core e (h_reset e).
Proof.
  intros e. unfold h_reset. destruct (undoing e).
  - apply set_undo_core.
  - eapply same_core_trans; [apply put_undo_core | apply set_undo_core].
Qed.

Lemma h_save_shape : forall e,
  match h_save e with
  | Ok e' => e' = h_reset e \/ exists u, e' = h_reset (put_undo e u)
  | _ => True
  end.
Proof.
  intros e. unfold h_save.
  destruct (uskip e); [left; reflexivity|].
  destruct (rev (u_items (cur_undo e))) as [|[l p] r].
  - destruct (c_check_command (c_set e (c_pos e))) as [cc| |]; cbn [bind]; auto. right. eexists. reflexivity.
  - destruct (eqlZ l (line e)); [right; eexists; reflexivity|].
    destruct (0 <=? zlen (u_items (cur_undo e)) - _); cbn [bind]; auto.
    destruct (c_check_command (c_set e (c_pos e))) as [cc| |]; cbn [bind]; auto. right. eexists. reflexivity.
Qed.

Lemma h_save_frame : forall e e', h_save e = Ok e' -> same_core e e'.
Proof.
  intros e e' H. pose proof (h_save_shape e) as S. rewrite H in S.
  destruct S as [S | [u S]]; subst e'.
  - apply h_reset_core.
  - eapply same_core_trans; [apply put_undo_core | apply h_reset_core].
Qed.

Lemma l_cut_all : forall l, l_cut l 0 (zlen l) = [].
Proof.
  intros l. pose proof (zlen_ge0 _ l). rewrite l_cut_spec by lia. cbn [Z.to_nat firstn app].
  unfold zlen. rewrite Nat2Z.id. apply skipn_all.
Qed.

(* yank into an empty buffer *)
Lemma c_check_append_line : forall e, line (c_check_append e) = line e.
Proof. reflexivity. Qed.

Lemma c_check_append_cpos_empty : forall e, line e = [] -> cpos (c_check_append e) = 0.
Proof.
  intros e H. unfold c_check_append, llen. rewrite H.
  cbn [cpos set_cmark set_cpos zlen length Z.of_nat].
  destruct (cpos e <? 0) eqn:A; [reflexivity|]. destruct (0 <? cpos e) eqn:B; lia.
Qed.

Lemma c_insert_at_line : forall e buf,
  line (c_insert_at e buf) = l_insert (line e) (cpos (c_check_append e)) buf.
Proof. reflexivity. Qed.

Lemma it_get_default : forall e, it_times e = [] -> it_get e = (set_iter e [] (it_active e) (it_pending e), 1).
Proof. intros e H. unfold it_get. rewrite H. reflexivity. Qed.

Lemma yank_on_empty : forall e1 e2, line e1 = [] -> it_times e1 = [] -> no_trailing_nul (ring_top e1) ->
  cmd_yank e1 = Ok e2 -> line e2 = ring_top e1.
Proof.
  intros e1 e2 Hl Hit Hn H. unfold cmd_yank in H. rewrite (it_get_default e1 Hit) in H.
  change (times_nat 1) with 1%nat in H. cbn [iter_n] in H. inversion H; subst e2; clear H.
  rewrite c_insert_at_line.
  rewrite c_check_append_cpos_empty by (cbn [line set_iter]; exact Hl).
  cbn [line set_iter]. rewrite Hl. unfold l_insert. rewrite Hn.
  cbn [zlen length Z.of_nat Z.ltb Z.compare orb Z.to_nat firstn skipn app]. apply app_nil_r.
Qed.

(* kill-whole-line, then yank: the ring's top is the line that was killed, the buffer is
   empty in between and whole again afterwards - from any state, any cursor position *)
Theorem kill_whole_line_yank : forall e e1 e2,
  line e <> [] -> no_trailing_nul (line e) ->
  cmd_kill_whole_line e = Ok e1 -> it_times e1 = [] -> cmd_yank e1 = Ok e2 ->
  ring_top e1 = line e /\ line e1 = [] /\ line e2 = line e.
Proof.
  intros e e1 e2 Hne Hn H1 Hit H2. unfold cmd_kill_whole_line in H1.
  destruct (h_save e) as [e0| |] eqn:Hs; cbn [bind] in H1; try discriminate.
  destruct (h_save_frame e e0 Hs) as (Hl & _).
  assert (Hz : (llen e0 =? 0) = false).
  { unfold llen. rewrite Hl. destruct (line e); [contradiction|]. unfold zlen. cbn. lia. }
  rewrite Hz in H1. inversion H1; subst e1. clear H1.
  assert (R1 : ring_top (set_line (ring_write e0 (line e0)) (l_cut (line e0) 0 (llen e0))) = line e).
  { unfold ring_top, ring_write. rewrite Hl. destruct (line e) eqn:E; [contradiction|]. reflexivity. }
  assert (L1 : line (set_line (ring_write e0 (line e0)) (l_cut (line e0) 0 (llen e0))) = []).
  { cbn. unfold llen. apply l_cut_all. }
  split; [exact R1|]. split; [exact L1|].
  rewrite <- R1. apply yank_on_empty; try assumption. rewrite R1. exact Hn.
Qed.

(* ---------------------------------------------------------------- the region of a non-visual selection *)

Lemma s_check_range_id : forall e b ep, 0 <= b <= ep -> ep <= llen e -> 0 < llen e ->
  s_check_range e b ep = (b, ep, true).
Proof.
  intros e b ep H1 H2 H3. unfold s_check_range. decide_cmp. cbn [andb negb]. decide_cmp. cbn [andb]. reflexivity.
Qed.

(* Selection.Pos on an explicit, non-visual range inside the line returns that range *)
Lemma s_pos_explicit : forall e b ep,
  s_active (sel e) = true -> s_visual (sel e) = false -> s_bpos (sel e) = b -> s_epos (sel e) = ep ->
  0 <= b <= ep -> ep <= llen e -> 0 < llen e ->
  exists e1, s_pos e = (e1, b, ep) /\ line e1 = line e /\ ring e1 = ring e /\ sel e1 = sel e.
Proof.
  intros e b ep Ha Hv Hb He H1 H2 H3. unfold s_pos.
  replace (llen e =? 0) with false by lia. rewrite Ha. cbn [negb orb].
  rewrite Hb, He. rewrite s_check_range_id by assumption. cbn [negb].
  replace (ep =? -1) with false by lia.
  match goal with |- context[c_check_append ?x] => set (e1 := c_check_append x) end.
  assert (L1 : llen e1 = llen e) by reflexivity.
  assert (V1 : s_visual (sel e1) = false) by (unfold e1; cbn; exact Hv).
  rewrite V1. rewrite s_check_range_id by (rewrite ?L1; assumption). cbn [negb].
  exists e1. split; [reflexivity|]. split; [reflexivity|]. split; [reflexivity|].
  unfold e1. cbn. destruct (sel e) as [a v vl bb ee]. cbn in *. subst. reflexivity.
Qed.

(* cutting such a selection removes exactly the range and returns its text *)
Lemma s_cut_explicit : forall e b ep,
  s_active (sel e) = true -> s_visual (sel e) = false -> s_bpos (sel e) = b -> s_epos (sel e) = ep ->
  0 <= b <= ep -> ep <= llen e -> 0 < llen e ->
  exists e2, s_cut e = Ok (e2, sub (line e) b ep) /\ line e2 = l_cut (line e) b ep /\ ring e2 = ring e.
Proof.
  intros e b ep Ha Hv Hb He H1 H2 H3. unfold s_cut.
  replace (llen e =? 0) with false by lia.
  destruct (s_pos_explicit e b ep Ha Hv Hb He H1 H2 H3) as (e1 & P1 & L1 & R1 & S1).
  rewrite P1. replace ((b =? -1) || (ep =? -1)) with false by lia.
  unfold s_text. replace (llen e1 =? 0) with false by (unfold llen in *; rewrite L1; lia).
  assert (A1 : s_active (sel e1) = true) by (rewrite S1; exact Ha).
  assert (V1 : s_visual (sel e1) = false) by (rewrite S1; exact Hv).
  assert (B1 : s_bpos (sel e1) = b) by (rewrite S1; exact Hb).
  assert (E1 : s_epos (sel e1) = ep) by (rewrite S1; exact He).
  destruct (s_pos_explicit e1 b ep A1 V1 B1 E1 H1 ltac:(unfold llen in *; rewrite L1; exact H2) ltac:(unfold llen in *; rewrite L1; exact H3))
    as (e2 & P2 & L2 & R2 & S2).
  rewrite P2. replace ((b =? -1) || (ep =? -1)) with false by lia.
  unfold slice. replace ((0 <=? b) && (b <=? ep) && (ep <=? zlen (line e2))) with true by (unfold llen in *; rewrite L2, L1; lia).
  cbn [bind]. rewrite L2, L1. eexists. split; [reflexivity|]. split; [cbn; reflexivity | cbn; congruence].
Qed.

(* the common tail of the emacs kills, from a state with no active visual selection:
   the ring's top is exactly the text removed, the cursor is where the region began *)
Theorem kill_range_spec : forall e b ep,
  s_visual (sel e) = false -> 0 <= b < ep -> ep <= llen e ->
  exists e', kill_range e b ep b = Ok e' /\
             line e' = l_cut (line e) b ep /\ ring_top e' = sub (line e) b ep /\ cpos e' = b.
Proof.
  intros e b ep Hv H1 H2. unfold kill_range.
  assert (H3 : 0 < llen e) by lia.
  assert (Hm : s_mark_range e b ep = set_sel e {| s_active := true; s_visual := s_visual (sel e); s_vline := s_vline (sel e); s_bpos := b; s_epos := ep |}).
  { unfold s_mark_range. rewrite s_check_range_id by lia. reflexivity. }
  rewrite Hm. set (e0 := set_sel e _).
  destruct (s_cut_explicit e0 b ep eq_refl Hv eq_refl eq_refl ltac:(lia) H2 H3) as (e2 & C & L2 & R2).
  rewrite C. cbn [bind].
  assert (Hsub : sub (line e) b ep <> []).
  { unfold sub. intros E. apply (f_equal (@length Z)) in E. rewrite firstn_length, skipn_length in E.
    unfold llen, zlen in *. cbn in E. lia. }
  eexists. split; [reflexivity|].
  assert (Ll : line (c_set (ring_write e2 (sub (line e0) b ep)) b) = l_cut (line e) b ep).
  { cbn [c_set c_check_append set_cpos set_cmark line]. unfold ring_write. change (line e0) with (line e) in *.
    destruct (sub (line e) b ep); [contradiction|]. cbn [line set_ring]. exact L2. }
  split; [exact Ll|]. split.
  - unfold ring_top, ring_write. change (line e0) with (line e). destruct (sub (line e) b ep); [contradiction|]. reflexivity.
  - unfold c_set, c_check_append, llen. cbn [cpos set_cpos set_cmark line ring_write set_ring].
    assert (Hlen : zlen (line (ring_write e2 (sub (line e0) b ep))) = llen e - (ep - b)).
    { replace (line (ring_write e2 (sub (line e0) b ep))) with (line e2) by (unfold ring_write; destruct (sub (line e0) b ep); reflexivity).
      rewrite L2. change (line e0) with (line e). rewrite l_cut_spec by (unfold llen in *; lia).
      rewrite zlen_app. rewrite zlen_firstn by (unfold llen in *; lia).
      unfold zlen. rewrite skipn_length. unfold llen, zlen in *. lia. }
    rewrite Hlen. decide_cmp. reflexivity.
Qed.

Lemma c_check_append_cpos_in : forall e, 0 <= cpos e <= llen e -> cpos (c_check_append e) = cpos e.
Proof.
  intros e H. unfold c_check_append. cbn [cpos set_cmark set_cpos]. decide_cmp. reflexivity.
Qed.

Lemma yank_at : forall e e2, it_times e = [] -> 0 <= cpos e <= llen e -> cmd_yank e = Ok e2 ->
  line e2 = l_insert (line e) (cpos e) (ring_top e).
Proof.
  intros e e2 Hit Hc H. unfold cmd_yank in H. rewrite (it_get_default e Hit) in H.
  change (times_nat 1) with 1%nat in H. cbn [iter_n] in H. inversion H; subst e2; clear H.
  rewrite c_insert_at_line. rewrite c_check_append_cpos_in by (cbn [cpos set_iter llen line]; exact Hc).
  reflexivity.
Qed.

(* kill a region, yank at once: the buffer is what it was, for every buffer, region and cursor *)
Theorem kill_range_then_yank : forall e b ep e' e2,
  s_visual (sel e) = false -> 0 <= b < ep -> ep <= llen e -> no_trailing_nul (sub (line e) b ep) ->
  kill_range e b ep b = Ok e' -> it_times e' = [] -> cmd_yank e' = Ok e2 ->
  ring_top e' = sub (line e) b ep /\ line e2 = line e.
Proof.
  intros e b ep e' e2 Hv H1 H2 Hn Hk Hit Hy.
  destruct (kill_range_spec e b ep Hv H1 H2) as (e'' & K & L & R & C).
  rewrite K in Hk. inversion Hk; subst e''. clear Hk.
  split; [exact R|].
  rewrite (yank_at e' e2 Hit) by (try exact Hy; rewrite C; unfold llen; rewrite L;
    rewrite l_cut_spec by (unfold llen in *; lia); rewrite zlen_app, zlen_firstn by (unfold llen in *; lia);
    pose proof (zlen_ge0 _ (skipn (Z.to_nat ep) (line e))); lia).
  rewrite L, R, C. apply cut_then_insert; unfold llen in *; try lia. exact Hn.
Qed.
