(* Lemmas about the editor model: C16 (kill/yank), C06 (bounds), C07 (undo), C17 (vi operators). *)
From Coq Require Import String.
From Model Require Import Base Uni Utf8 Notation Inputrc HistFile Editor.
From Coq Require Import ZifyBool.
Open Scope Z_scope.

Lemma zlen_app : forall (A : Type) (a b : list A), zlen (a ++ b) = zlen a + zlen b.
Proof. intros. unfold zlen. rewrite app_length. lia. Qed.

Lemma zlen_firstn : forall (A : Type) (l : list A) n, 0 <= n <= zlen l -> zlen (firstn (Z.to_nat n) l) = n.
Proof. intros A l n H. unfold zlen in *. rewrite firstn_length. lia. Qed.

Lemma zlen_ge0 : forall (A : Type) (l : list A), 0 <= zlen l.
Proof. intros. unfold zlen. lia. Qed.

(* ---------------------------------------------------------------- C16: cut then insert *)

(* text that Line.Insert takes as it is: it drops trailing NUL runes of its argument *)
Definition no_trailing_nul (t : list Z) : Prop := strip_zeros t = t.

Lemma skipn_skipn' : forall (A : Type) (a b : nat) (l : list A), skipn a (skipn b l) = skipn (a + b) l.
Proof.
  intros A a b. revert a. induction b as [|b IH]; intros a l.
  - rewrite Nat.add_0_r. reflexivity.
  - destruct l as [|x l]; [destruct a; reflexivity|]. cbn [skipn]. rewrite IH. replace (a + S b)%nat with (S (a + b)) by lia. reflexivity.
Qed.

Lemma firstn_skipn_mid : forall (l : list Z) b ep, 0 <= b <= ep -> ep <= zlen l ->
  firstn (Z.to_nat b) l ++ sub l b ep ++ skipn (Z.to_nat ep) l = l.
Proof.
  intros l b ep H1 H2. unfold sub.
  rewrite <- (firstn_skipn (Z.to_nat b) l) at 4. f_equal.
  rewrite <- (firstn_skipn (Z.to_nat (ep - b)) (skipn (Z.to_nat b) l)) at 2. f_equal.
  rewrite skipn_skipn'. f_equal. lia.
Qed.

Lemma l_cut_spec : forall l b ep, 0 <= b <= ep -> ep <= zlen l ->
  l_cut l b ep = firstn (Z.to_nat b) l ++ skipn (Z.to_nat ep) l.
Proof.
  intros l b ep H1 H2. unfold l_cut, l_check_range.
  replace ((b =? -1) && (ep =? -1)) with false by lia.
  replace (zlen l <? ep) with false by lia. replace (b <? 0) with false by lia.
  replace ((-1 <? ep) && (ep <? b)) with false by lia. cbn [negb].
  replace (ep =? -1) with false by lia. reflexivity.
Qed.

(* what was cut, put back where it was cut, gives the line back *)
Theorem cut_then_insert : forall l b ep, 0 <= b <= ep -> ep <= zlen l -> no_trailing_nul (sub l b ep) ->
  l_insert (l_cut l b ep) b (sub l b ep) = l.
Proof.
  intros l b ep H1 H2 Hn. rewrite l_cut_spec by assumption. unfold l_insert. rewrite Hn.
  assert (Hl : zlen (firstn (Z.to_nat b) l ++ skipn (Z.to_nat ep) l) >= b).
  { rewrite zlen_app. rewrite zlen_firstn by lia. pose proof (zlen_ge0 _ (skipn (Z.to_nat ep) l)). lia. }
  replace ((b <? 0) || (zlen (firstn (Z.to_nat b) l ++ skipn (Z.to_nat ep) l) <? b)) with false by lia.
  assert (Hf : length (firstn (Z.to_nat b) l) = Z.to_nat b) by (rewrite firstn_length; unfold zlen in *; lia).
  rewrite firstn_app. rewrite Hf. rewrite Nat.sub_diag. cbn [firstn]. rewrite app_nil_r. rewrite firstn_firstn. rewrite Nat.min_id.
  rewrite skipn_app. rewrite Hf. rewrite Nat.sub_diag. cbn [skipn].
  rewrite skipn_firstn_comm. rewrite Nat.sub_diag. cbn [firstn app].
  apply firstn_skipn_mid; assumption.
Qed.

(* the kill ring: a write goes on top, older kills stay below it *)
Theorem ring_write_top : forall e t, t <> [] -> ring_top (ring_write e t) = t /\
  (forall k, (k < 9)%nat -> nth (S k) (ring (ring_write e t)) [] = nth k (ring e) []).
Proof.
  intros e t Ht.
  assert (G : forall (n k : nat) (l : list (list Z)), (k < n)%nat -> nth k (firstn n l) [] = nth k l []).
  { induction n as [|n IH]; intros k l Hk; [lia|]. destruct l as [|x l]; [destruct k; reflexivity|].
    destruct k as [|k]; [reflexivity|]. cbn [firstn nth]. apply IH. lia. }
  unfold ring_write, ring_top. destruct t as [|c t']; [contradiction|].
  cbn [ring set_ring]. split; [reflexivity|].
  intros k Hk. cbn [nth]. apply G. exact Hk.
Qed.

(* decide every integer comparison in the goal from the context *)
Ltac decide_cmp :=
  repeat match goal with
         | |- context[Z.ltb ?a ?b] =>
           first [ replace (Z.ltb a b) with true by lia | replace (Z.ltb a b) with false by lia ]
         | |- context[Z.leb ?a ?b] =>
           first [ replace (Z.leb a b) with true by lia | replace (Z.leb a b) with false by lia ]
         | |- context[Z.eqb ?a ?b] =>
           first [ replace (Z.eqb a b) with true by lia | replace (Z.eqb a b) with false by lia ]
         end.

(* h_save only touches the undo log *)
Definition same_core (e e' : ed) : Prop :=
  line e' = line e /\ cpos e' = cpos e /\ ring e' = ring e /\ sel e' = sel e /\ it_times e' = it_times e
  /\ kmain e' = kmain e /\ cmark e' = cmark e /\ active_cmd e' = active_cmd e.

Lemma same_core_refl : forall e, same_core e e.
Proof. intros e. repeat split. Qed.

Lemma same_core_trans : forall a b c, same_core a b -> same_core b c -> same_core a c.
Proof.
  intros a b c (A1 & A2 & A3 & A4 & A5 & A6 & A7 & A8) (B1 & B2 & B3 & B4 & B5 & B6 & B7 & B8).
  repeat split; congruence.
Qed.

Lemma set_undo_core : forall e ls sk un, same_core e (set_undo e ls sk un).
Proof. intros. repeat split. Qed.

Lemma put_undo_core : forall e u, same_core e (put_undo e u).
Proof. intros. unfold put_undo. apply set_undo_core. Qed.

Lemma h_reset_core : forall e, same_core e (h_reset e).
Proof.
  intros e. unfold h_reset. destruct (undoing e).
  - apply set_undo_core.
  - eapply same_core_trans; [apply put_undo_core | apply set_undo_core].
Qed.

Lemma h_save_shape : forall e,
  match h_save e with
  | Ok e' => e' = h_reset e \/ exists u, e' = h_reset (put_undo e u)
  | _ => True
  end.
Proof.
  intros e. unfold h_save.
  destruct (uskip e); [left; reflexivity|].
  destruct (rev (u_items (cur_undo e))) as [|[l p] r].
  - destruct (c_check_command (c_set e (c_pos e))) as [cc| |]; cbn [bind]; auto. right. eexists. reflexivity.
  - destruct (eqlZ l (line e)); [right; eexists; reflexivity|].
    destruct (0 <=? zlen (u_items (cur_undo e)) - _); cbn [bind]; auto.
    destruct (c_check_command (c_set e (c_pos e))) as [cc| |]; cbn [bind]; auto. right. eexists. reflexivity.
Qed.

Lemma h_save_frame : forall e e', h_save e = Ok e' -> same_core e e'.
Proof.
  intros e e' H. pose proof (h_save_shape e) as S. rewrite H in S.
  destruct S as [S | [u S]]; subst e'.
  - apply h_reset_core.
  - eapply same_core_trans; [apply put_undo_core | apply h_reset_core].
Qed.

Lemma l_cut_all : forall l, l_cut l 0 (zlen l) = [].
Proof.
  intros l. pose proof (zlen_ge0 _ l). rewrite l_cut_spec by lia. cbn [Z.to_nat firstn app].
  unfold zlen. rewrite Nat2Z.id. apply skipn_all.
Qed.

(* yank into an empty buffer *)
Lemma c_check_append_line : forall e, line (c_check_append e) = line e.
Proof. reflexivity. Qed.

Lemma c_check_append_cpos_empty : forall e, line e = [] -> cpos (c_check_append e) = 0.
Proof.
  intros e H. unfold c_check_append, llen. rewrite H.
  cbn [cpos set_cmark set_cpos zlen length Z.of_nat].
  destruct (cpos e <? 0) eqn:A; [reflexivity|]. destruct (0 <? cpos e) eqn:B; lia.
Qed.

Lemma c_insert_at_line : forall e buf,
  line (c_insert_at e buf) = l_insert (line e) (cpos (c_check_append e)) buf.
Proof. reflexivity. Qed.

Lemma it_get_default : forall e, it_times e = [] -> it_get e = (set_iter e [] (it_active e) (it_pending e), 1).
Proof. intros e H. unfold it_get. rewrite H. reflexivity. Qed.

Lemma yank_on_empty : forall e1 e2, line e1 = [] -> it_times e1 = [] -> no_trailing_nul (ring_top e1) ->
  cmd_yank e1 = Ok e2 -> line e2 = ring_top e1.
Proof.
  intros e1 e2 Hl Hit Hn H. unfold cmd_yank in H. rewrite (it_get_default e1 Hit) in H.
  change (times_nat 1) with 1%nat in H. cbn [iter_n] in H. inversion H; subst e2; clear H.
  rewrite c_insert_at_line.
  rewrite c_check_append_cpos_empty by (cbn [line set_iter]; exact Hl).
  cbn [line set_iter]. rewrite Hl. unfold l_insert. rewrite Hn.
  cbn [zlen length Z.of_nat Z.ltb Z.compare orb Z.to_nat firstn skipn app]. apply app_nil_r.
Qed.

(* kill-whole-line, then yank: the ring's top is the line that was killed, the buffer is
   empty in between and whole again afterwards - from any state, any cursor position *)
Theorem kill_whole_line_yank : forall e e1 e2,
  line e <> [] -> no_trailing_nul (line e) ->
  cmd_kill_whole_line e = Ok e1 -> it_times e1 = [] -> cmd_yank e1 = Ok e2 ->
  ring_top e1 = line e /\ line e1 = [] /\ line e2 = line e.
Proof.
  intros e e1 e2 Hne Hn H1 Hit H2. unfold cmd_kill_whole_line in H1.
  destruct (h_save e) as [e0| |] eqn:Hs; cbn [bind] in H1; try discriminate.
  destruct (h_save_frame e e0 Hs) as (Hl & _).
  assert (Hz : (llen e0 =? 0) = false).
  { unfold llen. rewrite Hl. destruct (line e); [contradiction|]. unfold zlen. cbn. lia. }
  rewrite Hz in H1. inversion H1; subst e1. clear H1.
  assert (R1 : ring_top (set_line (ring_write e0 (line e0)) (l_cut (line e0) 0 (llen e0))) = line e).
  { unfold ring_top, ring_write. rewrite Hl. destruct (line e) eqn:E; [contradiction|]. reflexivity. }
  assert (L1 : line (set_line (ring_write e0 (line e0)) (l_cut (line e0) 0 (llen e0))) = []).
  { cbn. unfold llen. apply l_cut_all. }
  split; [exact R1|]. split; [exact L1|].
  rewrite <- R1. apply yank_on_empty; try assumption. rewrite R1. exact Hn.
Qed.

(* ---------------------------------------------------------------- the region of a non-visual selection *)

Lemma s_check_range_id : forall e b ep, 0 <= b <= ep -> ep <= llen e -> 0 < llen e ->
  s_check_range e b ep = (b, ep, true).
Proof.
  intros e b ep H1 H2 H3. unfold s_check_range. decide_cmp. cbn [andb negb]. decide_cmp. cbn [andb]. reflexivity.
Qed.

(* Selection.Pos on an explicit, non-visual range inside the line returns that range *)
Lemma s_pos_explicit : forall e b ep,
  s_active (sel e) = true -> s_visual (sel e) = false -> s_bpos (sel e) = b -> s_epos (sel e) = ep ->
  0 <= b <= ep -> ep <= llen e -> 0 < llen e ->
  exists e1, s_pos e = (e1, b, ep) /\ line e1 = line e /\ ring e1 = ring e /\ sel e1 = sel e.
Proof.
  intros e b ep Ha Hv Hb He H1 H2 H3. unfold s_pos.
  replace (llen e =? 0) with false by lia. rewrite Ha. cbn [negb orb].
  rewrite Hb, He. rewrite s_check_range_id by assumption. cbn [negb].
  replace (ep =? -1) with false by lia.
  match goal with |- context[c_check_append ?x] => set (e1 := c_check_append x) end.
  assert (L1 : llen e1 = llen e) by reflexivity.
  assert (V1 : s_visual (sel e1) = false) by (unfold e1; cbn; exact Hv).
  rewrite V1. rewrite s_check_range_id by (rewrite ?L1; assumption). cbn [negb].
  exists e1. split; [reflexivity|]. split; [reflexivity|]. split; [reflexivity|].
  unfold e1. cbn. destruct (sel e) as [a v vl bb ee]. cbn in *. subst. reflexivity.
Qed.

(* cutting such a selection removes exactly the range and returns its text *)
Lemma s_cut_explicit : forall e b ep,
  s_active (sel e) = true -> s_visual (sel e) = false -> s_bpos (sel e) = b -> s_epos (sel e) = ep ->
  0 <= b <= ep -> ep <= llen e -> 0 < llen e ->
  exists e2, s_cut e = Ok (e2, sub (line e) b ep) /\ line e2 = l_cut (line e) b ep /\ ring e2 = ring e.
Proof.
  intros e b ep Ha Hv Hb He H1 H2 H3. unfold s_cut.
  replace (llen e =? 0) with false by lia.
  destruct (s_pos_explicit e b ep Ha Hv Hb He H1 H2 H3) as (e1 & P1 & L1 & R1 & S1).
  rewrite P1. replace ((b =? -1) || (ep =? -1)) with false by lia.
  unfold s_text. replace (llen e1 =? 0) with false by (unfold llen in *; rewrite L1; lia).
  assert (A1 : s_active (sel e1) = true) by (rewrite S1; exact Ha).
  assert (V1 : s_visual (sel e1) = false) by (rewrite S1; exact Hv).
  assert (B1 : s_bpos (sel e1) = b) by (rewrite S1; exact Hb).
  assert (E1 : s_epos (sel e1) = ep) by (rewrite S1; exact He).
  destruct (s_pos_explicit e1 b ep A1 V1 B1 E1 H1 ltac:(unfold llen in *; rewrite L1; exact H2) ltac:(unfold llen in *; rewrite L1; exact H3))
    as (e2 & P2 & L2 & R2 & S2).
  rewrite P2. replace ((b =? -1) || (ep =? -1)) with false by lia.
  unfold slice. replace ((0 <=? b) && (b <=? ep) && (ep <=? zlen (line e2))) with true by (unfold llen in *; rewrite L2, L1; lia).
  cbn [bind]. rewrite L2, L1. eexists. split; [reflexivity|]. split; [cbn; reflexivity | cbn; congruence].
Qed.

(* the common tail of the emacs kills, from a state with no active visual selection:
   the ring's top is exactly the text removed, the cursor is where the region began *)
Theorem kill_range_spec : forall e b ep,
  s_visual (sel e) = false -> 0 <= b < ep -> ep <= llen e ->
  exists e', kill_range e b ep b = Ok e' /\
             line e' = l_cut (line e) b ep /\ ring_top e' = sub (line e) b ep /\ cpos e' = b.
Proof.
  intros e b ep Hv H1 H2. unfold kill_range.
  assert (H3 : 0 < llen e) by lia.
  assert (Hm : s_mark_range e b ep = set_sel e {| s_active := true; s_visual := s_visual (sel e); s_vline := s_vline (sel e); s_bpos := b; s_epos := ep |}).
  { unfold s_mark_range. rewrite s_check_range_id by lia. reflexivity. }
  rewrite Hm. set (e0 := set_sel e _).
  destruct (s_cut_explicit e0 b ep eq_refl Hv eq_refl eq_refl ltac:(lia) H2 H3) as (e2 & C & L2 & R2).
  rewrite C. cbn [bind].
  assert (Hsub : sub (line e) b ep <> []).
  { unfold sub. intros E. apply (f_equal (@length Z)) in E. rewrite firstn_length, skipn_length in E.
    unfold llen, zlen in *. cbn in E. lia. }
  eexists. split; [reflexivity|].
  assert (Ll : line (c_set (ring_write e2 (sub (line e0) b ep)) b) = l_cut (line e) b ep).
  { cbn [c_set c_check_append set_cpos set_cmark line]. unfold ring_write. change (line e0) with (line e) in *.
    destruct (sub (line e) b ep); [contradiction|]. cbn [line set_ring]. exact L2. }
  split; [exact Ll|]. split.
  - unfold ring_top, ring_write. change (line e0) with (line e). destruct (sub (line e) b ep); [contradiction|]. reflexivity.
  - unfold c_set, c_check_append, llen. cbn [cpos set_cpos set_cmark line ring_write set_ring].
    assert (Hlen : zlen (line (ring_write e2 (sub (line e0) b ep))) = llen e - (ep - b)).
    { replace (line (ring_write e2 (sub (line e0) b ep))) with (line e2) by (unfold ring_write; destruct (sub (line e0) b ep); reflexivity).
      rewrite L2. change (line e0) with (line e). rewrite l_cut_spec by (unfold llen in *; lia).
      rewrite zlen_app. rewrite zlen_firstn by (unfold llen in *; lia).
      unfold zlen. rewrite skipn_length. unfold llen, zlen in *. lia. }
    rewrite Hlen. decide_cmp. reflexivity.
Qed.

Lemma c_check_append_cpos_in : forall e, 0 <= cpos e <= llen e -> cpos (c_check_append e) = cpos e.
Proof.
  intros e H. unfold c_check_append. cbn [cpos set_cmark set_cpos]. decide_cmp. reflexivity.
Qed.

Lemma yank_at : forall e e2, it_times e = [] -> 0 <= cpos e <= llen e -> cmd_yank e = Ok e2 ->
  line e2 = l_insert (line e) (cpos e) (ring_top e).
Proof.
  intros e e2 Hit Hc H. unfold cmd_yank in H. rewrite (it_get_default e Hit) in H.
  change (times_nat 1) with 1%nat in H. cbn [iter_n] in H. inversion H; subst e2; clear H.
  rewrite c_insert_at_line. rewrite c_check_append_cpos_in by (cbn [cpos set_iter llen line]; exact Hc).
  reflexivity.
Qed.

(* kill a region, yank at once: the buffer is what it was, for every buffer, region and cursor *)
Theorem kill_range_then_yank : forall e b ep e' e2,
  s_visual (sel e) = false -> 0 <= b < ep -> ep <= llen e -> no_trailing_nul (sub (line e) b ep) ->
  kill_range e b ep b = Ok e' -> it_times e' = [] -> cmd_yank e' = Ok e2 ->
  ring_top e' = sub (line e) b ep /\ line e2 = line e.
Proof.
  intros e b ep e' e2 Hv H1 H2 Hn Hk Hit Hy.
  destruct (kill_range_spec e b ep Hv H1 H2) as (e'' & K & L & R & C).
  rewrite K in Hk. inversion Hk; subst e''. clear Hk.
  split; [exact R|].
  rewrite (yank_at e' e2 Hit) by (try exact Hy; rewrite C; unfold llen; rewrite L;
    rewrite l_cut_spec by (unfold llen in *; lia); rewrite zlen_app, zlen_firstn by (unfold llen in *; lia);
    pose proof (zlen_ge0 _ (skipn (Z.to_nat ep) (line e))); lia).
  rewrite L, R, C. apply cut_then_insert; unfold llen in *; try lia. exact Hn.
Qed.

(* ---------------------------------------------------------------- C17: the region both vi operators read *)

Lemma set_sel_eta : forall e, set_sel e (sel e) = e.
Proof. intros e. destruct e. reflexivity. Qed.

Lemma c_check_append_idem : forall e, c_check_append (c_check_append e) = c_check_append e.
Proof.
  intros e. unfold c_check_append at 1. unfold llen.
  set (e1 := c_check_append e).
  assert (H1 : 0 <= cpos e1 <= zlen (line e1)).
  { unfold e1, c_check_append, llen. cbn [cpos line set_cmark set_cpos]. pose proof (zlen_ge0 _ (line e)).
    destruct (cpos e <? 0) eqn:A; destruct (zlen (line e) <? _) eqn:B; lia. }
  assert (H2 : -1 <= cmark e1 <= zlen (line e1) - 1).
  { unfold e1, c_check_append, llen. cbn [cmark line set_cmark set_cpos]. pose proof (zlen_ge0 _ (line e)).
    destruct (cmark e <? -1) eqn:A; destruct (zlen (line e) - 1 <? _) eqn:B; lia. }
  replace (cpos e1 <? 0) with false by lia.
  replace (zlen (line e1) <? cpos e1) with false by lia.
  replace (cmark e1 <? -1) with false by lia.
  replace (zlen (line e1) - 1 <? cmark e1) with false by lia.
  destruct e1. reflexivity.
Qed.


Ltac split_cmp e b ep :=
  destruct (zlen (line e) =? 0) eqn:?; destruct (b <? 0) eqn:?; destruct (ep <? 0) eqn:?;
  destruct (zlen (line e) <? b) eqn:?; destruct (zlen (line e) <? ep) eqn:?; cbn [andb negb] in *.


Lemma s_check_range_out : forall e b ep b' ep', s_check_range e b ep = (b', ep', true) ->
  0 < llen e /\ 0 <= b' <= llen e /\ (ep' = -1 \/ b' <= ep' <= llen e).
Proof.
  intros e b ep b' ep' H. pose proof (zlen_ge0 _ (line e)) as Hn. unfold s_check_range, llen in *.
  split_cmp e b ep; try discriminate; try lia;
  repeat match type of H with context[if ?c then _ else _] => destruct c eqn:? end;
    inversion H; subst; lia.
Qed.

Lemma s_check_range_in : forall e b ep, 0 < llen e -> 0 <= b <= llen e -> (ep = -1 \/ b <= ep <= llen e) ->
  s_check_range e b ep = (b, ep, true).
Proof.
  intros e b ep H0 H1 H2. unfold s_check_range, llen in *.
  split_cmp e b ep; try lia;
  repeat match goal with |- context[if ?c then _ else _] => destruct c eqn:? end; try reflexivity; try lia;
    f_equal; f_equal; lia.
Qed.

Lemma s_check_range_idem : forall e b ep b' ep', s_check_range e b ep = (b', ep', true) ->
  s_check_range e b' ep' = (b', ep', true).
Proof.
  intros e b ep b' ep' H. apply s_check_range_out in H. destruct H as (H0 & H1 & H2).
  apply s_check_range_in; assumption.
Qed.

Lemma s_check_range_llen : forall e e' b ep, llen e' = llen e -> s_check_range e' b ep = s_check_range e b ep.
Proof. intros e e' b ep H. unfold s_check_range. rewrite H. reflexivity. Qed.

(* Selection.Pos normalises the stored positions once: asking again changes nothing *)
Lemma s_pos_fix : forall e e1 b ep, s_pos e = (e1, b, ep) -> s_pos e1 = (e1, b, ep).
Proof.
  intros e e1 b ep H. unfold s_pos in H.
  destruct ((llen e =? 0) || negb (s_active (sel e))) eqn:E0.
  { inversion H; subst. unfold s_pos. rewrite E0. reflexivity. }
  destruct (s_check_range e (s_bpos (sel e)) (s_epos (sel e))) as [[b0 ep0] ok] eqn:E1.
  destruct ok; cbn [negb] in H.
  2:{ inversion H; subst. unfold s_pos. rewrite E0, E1. reflexivity. }
  set (e' := set_sel e {| s_active := true; s_visual := s_visual (sel e); s_vline := s_vline (sel e); s_bpos := b0; s_epos := ep0 |}) in *.
  set (ea := c_check_append e') in *.
  assert (Hl : llen ea = llen e) by reflexivity.
  assert (Hs : sel ea = {| s_active := true; s_visual := s_visual (sel e); s_vline := s_vline (sel e); s_bpos := b0; s_epos := ep0 |}) by reflexivity.
  assert (Hfix : s_pos ea =
    (let '(b1, ep1) := if ep0 =? -1 then s_select_to_cursor ea b0 else (b0, ep0) in
     let ep1 := if s_visual (sel ea) then ep1 + 1 else ep1 in
     let '(b2, ep2, ok) := s_check_range ea b1 ep1 in
     if negb ok then (ea, -1, -1) else (ea, b2, ep2))).
  { unfold s_pos. rewrite Hl. rewrite Hs. cbn [s_active s_bpos s_epos s_visual s_vline].
    assert (E0' : (llen e =? 0) || negb true = false).
    { destruct (llen e =? 0); [discriminate E0 | reflexivity]. }
    rewrite E0'.
    rewrite (s_check_range_llen e ea b0 ep0 Hl). rewrite (s_check_range_idem e _ _ b0 ep0 E1). cbn [negb].
    replace (set_sel ea {| s_active := true; s_visual := s_visual (sel e); s_vline := s_vline (sel e); s_bpos := b0; s_epos := ep0 |}) with ea
      by (rewrite <- Hs; symmetry; apply set_sel_eta).
    assert (Hid : c_check_append ea = ea) by (unfold ea; apply c_check_append_idem).
    rewrite !Hid. rewrite Hs. cbn [s_visual]. reflexivity. }
  (* the first call returns the same expression *)
  assert (Hfirst : (ea, b, ep) = (e1, b, ep) -> ea = e1) by (intros X; inversion X; reflexivity).
  revert H. rewrite Hs. cbn [s_visual].
  destruct (if ep0 =? -1 then s_select_to_cursor ea b0 else (b0, ep0)) as [b1 ep1] eqn:E2.
  destruct (s_check_range ea b1 (if s_visual (sel e) then ep1 + 1 else ep1)) as [[b2 ep2] ok2] eqn:E3.
  intros H.
  assert (He : e1 = ea) by (destruct ok2; cbn [negb] in H; inversion H; reflexivity).
  rewrite He in *. rewrite Hfix. cbv zeta. rewrite Hs. cbn [s_visual]. rewrite E3.
  destruct ok2; cbn [negb] in *; inversion H; reflexivity.
Qed.

(* line and kill ring are untouched by the cursor / selection / keymap bookkeeping *)
Definition same_lr (e e' : ed) : Prop := line e' = line e /\ ring e' = ring e.
Lemma same_lr_refl : forall e, same_lr e e. Proof. intros; split; reflexivity. Qed.
Lemma same_lr_trans : forall a b c, same_lr a b -> same_lr b c -> same_lr a c.
Proof. intros a b c [A1 A2] [B1 B2]. split; congruence. Qed.

Lemma c_check_append_lr : forall e, same_lr e (c_check_append e). Proof. intros; split; reflexivity. Qed.
Lemma c_set_lr : forall e p, same_lr e (c_set e p). Proof. intros; split; reflexivity. Qed.
Lemma c_dec_lr : forall e, same_lr e (c_dec e).
Proof. intros e. unfold c_dec. destruct (0 <? cpos e); split; reflexivity. Qed.
Lemma s_reset_lr : forall e, same_lr e (s_reset e). Proof. intros; split; reflexivity. Qed.
Lemma it_reset_lr : forall e, same_lr e (it_reset e). Proof. intros; split; reflexivity. Qed.
Lemma set_maps_lr : forall e m l, same_lr e (set_maps e m l). Proof. intros; split; reflexivity. Qed.
Lemma set_sel_lr : forall e s, same_lr e (set_sel e s). Proof. intros; split; reflexivity. Qed.

Lemma c_check_command_lr : forall e, match c_check_command e with Ok e' => same_lr e e' | _ => True end.
Proof.
  intros e. unfold c_check_command.
  destruct (c_on_empty_line (c_check_append e)) as [oe| |]; cbn [bind]; auto.
  match goal with |- context[if ?c then set_cpos ?x ?y else ?z] => set (e1 := if c then set_cpos x y else z) end.
  assert (L1 : same_lr e e1) by (unfold e1; destruct ((cpos (c_check_append e) =? llen (c_check_append e)) && negb oe); split; reflexivity).
  destruct ((0 <? llen e1) && (cpos e1 <? llen e1) && (c_char e1 =? 10)); [|exact L1].
  destruct (c_on_empty_line (c_check_append e1)) as [oe2| |]; cbn [bind]; auto.
  destruct (negb oe2).
  - eapply same_lr_trans; [exact L1|]. eapply same_lr_trans; [apply c_check_append_lr | apply c_dec_lr].
  - eapply same_lr_trans; [exact L1 | apply c_check_append_lr].
Qed.

Lemma vi_command_mode_lr : forall e, match vi_command_mode e with Ok e' => same_lr e e' | _ => True end.
Proof.
  intros e. unfold vi_command_mode.
  match goal with |- context[c_check_command ?x] => set (e1 := x) end.
  assert (L1 : same_lr e e1).
  { unfold e1. destruct ((kmain (it_reset (s_reset e)) =? M_viins) && negb (c_at_bol (it_reset (s_reset e)))).
    - eapply same_lr_trans; [|apply c_dec_lr]. eapply same_lr_trans; [apply s_reset_lr | apply it_reset_lr].
    - eapply same_lr_trans; [apply s_reset_lr | apply it_reset_lr]. }
  pose proof (c_check_command_lr e1) as C. destruct (c_check_command e1) as [e2| |]; cbn [bind]; auto.
  eapply same_lr_trans; [exact L1|]. eapply same_lr_trans; [exact C | apply set_maps_lr].
Qed.

Lemma adjust_pending_lr : forall e, same_lr e (adjust_selection_pending e).
Proof.
  intros e. unfold adjust_selection_pending. destruct (negb (s_active (sel e))); [apply same_lr_refl|].
  destruct (existsb _ _); [apply set_sel_lr | apply same_lr_refl].
Qed.

Lemma s_pos_lr : forall e e1 b ep, s_pos e = (e1, b, ep) -> same_lr e e1.
Proof.
  intros e e1 b ep H. unfold s_pos in H.
  destruct ((llen e =? 0) || negb (s_active (sel e))); [inversion H; apply same_lr_refl|].
  destruct (s_check_range e (s_bpos (sel e)) (s_epos (sel e))) as [[b0 ep0] ok].
  destruct ok; cbn [negb] in H; [|inversion H; apply same_lr_refl].
  match type of H with context[c_check_append ?x] => set (ea := c_check_append x) in * end.
  assert (La : same_lr e ea) by (split; reflexivity).
  destruct (if ep0 =? -1 then s_select_to_cursor ea b0 else (b0, ep0)) as [b1 ep1].
  destruct (s_check_range ea b1 (if s_visual (sel ea) then ep1 + 1 else ep1)) as [[b2 ep2] ok2].
  destruct ok2; cbn [negb] in H; inversion H; subst; exact La.
Qed.

Lemma s_cursor_fst : forall e e1 b ep, s_pos e = (e1, b, ep) -> fst (s_cursor e) = e1.
Proof.
  intros e e1 b ep H. unfold s_cursor. rewrite H.
  destruct ((b =? -1) && (ep =? -1)); [reflexivity|].
  destruct (negb (s_visual (sel e1)) || negb (s_vline (sel e1))); [reflexivity|].
  destruct (ep <? zlen (line e1)); reflexivity.
Qed.

Lemma ring_write_line : forall e t, line (ring_write e t) = line e.
Proof. intros e t. unfold ring_write. destruct t; reflexivity. Qed.

(* what Selection.Cut and Selection.Pop compute once Pos has been taken *)
Lemma s_cut_shape : forall e0 ea b ep, s_pos e0 = (ea, b, ep) ->
  match s_cut ea with
  | Ok (e', t) =>
    (llen ea = 0 /\ e' = ea /\ t = []) \/
    ((b = -1 \/ ep = -1) /\ e' = s_reset ea /\ t = []) \/
    (0 <= b <= ep /\ ep <= llen ea /\ e' = s_reset (set_line ea (l_cut (line ea) b ep)) /\ t = sub (line ea) b ep)
  | _ => True
  end.
Proof.
  intros e0 ea b ep P. pose proof (s_pos_fix e0 ea b ep P) as Pf. unfold s_cut.
  destruct (llen ea =? 0) eqn:Z0; [left; split; [lia | split; reflexivity]|].
  rewrite Pf. destruct ((b =? -1) || (ep =? -1)) eqn:Neg; [right; left; split; [lia | split; reflexivity]|].
  unfold s_text. rewrite Z0. rewrite Pf. rewrite Neg. unfold slice.
  destruct ((0 <=? b) && (b <=? ep) && (ep <=? zlen (line ea))) eqn:Bd; cbn [bind]; auto.
  right. right. unfold llen. split; [lia|]. split; [lia|]. split; reflexivity.
Qed.

Lemma s_pop_shape : forall e0 ea b ep, s_pos e0 = (ea, b, ep) ->
  match s_pop e0 with
  | Ok (e', t, _, _, _) =>
    (llen e0 = 0 /\ e' = e0 /\ t = []) \/
    ((b = -1 \/ ep = -1) /\ e' = s_reset ea /\ t = []) \/
    (0 <= b <= ep /\ ep <= llen ea /\ e' = s_reset ea /\ t = sub (line ea) b ep)
  | _ => True
  end.
Proof.
  intros e0 ea b ep P. pose proof (s_pos_fix e0 ea b ep P) as Pf. unfold s_pop.
  destruct (llen e0 =? 0) eqn:Z0; [left; split; [lia | split; reflexivity]|].
  rewrite P. destruct ((b =? -1) || (ep =? -1)) eqn:Neg; [right; left; split; [lia | split; reflexivity]|].
  pose proof (s_cursor_fst ea ea b ep Pf) as C2.
  destruct (s_cursor ea) as [e4 c4]. cbn [fst] in C2. subst e4. unfold slice.
  destruct ((0 <=? b) && (b <=? ep) && (ep <=? zlen (line ea))) eqn:Bd; cbn [bind]; auto.
  right. right. unfold llen. split; [lia|]. split; [lia|]. split; reflexivity.
Qed.

Lemma del_tail_shape : forall e2 ea b ep, s_pos e2 = (ea, b, ep) ->
  match del_tail e2 with
  | Ok ed =>
    exists e' t, same_lr (ring_write e' t) ed /\
      ((llen ea = 0 /\ e' = ea /\ t = []) \/ ((b = -1 \/ ep = -1) /\ e' = s_reset ea /\ t = []) \/
       (0 <= b <= ep /\ ep <= llen ea /\ e' = s_reset (set_line ea (l_cut (line ea) b ep)) /\ t = sub (line ea) b ep))
  | _ => True
  end.
Proof.
  intros e2 ea b ep P. unfold del_tail.
  pose proof (s_cursor_fst e2 ea b ep P) as C1.
  destruct (s_cursor e2) as [e3 cp]. cbn [fst] in C1. subst e3.
  pose proof (s_cut_shape e2 ea b ep P) as S.
  destruct (s_cut ea) as [[e' t]| |]; cbn [bind]; auto.
  pose proof (vi_command_mode_lr (c_set (ring_write e' t) cp)) as V.
  destruct (vi_command_mode (c_set (ring_write e' t) cp)) as [ed| |]; auto.
  exists e', t. split; [eapply same_lr_trans; [apply c_set_lr | exact V]|].
  destruct S as [(Z & A & B) | [(Z & A & B) | (A1 & A2 & A3 & A4)]]; auto.
  right. right. auto.
Qed.

Lemma yank_tail_shape : forall e2 ea b ep, s_pos e2 = (ea, b, ep) ->
  match yank_tail e2 with
  | Ok ey =>
    exists e' t, same_lr (ring_write e' t) ey /\
      ((llen e2 = 0 /\ e' = e2 /\ t = []) \/ ((b = -1 \/ ep = -1) /\ e' = s_reset ea /\ t = []) \/
       (0 <= b <= ep /\ ep <= llen ea /\ e' = s_reset ea /\ t = sub (line ea) b ep))
  | _ => True
  end.
Proof.
  intros e2 ea b ep P. unfold yank_tail.
  pose proof (s_pop_shape e2 ea b ep P) as S.
  destruct (s_pop e2) as [[[[[e' t] b'] ep'] cp]| |]; cbn [bind]; auto.
  pose proof (vi_command_mode_lr (c_set (ring_write e' t) cp)) as V.
  destruct (vi_command_mode (c_set (ring_write e' t) cp)) as [ey| |]; auto.
  exists e', t. split; [eapply same_lr_trans; [apply c_set_lr | exact V]|].
  destruct S as [(Z & A & B) | [(Z & A & B) | (A1 & A2 & A3 & A4)]]; auto.
  right. right. auto.
Qed.

Lemma ring_write_nil : forall e, ring_write e [] = e.
Proof. reflexivity. Qed.

Lemma ring_write_ring : forall e e' t, ring e = ring e' -> ring (ring_write e t) = ring (ring_write e' t).
Proof. intros e e' t H. unfold ring_write. destruct t; [exact H|]. cbn. rewrite H. reflexivity. Qed.

(* d and y over an active selection (visual mode, or after the motion of d<motion> /
   y<motion>), from the same state: both read the same region; yank leaves the buffer
   alone; delete removes exactly that range; both leave the same text on the ring *)
Theorem vi_delete_yank_agree : forall e2 ed ey,
  del_tail e2 = Ok ed -> yank_tail e2 = Ok ey ->
  line ey = line e2 /\ ring ed = ring ey /\
  ((line ed = line e2) \/ exists b ep, 0 <= b <= ep /\ ep <= llen e2 /\
                                       line ed = l_cut (line e2) b ep /\
                                       (sub (line e2) b ep <> [] -> ring_top ed = sub (line e2) b ep)).
Proof.
  intros e2 ed ey Hd Hy.
  destruct (s_pos e2) as [[ea b] ep] eqn:P.
  destruct (s_pos_lr e2 ea b ep P) as [La Ra].
  pose proof (del_tail_shape e2 ea b ep P) as Dd. rewrite Hd in Dd.
  pose proof (yank_tail_shape e2 ea b ep P) as Dy. rewrite Hy in Dy.
  destruct Dd as (e1 & t1 & [Ld Rd] & Sd).
  destruct Dy as (e3 & t3 & [Ly Ry] & Sy).
  rewrite ring_write_line in Ld, Ly.
  assert (Hll : llen ea = llen e2) by (unfold llen; rewrite La; reflexivity).
  assert (Hsub0 : llen ea = 0 -> sub (line ea) b ep = []).
  { intros Z. unfold llen, zlen in Z. destruct (line ea); [|cbn in Z; lia]. unfold sub. rewrite skipn_nil. apply firstn_nil. }
  destruct Sd as [(Zd & A & B) | [(Zd & A & B) | (A1 & A2 & A3 & A4)]];
  destruct Sy as [(Zy & C & D) | [(Zy & C & D) | (C1 & C2 & C3 & C4)]]; subst;
  rewrite ?ring_write_nil in *; cbn [line ring s_reset set_sel set_line] in *;
  try (split; [congruence|]; split; [congruence|]; left; congruence);
  try lia.
  - (* empty buffer on the delete side *)
    rewrite (Hsub0 Zd) in *. rewrite ring_write_nil in *. cbn [line ring s_reset set_sel] in *.
    split; [congruence|]. split; [congruence|]. left. congruence.
  - assert (E0 : sub (line ea) b ep = []) by (apply Hsub0; lia).
    rewrite E0 in Rd. rewrite ring_write_nil in Rd. cbn [line ring s_reset set_sel set_line] in *.
    split; [congruence|]. split; [congruence|].
    right. exists b, ep. rewrite <- La. rewrite <- Hll. split; [lia|]. split; [lia|]. split; [congruence|].
    intros X. exfalso. apply X. exact E0.
  - split; [congruence|]. split.
    + rewrite Rd, Ry. unfold ring_write. destruct (sub (line ea) b ep); cbn; congruence.
    + right. exists b, ep. rewrite La in *. rewrite Hll in *. split; [lia|]. split; [lia|]. split; [congruence|].
      intros Hne. unfold ring_top. rewrite Rd. unfold ring_write. destruct (sub (line e2) b ep); [contradiction|]. reflexivity.
Qed.

(* the commands themselves: vi-delete-to and vi-yank-to with an active selection *)
Theorem vi_delete_yank_commands_agree : forall e ed ey,
  cmd_vi_delete_sel e = Ok ed -> cmd_vi_yank_sel e = Ok ey ->
  line ey = line e /\ ring ed = ring ey /\
  ((line ed = line e) \/ exists b ep, 0 <= b <= ep /\ ep <= llen e /\
                                      line ed = l_cut (line e) b ep /\
                                      (sub (line e) b ep <> [] -> ring_top ed = sub (line e) b ep)).
Proof.
  intros e ed ey Hd Hy. unfold cmd_vi_delete_sel in Hd. unfold cmd_vi_yank_sel in Hy.
  destruct (h_save e) as [e0| |] eqn:Hs; cbn [bind] in Hd, Hy; try discriminate.
  destruct (h_save_frame e e0 Hs) as (L0 & _).
  destruct (adjust_pending_lr e0) as [L2 _].
  pose proof (vi_delete_yank_agree (adjust_selection_pending e0) ed ey Hd Hy) as H.
  unfold llen in *. rewrite L2, L0 in H. exact H.
Qed.
