(* C10: the history file survives restarts and crashes. *)
From Model Require Import Base Uni HistFile.
From Coq Require Import ZifyBool.

Section P.
  Variable enc : list Z -> list Z.
  Variable dec : list Z -> option (list Z).

  (* What the theorems need from encoding/json (validated against the real library
     on every generated line and prefix by the correspondence run):
     J1 a record decodes to its block; J2 it contains no newline or carriage return;
     J3 no proper prefix of a record decodes. *)
  Hypothesis J1 : forall b, b <> [] -> dec (enc b) = Some b.
  Hypothesis J2 : forall b, ~ In 10 (enc b) /\ ~ In 13 (enc b).
  Hypothesis J3 : forall b p q, enc b = p ++ q -> q <> [] -> dec p = None.
  Hypothesis J4 : dec [] = None.

  Notation open_hist := (open_hist dec).
  Notation write := (write enc).

  Definition nl_terminated (f : list Z) : Prop := f = [] \/ exists g, f = g ++ [10].

  Lemma rev_append_nil : forall (A : Type) (l : list A), rev_append l [] = rev l.
  Proof. intros. rewrite rev_append_rev. apply app_nil_r. Qed.

  (* splitting is compositional at line boundaries *)
  Lemma lines_go_app_nl : forall g cur h,
    lines_go cur (g ++ [10] ++ h) = lines_go cur (g ++ [10]) ++ lines_go [] h.
  Proof.
    induction g as [|b g IH]; intros cur h; cbn [app lines_go].
    - replace (10 =? 10) with true by reflexivity. cbn [lines_go app]. reflexivity.
    - destruct (b =? 10).
      + cbn [app]. f_equal. apply IH.
      + apply IH.
  Qed.

  Lemma file_lines_app : forall f h, nl_terminated f -> file_lines (f ++ h) = file_lines f ++ file_lines h.
  Proof.
    intros f h [Hf | [g Hg]]; subst; [reflexivity|].
    unfold file_lines. rewrite <- app_assoc. apply lines_go_app_nl.
  Qed.

  Lemma keep_app : forall a b, keep_decoded dec (a ++ b) = keep_decoded dec a ++ keep_decoded dec b.
  Proof.
    induction a as [|l a IH]; intros b; cbn [app keep_decoded]; [reflexivity|].
    destruct (dec l); rewrite IH; reflexivity.
  Qed.

  Lemma open_app : forall f h, nl_terminated f -> open_hist (f ++ h) = open_hist f ++ open_hist h.
  Proof. intros. unfold HistFile.open_hist. rewrite file_lines_app by assumption. apply keep_app. Qed.

  (* a chunk without newline or CR is one line *)
  Lemma lines_go_plain : forall p cur, ~ In 10 p -> lines_go cur p =
    match rev_append p cur with [] => [] | x => [rev_append (strip_cr_rev x) []] end.
  Proof.
    induction p as [|b p IH]; intros cur Hn; cbn [lines_go rev_append].
    - destruct cur; reflexivity.
    - assert (b <> 10) by (intros E; apply Hn; left; exact E).
      replace (b =? 10) with false by lia. apply IH. intros Hi. apply Hn. right. exact Hi.
  Qed.

  Lemma lines_go_plain_nl : forall p cur, ~ In 10 p ->
    lines_go cur (p ++ [10]) = [rev_append (strip_cr_rev (rev_append p cur)) []].
  Proof.
    induction p as [|b p IH]; intros cur Hn; cbn [app lines_go rev_append].
    - replace (10 =? 10) with true by reflexivity. reflexivity.
    - assert (b <> 10) by (intros E; apply Hn; left; exact E).
      replace (b =? 10) with false by lia. apply IH. intros Hi. apply Hn. right. exact Hi.
  Qed.

  Lemma strip_no_cr : forall p, ~ In 13 p -> strip_cr_rev (rev_append p []) = rev_append p [].
  Proof.
    intros p Hn. rewrite rev_append_nil. destruct (rev p) as [|c r] eqn:E; [reflexivity|].
    cbn [strip_cr_rev]. assert (c <> 13).
    { intros Ec. apply Hn. apply in_rev. rewrite E. left. exact Ec. }
    destruct c as [|c|c]; try reflexivity.
    do 4 (destruct c as [c|c|]; try reflexivity). exfalso. apply H. reflexivity.
  Qed.

  Lemma line_of_plain : forall p, ~ In 10 p -> ~ In 13 p -> p <> [] -> file_lines p = [p].
  Proof.
    intros p H10 H13 Hne. unfold file_lines. rewrite lines_go_plain by assumption.
    pose proof (strip_no_cr p H13) as Hs.
    destruct (rev_append p []) as [|z l] eqn:E.
    - rewrite rev_append_nil in E. destruct p; [contradiction|]. cbn in E. destruct (rev p); discriminate.
    - rewrite Hs. rewrite <- E. rewrite !rev_append_nil. rewrite rev_involutive. reflexivity.
  Qed.

  Lemma line_of_plain_nl : forall p, ~ In 10 p -> ~ In 13 p -> file_lines (p ++ [10]) = [p].
  Proof.
    intros p H10 H13. unfold file_lines. rewrite lines_go_plain_nl by assumption.
    rewrite strip_no_cr by assumption. rewrite !rev_append_nil. rewrite rev_involutive. reflexivity.
  Qed.

  Lemma prefix_no : forall b p q c, enc b = p ++ q -> ~ In c (enc b) -> ~ In c p.
  Proof. intros b p q c E Hn Hi. apply Hn. rewrite E. apply in_or_app. left. exact Hi. Qed.

  (* a complete record, with or without its newline, reads back as its block *)
  Lemma open_record_nl : forall b, b <> [] -> open_hist (enc b ++ [10]) = [b].
  Proof.
    intros b Hb. unfold HistFile.open_hist. destruct (J2 b) as [H10 H13].
    rewrite line_of_plain_nl by assumption. cbn [keep_decoded]. rewrite J1 by assumption. reflexivity.
  Qed.

  Lemma enc_nonempty : forall b, b <> [] -> enc b <> [].
  Proof. intros b Hb E. pose proof (J1 b Hb) as H1. rewrite E, J4 in H1. discriminate. Qed.

  (* what a line holding a prefix t of a record contributes *)
  Definition tail_value (b t q : list Z) : list (list Z) := match q with [] => [b] | _ => [] end.

  Lemma open_tail : forall b t q, b <> [] -> enc b = t ++ q -> t <> [] ->
    open_hist t = tail_value b t q /\ open_hist (t ++ [10]) = tail_value b t q.
  Proof.
    intros b t q Hb E Ht. destruct (J2 b) as [H10 H13].
    pose proof (prefix_no b t q 10 E H10) as T10. pose proof (prefix_no b t q 13 E H13) as T13.
    unfold HistFile.open_hist. rewrite line_of_plain by assumption. rewrite line_of_plain_nl by assumption.
    cbn [keep_decoded]. unfold tail_value. destruct q as [|x q].
    - rewrite app_nil_r in E. subst t. rewrite J1 by assumption. split; reflexivity.
    - rewrite (J3 b t (x :: q) E) by discriminate. split; reflexivity.
  Qed.

  (* the shapes a history file can have: whole lines, possibly followed by an
     unterminated prefix (proper or complete) of one record *)
  Inductive shape : list Z -> list (list Z) -> Prop :=
  | sh_nl : forall g, nl_terminated g -> shape g (open_hist g)
  | sh_tail : forall g t b q, nl_terminated g -> b <> [] -> enc b = t ++ q -> t <> [] ->
              shape (g ++ t) (open_hist g ++ tail_value b t q).

  Lemma shape_open : forall f es, shape f es -> open_hist f = es.
  Proof.
    intros f es H. destruct H as [g Hg | g t b q Hg Hb E Ht]; [reflexivity|].
    rewrite open_app by assumption. f_equal. apply (open_tail b t q Hb E Ht).
  Qed.


  Lemma last_app_one : forall (g : list Z) x d, last (g ++ [x]) d = x.
  Proof. induction g as [|a g IH]; intros x d; [reflexivity|]. cbn [app]. destruct (g ++ [x]) eqn:E; [destruct g; discriminate|]. rewrite <- E. cbn [last]. rewrite E. rewrite <- E. apply IH. Qed.

  Lemma sep_nl : forall g, nl_terminated g -> sep g = [].
  Proof.
    intros g [Hg | [h Hh]]; subst; unfold sep, last_byte; [reflexivity|].
    rewrite last_app_one. reflexivity.
  Qed.

  Lemma sep_tail : forall g t b q, enc b = t ++ q -> t <> [] -> sep (g ++ t) = [10].
  Proof.
    intros g t b q E Ht. unfold sep, last_byte.
    destruct (J2 b) as [H10 _]. pose proof (prefix_no b t q 10 E H10) as T10.
    destruct (exists_last Ht) as (t' & x & Ex). subst t. rewrite app_assoc. rewrite last_app_one.
    assert (x <> 10). { intros Ex. apply T10. apply in_or_app. right. left. exact Ex. }
    replace (x =? 10) with false by lia. reflexivity.
  Qed.

  Lemma nl_app : forall g h, nl_terminated (g ++ h ++ [10]).
  Proof. intros. right. exists (g ++ h). rewrite app_assoc. reflexivity. Qed.

  Ltac solve_nl := right; eexists; repeat rewrite app_assoc; reflexivity.

  (* one completed append: the file keeps a legal shape and gains exactly the entry *)
  Theorem write_shape : forall f es b, shape f es -> b <> [] ->
    shape (f ++ sep f ++ enc b ++ [10]) (es ++ [b]).
  Proof.
    intros f es b H Hb. destruct H as [g Hg | g t b0 q Hg Hb0 E Ht].
    - rewrite sep_nl by assumption. cbn [app].
      replace (open_hist g ++ [b]) with (open_hist (g ++ enc b ++ [10])).
      + apply sh_nl. solve_nl.
      + rewrite open_app by assumption. rewrite open_record_nl by assumption. reflexivity.
    - rewrite (sep_tail g t b0 q E Ht).
      replace ((g ++ t) ++ [10] ++ enc b ++ [10]) with ((g ++ t ++ [10]) ++ enc b ++ [10])
        by (rewrite <- !app_assoc; reflexivity).
      replace ((open_hist g ++ tail_value b0 t q) ++ [b]) with (open_hist ((g ++ t ++ [10]) ++ enc b ++ [10])).
      + apply sh_nl. solve_nl.
      + rewrite open_app by solve_nl. rewrite open_app by assumption.
        rewrite open_record_nl by assumption.
        rewrite (proj2 (open_tail b0 t q Hb0 E Ht)). reflexivity.
  Qed.

  (* an append cut at any byte: the file keeps a legal shape, nothing completed
     earlier is lost, and the entry counts iff all of its record was written *)
  Theorem crash_shape : forall f es b k, shape f es -> b <> [] ->
    let whole := sep f ++ enc b ++ [10] in
    shape (f ++ firstn k whole)
          (if (length (sep f ++ enc b) <=? k)%nat then es ++ [b] else es).
  Proof.
    intros f es b k H Hb whole.
    (* the cut splits  sep ++ enc b ++ [10] *)
    destruct (Nat.leb_spec (length (sep f ++ enc b)) k) as [Hk | Hk].
    - (* the whole record is there, with or without its final newline *)
      destruct (Nat.eq_dec k (length (sep f ++ enc b))) as [Ek | Nk].
      + subst k. unfold whole. rewrite app_assoc. rewrite firstn_app.
        rewrite firstn_all. rewrite Nat.sub_diag. cbn [firstn]. rewrite app_nil_r.
        destruct H as [g Hg | g t b0 q Hg Hb0 E Ht].
        * rewrite sep_nl by assumption. cbn [app].
          replace [b] with (tail_value b (enc b) []) by reflexivity.
          apply sh_tail; try assumption; [rewrite app_nil_r; reflexivity | apply enc_nonempty; assumption].
        * rewrite (sep_tail g t b0 q E Ht).
          replace ((g ++ t) ++ [10] ++ enc b) with ((g ++ t ++ [10]) ++ enc b) by (rewrite <- !app_assoc; reflexivity).
          replace (open_hist g ++ tail_value b0 t q) with (open_hist (g ++ t ++ [10])).
          -- replace [b] with (tail_value b (enc b) []) by reflexivity.
             apply sh_tail; try assumption; [solve_nl | rewrite app_nil_r; reflexivity | apply enc_nonempty; assumption].
          -- rewrite open_app by assumption. rewrite (proj2 (open_tail b0 t q Hb0 E Ht)). reflexivity.
      + assert (Hall : firstn k whole = whole).
        { apply firstn_all2. unfold whole. rewrite !app_length in *. cbn [length]. lia. }
        rewrite Hall. apply write_shape; assumption.
    - (* the record is incomplete *)
      unfold whole. rewrite app_assoc. rewrite firstn_app.
      replace (k - length (sep f ++ enc b))%nat with 0%nat by lia. cbn [firstn]. rewrite app_nil_r.
      destruct H as [g Hg | g t b0 q Hg Hb0 E Ht].
      + rewrite sep_nl in * by assumption. cbn [app] in *.
        destruct k as [|k]; [cbn [firstn]; rewrite app_nil_r; apply sh_nl; assumption|].
        pose proof (firstn_skipn (S k) (enc b)) as Hsplit.
        replace (open_hist g) with (open_hist g ++ tail_value b (firstn (S k) (enc b)) (skipn (S k) (enc b))).
        * apply sh_tail; try assumption; [symmetry; exact Hsplit|].
          destruct (enc b) eqn:Ee; [cbn in Hk; lia | cbn; discriminate].
        * unfold tail_value. destruct (skipn (S k) (enc b)) eqn:Es; [|apply app_nil_r].
          exfalso. rewrite ?Es, app_nil_r in Hsplit. assert (Hl : length (firstn (S k) (enc b)) = length (enc b)) by (rewrite Hsplit; reflexivity). rewrite firstn_length in Hl. lia.
      + rewrite (sep_tail g t b0 q E Ht) in *.
        destruct k as [|k]; [cbn [firstn]; rewrite app_nil_r; apply sh_tail; assumption|].
        cbn [app firstn].
        replace ((g ++ t) ++ 10 :: firstn k (enc b)) with ((g ++ t ++ [10]) ++ firstn k (enc b))
          by (rewrite <- !app_assoc; reflexivity).
        assert (Ho : open_hist (g ++ t ++ [10]) = open_hist g ++ tail_value b0 t q).
        { rewrite open_app by assumption. rewrite (proj2 (open_tail b0 t q Hb0 E Ht)). reflexivity. }
        rewrite <- Ho.
        destruct k as [|k]; [cbn [firstn]; rewrite app_nil_r; apply sh_nl; solve_nl|].
        pose proof (firstn_skipn (S k) (enc b)) as Hsplit.
        replace (open_hist (g ++ t ++ [10])) with
          (open_hist (g ++ t ++ [10]) ++ tail_value b (firstn (S k) (enc b)) (skipn (S k) (enc b))).
        * apply sh_tail; try assumption; [solve_nl | symmetry; exact Hsplit|].
          destruct (enc b) eqn:Ee; [cbn in Hk; lia | cbn; discriminate].
        * unfold tail_value. destruct (skipn (S k) (enc b)) eqn:Es; [|apply app_nil_r].
          exfalso. rewrite ?Es, app_nil_r in Hsplit. cbn [app length] in Hk.
          assert (Hl : length (firstn (S k) (enc b)) = length (enc b)) by (rewrite Hsplit; reflexivity). rewrite firstn_length in Hl. lia.
  Qed.

  (* (a) whatever was written comes back, in order, up to surrounding whitespace *)
  Definition entries (ss : list (list Z)) : list (list Z) :=
    filter (fun b => match b with [] => false | _ => true end) (map trim_space ss).

  Lemma write_file : forall l f s,
    snd (write (l, f) s) = match trim_space s with [] => f | b => f ++ sep f ++ enc b ++ [10] end.
  Proof. intros. unfold HistFile.write. destruct (trim_space s); reflexivity. Qed.

  Theorem writes_shape : forall ss l f es, shape f es ->
    shape (snd (fold_left write ss (l, f))) (es ++ entries ss).
  Proof.
    induction ss as [|s ss IH]; intros l f es H; cbn [fold_left].
    - unfold entries. cbn. rewrite app_nil_r. exact H.
    - destruct (write (l, f) s) as [l' f'] eqn:W.
      assert (Hf : f' = snd (write (l, f) s)) by (rewrite W; reflexivity).
      rewrite write_file in Hf. unfold entries. cbn [map filter].
      destruct (trim_space s) as [|c b] eqn:T.
      + subst f'. apply IH. exact H.
      + replace (es ++ (c :: b) :: filter _ (map trim_space ss)) with ((es ++ [c :: b]) ++ entries ss)
          by (rewrite <- app_assoc; reflexivity).
        apply IH. subst f'. apply write_shape; [exact H | discriminate].
  Qed.
End P.
