(* C06: the cursor stays inside the buffer; pure movements and copies never edit. *)
From Coq Require Import String.
From Model Require Import Base Uni Utf8 Notation Inputrc HistFile Editor.
From Proofs Require Import EditorP.
From Coq Require Import ZifyBool.
Open Scope Z_scope.

(* ---------------------------------------------------------------- the cursor after every command *)

Lemma c_check_append_bounds : forall e, 0 <= cpos (c_check_append e) <= llen (c_check_append e).
Proof.
  intros e. unfold c_check_append, llen. cbn [cpos line set_cmark set_cpos].
  pose proof (zlen_ge0 _ (line e)).
  destruct (cpos e <? 0) eqn:A; destruct (zlen (line e) <? _) eqn:B; lia.
Qed.

Lemma c_dec_bounds : forall e, 0 <= cpos e <= llen e -> 0 <= cpos (c_dec e) <= llen (c_dec e).
Proof.
  intros e H. unfold c_dec. destruct (0 <? cpos e) eqn:A; [|exact H].
  change (cpos (set_cpos e (cpos e - 1))) with (cpos e - 1). change (llen (set_cpos e (cpos e - 1))) with (llen e). lia.
Qed.

(* CheckCommand: inside the buffer, and on a character unless the buffer or the cursor's line is empty *)
Lemma c_check_command_bounds : forall e,
  match c_check_command e with
  | Ok e' => 0 <= cpos e' <= llen e' /\ line e' = line e /\
             (cpos e' < llen e' \/ c_on_empty_line e' = Ok true)
  | _ => True
  end.
Proof.
  intros e. unfold c_check_command.
  pose proof (c_check_append_bounds e) as B0. set (e0 := c_check_append e) in *.
  destruct (c_on_empty_line e0) as [oe| |] eqn:OE; cbn [bind]; auto.
  set (e1 := if (cpos e0 =? llen e0) && negb oe then set_cpos e0 (cpos e0 - 1) else e0).
  assert (L1 : line e1 = line e) by (unfold e1; destruct ((cpos e0 =? llen e0) && negb oe); reflexivity).
  assert (Hl : llen e1 = llen e0) by (unfold llen; rewrite L1; reflexivity).
  assert (B1 : 0 <= cpos e1 <= llen e1 /\ (cpos e1 < llen e1 \/ (oe = true /\ e1 = e0))).
  { unfold e1. destruct ((cpos e0 =? llen e0) && negb oe) eqn:C.
    - cbn [cpos llen line set_cpos]. unfold llen in *.
      assert (0 < zlen (line e0)).
      { destruct (zlen (line e0) =? 0) eqn:Z; [|lia]. unfold c_on_empty_line in OE. unfold llen in OE. rewrite Z in OE. inversion OE; subst oe. lia. }
      change (line (set_cpos e0 (cpos e0 - 1))) with (line e0). split; [lia|]. left. lia.
    - split; [exact B0|]. destruct (cpos e0 =? llen e0) eqn:C1; [|left; lia].
      right. destruct oe; [split; reflexivity | discriminate C]. }
  destruct B1 as [B1 B1'].
  destruct ((0 <? llen e1) && (cpos e1 <? llen e1) && (c_char e1 =? 10)) eqn:NL.
  - (* on a newline character: step back unless the line is empty *)
    pose proof (c_check_append_bounds e1) as B2. set (e2 := c_check_append e1) in *.
    assert (E21 : cpos e2 = cpos e1 /\ line e2 = line e1).
    { unfold e2. split; [apply c_check_append_cpos_in; exact B1 | reflexivity]. }
    destruct (c_on_empty_line e2) as [oe2| |] eqn:OE2; cbn [bind]; auto.
    destruct oe2; cbn [negb].
    + split; [exact B2|]. split; [destruct E21; congruence|]. right. exact OE2.
    + pose proof (c_dec_bounds e2 B2) as B3. split; [exact B3|].
      split; [unfold c_dec; destruct (0 <? cpos e2); cbn; destruct E21; congruence|].
      left.
      assert (D : cpos (c_dec e2) <= cpos e2 /\ llen (c_dec e2) = llen e2).
      { unfold c_dec. destruct (0 <? cpos e2) eqn:P; [|split; [lia | reflexivity]].
        change (cpos (set_cpos e2 (cpos e2 - 1))) with (cpos e2 - 1). change (llen (set_cpos e2 (cpos e2 - 1))) with (llen e2). lia. }
      destruct D as [D1 D2]. destruct E21 as [E2a E2b].
      assert (llen e2 = llen e1) by (unfold llen; rewrite E2b; reflexivity). lia.
  - split; [exact B1|]. split; [exact L1|].
    destruct B1' as [B1'|[Hoe He]]; [left; exact B1'|]. right. rewrite He. rewrite OE. rewrite Hoe. reflexivity.
Qed.

(* after EVERY command run by the loop (run/execute): the cursor is inside the buffer,
   and in vi command mode it is on a character unless the buffer or its line is empty *)
Theorem run_one_cursor_bounds : forall name keys mk mx e e',
  run_one name keys mk mx e = Ok e' ->
  0 <= cpos e' <= llen e' /\
  (kmain e' = M_vicmd -> cpos e' < llen e' \/ c_on_empty_line e' = Ok true).
Proof.
  intros name keys mk mx e e' H. unfold run_one in H.
  destruct (run_command name keys mk mx (set_active_cmd e name)) as [e1| |]; cbn [bind] in H; try discriminate.
  match type of H with (do e <- ?X; _) = _ => destruct X as [e2| |] end; cbn [bind] in H; try discriminate.
  destruct (kmain e2 =? M_vicmd) eqn:K.
  - pose proof (c_check_command_bounds e2) as C.
    destruct (c_check_command e2) as [e3| |]; cbn [bind] in H; try discriminate.
    destruct (h_save_frame _ _ H) as (L & Cp & _ & _ & _ & Km & _).
    destruct C as (C1 & C2 & C3).
    assert (Lpl : line (it_post_run e3) = line e3) by (unfold it_post_run; destruct (it_pending e3); reflexivity).
    assert (Cpp : cpos (it_post_run e3) = cpos e3) by (unfold it_post_run; destruct (it_pending e3); reflexivity).
    assert (Le : llen e' = llen e3) by (unfold llen; rewrite L, Lpl; reflexivity).
    rewrite Le, Cp, Cpp. split; [exact C1|]. intros _.
    destruct C3 as [C3|C3]; [left; exact C3|]. right.
    unfold c_on_empty_line in *. rewrite Le, Cp, Cpp, L, Lpl. exact C3.
  - cbn [bind] in H.
    destruct (h_save_frame _ _ H) as (L & Cp & _ & _ & _ & Km & _).
    pose proof (c_check_append_bounds e2) as B.
    assert (Lp : forall x, llen (it_post_run x) = llen x) by (intros x; unfold it_post_run; destruct (it_pending x); reflexivity).
    assert (Cpp : forall x, cpos (it_post_run x) = cpos x) by (intros x; unfold it_post_run; destruct (it_pending x); reflexivity).
    assert (Kpp : forall x, kmain (it_post_run x) = kmain x) by (intros x; unfold it_post_run; destruct (it_pending x); reflexivity).
    assert (Le : llen e' = llen (c_check_append e2)) by (unfold llen at 1; rewrite L; apply Lp).
    rewrite Le, Cp, Cpp. split; [exact B|]. intros Kv. rewrite Km, Kpp in Kv. cbn in Kv. lia.
Qed.

(* ---------------------------------------------------------------- pure movements and copies never edit *)

Definition keeps (f : ed -> ed) : Prop := forall e, line (f e) = line e.
Lemma keeps_iter : forall f n, keeps f -> keeps (iter_n n f).
Proof. intros f n H. induction n as [|n IH]; intros e; cbn [iter_n]; [reflexivity|]. rewrite IH. apply H. Qed.
Lemma keeps_c_inc : keeps c_inc. Proof. intros e. unfold c_inc. destruct (cpos e <? llen e); reflexivity. Qed.
Lemma keeps_c_dec : keeps c_dec. Proof. intros e. unfold c_dec. destruct (0 <? cpos e); reflexivity. Qed.
Lemma keeps_c_move : forall g, keeps (fun e => c_move e (g e)). Proof. intros g e. reflexivity. Qed.
Lemma it_get_line : forall e, line (fst (it_get e)) = line e. Proof. intros e. unfold it_get. reflexivity. Qed.
Lemma it_add_line : forall e t, line (it_add e t) = line e.
Proof.
  intros e t. unfold it_add. destruct t as [|c0 r]; [reflexivity|].
  destruct (atoi (c0 :: r)); [|destruct (eqlZ (c0 :: r) [45]); reflexivity].
  destruct (eqlZ (c0 :: r) [45]); [reflexivity|]. destruct (c0 =? 45); reflexivity.
Qed.
Lemma tfns_line : forall f e b, line (tfns_go f e b) = line e.
Proof.
  induction f as [|f IH]; intros e b; cbn [tfns_go]; [reflexivity|].
  destruct (negb (on_space (c_check_append e))); [reflexivity|].
  match goal with |- context[if ?c then ?x else tfns_go f ?y b] => destruct c; [reflexivity | rewrite IH; reflexivity] end.
Qed.
Lemma keeps_tfns : forall b, keeps (fun e => c_to_first_non_space e b).
Proof.
  intros b e. unfold c_to_first_non_space. destruct (llen e =? 0); [reflexivity|].
  destruct (llen e <=? cpos e).
  - destruct (negb false && (cpos (set_cpos e (llen e - 1)) =? 0)); [reflexivity|]. cbn [line c_check_append set_cpos set_cmark]. rewrite tfns_line. reflexivity.
  - destruct (negb b && (cpos e =? 0)); [reflexivity|]. cbn [line c_check_append set_cpos set_cmark]. rewrite tfns_line. reflexivity.
Qed.

Lemma res_line_bol : forall e, match c_beginning_of_line e with Ok e' => line e' = line e | _ => True end.
Proof.
  intros e. unfold c_beginning_of_line.
  match goal with |- context[c_check_command ?x] => pose proof (c_check_command_lr x) as C; destruct (c_check_command x); auto; apply C end.
Qed.
Lemma res_line_eola : forall e, match c_end_of_line_append e with Ok e' => line e' = line e | _ => True end.
Proof.
  intros e. unfold c_end_of_line_append. destruct (c_on_empty_line e) as [oe| |]; cbn [bind]; auto. destruct oe; reflexivity.
Qed.

Definition pure_commands : list (list Z) :=
  map zs ["forward-char"; "backward-char"; "forward-word"; "backward-word"; "vi-backward-word"; "beginning-of-line";
          "end-of-line"; "vi-end-of-line"; "vi-forward-bigword"; "vi-backward-bigword"; "vi-end-word"; "vi-end-bigword";
          "vi-first-print"; "set-mark"; "digit-argument"; "vi-arg-digit"]%string.

Ltac solve_iter :=
  match goal with
  | |- line (iter_n ?n ?f ?x) = _ => rewrite (keeps_iter f n); [try reflexivity|]
  end.

(* every command of the list leaves the text of the buffer as it was, for every state,
   numeric argument and calling keys *)
Theorem pure_commands_keep_line : forall name keys mk mx e e',
  In name pure_commands -> run_command name keys mk mx e = Ok e' -> line e' = line e.
Proof.
  intros name keys mk mx e e' Hin H. unfold pure_commands in Hin. cbn [map In] in Hin.
  repeat (destruct Hin as [Hn|Hin]; [subst name|]); try contradiction.
  - (* forward-char *) change (let e0 := h_skip_save e in let '(e1, n) := it_get e0 in Ok (iter_n (times_nat n) c_inc e1) = Ok e') in H.
    cbv zeta in H. destruct (it_get (h_skip_save e)) as [e1 n] eqn:G. inversion H; subst.
    rewrite (keeps_iter c_inc _ keeps_c_inc). replace e1 with (fst (it_get (h_skip_save e))) by (rewrite G; reflexivity). rewrite it_get_line. reflexivity.
  - (* backward-char *) change (let e0 := h_skip_save e in let '(e1, n) := it_get e0 in Ok (iter_n (times_nat n) c_dec e1) = Ok e') in H.
    cbv zeta in H. destruct (it_get (h_skip_save e)) as [e1 n] eqn:G. inversion H; subst.
    rewrite (keeps_iter c_dec _ keeps_c_dec). replace e1 with (fst (it_get (h_skip_save e))) by (rewrite G; reflexivity). rewrite it_get_line. reflexivity.
  - (* forward-word *)
    change (let e0 := h_skip_save e in let '(e1, n) := it_get e0 in
            Ok (iter_n (times_nat n) (fun e => c_move e (l_forward_end (tokenize (line e) (c_pos e)) + 1)) e1) = Ok e') in H.
    cbv zeta in H. destruct (it_get (h_skip_save e)) as [e1 n] eqn:G. inversion H; subst.
    rewrite (keeps_iter _ _ (keeps_c_move _)). replace e1 with (fst (it_get (h_skip_save e))) by (rewrite G; reflexivity). rewrite it_get_line. reflexivity.
  - (* backward-word *)
    change (let e0 := h_skip_save e in let '(e1, n) := it_get e0 in
            Ok (iter_n (times_nat n) (fun e => c_move e (l_backward (tokenize (line e) (c_pos e)))) e1) = Ok e') in H.
    cbv zeta in H. destruct (it_get (h_skip_save e)) as [e1 n] eqn:G. inversion H; subst.
    rewrite (keeps_iter _ _ (keeps_c_move _)). replace e1 with (fst (it_get (h_skip_save e))) by (rewrite G; reflexivity). rewrite it_get_line. reflexivity.
  - (* vi-backward-word *)
    change (let e0 := h_skip_save e in let '(e1, n) := it_get e0 in
            Ok (iter_n (times_nat n) (fun e => c_move e (l_backward (tokenize (line e) (c_pos e)))) e1) = Ok e') in H.
    cbv zeta in H. destruct (it_get (h_skip_save e)) as [e1 n] eqn:G. inversion H; subst.
    rewrite (keeps_iter _ _ (keeps_c_move _)). replace e1 with (fst (it_get (h_skip_save e))) by (rewrite G; reflexivity). rewrite it_get_line. reflexivity.
  - (* beginning-of-line *)
    change ((let e0 := h_skip_save e in
             if negb (kmain e0 =? M_emacs) && it_active e0 then Ok (it_add e0 [48]) else c_beginning_of_line e0) = Ok e') in H.
    cbv zeta in H. destruct (negb (kmain (h_skip_save e) =? M_emacs) && it_active (h_skip_save e)).
    + assert (E : e' = it_add (h_skip_save e) [48]) by congruence. rewrite E. rewrite it_add_line. reflexivity.
    + pose proof (res_line_bol (h_skip_save e)) as B. rewrite H in B. exact B.
  - (* end-of-line *)
    change (c_end_of_line_append (h_skip_save e) = Ok e') in H.
    pose proof (res_line_eola (h_skip_save e)) as B. rewrite H in B. exact B.
  - (* vi-end-of-line *)
    change (c_end_of_line_append (h_skip_save e) = Ok e') in H.
    pose proof (res_line_eola (h_skip_save e)) as B. rewrite H in B. exact B.
  - (* vi-forward-bigword *)
    change (let e0 := h_skip_save e in let '(e1, n) := it_get e0 in
            Ok (iter_n (times_nat n) (fun e => c_move e (l_forward (line e) (tokenize_space (line e) (c_pos e)))) e1) = Ok e') in H.
    cbv zeta in H. destruct (it_get (h_skip_save e)) as [e1 n] eqn:G. inversion H; subst.
    rewrite (keeps_iter _ _ (keeps_c_move _)). replace e1 with (fst (it_get (h_skip_save e))) by (rewrite G; reflexivity). rewrite it_get_line. reflexivity.
  - (* vi-backward-bigword *)
    change (let e0 := h_skip_save e in let '(e1, n) := it_get e0 in
            Ok (iter_n (times_nat n) (fun e => c_move e (l_backward (tokenize_space (line e) (c_pos e)))) e1) = Ok e') in H.
    cbv zeta in H. destruct (it_get (h_skip_save e)) as [e1 n] eqn:G. inversion H; subst.
    rewrite (keeps_iter _ _ (keeps_c_move _)). replace e1 with (fst (it_get (h_skip_save e))) by (rewrite G; reflexivity). rewrite it_get_line. reflexivity.
  - (* vi-end-word *)
    change (let e0 := h_skip_save e in let '(e1, n) := it_get e0 in
            Ok (iter_n (times_nat n) (fun e => c_move e (l_forward_end (tokenize (line e) (c_pos e)))) e1) = Ok e') in H.
    cbv zeta in H. destruct (it_get (h_skip_save e)) as [e1 n] eqn:G. inversion H; subst.
    rewrite (keeps_iter _ _ (keeps_c_move _)). replace e1 with (fst (it_get (h_skip_save e))) by (rewrite G; reflexivity). rewrite it_get_line. reflexivity.
  - (* vi-end-bigword *)
    change (let e0 := h_skip_save e in let '(e1, n) := it_get e0 in
            Ok (iter_n (times_nat n) (fun e => c_move e (l_forward_end (tokenize_space (line e) (c_pos e)))) e1) = Ok e') in H.
    cbv zeta in H. destruct (it_get (h_skip_save e)) as [e1 n] eqn:G. inversion H; subst.
    rewrite (keeps_iter _ _ (keeps_c_move _)). replace e1 with (fst (it_get (h_skip_save e))) by (rewrite G; reflexivity). rewrite it_get_line. reflexivity.
  - (* vi-first-print *)
    change ((do e0 <- c_beginning_of_line e; Ok (c_to_first_non_space e0 true)) = Ok e') in H.
    pose proof (res_line_bol e) as B. destruct (c_beginning_of_line e) as [e0| |]; cbn [bind] in H; try discriminate.
    inversion H; subst. rewrite (keeps_tfns true e0). exact B.
  - (* set-mark *)
    change ((if it_active e then Ok (c_set_mark e)
             else let cp := c_pos e in let '(e0, m) := it_get e in
                  if llen e0 - 1 <? m then Ok e0 else Ok (c_set (c_set_mark (c_set e0 m)) cp)) = Ok e') in H.
    destruct (it_active e); [inversion H; reflexivity|]. cbv zeta in H.
    destruct (it_get e) as [e0 m] eqn:G.
    assert (L0 : line e0 = line e) by (replace e0 with (fst (it_get e)) by (rewrite G; reflexivity); apply it_get_line).
    destruct (llen e0 - 1 <? m); inversion H; subst; [exact L0 | exact L0].
  - (* digit-argument *)
    change (Ok (it_add (h_skip_save e) (match keys with 27 :: (_ :: _) as r => r | _ => keys end)) = Ok e') in H.
    match type of H with Ok ?x = Ok e' => assert (E : e' = x) by congruence end. rewrite E. rewrite it_add_line. reflexivity.
  - (* vi-arg-digit *)
    change (Ok (it_add (h_skip_save e) keys) = Ok e') in H. assert (E : e' = it_add (h_skip_save e) keys) by congruence. rewrite E. rewrite it_add_line. reflexivity.
Qed.
