(* C20: the cursor-report hand-off under every schedule. *)
From Model Require Import Base Proto.
From Coq Require Import ZifyBool.
Open Scope Z_scope.

Lemma users_app : forall a b, users (a ++ b) = users a ++ users b.
Proof. intros. unfold users. apply flat_map_app. Qed.

(* no asker is reading stdin itself or holding bytes it read *)
Definition no_direct (l : list apc) : Prop := Forall (fun a => match a with AWantRead | AHold _ _ => False | _ => True end) l.

Lemma no_direct_set : forall l i a, no_direct l -> (match a with AWantRead | AHold _ _ => False | _ => True end) -> no_direct (set_asker l i a).
Proof.
  induction l as [|x l IH]; intros i a H Ha; [constructor|].
  inversion H; subst. destruct i; cbn [set_asker]; constructor; auto. apply IH; assumption.
Qed.

Lemma no_direct_deliver : forall l c, no_direct l -> no_direct (deliver l c).
Proof.
  induction l as [|x l IH]; intros c H; [constructor|]. inversion H; subst.
  destruct x; cbn [deliver]; try (constructor; [assumption | apply IH; assumption]).
  destruct (c0 =? c); constructor; auto; try exact I; apply IH; assumption.
Qed.

Lemma nth_no_direct : forall l i, no_direct l -> match nth i l ADone with AWantRead | AHold _ _ => False | _ => True end.
Proof.
  induction l as [|x l IH]; intros i H; destruct i; cbn; try exact I; inversion H; subst; [assumption | apply IH; assumption].
Qed.

(* every byte typed is either in Keys.buf or still queued, in the order typed *)
Definition keys_safe (s : pstate) : Prop := p_buf s ++ users (p_stdin s) = p_typed s /\ no_direct (p_askers s).

Lemma step_safe : forall s l, keys_safe s -> (forall i, l = LAskBranch i -> p_waiting s = true) -> keys_safe (pstep s l).
Proof.
  intros s l [E N] Hw. destruct l; cbn [pstep].
  - split; cbn; [rewrite users_app; cbn; rewrite app_assoc, E; reflexivity | exact N].
  - destruct (0 <? p_pending s); [|split; assumption]. split; cbn; [rewrite users_app; cbn; rewrite app_nil_r; exact E | exact N].
  - destruct (p_main s); split; cbn; assumption.
  - destruct (p_main s); try (split; assumption). destruct (p_stdin s) as [|it r] eqn:S; [split; [rewrite S; assumption | assumption]|].
    assert (N' : no_direct (if has_report (it :: r) then deliver (p_askers s) (p_chan s) else p_askers s))
      by (destruct (has_report (it :: r)); [apply no_direct_deliver|]; assumption).
    destruct (users (it :: r)) as [|k ks] eqn:K; split; cbn; try assumption; rewrite ?app_nil_r; rewrite ?app_nil_r in E; exact E.
  - destruct (p_main s); split; cbn; assumption.
  - destruct (p_main s); try (split; assumption). destruct (p_stdin s) as [|it r] eqn:S; [split; [rewrite S; assumption | assumption]|].
    split; cbn; [rewrite app_nil_r; exact E | exact N].
  - destruct (nth i (p_askers s) ADone); try (split; assumption). split; cbn; [exact E | apply no_direct_set; [exact N | exact I]].
  - destruct (nth i (p_askers s) ADone) eqn:A; try (split; assumption).
    rewrite (Hw i eq_refl). split; cbn; [exact E | apply no_direct_set; [exact N | exact I]].
  - pose proof (nth_no_direct (p_askers s) i N) as X. destruct (nth i (p_askers s) ADone); try (split; assumption). contradiction.
  - pose proof (nth_no_direct (p_askers s) i N) as X. destruct (nth i (p_askers s) ADone); try (split; assumption). contradiction.
Qed.

Lemma init_safe : forall n, keys_safe (p_init n).
Proof.
  intros n. split; [reflexivity|]. unfold p_init. cbn [p_askers]. induction n; cbn [repeat]; constructor; auto; exact I.
Qed.

(* For EVERY schedule in which the askers (resize / Printf redisplays, any number of them)
   start their cursor query while the main loop is blocked waiting for input: whatever the
   interleaving of user typing, terminal answers, main loop steps and asker steps, no
   typed byte is lost, duplicated or reordered, and no report byte reaches the key buffer. *)
Theorem waiting_schedules_keep_the_keys : forall sched s s', keys_safe s -> prun_waiting sched s = Some s' -> keys_safe s'.
Proof.
  induction sched as [|l sched IH]; intros s s' H R; [cbn [prun_waiting] in R; inversion R; subst; exact H|].
  destruct l; cbn [prun_waiting] in R;
    try (match type of R with prun_waiting _ (pstep s ?l) = _ =>
           apply (IH _ _ (step_safe s l H ltac:(intros ? X; discriminate X)) R) end).
  destruct (p_waiting s) eqn:W; [|discriminate R].
  apply (IH _ _ (step_safe s (LAskBranch i) H ltac:(intros; exact W)) R).
Qed.

(* a channel identity only grows, and an asker blocked on an older channel stays blocked:
   nobody will ever send on it *)
Definition stale (s : pstate) (i : nat) (c : Z) : Prop := nth i (p_askers s) ADone = ARecv c /\ c < p_chan s.

Lemma nth_set_other : forall l i j a, i <> j -> nth i (set_asker l j a) ADone = nth i l ADone.
Proof.
  induction l as [|x l IH]; intros i j a H; [destruct i, j; reflexivity|].
  destruct i, j; cbn [set_asker nth]; try reflexivity; try congruence. apply IH. congruence.
Qed.

Lemma deliver_keeps_stale : forall l i c cur, nth i l ADone = ARecv c -> c <> cur -> nth i (deliver l cur) ADone = ARecv c.
Proof.
  induction l as [|x l IH]; intros i c cur H Hc; [destruct i; discriminate|].
  destruct i; cbn [nth] in H.
  - subst x. cbn [deliver]. replace (c =? cur) with false by lia. reflexivity.
  - destruct x; cbn [deliver nth]; try (apply IH; assumption).
    destruct (c0 =? cur); cbn [nth]; [exact H | apply IH; assumption].
Qed.

Lemma set_asker_stale : forall l i j a c, nth i l ADone = ARecv c ->
  (i = j -> False) -> nth i (set_asker l j a) ADone = ARecv c.
Proof. intros l i j a c H Hn. rewrite nth_set_other by (intro; apply Hn; assumption). exact H. Qed.

Theorem stale_asker_is_stuck_for_ever : forall sched s i c, stale s i c -> stale (prun sched s) i c.
Proof.
  induction sched as [|l sched IH]; intros s i c H; [exact H|]. cbn [prun fold_left]. apply IH. clear IH.
  destruct H as [A C]. unfold stale.
  destruct l; cbn [pstep].
  - split; assumption.
  - destruct (0 <? p_pending s); split; assumption.
  - destruct (p_main s); split; cbn; try assumption. lia.
  - destruct (p_main s); try (split; assumption). destruct (p_stdin s) as [|it r]; [split; assumption|].
    assert (A' : nth i (if has_report (it :: r) then deliver (p_askers s) (p_chan s) else p_askers s) ADone = ARecv c)
      by (destruct (has_report (it :: r)); [apply deliver_keeps_stale; [exact A | lia] | exact A]).
    destruct (users (it :: r)); split; cbn; assumption.
  - destruct (p_main s); split; cbn; assumption.
  - destruct (p_main s); try (split; assumption). destruct (p_stdin s); split; cbn; assumption.
  - destruct (nth i0 (p_askers s) ADone) eqn:B; try (split; assumption). split; cbn; [|exact C].
    apply set_asker_stale; [exact A | intros ->; congruence].
  - destruct (nth i0 (p_askers s) ADone) eqn:B; try (split; assumption). split; cbn; [|exact C].
    apply set_asker_stale; [exact A | intros ->; congruence].
  - destruct (nth i0 (p_askers s) ADone) eqn:B; try (split; assumption). destruct (p_stdin s); [split; assumption|]. split; cbn; [|exact C].
    apply set_asker_stale; [exact A | intros ->; congruence].
  - destruct (nth i0 (p_askers s) ADone) eqn:B; try (split; assumption).
    destruct got; (split; cbn; [apply set_asker_stale; [exact A | intros ->; congruence] | exact C]).
Qed.
