(* C18: keys fed back by a macro replay are dispatched exactly like the same bytes typed.
   core.Keys holds two queues: bytes read (buf) and runes fed (macroKeys, popped as
   byte(rune)).  A key stack with fed keys M behind buffered bytes B behaves like the key
   stack with the bytes B ++ map byte M and nothing fed: same commands, same caller keys,
   same application state, whatever the table (without macro bindings), the commands and
   the further input. *)
From Model Require Import Base Uni Utf8 Notation Dispatch.
From Proofs Require Import DispatchP.
From Coq Require Import ZifyBool.
Open Scope Z_scope.

Definition b256 (r : Z) : Z := r mod 256.
Definition no_macro (k : keys) : bool := match k_macro k with [] => true | _ => false end.

(* the byte view of a key stack, while keys are being dispatched *)
Definition R0 (k1 k2 : keys) : Prop :=
  k_buf k2 = k_buf k1 ++ map b256 (k_macro k1) /\ k_macro k2 = [] /\ k_matched k2 = k_matched k1.
(* ... and between two commands *)
Definition R (k1 k2 : keys) : Prop := R0 k1 k2 /\ k_must_wait k2 = k_must_wait k1 && no_macro k1.

Lemma peek_R0 : forall k1 k2, R0 k1 k2 -> peek_key k1 = peek_key k2.
Proof.
  intros k1 k2 (B & M & _). unfold peek_key. rewrite B, M.
  destruct (k_buf k1) as [|x xs]; [|reflexivity]. cbn [app]. destruct (k_macro k1) as [|r rs]; reflexivity.
Qed.

Lemma pop_R0 : forall k1 k2, R0 k1 k2 -> R0 (pop_key k1) (pop_key k2).
Proof.
  intros [b1 m1 t1 w1] [b2 m2 t2 w2] (B & M & T). cbn [k_buf k_macro k_matched] in *. subst b2 m2 t2.
  unfold pop_key, R0. cbn [k_buf k_macro k_matched].
  destruct b1 as [|x xs]; cbn [app].
  - destruct m1 as [|r rs]; cbn [map k_buf k_macro k_matched app]; repeat split.
  - cbn [k_buf k_macro k_matched]. repeat split.
Qed.

Lemma dispatch_go_R0 : forall f t e k1 k2 prefix read matched, R0 k1 k2 ->
  let '(e1, k1', p1, r1, m1) := dispatch_go f t e k1 prefix read matched in
  let '(e2, k2', p2, r2, m2) := dispatch_go f t e k2 prefix read matched in
  e1 = e2 /\ p1 = p2 /\ r1 = r2 /\ m1 = m2 /\ R0 k1' k2'.
Proof.
  induction f as [|f IH]; intros t e k1 k2 prefix read matched H; cbn [dispatch_go]; [repeat (split; [reflexivity|]); exact H|].
  rewrite <- (peek_R0 k1 k2 H). destruct (peek_key k1) as [key|]; [|repeat (split; [reflexivity|]); exact H].
  destruct (match_bind t (read ++ [key])) as [m ext].
  destruct (negb (is_bound m) && negb ext); [repeat (split; [reflexivity|]); apply pop_R0; exact H|].
  destruct ext; [apply IH; apply pop_R0; exact H | repeat (split; [reflexivity|]); apply pop_R0; exact H].
Qed.

Lemma R0_lengths : forall k1 k2, R0 k1 k2 ->
  (length (k_buf k2) + length (k_macro k2) = length (k_buf k1) + length (k_macro k1))%nat.
Proof. intros k1 k2 (B & M & _). rewrite B, M. rewrite app_length, map_length. cbn. lia. Qed.

Lemma matched_keys_R : forall k1 k2 read, R0 k1 k2 -> R (matched_keys k1 read []) (matched_keys k2 read []).
Proof.
  intros k1 k2 read (B & M & T). unfold matched_keys, R, R0. cbn [k_buf k_macro k_matched k_must_wait app andb].
  rewrite T. repeat split; auto.
Qed.

Lemma matched_prefix_R : forall k1 k2 read, read <> [] -> R0 k1 k2 -> R (matched_prefix k1 read) (matched_prefix k2 read).
Proof.
  intros k1 k2 read Hr (B & M & T). unfold matched_prefix. destruct read as [|x xs]; [contradiction|].
  unfold R, R0, no_macro. cbn [k_buf k_macro k_matched k_must_wait]. rewrite B, M.
  repeat split; auto; [rewrite app_assoc; reflexivity|].
  destruct (k_buf k1) as [|y ys]; cbn [app andb]; [|reflexivity].
  destruct (k_macro k1) as [|r rs]; reflexivity.
Qed.

(* a prefix result means at least one key was read *)
Lemma dispatch_go_read : forall f t e k prefix read matched,
  let '(_, _, p, r, _) := dispatch_go f t e k prefix read matched in
  exists s, r = read ++ s /\ (p = true -> prefix = true \/ s <> []).
Proof.
  induction f as [|f IH]; intros t e k prefix read matched; cbn [dispatch_go].
  - exists []. rewrite app_nil_r. split; [reflexivity | intros ->; left; reflexivity].
  - destruct (peek_key k) as [key|]; [|exists []; rewrite app_nil_r; split; [reflexivity | intros ->; left; reflexivity]].
    destruct (match_bind t (read ++ [key])) as [m ext].
    destruct (negb (is_bound m) && negb ext); [exists [key]; split; [reflexivity | discriminate]|].
    destruct ext; [|exists [key]; split; [reflexivity | discriminate]].
    specialize (IH t {| e_active := e_active e; e_prefixed := if is_bound m then m else e_prefixed e; e_vi := e_vi e |}
                   (pop_key k) true (read ++ [key]) (matched ++ [key])).
    destruct (dispatch_go f t _ (pop_key k) true (read ++ [key]) (matched ++ [key])) as [[[[e' k'] p] r] m'].
    destruct IH as (s & E & _). exists (key :: s). rewrite E, <- app_assoc. split; [reflexivity | intros _; right; discriminate].
Qed.

Lemma pop_force_R : forall k1 k2, R k1 k2 -> R (pop_force k1) (pop_force k2).
Proof.
  intros k1 k2 [H W]. unfold pop_force. rewrite <- (peek_R0 k1 k2 H).
  destruct (peek_key k1); [|split; assumption].
  pose proof (pop_R0 k1 k2 H) as (B & M & T). unfold R, R0. cbn [k_buf k_macro k_matched k_must_wait andb].
  repeat split; auto.
Qed.

(* MatchMain on related stacks *)
Lemma match_main_R : forall t e k1 k2, R0 k1 k2 ->
  let '(e1, k1', b1, p1) := match_main t e k1 in
  let '(e2, k2', b2, p2) := match_main t e k2 in
  e1 = e2 /\ b1 = b2 /\ p1 = p2 /\ (t <> [] -> R k1' k2').
Proof.
  intros t e k1 k2 H. unfold match_main. destruct t as [|t0 tr] eqn:Et; [repeat split; contradiction|]. rewrite <- Et.
  unfold dispatch_keys. rewrite (R0_lengths k1 k2 H).
  pose proof (dispatch_go_R0 (S (length (k_buf k1) + length (k_macro k1))) t e k1 k2 false [] [] H) as D.
  pose proof (dispatch_go_read (S (length (k_buf k1) + length (k_macro k1))) t e k1 false [] []) as Rd.
  destruct (dispatch_go _ t e k1 false [] []) as [[[[e1 k1'] p1] r1] m1].
  destruct (dispatch_go _ t e k2 false [] []) as [[[[e2 k2'] p2] r2] m2].
  destruct D as (-> & -> & -> & -> & H'). destruct Rd as (s & Er & Hp). cbn [app] in Er. subst r2.
  destruct p2.
  - assert (Hs : s <> []) by (destruct (Hp eq_refl) as [X|X]; [discriminate | exact X]).
    pose proof (matched_prefix_R k1' k2' s Hs H') as RR.
    assert (TM : k_matched (matched_prefix k1' s) = k_matched (matched_prefix k2' s)) by (destruct RR as [(_ & _ & T) _]; symmetry; exact T).
    cbn [andb]. rewrite TM.
    destruct (e_vi e2 && eqlZ (k_matched (matched_prefix k2' s)) [27]).
    + do 3 (split; [reflexivity|]). intros _. apply pop_force_R. exact RR.
    + do 3 (split; [reflexivity|]). intros _. exact RR.
  - cbn [andb]. do 3 (split; [reflexivity|]). intros _. apply matched_keys_R. exact H'.
Qed.

(* ---------------------------------------------------------------- the loop *)

Definition eng_ok (e : engine) : Prop := snd (e_active e) = false /\ snd (e_prefixed e) = false.
Definition table_no_macros (t : table) : Prop := forall e, In e t -> snd (snd e) = false.

Lemma mb_no_macro : forall t, table_no_macros t -> forall keys, snd (fst (match_bind t keys)) = false.
Proof.
  intros t no_macros keys. destruct (match_bind_macro t keys) as [H | (e & Hin & H)]; [exact H|]. rewrite H. apply no_macros. exact Hin.
Qed.

Lemma dispatch_go_ok : forall t, table_no_macros t -> forall f e k prefix read matched, eng_ok e ->
  let '(e', _, _, _, _) := dispatch_go f t e k prefix read matched in eng_ok e'.
Proof.
  intros t NM. induction f as [|f IH]; intros e k prefix read matched [Ha Hp]; cbn [dispatch_go]; [split; assumption|].
  destruct (peek_key k) as [key|]; [|split; assumption].
  pose proof (mb_no_macro t NM (read ++ [key])) as M. destruct (match_bind t (read ++ [key])) as [m ext]. cbn [fst] in M.
  destruct (negb (is_bound m) && negb ext); [split; cbn; [exact Hp | reflexivity]|].
  destruct ext; [apply IH; split; cbn; [exact Ha | destruct (is_bound m); assumption] | split; cbn; [exact M | reflexivity]].
Qed.

Lemma match_main_ok : forall t, t <> [] -> table_no_macros t -> forall e k, eng_ok e ->
  let '(e', _, b, _) := match_main t e k in eng_ok e' /\ snd b = false.
Proof.
  intros t Hne NM e k H. unfold match_main. destruct t as [|t0 tr] eqn:Et; [contradiction|]. rewrite <- Et in *.
  unfold dispatch_keys. pose proof (dispatch_go_ok t NM (S (length (k_buf k) + length (k_macro k))) e k false [] [] H) as D.
  destruct (dispatch_go _ t e k false [] []) as [[[[e' k'] p] r] m]. destruct D as [Da Dp].
  destruct (p && e_vi e' && eqlZ (k_matched (if p then matched_prefix k' r else matched_keys k' r [])) [27]).
  - split; [split; cbn; [exact Da | reflexivity]|]. destruct (eqlZ (fst (e_prefixed e')) s_vi_movement); [exact Dp | reflexivity].
  - split; [split; assumption | exact Da].
Qed.

Section LoopSim.
  Variable A : Type.
  Variable exec : list Z -> list Z -> A -> option (A * bool).
  Variable t : table.
  Hypothesis t_nonempty : t <> [].
  Hypothesis no_macros : table_no_macros t.

  Definition srel (s1 s2 : lstate A) : Prop :=
    l_eng A s1 = l_eng A s2 /\ l_app A s1 = l_app A s2 /\ R (l_keys A s1) (l_keys A s2) /\ eng_ok (l_eng A s1).

  Definition orel (o1 o2 : outcome A) : Prop :=
    match o1, o2 with
    | Waiting _ a, Waiting _ b | Returned _ a, Returned _ b | Ended _ a, Ended _ b | NoFuel _ a, NoFuel _ b => srel a b
    | _, _ => False
    end.

  Lemma flush_R : forall k1 k2, R k1 k2 -> R (flush_used k1) (flush_used k2).
  Proof. intros k1 k2 [(B & M & T) W]. unfold flush_used, R, R0, no_macro in *. cbn [k_buf k_macro k_matched k_must_wait]. repeat split; auto. Qed.

  Lemma wait_keys_R : forall cm k1 k2 ins, R k1 k2 ->
    match wait_keys cm k1 ins, wait_keys cm k2 ins with
    | None, None => True
    | Some (k1', i1, b1), Some (k2', i2, b2) => i1 = i2 /\ b1 = b2 /\ R k1' k2'
    | _, _ => False
    end.
  Proof.
    intros cm [b1 m1 t1 w1] [b2 m2 t2 w2] ins [(B & M & T) W]. unfold no_macro in W. cbn [k_buf k_macro k_matched k_must_wait] in *. subst b2 m2 t2 w2.
    unfold wait_keys. cbn [k_buf k_macro k_matched k_must_wait].
    destruct b1 as [|x xs]; cbn [app].
    - destruct m1 as [|r rs]; cbn [map andb].
      + (* both stacks empty: both read *)
        rewrite andb_true_r. destruct w1; (destruct ins as [|[bs|] rest]; [exact I | | ]);
          try (split; [reflexivity|]; split; [reflexivity|]; unfold R, R0, no_macro; cbn [k_buf k_macro k_matched k_must_wait map]; rewrite ?app_nil_r, ?andb_true_r; repeat split; reflexivity).
      + (* fed keys only: both go on without reading *)
        rewrite andb_false_r. split; [reflexivity|]. split; [reflexivity|].
        unfold R, R0, no_macro. cbn [k_buf k_macro k_matched k_must_wait app]. rewrite andb_false_r. repeat split; reflexivity.
    - destruct m1 as [|r rs]; cbn [map andb].
      + rewrite andb_true_r. rewrite app_nil_r. destruct w1.
        * destruct ins as [|[bs|] rest]; [exact I | | ];
            (split; [reflexivity|]; split; [reflexivity|]; unfold R, R0, no_macro; cbn [k_buf k_macro k_matched k_must_wait map]; rewrite ?app_nil_r, ?andb_true_r; repeat split; reflexivity).
        * split; [reflexivity|]. split; [reflexivity|]. unfold R, R0, no_macro. cbn [k_buf k_macro k_matched k_must_wait map]. rewrite app_nil_r. repeat split; reflexivity.
      + rewrite andb_false_r. destruct w1; (split; [reflexivity|]; split; [reflexivity|]; unfold R, R0, no_macro; cbn [k_buf k_macro k_matched k_must_wait app map]; rewrite ?andb_false_r; repeat split; reflexivity).
  Qed.

  Lemma R_empty : forall k1 k2, R k1 k2 ->
    (match k_buf k1, k_macro k1 with [], [] => true | _, _ => false end) = (match k_buf k2, k_macro k2 with [], [] => true | _, _ => false end).
  Proof.
    intros k1 k2 [(B & M & _) _]. rewrite B, M. destruct (k_buf k1); [|reflexivity]. destruct (k_macro k1); reflexivity.
  Qed.

  Lemma srel_i : forall s1 s2, l_eng A s1 = l_eng A s2 -> l_app A s1 = l_app A s2 -> R (l_keys A s1) (l_keys A s2) -> eng_ok (l_eng A s1) -> srel s1 s2.
  Proof. intros s1 s2 H1 H2 H3 H4. exact (conj H1 (conj H2 (conj H3 H4))). Qed.
  Ltac fin := cbn [orel]; apply srel_i; cbn [l_eng l_app l_keys]; solve [assumption | reflexivity].

  (* the loop on a key stack with fed keys is the loop on the stack holding the same bytes *)
  Theorem loop_R : forall fuel cm st1 st2 ins, srel st1 st2 -> orel (loop A exec fuel cm t st1 ins) (loop A exec fuel cm t st2 ins).
  Proof.
    induction fuel as [|fuel IH]; intros cm st1 st2 ins (E & Ap & Rk & Ok); [fin|].
    cbn [loop]. pose proof (flush_R _ _ Rk) as Rf.
    pose proof (wait_keys_R cm _ _ ins Rf) as Wk.
    destruct (wait_keys cm (flush_used (l_keys A st1)) ins) as [[[k1 i1] e1]|];
      destruct (wait_keys cm (flush_used (l_keys A st2)) ins) as [[[k2 i2] e2]|]; try contradiction;
      [|fin].
    destruct Wk as (-> & -> & Rk'). destruct e2; [fin|].
    pose proof (R_empty _ _ Rk') as Em.
    assert (Go : orel
      (let '(e, k, b, prefix) := match_main t (l_eng A st1) k1 in
       if prefix then loop A exec fuel cm t {| l_eng := e; l_keys := k; l_app := l_app A st1 |} i2
       else let k := if snd b then feed k (unescape (fst b)) else k in
            if negb (snd b) && is_bound b then
              match exec (fst b) (k_matched k) (l_app A st1) with
              | Some (a, true) => Returned A {| l_eng := e; l_keys := k; l_app := a |}
              | Some (a, false) => loop A exec fuel cm t {| l_eng := e; l_keys := k; l_app := a |} i2
              | None => loop A exec fuel cm t {| l_eng := e; l_keys := k; l_app := l_app A st1 |} i2
              end
            else loop A exec fuel cm t {| l_eng := e; l_keys := k; l_app := l_app A st1 |} i2)
      (let '(e, k, b, prefix) := match_main t (l_eng A st2) k2 in
       if prefix then loop A exec fuel cm t {| l_eng := e; l_keys := k; l_app := l_app A st2 |} i2
       else let k := if snd b then feed k (unescape (fst b)) else k in
            if negb (snd b) && is_bound b then
              match exec (fst b) (k_matched k) (l_app A st2) with
              | Some (a, true) => Returned A {| l_eng := e; l_keys := k; l_app := a |}
              | Some (a, false) => loop A exec fuel cm t {| l_eng := e; l_keys := k; l_app := a |} i2
              | None => loop A exec fuel cm t {| l_eng := e; l_keys := k; l_app := l_app A st2 |} i2
              end
            else loop A exec fuel cm t {| l_eng := e; l_keys := k; l_app := l_app A st2 |} i2)).
    { rewrite <- E, <- Ap. destruct Rk' as [Rk0 Rw].
      pose proof (match_main_R t (l_eng A st1) k1 k2 Rk0) as MR.
      pose proof (match_main_ok t t_nonempty no_macros (l_eng A st1) k1 Ok) as MO.
      destruct (match_main t (l_eng A st1) k1) as [[[ea ka] ba] pa].
      destruct (match_main t (l_eng A st1) k2) as [[[eb kb] bb] pb].
      destruct MR as (<- & <- & <- & RR). specialize (RR t_nonempty). destruct MO as [Oe Ob].
      destruct pa; [apply IH; fin|].
      rewrite Ob. cbn [negb andb].
      assert (Mt : k_matched kb = k_matched ka) by (destruct RR as [(_ & _ & X) _]; exact X).
      rewrite Mt.
      destruct (is_bound ba); [|apply IH; fin].
      destruct (exec (fst ba) (k_matched ka) (l_app A st1)) as [[a [|]]|];
        [fin | apply IH; fin | apply IH; fin]. }
    destruct (k_buf k1) as [|x1 xs1]; [destruct (k_macro k1) as [|r1 rs1]|];
      (destruct (k_buf k2) as [|x2 xs2]; [destruct (k_macro k2) as [|r2 rs2]|]); try discriminate Em; try exact Go.
    apply IH. fin.
  Qed.
End LoopSim.

(* The macro command has just run (its keys matched exactly, nothing else is pending) and
   fed `rs` back: the loop goes on exactly as if the bytes of `rs` had been typed and
   returned by the next read. *)
Theorem fed_like_typed : forall A exec t fuel eng app m rs ins,
  t <> [] -> table_no_macros t -> eng_ok eng -> rs <> [] ->
  let k0 := {| k_buf := []; k_macro := []; k_matched := m; k_must_wait := false |} in
  orel A (loop A exec (S fuel) false t {| l_eng := eng; l_keys := feed k0 rs; l_app := app |} ins)
         (loop A exec (S fuel) false t {| l_eng := eng; l_keys := k0; l_app := app |} (Chunk (map b256 rs) :: ins)).
Proof.
  intros A exec t fuel eng app m rs ins Ht Hm He Hrs k0.
  set (k2 := {| k_buf := map b256 rs; k_macro := []; k_matched := m; k_must_wait := false |}).
  assert (Eq : loop A exec (S fuel) false t {| l_eng := eng; l_keys := k0; l_app := app |} (Chunk (map b256 rs) :: ins)
             = loop A exec (S fuel) false t {| l_eng := eng; l_keys := k2; l_app := app |} ins).
  { destruct rs as [|r rs']; [contradiction|]. reflexivity. }
  rewrite Eq. apply loop_R; [exact Ht | exact Hm|].
  split; [reflexivity|]. split; [reflexivity|]. split; [|exact He].
  unfold R, R0, no_macro. cbn. destruct rs; [contradiction|]. repeat split; reflexivity.
Qed.
