(* C08: what Accept writes to the bound history sources. *)
From Coq Require Import String.
From Model Require Import Base Uni Utf8 Notation Inputrc HistFile Editor.
From Coq Require Import ZifyBool.
Open Scope Z_scope.

(* the most recent entry of a source, as Sources.Write reads it (GetLine(Len()-1)) *)
Definition last_entry (es : list (list Z)) : list Z := nth (Z.to_nat (zlen es - 1)) es [].

Lemma source_write_cases : forall mk mx l es,
  source_write mk mx l es = es \/ source_write mk mx l es = es ++ [src_store mk l].
Proof.
  intros mk mx l es. unfold source_write.
  destruct ((mx =? 0) || ((0 <? mx) && (mx <=? zlen es))); [left; reflexivity|].
  destruct (if mk && (zlen es =? 0) then Some [] else if zlen es =? 0 then None else Some (nth (Z.to_nat (zlen es - 1)) es [])) as [la|];
    [|right; reflexivity].
  destruct (negb (eqlZ la []) && eqlZ (trim_space la) (trim_space l)); [left | right]; reflexivity.
Qed.

Lemma source_write_full : forall mk mx l es, 0 < mx -> mx <= zlen es -> source_write mk mx l es = es.
Proof. intros mk mx l es H1 H2. unfold source_write. replace ((mx =? 0) || ((0 <? mx) && (mx <=? zlen es))) with true by lia. reflexivity. Qed.

Lemma source_write_dup : forall mk mx l es, es <> [] -> last_entry es <> [] ->
  trim_space (last_entry es) = trim_space l -> source_write mk mx l es = es.
Proof.
  intros mk mx l es Hne Hl Ht. unfold source_write.
  destruct ((mx =? 0) || ((0 <? mx) && (mx <=? zlen es))); [reflexivity|].
  assert (Z : (zlen es =? 0) = false) by (destruct es; [contradiction | unfold zlen; cbn; lia]).
  rewrite Z. rewrite andb_false_r. fold (last_entry es).
  assert (E1 : eqlZ (last_entry es) [] = false) by (destruct (last_entry es); [contradiction | reflexivity]).
  rewrite E1. cbn [negb andb]. rewrite Ht.
  assert (R : forall a, eqlZ a a = true).
  { induction a as [|x a IH]; [reflexivity|]. unfold eqlZ in *. cbn. rewrite Nat.eqb_refl in *. cbn in *. rewrite Z.eqb_refl. exact IH. }
  rewrite R. reflexivity.
Qed.

Lemma eqlZ_true_eq : forall a b, eqlZ a b = true -> a = b.
Proof.
  induction a as [|x a IH]; destruct b as [|y b]; unfold eqlZ; cbn; intros H; try reflexivity; try discriminate.
  apply andb_true_iff in H. destruct H as [Hl H]. cbn in H. apply andb_true_iff in H. destruct H as [Hxy H].
  apply Z.eqb_eq in Hxy. subst. f_equal. apply IH. unfold eqlZ. rewrite Hl. exact H.
Qed.

Lemma source_write_appends : forall mk mx l es,
  (mx < 0 \/ zlen es < mx) ->
  (es = [] \/ last_entry es = [] \/ trim_space (last_entry es) <> trim_space l) ->
  source_write mk mx l es = es ++ [src_store mk l].
Proof.
  intros mk mx l es Hm Hd. unfold source_write.
  assert (Hz : 0 <= zlen es) by (unfold zlen; lia).
  assert (M : (mx =? 0) || ((0 <? mx) && (mx <=? zlen es)) = false) by (destruct Hm; lia). rewrite M.
  destruct (zlen es =? 0) eqn:Z.
  - destruct mk; reflexivity.
  - rewrite andb_false_r. fold (last_entry es).
    destruct Hd as [Hd | [Hd | Hd]].
    + subst es. unfold zlen in Z. cbn in Z. lia.
    + rewrite Hd. reflexivity.
    + destruct (eqlZ (trim_space (last_entry es)) (trim_space l)) eqn:Q.
      * apply eqlZ_true_eq in Q. contradiction.
      * rewrite andb_false_r. reflexivity.
Qed.

(* the sources as a whole *)
Theorem accept_not_recorded : forall err inf mx l srcs,
  err <> 0 \/ inf = true \/ trim_space l = [] -> sources_accept err inf mx l srcs = srcs.
Proof.
  intros err inf mx l srcs H. unfold sources_accept.
  destruct (err =? 0) eqn:E; cbn [negb]; [|reflexivity].
  destruct inf; [reflexivity|]. destruct H as [H | [H | H]]; [lia | discriminate | rewrite H; reflexivity].
Qed.

Theorem accept_per_source : forall mx l srcs, trim_space l <> [] ->
  sources_accept 0 false mx l srcs = map (fun s => (fst s, source_write (fst s) mx l (snd s))) srcs.
Proof.
  intros mx l srcs H. unfold sources_accept. cbn. destruct (trim_space l); [contradiction | reflexivity].
Qed.
