(* C09 - history navigation and search are faithful and non-destructive.
   Property theorems only; proofs are in Proofs/HistoryP.v. *)
From Coq Require Import String.
From Model Require Import Base Uni Utf8 Notation Inputrc HistFile Editor.
From Proofs Require Import EditorP BoundsP HistoryP TypedP WalkP SearchP TypeNavP.
Open Scope Z_scope.

(* (c) the search loop of history-search-* only ever returns a stored entry, at its own
   position, whose text matches the search text in the documented way: as a prefix
   (byte-wise on the UTF-8 strings), or as a substring for the substring searches *)
Theorem C09_search_returns_a_matching_entry : forall f h pos fwd regex cline m p,
  match_go f h pos fwd regex cline = Some (m, p) ->
  0 <= p < zlen h /\ m = nth (Z.to_nat p) h [] /\ matches regex cline m = true.
Proof. exact match_go_sound. Qed.

(* (c) at the level of the command (Sources.InsertMatch, what history-search-backward /
   -forward and the substring searches call): the first search from the line being entered
   leaves that line, or puts in the buffer a stored entry that matches the search text -
   the line itself cut at the cursor filed with it - in the documented way *)
Theorem C09_first_search_puts_a_matching_entry_or_nothing : forall e fwd regex e', hpos e = -1 ->
  h_insert_match e fwd regex = Ok e' ->
  exists p,
    (line e' = line e /\ hpos e' = -1)
    \/ (exists q, 0 <= q < zlen (hist e) /\ line e' = nth (Z.to_nat q) (hist e) [] /\ hpos e' = zlen (hist e) - q /\
                  matches regex (search_key (line e) p) (nth (Z.to_nat q) (hist e) []) = true).
Proof. exact first_search_result. Qed.

(* ... and a further search from a history line still searches for the line that was being
   entered (t, cut at p): a matching stored entry, or the buffer stays, or - forward, nothing
   newer matches - the buffer is the line that was being entered again *)
Theorem C09_later_search_puts_a_matching_entry_or_nothing : forall e fwd regex t p r e', hpos e <> -1 -> saved e = (t, p) :: r ->
  h_insert_match e fwd regex = Ok e' ->
  (line e' = line e /\ (hpos e' = hpos e \/ hpos e' = -1))
  \/ (exists q, 0 <= q < zlen (hist e) /\ line e' = nth (Z.to_nat q) (hist e) [] /\ hpos e' = zlen (hist e) - q /\
                matches regex (search_key t p) (nth (Z.to_nat q) (hist e) []) = true)
  \/ (fwd = true /\ -1 < hpos e /\ line e' = t /\ hpos e' = -1).
Proof. exact later_search_result. Qed.

Theorem C09_prefix_match_is_a_prefix : forall cline entry,
  matches false cline entry = true -> has_prefix cline (utf8_encode entry) = true.
Proof. exact matches_prefix. Qed.

(* non-destructive: walking and searching never change the entries of the source *)
Theorem C09_walk_keeps_entries : forall mk e pos,
  match h_walk mk e pos with Ok e' => hist e' = hist e | _ => True end.
Proof. exact h_walk_hist. Qed.

Theorem C09_search_keeps_entries : forall e fwd regex,
  match h_insert_match e fwd regex with Ok e' => hist e' = hist e | _ => True end.
Proof. exact h_insert_match_hist. Qed.

(* (d) walking never fails: any state, direction, distance and history (empty and
   one-entry included); neither does saving the line on the way *)
Theorem C09_walk_never_fails : forall mk e pos, exists e', h_walk mk e pos = Ok e'.
Proof. exact h_walk_total. Qed.

Theorem C09_save_never_fails : forall e, exists e', h_save e = Ok e'.
Proof. exact h_save_total. Qed.

(* (a), (b), THE statement: any sequence of previous-history / next-history /
   beginning-of-history / end-of-history, each run the way the Readline loop runs a command
   (run_one: the command with its own Save or SkipSave, no pending operator, the cursor
   check, iteration bookkeeping, the undo save after the command - the function the
   correspondence run drives against the implementation), each called with any keys, on
   EVERY history and every line being entered: the buffer is the k-th newest stored entry,
   k being the abstract position (0 = the line being entered, 1 = the newest entry, kept
   within [0, n]: previous = +1, next = -1, beginning = +n, end = 1-n); whenever that
   position is 0 the buffer is the line that was being entered; the entries never change;
   the run never fails. *)
Theorem C09_navigation_is_faithful : forall mk mx cs e, 0 < zlen (hist e) -> hpos e = -1 -> clean e -> pending e = [] ->
  exists e', run_navs mk mx cs e = Ok e' /\ hist e' = hist e /\
    let k := nav_fold (zlen (hist e)) (map fst cs) 0 in
    (k = 0 -> hpos e' = -1 /\ line e' = line e) /\
    (0 < k -> hpos e' = k /\ line e' = entry e k).
Proof. exact navigation_is_faithful. Qed.

(* (a)+(b) from the start of a call, with no hypothesis on the state left: type ANY text made
   of characters that insert themselves (each through run_one self-insert), then ANY
   sequence of the four navigation commands, on ANY non-empty history: at abstract position
   k > 0 the buffer is the k-th newest stored entry, at position 0 it is exactly the text
   typed; the entries never change; nothing fails. *)
Theorem C09_type_then_navigate : forall vi mk mx h t cs, 0 < zlen h -> Forall plain_char t ->
  exists e', (do e1 <- type_all mk mx t (ed_init vi h); run_navs mk mx cs e1) = Ok e' /\ hist e' = h /\
    let k := nav_fold (zlen h) (map fst cs) 0 in
    (k = 0 -> hpos e' = -1 /\ line e' = t) /\
    (0 < k -> hpos e' = k /\ line e' = nth (Z.to_nat (zlen h - k)) h []).
Proof. exact type_then_navigate_text. Qed.

(* (a), (b) for EVERY history, every line being entered and every sequence of Sources.Walk
   calls of any size and sign (previous-history = Walk 1, next-history = Walk -1,
   beginning-of-history = Walk n, end-of-history = Walk (1 - n), up/down-line-or-history
   with any count): the buffer shows the k-th newest stored entry, k being the position
   of the abstract walk `astep` (0 = the line being entered, kept within [0, n]), and when
   that position is back to 0 the buffer is the line that was being entered. *)
Theorem C09_walks_show_the_entries_in_order : forall mk ps e, 0 < zlen (hist e) -> hpos e = -1 -> clean e ->
  exists e', walks mk ps e = Ok e' /\ hist e' = hist e /\
    let k := fold_left (astep (zlen (hist e))) ps 0 in
    (k = 0 -> hpos e' = -1 /\ line e' = line e) /\
    (0 < k -> hpos e' = k /\ line e' = entry e k).
Proof. exact walks_show_the_entries. Qed.

(* (a) j times previous-history: the j-th newest entry, the oldest once j > n *)
Theorem C09_previous_history_shows_the_jth_newest : forall mk j e, 0 < zlen (hist e) -> hpos e = -1 -> clean e -> (0 < j)%nat ->
  exists e', walks mk (repeat 1 j) e = Ok e' /\ hist e' = hist e /\ line e' = entry e (Z.min (zlen (hist e)) (Z.of_nat j)).
Proof. exact ups_show_the_jth_newest. Qed.

(* (b) any walk, then steps down adding up to at least the length of the history: the line
   being entered is back, whatever the sizes of the steps *)
Theorem C09_walking_back_down_restores_the_line : forall mk ps downs e, 0 < zlen (hist e) -> hpos e = -1 -> clean e ->
  Forall (fun d => d < 0) downs -> fold_left Z.add downs 0 <= - zlen (hist e) ->
  exists e', walks mk (ps ++ downs) e = Ok e' /\ hist e' = hist e /\ hpos e' = -1 /\ line e' = line e.
Proof. exact walking_back_down_restores_the_line. Qed.

(* non-vacuity: a fresh call on a history of three entries is such a state *)
Example C09_walk_example : 0 < zlen (hist (ed_init false [zs "ls"; zs "echo a"; zs "pwd"]%string)) /\
  hpos (ed_init false [zs "ls"; zs "echo a"; zs "pwd"]%string) = -1 /\ clean (ed_init false [zs "ls"; zs "echo a"; zs "pwd"]%string)
  /\ pending (ed_init false [zs "ls"; zs "echo a"; zs "pwd"]%string) = [].
Proof. split; [vm_compute; reflexivity|]. split; [reflexivity|]. split; [|reflexivity]. intros k Hk. unfold ed_init. cbn [lines lh_get]. replace (-1 =? k) with false by lia. exact I. Qed.

(* (a), (b) on a concrete run through the command interpreter (Save + Walk per command): three entries, "ec"
   typed, up x4 shows them newest first and stays on the oldest, down x4 restores "ec";
   history-search-backward from "ec" finds "echo a" *)
Definition c09_hist : list (list Z) := [zs "ls"; zs "echo a"; zs "pwd"]%string.
Definition c09_run (cmds : list (list Z)) : list (list Z) :=
  let start := fold_left (fun r c => match r with Ok e => run_one (zs "self-insert") [c] true (-1) e | x => x end)
                         [101; 99] (Ok (ed_init false c09_hist)) in
  snd (fold_left (fun acc c => match fst acc with
                               | Ok e => let r := run_one c [] true (-1) e in
                                         (r, snd acc ++ [match r with Ok e' => line e' | _ => [0] end])
                               | x => (x, snd acc) end) cmds (start, [])).

(* non-vacuity of the navigation theorem's hypotheses on a state reached by typing: after "ec"
   typed through run_one on the three-entry history, the walk is at the bottom, no history
   line has an undo log, no operator is pending *)
Definition c09_typed : res ed :=
  fold_left (fun r c => match r with Ok e => run_one (zs "self-insert") [c] true (-1) e | x => x end)
            [101; 99] (Ok (ed_init false c09_hist)).

Example C09_typed_state_meets_the_hypotheses : match c09_typed with
  | Ok e => hpos e = -1 /\ clean e /\ pending e = [] /\ line e = [101; 99] /\ 0 < zlen (hist e)
  | _ => False end.
Proof.
  destruct c09_typed as [e| |] eqn:E; [|vm_compute in E; discriminate E|vm_compute in E; discriminate E].
  assert (F : hpos e = -1 /\ pending e = [] /\ line e = [101; 99] /\ zlen (hist e) = 3 /\ keys_of e = [-1]).
  { vm_compute in E. inversion E; subst e. vm_compute. repeat split. }
  destruct F as (F1 & F2 & F3 & F4 & F5).
  split; [exact F1|]. split; [|split; [exact F2|split; [exact F3|rewrite F4; reflexivity]]].
  intros k Hk. unfold keys_of in F5. destruct (lines e) as [|[k0 u0] [|x r]]; cbn in F5; try discriminate.
  inversion F5; subst k0. cbn [lh_get]. replace (-1 =? k) with false by lia. exact I.
Qed.

Example C09_plain_chars_exist : Forall plain_char [101; 99; 32; 233; 19990].
Proof. repeat constructor; try discriminate; vm_compute; reflexivity. Qed.

Example C09_example :
  c09_run (map zs ["previous-history"; "previous-history"; "previous-history"; "previous-history";
                   "next-history"; "next-history"; "next-history"; "next-history"]%string)
  = map zs ["pwd"; "echo a"; "ls"; "ls"; "echo a"; "pwd"; "ec"; "ec"]%string
  /\ c09_run (map zs ["history-search-backward"; "history-search-backward"; "history-search-forward"]%string)
     = map zs ["echo a"; "echo a"; "ec"]%string.
Proof. split; vm_compute; reflexivity. Qed.
