(* C10 - file-backed history survives restarts and crashes.
   Property theorems only; proofs are in Proofs/HistFileP.v. *)
From Model Require Import Base Uni HistFile.
From Proofs Require Import HistFileP.

(* The record codec stands for encoding/json on the {datetime, block} record; the
   four facts below are what the theorems use of it, and each is checked against
   the real library for every line and every prefix the correspondence run
   generates. *)
Definition codec_ok (enc : list Z -> list Z) (dec : list Z -> option (list Z)) : Prop :=
  (forall b, b <> [] -> dec (enc b) = Some b) /\
  (forall b, ~ In 10 (enc b) /\ ~ In 13 (enc b)) /\
  (forall b p q, enc b = p ++ q -> q <> [] -> dec p = None) /\
  dec [] = None.

Definition after_writes enc (ss : list (list Z)) (f : list Z) : list Z :=
  snd (fold_left (write enc) ss ([], f)).

(* (a) every line written comes back, in order, with the same text up to
   surrounding whitespace, whatever runes and length the lines have *)
Theorem C10_reopen_returns_writes : forall enc dec, codec_ok enc dec -> forall ss,
  open_hist dec (after_writes enc ss []) = entries ss.
Proof.
  intros enc dec (J1 & J2 & J3 & J4) ss. unfold after_writes.
  apply (shape_open enc dec J1 J2 J3).
  apply (writes_shape enc dec J1 J2 J3 ss [] [] []).
  apply (sh_nl enc dec []). left. reflexivity.
Qed.

(* (b) the process dies at byte k of an append, for every k: reopening yields all
   entries completed before, in order, plus the cut entry iff its whole record
   reached the file *)
Theorem C10_crash_at_any_byte : forall enc dec, codec_ok enc dec -> forall ss s k,
  trim_space s <> [] ->
  let f := after_writes enc ss [] in
  let torn := f ++ firstn k (sep f ++ enc (trim_space s) ++ [10]) in
  open_hist dec torn =
    if (length (sep f ++ enc (trim_space s)) <=? k)%nat then entries ss ++ [trim_space s] else entries ss.
Proof.
  intros enc dec (J1 & J2 & J3 & J4) ss s k Hs f torn.
  apply (shape_open enc dec J1 J2 J3).
  apply (crash_shape enc dec J1 J2 J3 J4); [|exact Hs].
  replace (entries ss) with ([] ++ entries ss) by reflexivity.
  apply (writes_shape enc dec J1 J2 J3 ss [] [] []).
  apply (sh_nl enc dec []). left. reflexivity.
Qed.

(* (c) entries written after reopening such a torn file are durable again:
   everything readable before stays, and every new entry is added *)
Theorem C10_writes_after_crash_are_durable : forall enc dec, codec_ok enc dec -> forall ss s k ss2,
  trim_space s <> [] ->
  let f := after_writes enc ss [] in
  let torn := f ++ firstn k (sep f ++ enc (trim_space s) ++ [10]) in
  open_hist dec (after_writes enc ss2 torn) = open_hist dec torn ++ entries ss2.
Proof.
  intros enc dec (J1 & J2 & J3 & J4) ss s k ss2 Hs f torn.
  apply (shape_open enc dec J1 J2 J3).
  apply (writes_shape enc dec J1 J2 J3 ss2 [] torn).
  assert (Hsh : shape enc dec torn (if (length (sep f ++ enc (trim_space s)) <=? k)%nat then entries ss ++ [trim_space s] else entries ss)).
  { apply (crash_shape enc dec J1 J2 J3 J4); [|exact Hs].
    replace (entries ss) with ([] ++ entries ss) by reflexivity.
    apply (writes_shape enc dec J1 J2 J3 ss [] [] []).
    apply (sh_nl enc dec []). left. reflexivity. }
  rewrite (shape_open enc dec J1 J2 J3 _ _ Hsh). exact Hsh.
Qed.
