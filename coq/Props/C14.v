(* C14 - completion only rewrites the word being completed.
   Property theorems only; proofs are in Proofs/CompP.v.  The model (Model/CompInsert.v)
   is setPrefix with the backward scan of SelectBlankWord, insertCandidate (virtual
   insertion in the completed line), acceptCandidate (unique match, real line) and
   cancelCompletedLine, over the Line/Cursor primitives of Model/Editor.v. *)
From Model Require Import Base Uni Utf8 HistFile Editor CompInsert.
From Proofs Require Import CompP.
Open Scope Z_scope.

(* For every buffer  before ++ word ++ after  with the cursor right after `word` (the
   part of the word being completed that is before the cursor; `after` starts with
   whatever follows the cursor, the rest of the word included) and every candidate v
   at least as long as the word in bytes: the completed line is before ++ v ++ after and
   the cursor is right after v.  Nothing before the word or after the cursor changes. *)
Theorem C14_insertion_only_rewrites_the_word : forall before word after v,
  strip_zeros v = v -> blen word <= blen v ->
  insert_candidate (before ++ word ++ after) (zlen (before ++ word)) word v = (before ++ v ++ after, zlen before + zlen v).
Proof. exact insert_candidate_local. Qed.

(* a candidate shorter than the word is not inserted at all *)
Theorem C14_short_candidate_is_not_inserted : forall l c word v, blen v < blen word -> insert_candidate l c word v = (l, c).
Proof. exact insert_candidate_short. Qed.

(* automatic acceptance of a unique match: the same replacement in the real line, no panic *)
Theorem C14_unique_match_only_rewrites_the_word : forall before word after v,
  strip_zeros v = v -> blen word <= blen v ->
  accept_candidate (before ++ word ++ after) (zlen (before ++ word)) word v = Ok (before ++ v ++ after, zlen before + zlen v).
Proof. exact accept_candidate_local. Qed.

(* interrupting the menu gives back the buffer and the cursor completion started from *)
Theorem C14_abort_restores_buffer_and_cursor : forall l c word v, cancel_completed l c (insert_candidate l c word v) = (l, c).
Proof. exact cancel_restores. Qed.

(* non-vacuity, through setPrefix: `x café y`, cursor after café, candidate café1;
   `say fo x` with the cursor inside the word; an escaped blank inside the word *)
Example C14_example :
  complete_with [120; 32; 99; 97; 102; 233; 32; 121] 6 [99; 97; 102; 233; 49] = Ok ([120; 32; 99; 97; 102; 233; 49; 32; 121], 7) /\
  set_prefix [115; 97; 121; 32; 102; 111; 111; 32; 120] 6 = Ok [102; 111] /\
  set_prefix [97; 92; 32; 98; 32; 99] 4 = Ok [97; 92; 32; 98].
Proof. vm_compute. repeat split; reflexivity. Qed.
