(* C12 - parsing any inputrc text terminates without crashing.
   Property theorems only; proofs are in Proofs/InputrcSafe.v. *)
From Model Require Import Base Uni Utf8 Notation Inputrc.
From Proofs Require Import InputrcSafe.

(* For every byte string, every option set, every file-inclusion graph (fs is an
   arbitrary table from names to contents / not-exist / read error, so files that
   include themselves are inside the quantifier) and every configuration whose
   variables hold bool, int or string values, Parse returns: no index or slice of
   the Go code is out of range (Panic), no loop or recursion runs out of its
   budget (OutOfFuel); problems are reported as error values. *)
Theorem C12_parse_never_panics : forall (fs : files) (o : popts) (c : config) (src : list Z),
  cfg_typed c -> exists c' errs ret, parse fs o c src = Ok (c', errs, ret).
Proof. exact parse_never_panics. Qed.

(* The budgets are not what stops the loops: with the fuel the model gives them
   each scanning loop ends because its own Go condition became false, and the line
   splitter consumes its whole input. So the Go loops terminate as well. *)
Theorem C12_loops_exit_by_their_condition : forall r i,
  0 <= i <= zlen r ->
  (let p := find_non_space r i (zlen r) in (p <? zlen r) && is_space (nthZ r p) = false) /\
  (let p := find_end r i (zlen r) in (p <? zlen r) && sym_char (grab r p (zlen r)) = false) /\
  (let p := seek_colon (S (length r)) r i (zlen r) in (p <? zlen r) && negb (nthZ r p =? 58) = false) /\
  (forall q, let x := fse_go (S (length r)) r (i + 1) (zlen r) q in snd x = true \/ zlen r <= fst x) /\
  scan_consumed (S (length r)) r = true.
Proof.
  intros r i H. unfold zlen in *.
  split; [apply fns_exit; lia|]. split; [apply fend_exit; [lia | reflexivity]|].
  split; [apply colon_exit; lia|]. split; [intros q; apply fse_exit; lia|].
  apply scan_lines_fuel. lia.
Qed.

(* non-vacuity: a typed configuration exists, and the parser does report errors
   (rather than dying) on a self-including file with a truncated directive *)
Example C12_witness :
  cfg_typed {| c_vars := [([97], VInt 5); ([98], VBool true)]; c_binds := [] |} /\
  (let self := [115; 101; 116; 10; 36; 105; 110; 99; 108; 117; 100; 101; 32; 120; 10] in  (* "set\n$include x\n" *)
   match parse [([120], FData self)] {| o_halt := false; o_strict := false; o_app := []; o_term := []; o_mode := [] |}
               {| c_vars := []; c_binds := [] |} self with
   | Ok (_, errs, ret) => (ret =? 0) && (zlen errs =? 1) && (fst (hd (0, 0) errs) =? E_missing_colon)
   | _ => false
   end = true).
Proof.
  split.
  - repeat constructor; discriminate.
  - vm_compute. reflexivity.
Qed.
