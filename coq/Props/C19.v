(* C19 - key-sequence notation and configuration dumps round-trip.
   Property theorems only; proofs are in Proofs/. *)
From Model Require Import Base Uni Notation.
From Gen Require Import Binds.
From Proofs Require Import NotationP.

(* (a) Unescape (Escape s) = s and Unescape (EscapeMacro s) = s for every sequence
   over runes 0x00-0xFF and printable Unicode, of any length. *)
Theorem C19_escape_roundtrip : forall (macro : bool) (s : list Z),
  forallb dom s = true -> unescape (escape macro s) = s.
Proof. exact unescape_escape. Qed.

(* non-vacuity: control, meta, quote, hex-only and wide runes are in the domain *)
Example C19_domain_inhabited :
  forallb dom [0; 27; 28; 34; 92; 127; 128; 159; 162; 220; 255; 233; 19990; 128512] = true
  /\ unescape (escape false [28; 77; 45; 120; 128; 220; 67; 45]) = [28; 77; 45; 120; 128; 220; 67; 45].
Proof. split; vm_compute; reflexivity. Qed.

(* (b) every key sequence bound in the default keymaps of the current tree
   (coq/Gen/Binds.v, regenerated on every run) round-trips. *)
Theorem C19_default_keys_roundtrip : forall k, In k all_default_keys ->
  unescape (escape false k) = k /\ unescape (escape true k) = k.
Proof. exact default_keys_roundtrip. Qed.

Example C19_default_keys_nonempty : (1000 <? zlen all_default_keys) = true.
Proof. vm_compute. reflexivity. Qed.
