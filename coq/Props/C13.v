(* C13 - inputrc directives apply iff all enclosing conditions hold.
   Property theorems only; proofs are in Proofs/InputrcCond.v. *)
From Model Require Import Base Uni Utf8 Notation Inputrc.
From Proofs Require Import InputrcSafe InputrcCond.

Definition p_init (c : config) : pstate := {| p_keymap := s_emacs; p_conds := [true]; p_cfg := c |}.
Definition r_init (c : config) : rstate := {| r_keymap := s_emacs; r_stack := []; r_cfg := c |}.

(* The property at full strength: for every statement list, the bindings and
   variables the parser ends with are those of the reference evaluator, which
   applies a directive iff every enclosing $if/$else block is active and records
   binds under the keymap of the most recent applied `set keymap`. *)
Definition C13_statement : Prop :=
  forall (o : popts) (inc : config -> list Z -> res (config * Z)) (ss : list stmt) (c : config),
  match ref_run o inc ss (r_init c) with
  | Ok r' => exists p', run_stmts o inc ss (p_init c) = Ok p' /\ p_cfg p' = r_cfg r' /\ p_keymap p' = r_keymap r'
  | Panic s => run_stmts o inc ss (p_init c) = Panic s
  | OutOfFuel => run_stmts o inc ss (p_init c) = OutOfFuel
  end.

(* It is false of the code (known finding C13-nested-if-in-inactive-block):
   $if mode=vi / $if term=xterm / "a": inner / $endif / $endif, read in emacs mode
   on xterm, binds "a". *)
Definition w_if : list Z := s_if.
Definition w_prog : list stmt :=
  [ (s_if, s_mode_eq ++ s_vi, T_construct, 0);
    (s_if, s_term_eq ++ [120], T_construct, 0);
    ([97], [105], T_bind, 0);
    (s_endif, [], T_construct, 0);
    (s_endif, [], T_construct, 0) ].
Definition w_opts : popts := {| o_halt := false; o_strict := false; o_app := []; o_term := [120]; o_mode := s_emacs |}.
Definition w_inc : config -> list Z -> res (config * Z) := fun c _ => Ok (c, 0).

Theorem C13_refuted : ~ C13_statement.
Proof.
  intros H. specialize (H w_opts w_inc w_prog {| c_vars := []; c_binds := [] |}).
  vm_compute in H. destruct H as (p' & H1 & H2 & _). inversion H1. subst. discriminate H2.
Qed.

(* What is proved: the statement holds for every program in which no $if or $else
   is reached while an enclosing block is inactive (nni) - in particular for every
   program without nested blocks.  Missing for the full statement: exactly the
   programs of the known finding. *)
Theorem C13_partial :
  forall (o : popts) (inc : config -> list Z -> res (config * Z)) (ss : list stmt) (c : config),
  nni o [] ss = true ->
  match ref_run o inc ss (r_init c) with
  | Ok r' => exists p', run_stmts o inc ss (p_init c) = Ok p' /\ p_cfg p' = r_cfg r' /\ p_keymap p' = r_keymap r'
  | Panic s => run_stmts o inc ss (p_init c) = Panic s
  | OutOfFuel => run_stmts o inc ss (p_init c) = OutOfFuel
  end.
Proof.
  intros o inc ss c Hn.
  pose proof (run_related o inc ss (p_init c) (r_init c)) as H.
  assert (Hrel : related (p_init c) (r_init c)) by (repeat split).
  specialize (H Hrel eq_refl Hn).
  destruct (ref_run o inc ss (r_init c)) as [r'| |]; try exact H.
  destruct H as (p' & H1 & (H2 & H3 & _)). exists p'. repeat split; assumption.
Qed.

(* Parse itself is that statement loop applied to the lexed lines (haltOnErr off). *)
Theorem C13_parse_is_statement_loop : forall o inc lines tl c,
  o_halt o = false -> inc_good inc -> cfg_typed c ->
  exists p' errs ret, parse_lines o inc lines tl (p_init c) 1 [] = Ok (p', errs, ret) /\
                      run_stmts o inc (stmts_of lines) (p_init c) = Ok p'.
Proof.
  intros o inc lines tl c Hh Hinc Hc. apply parse_lines_run; try assumption.
  split; [cbn; discriminate | exact Hc].
Qed.

(* non-vacuity: an $if/$else program with a set keymap satisfies nni and binds
   under the selected keymap only in the active branch *)
Example C13_nonvacuous :
  let prog := [ (s_if, s_mode_eq ++ s_emacs, T_construct, 0);
                (s_keymap, s_vi, T_set, 0);
                ([97], [105], T_bind, 0);
                (s_else, [], T_construct, 0);
                ([98], [106], T_bind, 0);
                (s_endif, [], T_construct, 0);
                ([99], [107], T_macro, 0) ] in
  nni w_opts [] prog = true /\
  match run_stmts w_opts w_inc prog (p_init {| c_vars := []; c_binds := [] |}) with
  | Ok p => (zlen (c_binds (p_cfg p)) =? 2) && eqlZ (p_keymap p) s_vi
  | _ => false
  end = true.
Proof. split; vm_compute; reflexivity. Qed.
