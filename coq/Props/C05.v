(* C05 - the result does not depend on how input is chunked.
   Property theorems only; proofs are in Proofs/LoopP.v. *)
From Model Require Import Base Uni Utf8 Notation Dispatch.
From Proofs Require Import DispatchP LoopP LoopViP.

Section C05.
  (* any application state and any commands, as long as a command acts on that state
     only (it does not read keys itself: argument-reading commands are outside this
     theorem, see DESIGN.md); any non-empty bind table without macro bindings; an
     emacs main keymap; convert-meta off (with it on, the per-read conversion is the
     identity on ASCII) *)
  Variable A : Type.
  Variable exec : list Z -> list Z -> A -> option (A * bool).
  Variable t : table.
  Hypothesis t_nonempty : t <> [].
  Hypothesis no_macros : forall e, In e t -> snd (snd e) = false.

  Definition fuel_for (cs : list (list Z)) : nat := S (weight cs).

  (* what is observable of a Readline call at the end of the script: returned or
     still waiting, the state the commands built (the line, the error), and the keys
     read but not yet dispatched *)
  Definition result (cs : list (list Z)) (a0 : A) : option (bool * A * list Z) :=
    obs A (loop A exec (fuel_for cs) false t (init_state A false a0) (map Chunk cs)).

  (* the result is a function of the bytes typed: it is what one pass of the abstract
     machine over the concatenation gives *)
  Theorem C05_result_is_a_function_of_the_bytes : forall cs a0,
    Forall (fun c => c <> []) cs ->
    result cs a0 = aobs A (afeed A exec t (S (length (concat cs))) no_bind [] a0 (concat cs)).
  Proof.
    intros cs a0 Hcs. unfold result, fuel_for.
    destruct (LoopP.loop_is_machine A exec t t_nonempty no_macros (weight cs)) as [_ H].
    change (init_state A false a0) with (LoopP.mk A no_bind no_bind [] [] false a0).
    rewrite (H (S (weight cs)) (S (length (concat cs))) no_bind no_bind [] [] false a0 cs); auto; try (cbn; lia).
    - rewrite achunks_concat by lia. reflexivity.
    - apply LoopP.stable_nil.
  Qed.

  (* hence: two ways of cutting the same bytes into reads give the same result -
     one read ("paste"), one byte per read, a cut in the middle of an escape sequence
     or of a UTF-8 character, anything *)
  Theorem C05_chunking_does_not_matter : forall cs1 cs2 a0,
    Forall (fun c => c <> []) cs1 -> Forall (fun c => c <> []) cs2 ->
    concat cs1 = concat cs2 -> result cs1 a0 = result cs2 a0.
  Proof.
    intros cs1 cs2 a0 H1 H2 E.
    rewrite (C05_result_is_a_function_of_the_bytes cs1 a0 H1), (C05_result_is_a_function_of_the_bytes cs2 a0 H2).
    rewrite E. reflexivity.
  Qed.
End C05.

(* non-vacuity: probe commands on a table with overlapping prefixes; "ab" "ac" ESC "a"
   typed as one read and as one byte per read *)
Example C05_example :
  let t := [([97], ([112; 49], false)); ([97; 98], ([112; 50], false)); ([225], ([112; 51], false))] in
  let keys := [97; 98; 97; 99; 27; 97] in
  result probe_log (probe_exec (fun _ => true)) t [keys] [] =
  result probe_log (probe_exec (fun _ => true)) t (map (fun k => [k]) keys) []
  /\ (match result probe_log (probe_exec (fun _ => true)) t [keys] [] with
      | Some (_, log, _) => map fst log
      | None => []
      end) = [[112; 50]; [112; 49]; [112; 51]].
Proof. split; vm_compute; reflexivity. Qed.

(* The same in a Vi main keymap, for input that contains no ESC byte (the property itself
   leaves the timing of a lone ESC in Vi modes aside): the Vi loop is the same abstract
   machine (Proofs/LoopViP.v), so the result is a function of the bytes there too. *)
Section C05vi.
  Variable A : Type.
  Variable exec : list Z -> list Z -> A -> option (A * bool).
  Variable t : table.
  Hypothesis t_nonempty : t <> [].
  Hypothesis no_macros : forall e, In e t -> snd (snd e) = false.

  Definition result_vi (cs : list (list Z)) (a0 : A) : option (bool * A * list Z) :=
    obs A (loop A exec (S (weight cs)) false t (init_state A true a0) (map Chunk cs)).

  Theorem C05_vi_result_is_a_function_of_the_bytes : forall cs a0,
    Forall (fun c => c <> []) cs -> ~ In 27 (concat cs) ->
    result_vi cs a0 = aobs A (afeed A exec t (S (length (concat cs))) no_bind [] a0 (concat cs)).
  Proof.
    intros cs a0 Hcs Hesc. unfold result_vi.
    assert (NE : Forall (fun c => ~ In 27 c) cs).
    { clear - Hesc. induction cs as [|c cs IH]; constructor.
      - intros X. apply Hesc. cbn [concat]. apply in_or_app. left. exact X.
      - apply IH. intros X. apply Hesc. cbn [concat]. apply in_or_app. right. exact X. }
    destruct (LoopViP.loop_is_machine A exec t true t_nonempty no_macros (weight cs)) as [_ H].
    change (init_state A true a0) with (LoopViP.mk A true no_bind no_bind [] [] false a0).
    rewrite (H (S (weight cs)) (S (length (concat cs))) no_bind no_bind [] [] false a0 cs); auto; try (cbn; lia).
    - rewrite achunks_concat by lia. reflexivity.
    - apply LoopViP.stable_nil.
    - intros X; exact X.
  Qed.

  Theorem C05_vi_chunking_does_not_matter : forall cs1 cs2 a0,
    Forall (fun c => c <> []) cs1 -> Forall (fun c => c <> []) cs2 -> ~ In 27 (concat cs1) ->
    concat cs1 = concat cs2 -> result_vi cs1 a0 = result_vi cs2 a0.
  Proof.
    intros cs1 cs2 a0 H1 H2 He E.
    rewrite (C05_vi_result_is_a_function_of_the_bytes cs1 a0 H1 He).
    rewrite (C05_vi_result_is_a_function_of_the_bytes cs2 a0 H2 ltac:(rewrite <- E; exact He)).
    rewrite E. reflexivity.
  Qed.
End C05vi.
