(* C04 - the terminal shows exactly the buffer, cursor on the right cell.
   Property theorems only; proofs are in Proofs/DisplayP.v.
   Model/Term.v is the terminal (xterm's deferred wrap); Model/Display.v holds the
   transliterated display arithmetic (RealLength, LineSpan, CoordinatesLine,
   CoordinatesCursor) and the reference `layout` (prompt and buffer written character
   by character on the terminal).  PARTIAL: what is proved is the cursor clause for
   printable-ASCII prompts and single-line buffers of ANY length on ANY width; the
   screen-content clause, wide characters, tabs, embedded newlines and the escape
   sequences Refresh emits are judged on every run by replaying everything the real
   library writes through the extracted Term.v and comparing with `layout`
   (three recorded findings: DESIGN.md C04). *)
From Model Require Import Base Utf8 Term Display.
From Proofs Require Import DisplayP.
Open Scope Z_scope.

(* On the terminal model, writing n printable ASCII characters advances the cell where the
   next character lands by exactly n positions in row-major order, for any width, from any
   cursor state (pending wrap included), as long as the screen does not scroll. *)
Theorem C04_terminal_wraps_at_the_width : forall s t, ascii_text s = true -> tinv t ->
  npos t + zlen s <= t_rows t * t_cols t ->
  tinv (fold_left put s t) /\ npos (fold_left put s t) = npos t + zlen s /\
  t_cols (fold_left put s t) = t_cols t /\ t_rows (fold_left put s t) = t_rows t.
Proof. exact puts_npos. Qed.

(* CoordinatesCursor on a single-line ASCII buffer: remainder and quotient by the width *)
Theorem C04_cursor_coordinates : forall w l cpos indent, ascii_text l = true -> 0 <= cpos <= zlen l ->
  coordinates_cursor w l cpos indent = Ok ((cpos + indent) mod w, (cpos + indent) / w).
Proof. exact coordinates_cursor_ascii. Qed.

(* The cursor clause: for every width, every ASCII prompt and single-line buffer that fit
   on the screen (any number of wrapped rows, rows exactly filled included) and every
   cursor position, the (column, row) the code computes for the cursor is the cell on
   which the terminal puts the character at the cursor position. *)
Theorem C04_cursor_on_the_right_cell : forall rows w prompt buf cpos,
  0 < w -> ascii_text prompt = true -> ascii_text buf = true ->
  zlen prompt + zlen buf <= rows * w -> 0 <= cpos <= zlen buf ->
  exists x y, coordinates_cursor w buf cpos (zlen prompt) = Ok (x, y) /\ snd (layout rows w prompt buf cpos) = (y, x).
Proof. exact cursor_on_the_right_cell. Qed.

(* non-vacuity: width 10, prompt "> ", 9 characters, cursor at 8: the row is exactly filled
   and the cursor belongs to the first cell of the next row *)
(* the moves that end display.Engine.Refresh (no hint, no completion menu): from the end of
   the line just written - row r0 + line_rows, any column - they put the terminal cursor on
   row r0 + cursor_row, column cursor_col, the cell CoordinatesCursor computed (which
   C04_cursor_on_the_right_cell shows is the cell of the buffer cursor), whenever the rows
   of the frame and the row below them are on the screen *)
Theorem C04_refresh_ends_on_the_cursor_cell : forall rows cols r0 c cursor_col cursor_row start_cols line_rows,
  0 < cols -> 0 <= r0 -> 0 <= c < cols -> 0 <= cursor_row <= line_rows -> 0 <= cursor_col < cols -> 0 <= start_cols ->
  r0 + line_rows + 1 < rows ->
  fold_left (do_move rows cols) (refresh_tail_moves cols cursor_col cursor_row start_cols line_rows) (r0 + line_rows, c)
  = (r0 + cursor_row, cursor_col).
Proof. exact refresh_ends_on_the_cursor_cell. Qed.

Example C04_example :
  snd (layout 4 10 [62; 32] [97; 98; 99; 100; 101; 102; 103; 104; 105] 8) = (1, 0) /\
  coordinates_cursor 10 [97; 98; 99; 100; 101; 102; 103; 104; 105] 8 2 = Ok (0, 1) /\
  ascii_text [97; 98; 99; 100; 101; 102; 103; 104; 105] = true /\ tinv (term_init 4 10).
Proof. repeat split; try (vm_compute; reflexivity); try (vm_compute; discriminate); cbn; lia. Qed.
