(* C03 - key sequences run exactly the command they are bound to.
   Property theorems only; proofs are in Proofs/DispatchP.v. The statements are
   about one scan of dispatchKeys over the buffered keys (`token`), which
   C03_dispatch_is_token_scan shows to be what the transliterated dispatchKeys
   computes; independence from how the keys were chunked is C05's theorem. *)
From Model Require Import Base Uni Utf8 Notation Dispatch.
From Proofs Require Import DispatchP.

(* what "bound to" means for matchBind: its exact match is the bind of a table entry
   whose (meta-converted) sequence is exactly the keys - or, where the table scan finds
   no command for them and the keymap is one where characters insert themselves
   (it binds a to self-insert), self-insert for the complete UTF-8 encoding of one
   character; its prefix flag is set iff the keys are a proper prefix of some entry's
   sequence, or the incomplete encoding of a character in such a keymap *)
Theorem C03_matchbind_exact : forall t keys,
  (fst (match_bind t keys) = no_bind /\ forall e, In e t -> entry_exact keys e = false) \/
  (exists e, In e t /\ entry_exact keys e = true /\ fst (match_bind t keys) = snd e) \/
  (fst (match_bind t keys) = self_insert_bind /\ is_bound (fst (match_table t keys)) = false /\
   uni_keys t keys = true /\ utf8_char keys = true).
Proof. exact match_bind_exact. Qed.

Theorem C03_matchbind_prefix : forall t keys,
  snd (match_bind t keys) = true <->
  (exists e, In e t /\ entry_ext keys e = true) \/ (uni_keys t keys = true /\ full_rune keys = false).
Proof. exact match_bind_ext. Qed.

Theorem C03_dispatch_is_token_scan : forall f t e k prefix read matched,
  k_macro k = [] -> (length (k_buf k) < f)%nat ->
  match token t (e_prefixed e) read (k_buf k) with
  | TokMore mem read' =>
    exists matched', dispatch_go f t e k prefix read matched =
      ({| e_active := e_active e; e_prefixed := mem; e_vi := e_vi e |}, with_buf k [],
       match k_buf k with [] => prefix | _ => true end, read', matched')
  | TokDone b read' rest =>
    exists matched', dispatch_go f t e k prefix read matched =
      ({| e_active := b; e_prefixed := no_bind; e_vi := e_vi e |}, with_buf k rest, false, read', matched')
  end.
Proof. exact dispatch_go_token. Qed.

(* a bound sequence that no longer binding extends runs exactly its binding, when
   its last key arrives, whatever keys follow *)
Theorem C03_bound_unextended_runs : forall t s read mem rest,
  s <> [] -> all_ext t read s = true ->
  snd (match_bind t (read ++ s)) = false -> is_bound (fst (match_bind t (read ++ s))) = true ->
  token t mem read (s ++ rest) = TokDone (fst (match_bind t (read ++ s))) (read ++ s) rest.
Proof. exact bound_unextended_runs. Qed.

(* while the keys are only a proper prefix of bindings, no command runs *)
Theorem C03_prefix_runs_nothing : forall t s read mem,
  all_ext t read (s ++ [0]) = true ->
  exists mem', token t mem read s = TokMore mem' (read ++ s).
Proof. exact prefix_runs_nothing. Qed.

(* a key matching no binding runs nothing *)
Theorem C03_unbound_key_runs_nothing : forall t key rest,
  match_bind t [key] = (no_bind, false) ->
  token t no_bind [] (key :: rest) = TokDone no_bind [key] rest.
Proof. exact unbound_key_runs_nothing. Qed.

(* whatever a scan runs is the binding of exactly the keys read, or - when the last
   key ruled every longer binding out - the binding of the longest bound proper
   prefix of them (possibly none): never a command bound to another sequence *)
Theorem C03_runs_only_bound_or_shorter : forall t buf mem read b read' rest,
  token t mem read buf = TokDone b read' rest ->
  exists s key, read' = read ++ s ++ [key] /\ buf = s ++ key :: rest /\
    (b = fst (match_bind t read') /\ snd (match_bind t read') = false /\ is_bound b = true
     \/ b = remembered t mem read s /\ match_bind t read' = (fst (match_bind t read'), false)
        /\ is_bound (fst (match_bind t read')) = false).
Proof. exact token_runs_only_bound. Qed.

(* non-vacuity, through the whole loop model: a: p1, ab: p2, \M-a: p3 (typed ESC a);
   "ab" then "ac" then ESC "a" arriving in three reads *)
Example C03_loop_example :
  let t := [([97], ([112; 49], false)); ([97; 98], ([112; 50], false)); ([225], ([112; 51], false))] in
  match loop probe_log (probe_exec (fun _ => true)) 100 true t (init_state probe_log false [])
             [Chunk [97]; Chunk [98; 97; 99]; Chunk [27; 97]] with
  | Waiting _ st => map fst (l_app _ st)
  | _ => []
  end = [[112; 50]; [112; 49]; [112; 51]].
Proof. vm_compute. reflexivity. Qed.
