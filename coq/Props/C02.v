(* C02 - what the user types is what Readline returns.
   Property theorems only; proofs are in Proofs/Utf8P.v (every Unicode scalar value,
   by a finite sweep), Proofs/TypedP.v (table check, editor, abstract machine) and
   Proofs/LoopP.v and Proofs/LoopViP.v (the key loop - Emacs, and Vi on input without ESC -
   is that machine for every cutting into reads). *)
From Coq Require Import String.
From Model Require Import Base Uni Utf8 Notation HistFile Dispatch Editor.
From Gen Require Import Binds.
From Proofs Require Import DispatchP LoopP LoopViP Utf8P TypedP.
Open Scope Z_scope.

(* the effective main keymaps of a fresh shell, regenerated from the live code on every
   run: the table check of TypedP.v holds for them and they bind no macro *)
Definition table_of (name : string) : table :=
  match find (fun p => eqlZ (fst p) (zs name)) effective_binds with Some p => snd p | None => [] end.

Lemma emacs_table_ok : c02_table_ok (table_of "emacs") = true.
Proof. vm_compute. reflexivity. Qed.
Lemma vi_insert_table_ok : c02_table_ok (table_of "vi-insert") = true.
Proof. vm_compute. reflexivity. Qed.
Lemma emacs_no_macros_b : forallb (fun e => negb (snd (snd e))) (table_of "emacs") = true.
Proof. vm_compute. reflexivity. Qed.
Lemma emacs_nonempty : table_of "emacs" <> [].
Proof. vm_compute. discriminate. Qed.
Lemma vi_insert_no_macros_b : forallb (fun e => negb (snd (snd e))) (table_of "vi-insert") = true.
Proof. vm_compute. reflexivity. Qed.
Lemma vi_insert_nonempty : table_of "vi-insert" <> [].
Proof. vm_compute. discriminate. Qed.

(* the text of the property: printable ASCII and every Unicode scalar value from U+00A0
   up (any plane, any width), in any order and number *)
Definition typed_text (s : list Z) : Prop := forallb typable s = true.

(* Emacs mode, the whole model of a Readline call (default emacs keymap of the live
   code + key loop + editor commands; convert-meta off; any bound history `h`, any
   history-size `mx`, memory or file source `mk`): for EVERY typed text and EVERY way
   the terminal cuts its UTF-8 bytes and the final RET into reads, Readline returns,
   with no error, and the line returned is exactly the text. *)
Theorem C02_emacs_returns_the_typed_text : forall s cs mkind mx h,
  typed_text s -> Forall (fun c => c <> []) cs -> concat cs = utf8_encode s ++ [13] ->
  exists e, obs (res ed) (loop (res ed) (ed_exec mkind mx) (S (weight cs)) false (table_of "emacs")
                              (init_state (res ed) false (Ok (ed_init false h))) (map Chunk cs))
            = Some (true, Ok e, []) /\
            line e = s /\ accept_line e = s /\ accept_err e = 0.
Proof.
  intros s cs mkind mx h Hs Hcs Hcat.
  assert (NM : forall e, In e (table_of "emacs") -> snd (snd e) = false).
  { intros e Hin. pose proof emacs_no_macros_b as B. rewrite forallb_forall in B. specialize (B e Hin).
    destruct e as [k [a m]]. cbn in *. destruct m; [discriminate B | reflexivity]. }
  destruct (LoopP.loop_is_machine (res ed) (ed_exec mkind mx) (table_of "emacs") emacs_nonempty NM (weight cs)) as [_ H].
  change (init_state (res ed) false (Ok (ed_init false h))) with (LoopP.mk (res ed) no_bind no_bind [] [] false (Ok (ed_init false h))).
  rewrite (H (S (weight cs)) (S (length (concat cs))) no_bind no_bind [] [] false (Ok (ed_init false h)) cs);
    auto; try (cbn; lia); [|apply LoopP.stable_nil].
  rewrite achunks_concat by lia. rewrite Hcat.
  destruct (afeed_typed (table_of "emacs") emacs_table_ok mkind mx s [] (ed_init false h)
                        (S (length (utf8_encode s ++ [13]))) Hs (typing_init false h)) as (e & E & L & AL & AE & _).
  { rewrite app_length. pose proof (utf8_encode_length s). cbn. lia. }
  exists e. rewrite E. cbn [aobs]. repeat split; assumption.
Qed.

(* Vi insert mode, the whole model of a Readline call over the default vi-insert keymap of
   the live code: the same statement.  The Vi key loop differs from the Emacs one only in
   how a lone ESC is handled; typed text contains no ESC byte (proved), and for input
   without ESC the Vi loop is the same abstract machine (Proofs/LoopViP.v, Proofs/DecodeP.v). *)
Theorem C02_vi_insert_returns_the_typed_text : forall s cs mkind mx h,
  typed_text s -> Forall (fun c => c <> []) cs -> concat cs = utf8_encode s ++ [13] ->
  exists e, obs (res ed) (loop (res ed) (ed_exec mkind mx) (S (weight cs)) false (table_of "vi-insert")
                              (init_state (res ed) true (Ok (ed_init true h))) (map Chunk cs))
            = Some (true, Ok e, []) /\
            line e = s /\ accept_line e = s /\ accept_err e = 0.
Proof.
  intros s cs mkind mx h Hs Hcs Hcat.
  assert (NM : forall e, In e (table_of "vi-insert") -> snd (snd e) = false).
  { intros e Hin. pose proof vi_insert_no_macros_b as B. rewrite forallb_forall in B. specialize (B e Hin).
    destruct e as [k [a m]]. cbn in *. destruct m; [discriminate B | reflexivity]. }
  assert (NE : Forall (noesc) cs) by (apply concat_no_esc; rewrite Hcat; apply typed_no_esc; exact Hs).
  destruct (LoopViP.loop_is_machine (res ed) (ed_exec mkind mx) (table_of "vi-insert") true vi_insert_nonempty NM (weight cs)) as [_ H].
  change (init_state (res ed) true (Ok (ed_init true h))) with (LoopViP.mk (res ed) true no_bind no_bind [] [] false (Ok (ed_init true h))).
  rewrite (H (S (weight cs)) (S (length (concat cs))) no_bind no_bind [] [] false (Ok (ed_init true h)) cs);
    auto; try (cbn; lia); [| apply LoopViP.stable_nil | intros X; exact X].
  rewrite achunks_concat by lia. rewrite Hcat.
  destruct (afeed_typed (table_of "vi-insert") vi_insert_table_ok mkind mx s [] (ed_init true h)
                        (S (length (utf8_encode s ++ [13]))) Hs (typing_init true h)) as (e & E & L & AL & AE & _).
  { rewrite app_length. pose proof (utf8_encode_length s). cbn. lia. }
  exists e. rewrite E. cbn [aobs]. repeat split; assumption.
Qed.

(* every Unicode scalar value above 0x7f: its UTF-8 encoding is complete only at its
   last byte and decodes to the character (the facts the dispatch of a character cut
   by the end of a read relies on) *)
Theorem C02_every_scalar_value : forall c, 128 <= c <= 1114111 -> ~ (55296 <= c <= 57343) -> high_ok c = true.
Proof. exact high_chars. Qed.

(* non-vacuity: "héllo 世😀" + RET, one byte per read, through the full model *)
Example C02_example :
  let s := [104; 233; 108; 108; 111; 32; 19990; 128512] in
  typed_text s /\
  match loop (res ed) (ed_exec true (-1)) 1000 false (table_of "emacs") (init_state _ false (Ok (ed_init false [])))
             (map (fun b => Chunk [b]) (utf8_encode s ++ [13])) with
  | Returned _ st => match l_app _ st with Ok e => eqlZ (line e) s | _ => false end
  | _ => false
  end = true.
Proof. split; vm_compute; reflexivity. Qed.
