(* C02 - what the user types is what Readline returns.
   Property theorems only; proofs are in Proofs/Utf8P.v (every Unicode scalar value,
   by a finite sweep), Proofs/TypedP.v (table check, editor, abstract machine) and
   Proofs/LoopP.v (the key loop is that machine for every cutting into reads). *)
From Coq Require Import String.
From Model Require Import Base Uni Utf8 Notation HistFile Dispatch Editor.
From Gen Require Import Binds.
From Proofs Require Import DispatchP LoopP Utf8P TypedP.
Open Scope Z_scope.

(* the effective main keymaps of a fresh shell, regenerated from the live code on every
   run: the table check of TypedP.v holds for them and they bind no macro *)
Definition table_of (name : string) : table :=
  match find (fun p => eqlZ (fst p) (zs name)) effective_binds with Some p => snd p | None => [] end.

Lemma emacs_table_ok : c02_table_ok (table_of "emacs") = true.
Proof. vm_compute. reflexivity. Qed.
Lemma vi_insert_table_ok : c02_table_ok (table_of "vi-insert") = true.
Proof. vm_compute. reflexivity. Qed.
Lemma emacs_no_macros_b : forallb (fun e => negb (snd (snd e))) (table_of "emacs") = true.
Proof. vm_compute. reflexivity. Qed.
Lemma emacs_nonempty : table_of "emacs" <> [].
Proof. vm_compute. discriminate. Qed.

(* the text of the property: printable ASCII and every Unicode scalar value from U+00A0
   up (any plane, any width), in any order and number *)
Definition typed_text (s : list Z) : Prop := forallb typable s = true.

(* Emacs mode, the whole model of a Readline call (default emacs keymap of the live
   code + key loop + editor commands; convert-meta off; any bound history `h`, any
   history-size `mx`, memory or file source `mk`): for EVERY typed text and EVERY way
   the terminal cuts its UTF-8 bytes and the final RET into reads, Readline returns,
   with no error, and the line returned is exactly the text. *)
Theorem C02_emacs_returns_the_typed_text : forall s cs mkind mx h,
  typed_text s -> Forall (fun c => c <> []) cs -> concat cs = utf8_encode s ++ [13] ->
  exists e, obs (res ed) (loop (res ed) (ed_exec mkind mx) (S (weight cs)) false (table_of "emacs")
                              (init_state (res ed) false (Ok (ed_init false h))) (map Chunk cs))
            = Some (true, Ok e, []) /\
            line e = s /\ accept_line e = s /\ accept_err e = 0.
Proof.
  intros s cs mkind mx h Hs Hcs Hcat.
  assert (NM : forall e, In e (table_of "emacs") -> snd (snd e) = false).
  { intros e Hin. pose proof emacs_no_macros_b as B. rewrite forallb_forall in B. specialize (B e Hin).
    destruct e as [k [a m]]. cbn in *. destruct m; [discriminate B | reflexivity]. }
  destruct (loop_is_machine (res ed) (ed_exec mkind mx) (table_of "emacs") emacs_nonempty NM (weight cs)) as [_ H].
  change (init_state (res ed) false (Ok (ed_init false h))) with (mk (res ed) no_bind no_bind [] [] false (Ok (ed_init false h))).
  rewrite (H (S (weight cs)) (S (length (concat cs))) no_bind no_bind [] [] false (Ok (ed_init false h)) cs);
    auto; try (cbn; lia); [|apply stable_nil].
  rewrite achunks_concat by lia. rewrite Hcat.
  destruct (afeed_typed (table_of "emacs") emacs_table_ok mkind mx s [] (ed_init false h)
                        (S (length (utf8_encode s ++ [13]))) Hs (typing_init false h)) as (e & E & L & AL & AE & _).
  { rewrite app_length. pose proof (utf8_encode_length s). cbn. lia. }
  exists e. rewrite E. cbn [aobs]. repeat split; assumption.
Qed.

(* Vi insert mode: the same on the abstract machine over the default vi-insert keymap
   of the live code (one pass over the bytes typed).  That the vi key loop is this
   machine is proved for the emacs loop only (the vi loop differs in how a lone ESC is
   timed, and typed text contains no ESC); the vi loop itself is compared with the
   implementation by the correspondence run. *)
Theorem C02_vi_insert_machine_returns_the_typed_text : forall s mk mx h f,
  typed_text s -> (length s < f)%nat ->
  exists e, afeed (res ed) (ed_exec mk mx) (table_of "vi-insert") f no_bind [] (Ok (ed_init true h)) (utf8_encode s ++ [13])
            = ARet _ (Ok e) /\
            line e = s /\ accept_line e = s /\ accept_err e = 0.
Proof.
  intros s mk mx h f Hs Hf.
  destruct (afeed_typed (table_of "vi-insert") vi_insert_table_ok mk mx s [] (ed_init true h) f Hs (typing_init true h) Hf)
    as (e & E & L & AL & AE & _).
  exists e. repeat split; assumption.
Qed.

(* every Unicode scalar value above 0x7f: its UTF-8 encoding is complete only at its
   last byte and decodes to the character (the facts the dispatch of a character cut
   by the end of a read relies on) *)
Theorem C02_every_scalar_value : forall c, 128 <= c <= 1114111 -> ~ (55296 <= c <= 57343) -> high_ok c = true.
Proof. exact high_chars. Qed.

(* non-vacuity: "héllo 世😀" + RET, one byte per read, through the full model *)
Example C02_example :
  let s := [104; 233; 108; 108; 111; 32; 19990; 128512] in
  typed_text s /\
  match loop (res ed) (ed_exec true (-1)) 1000 false (table_of "emacs") (init_state _ false (Ok (ed_init false [])))
             (map (fun b => Chunk [b]) (utf8_encode s ++ [13])) with
  | Returned _ st => match l_app _ st with Ok e => eqlZ (line e) s | _ => false end
  | _ => false
  end = true.
Proof. split; vm_compute; reflexivity. Qed.
