(* C08 - accepted lines are recorded in history exactly once.
   Property theorems only; proofs are in Proofs/SourcesP.v. `source_write` is one
   iteration of the loop of Sources.Write (one bound source); `sources_accept` is
   Accept(hold, infer, err) over all bound sources (kind: true = in-memory, false =
   file-backed; max_entries: -1 when history-size is unset). *)
From Coq Require Import String.
From Model Require Import Base Uni Utf8 Notation Inputrc HistFile Editor.
From Proofs Require Import SourcesP.
Open Scope Z_scope.

(* (i) every source ends up either unchanged or with exactly one new entry at the end:
   the line as typed (in-memory source) or trimmed (file source) - never anything else,
   never twice; for every line, history-size and prior contents *)
Theorem C08_at_most_once : forall mk mx l es,
  source_write mk mx l es = es \/ source_write mk mx l es = es ++ [src_store mk l].
Proof. exact source_write_cases. Qed.

(* (ii) nothing is recorded when the line is returned with an error, when the accepting
   command replays history instead (operate-and-get-next, accept-and-infer-next-history),
   or when the line is blank - whatever the sources *)
Theorem C08_not_recorded : forall err inf mx l srcs,
  err <> 0 \/ inf = true \/ trim_space l = [] -> sources_accept err inf mx l srcs = srcs.
Proof. exact accept_not_recorded. Qed.

(* ... nor in a source whose most recent entry equals the line up to whitespace *)
Theorem C08_duplicate_of_last_not_recorded : forall mk mx l es, es <> [] -> last_entry es <> [] ->
  trim_space (last_entry es) = trim_space l -> source_write mk mx l es = es.
Proof. exact source_write_dup. Qed.

(* ... nor once the source already holds history-size entries *)
Theorem C08_full_source_not_recorded : forall mk mx l es, 0 < mx -> mx <= zlen es -> source_write mk mx l es = es.
Proof. exact source_write_full. Qed.

(* (iii) otherwise the line IS recorded, in every bound source independently *)
Theorem C08_recorded_in_every_source : forall mx l srcs, trim_space l <> [] ->
  sources_accept 0 false mx l srcs = map (fun s => (fst s, source_write (fst s) mx l (snd s))) srcs.
Proof. exact accept_per_source. Qed.

Theorem C08_recorded : forall mk mx l es,
  (mx < 0 \/ zlen es < mx) ->
  (es = [] \/ last_entry es = [] \/ trim_space (last_entry es) <> trim_space l) ->
  source_write mk mx l es = es ++ [src_store mk l].
Proof. exact source_write_appends. Qed.

(* non-vacuity: two sources (memory, file), history-size 3: the first is full, the second records *)
Example C08_example :
  sources_accept 0 false 3 (zs " ls -l ")
    [(true, [zs "a"; zs "b"; zs "c"]); (false, [zs "a"])]
  = [(true, [zs "a"; zs "b"; zs "c"]); (false, [zs "a"; zs "ls -l"])].
Proof. vm_compute. reflexivity. Qed.
