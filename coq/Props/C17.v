From Model Require Import Base.
Example C17_placeholder : True. Proof. exact I. Qed.
