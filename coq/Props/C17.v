(* C17 - vi delete removes exactly what yank would copy.
   Property theorems only; proofs are in Proofs/EditorP.v. *)
From Coq Require Import String.
From Model Require Import Base Uni Utf8 Notation Inputrc HistFile Editor.
From Proofs Require Import EditorP.
Open Scope Z_scope.

(* d and y take the same branch of vi-delete-to / vi-yank-to whenever a selection is
   active when they run: in visual mode (v<motion>d / v<motion>y) and, in operator-
   pending mode, when the pending operator runs after its motion or text object (the
   motion only moved the cursor or set the selection). From ANY such state - any
   buffer, cursor, selection (pending or explicit, visual or not, line-wise or not),
   any motion that was the active command - the two commands:
     - read the same region: what delete cuts is what yank copies (same ring afterwards);
     - yank leaves the buffer unchanged;
     - delete leaves the buffer minus exactly one range [b, ep) of it, that range being
       the text put on the ring. *)
Theorem C17_delete_yank_agree : forall e ed ey,
  cmd_vi_delete_sel e = Ok ed -> cmd_vi_yank_sel e = Ok ey ->
  line ey = line e /\ ring ed = ring ey /\
  ((line ed = line e) \/ exists b ep, 0 <= b <= ep /\ ep <= llen e /\
                                      line ed = l_cut (line e) b ep /\
                                      (sub (line e) b ep <> [] -> ring_top ed = sub (line e) b ep)).
Proof. exact vi_delete_yank_commands_agree. Qed.

(* Selection.Pos is stable: the region the operators read does not depend on how
   many times it has been asked for *)
Theorem C17_region_is_stable : forall e e1 b ep, s_pos e = (e1, b, ep) -> s_pos e1 = (e1, b, ep).
Proof. exact s_pos_fix. Qed.

(* non-vacuity through the command interpreter: "foo bar baz", ESC, 0, w, then dw vs yw *)
Definition c17_setup : res ed :=
  let ty := fold_left (fun r c => match r with Ok e => run_one (zs "self-insert") [c] true (-1) e | x => x end)
                      [102; 111; 111; 32; 98; 97; 114; 32; 98; 97; 122] (Ok (ed_init true [])) in
  do e <- ty;
  do e <- run_one (zs "vi-movement-mode") [27] true (-1) e;
  do e <- run_one (zs "beginning-of-line") [48] true (-1) e;
  run_one (zs "vi-forward-word") [119] true (-1) e.

Example C17_example :
  match c17_setup with
  | Ok e =>
    match (do e1 <- run_one (zs "vi-delete-to") [100] true (-1) e; run_one (zs "vi-forward-word") [119] true (-1) e1),
          (do e1 <- run_one (zs "vi-yank-to") [121] true (-1) e; run_one (zs "vi-forward-word") [119] true (-1) e1) with
    | Ok ed, Ok ey =>
      eqlZ (line ed) [102; 111; 111; 32; 98; 97; 122] && eqlZ (ring_top ed) [98; 97; 114; 32]
      && eqlZ (ring_top ey) [98; 97; 114; 32] && eqlZ (line ey) (line e)
    | _, _ => false
    end
  | _ => false
  end = true.
Proof. vm_compute. reflexivity. Qed.
