(* C11 - the terminal is restored on every way out of Readline.
   Property theorems only; proofs are in Proofs/DisplayP.v.
   PARTIAL.  The mode settings (termios) are an ioctl on the real terminal: observed with
   tcgetattr around every Readline call of the check, not modelled.  What is proved is the
   cursor-row clause at the level of the cursor cell: from ANY frame (cursor anywhere in the
   input, any start column), the relative moves of AcceptLine end in column 0 of the row
   below r0 + lineRows, and for a single-line ASCII buffer lineRows is the row of the last
   cell of prompt + text - so that row is below the input.  The cursor-style clause is a
   fact of the byte stream (the last DECSCUSR), checked on the terminal model. *)
From Model Require Import Base Utf8 Term Display.
From Proofs Require Import DisplayP.
Open Scope Z_scope.

Theorem C11_accept_line_ends_on_the_row_below : forall rows cols r0 cursor_col cursor_row start_cols line_rows line_col,
  0 < cols -> 0 <= r0 -> 0 <= cursor_row -> 0 <= cursor_col < cols -> 0 <= start_cols -> 0 <= line_rows -> 0 <= line_col ->
  r0 + cursor_row < rows -> r0 + line_rows + 1 < rows ->
  fold_left (do_move rows cols) (accept_line_moves cols cursor_col cursor_row start_cols line_rows line_col)
            (r0 + cursor_row, cursor_col)
  = (r0 + line_rows + 1, 0).
Proof. exact accept_line_ends_below. Qed.

(* lineRows / lineCol of a single-line ASCII buffer: quotient and remainder of text + prompt by the width *)
Theorem C11_line_rows : forall w l indent, ascii_text l = true ->
  coordinates_line w l indent = ((zlen l + indent) mod w, (zlen l + indent) / w).
Proof. exact coordinates_line_ascii. Qed.

(* the reset sequence ESC [ 0 SP q sets the default cursor style on the terminal model, from any ground state *)
Theorem C11_cursor_style_reset : forall t, t_state t = 0 -> t_utf t = [] ->
  t_style (term_feed t [27; 91; 48; 32; 113]) = 0.
Proof.
  intros t H U. unfold term_feed. cbn [fold_left]. unfold feed_byte at 5. rewrite H, U. cbn.
  reflexivity.
Qed.

Example C11_example :
  fold_left (do_move 24 20) (accept_line_moves 20 5 1 2 2 3) (0 + 1, 5) = (3, 0).
Proof. vm_compute. reflexivity. Qed.
