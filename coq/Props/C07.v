(* C07 - undo walks back through real earlier states; redo reverses undo.
   Property theorems only; proofs are in Proofs/UndoP.v. The theorems are about
   the text projection of the undo log (Model/UndoLog.v); C07_model_projection shows
   that Save / Undo / Redo of the full editor model project onto it. A command is
   abstracted to what it does to the log: it may Save on entry, produces a new text,
   may SkipSave; the main loop saves after every command. *)
From Coq Require Import String.
From Model Require Import Base Uni Utf8 Notation Inputrc HistFile Editor UndoLog.
From Proofs Require Import EditorP UndoP.
Open Scope Z_scope.

(* (a) for every sequence of commands from the initial state of a line: the text an
   undo (or redo) step shows is one of the texts shown at an earlier step *)
Theorem C07_undo_shows_an_earlier_state : forall t0 pre o,
  (o = UUndo \/ o = URedo) ->
  In (fst (ul_step (ul_final (ul_init t0) pre) o)) (ul_run (ul_init t0) pre).
Proof.
  intros t0 pre o Ho.
  assert (Hinv : inv [t0] (ul_init t0)).
  { split; [left; reflexivity|]. split; [intros it [H|[]]; left; exact H | cbn; lia]. }
  pose proof (undo_shows_earlier (pre ++ o :: []) [t0] (ul_init t0) pre o [] Hinv eq_refl Ho) as H.
  destruct pre as [|p pre']; cbn [ul_run tl app] in *; exact H.
Qed.

(* (d) a new edit - whatever the command, saved or not - discards the redo branch:
   redo right after it changes nothing *)
Theorem C07_edit_discards_redo_branch : forall t0 ops pre t skp,
  fst (ul_step (ul_step (ul_final (ul_init t0) ops) (UEdit pre t skp)) URedo) = t.
Proof.
  intros t0 ops pre t skp. apply edit_discards_redo.
  destruct ops as [|o ops'] using rev_ind; [reflexivity|].
  assert (F : forall st os o, ul_final st (os ++ [o]) = ul_step (ul_final st os) o).
  { intros st os. revert st. induction os as [|x os IH]; intros st o'; [reflexivity|]. cbn [app ul_final]. apply IH. }
  rewrite F. apply step_undoing_false.
Qed.

(* (c) is false of the code: "abc" typed, undo, redo shows the empty line
   (known finding C07-redo-unsaved-state) *)
Definition C07_redo_reverses_undo_statement : Prop :=
  forall t0 ops n, let st := ul_final (ul_init t0) ops in
  fst (ul_final st (repeat UUndo n ++ repeat URedo n)) = fst st.

Theorem C07_redo_reverses_undo_refuted : ~ C07_redo_reverses_undo_statement.
Proof.
  intros H. specialize (H [] [UEdit false t_abc true] 1%nat). vm_compute in H. discriminate H.
Qed.

(* (b) is false of the code: a saved edit right after undoing to the oldest state drops
   the whole log (known finding C07-edit-at-oldest-state-drops-log) *)
Definition C07_undo_reaches_initial_statement : Prop :=
  forall t0 ops, exists n, fst (ul_final (ul_init t0) (ops ++ repeat UUndo n)) = t0.

Theorem C07_undo_reaches_initial_refuted : ~ C07_undo_reaches_initial_statement.
Proof.
  intros H.
  destruct (H [] [UEdit false t_abc true; UEdit true [] false; UUndo; UUndo; UEdit false t_abc false]) as [n Hn].
  assert (G : forall n, fst (ul_final (ul_init []) ([UEdit false t_abc true; UEdit true [] false; UUndo; UUndo; UEdit false t_abc false] ++ repeat UUndo n)) = t_abc).
  { clear. intros n.
    change (fst (ul_final (ul_final (ul_init []) [UEdit false t_abc true; UEdit true [] false; UUndo; UUndo; UEdit false t_abc false]) (repeat UUndo n)) = t_abc).
    set (st := ul_final (ul_init []) _).
    assert (E : st = (t_abc, {| ul_items := [t_abc]; ul_pos := 0; ul_skip := false; ul_undoing := false |})) by (vm_compute; reflexivity).
    rewrite E. clear E st.
    assert (K : forall m p, (p = 0 \/ p = 1) ->
      fst (ul_final (t_abc, {| ul_items := [t_abc]; ul_pos := p; ul_skip := false; ul_undoing := false |}) (repeat UUndo m)) = t_abc).
    { intros m. induction m as [|m IH]; intros p Hp; [reflexivity|]. cbn [repeat ul_final].
      destruct Hp; subst p.
      - assert (S : ul_step (t_abc, {| ul_items := [t_abc]; ul_pos := 0; ul_skip := false; ul_undoing := false |}) UUndo
                    = (t_abc, {| ul_items := [t_abc]; ul_pos := 1; ul_skip := false; ul_undoing := false |})) by (vm_compute; reflexivity).
        rewrite S. apply IH. right. reflexivity.
      - assert (S : ul_step (t_abc, {| ul_items := [t_abc]; ul_pos := 1; ul_skip := false; ul_undoing := false |}) UUndo
                    = (t_abc, {| ul_items := [t_abc]; ul_pos := 1; ul_skip := false; ul_undoing := false |})) by (vm_compute; reflexivity).
        rewrite S. apply IH. right. reflexivity. }
    apply K. left. reflexivity. }
  rewrite G in Hn. discriminate Hn.
Qed.

(* the projection: Save, Undo and Redo of the editor model are these functions on the
   text of the line (cursor positions dropped) *)
Theorem C07_model_projection : forall e,
  (match h_save e with Ok e' => proj e' = ul_save (line e) (proj e) /\ line e' = line e | _ => True end) /\
  (0 <= u_pos (cur_undo e) -> match h_undo e with Ok e' => (line e', proj e') = ul_undo (line e) (proj e) | _ => False end) /\
  (0 <= u_pos (cur_undo e) <= zlen (u_items (cur_undo e)) ->
   match h_redo e with Ok e' => (line e', proj e') = ul_redo (line e) (proj e) | _ => False end).
Proof. intros e. split; [apply proj_save | split; [apply proj_undo | apply proj_redo]]. Qed.

(* non-vacuity: a run with saved edits in which undo and redo do move *)
Example C07_example :
  ul_run (ul_init []) [UEdit true [97] false; UEdit true [97; 98] false; UUndo; UUndo; URedo; UEdit true [99] false; URedo]
  = [[]; [97]; [97; 98]; [97]; []; [97]; [99]; [99]].
Proof. vm_compute. reflexivity. Qed.
