From Model Require Import Base.
Example C06_placeholder : True. Proof. exact I. Qed.
