(* C06 - cursor and selection stay inside the buffer; movements never edit.
   Property theorems only; proofs are in Proofs/BoundsP.v and Proofs/EditorP.v. *)
From Coq Require Import String.
From Model Require Import Base Uni Utf8 Notation Inputrc HistFile Editor.
From Proofs Require Import EditorP BoundsP.
Open Scope Z_scope.

(* After EVERY command the main loop runs (the command, a pending vi operator, the
   cursor check, the undo save), whatever the command, its keys and the state it
   started from: 0 <= cursor <= length, and in vi command mode the cursor is on a
   character unless the buffer or the cursor's line is empty. *)
Theorem C06_cursor_inside_buffer_after_every_command : forall name keys mk mx e e',
  run_one name keys mk mx e = Ok e' ->
  0 <= cpos e' <= llen e' /\
  (kmain e' = M_vicmd -> cpos e' < llen e' \/ c_on_empty_line e' = Ok true).
Proof. exact run_one_cursor_bounds. Qed.

(* An active selection as the API reports it (Selection.Pos) lies inside the buffer. *)
Theorem C06_selection_inside_buffer : forall e e1 b ep, s_pos e = (e1, b, ep) ->
  (b = -1 /\ ep = -1) \/ (0 <= b <= llen e /\ (ep = -1 \/ b <= ep <= llen e)).
Proof.
  intros e e1 b ep H. unfold s_pos in H.
  destruct ((llen e =? 0) || negb (s_active (sel e))); [inversion H; left; split; reflexivity|].
  destruct (s_check_range e (s_bpos (sel e)) (s_epos (sel e))) as [[b0 ep0] ok] eqn:E1.
  destruct ok; cbn [negb] in H.
  2:{ inversion H; subst. unfold s_check_range in E1.
      repeat match type of E1 with context[if ?c then _ else _] => destruct c end; inversion E1; left; split; reflexivity. }
  match type of H with context[c_check_append ?x] => set (ea := c_check_append x) in * end.
  destruct (if ep0 =? -1 then s_select_to_cursor ea b0 else (b0, ep0)) as [b1 ep1].
  destruct (s_check_range ea b1 (if s_visual (sel ea) then ep1 + 1 else ep1)) as [[b2 ep2] ok2] eqn:E2.
  destruct ok2; cbn [negb] in H; inversion H; subst; [|left; split; reflexivity].
  right. apply s_check_range_out in E2. change (llen ea) with (llen e) in E2. tauto.
Qed.

(* The commands documented as pure movements (and the numeric-argument commands) leave
   the text of the buffer exactly as it was - every state, argument and key. *)
Theorem C06_movements_never_edit : forall name keys mk mx e e',
  In name pure_commands -> run_command name keys mk mx e = Ok e' -> line e' = line e.
Proof. exact pure_commands_keep_line. Qed.

(* The yank operator leaves the buffer unchanged (C17's theorem, restated here). *)
Theorem C06_yank_operator_never_edits : forall e ed ey,
  cmd_vi_delete_sel e = Ok ed -> cmd_vi_yank_sel e = Ok ey -> line ey = line e.
Proof. intros e ed ey Hd Hy. exact (proj1 (vi_delete_yank_commands_agree e ed ey Hd Hy)). Qed.

(* non-vacuity: the list is the one intended, and a command sequence ending in vi
   command mode at the end of the text *)
Example C06_example :
  (16 =? zlen pure_commands) = true /\
  match fold_left (fun r c => match r with Ok e => run_one (zs "self-insert") [c] true (-1) e | x => x end)
                  [97; 98; 99] (Ok (ed_init true [])) with
  | Ok e => match run_one (zs "vi-movement-mode") [27] true (-1) e with
            | Ok e' => (cpos e' =? 2) && (llen e' =? 3)
            | _ => false end
  | _ => false
  end = true.
Proof. split; vm_compute; reflexivity. Qed.
