(* C18 - replaying a keyboard macro equals retyping its keys.
   Property theorems only; proofs are in Proofs/MacroP.v and Proofs/NotationP.v.
   The model (Model/Macro.v) is the recorder of internal/macro driven the way the Readline
   loop drives it: RecordKeys + FlushUsed at the top of every iteration, then a command
   with the keys that matched it.  What is proved: whatever commands run between the
   start and the end of a recording, the replay feeds back exactly the keys those
   commands were called with, in order, in both styles - so that dispatching the fed
   keys is dispatching the recorded ones.  That the Readline loop then runs on the fed keys
   exactly as on the same bytes returned by a read is C18_fed_keys_run_like_typed_bytes
   (Proofs/FeedP.v: a simulation between key stacks holding fed keys and key stacks holding
   their bytes, through Keys.Peek/Pop/MatchedKeys/MatchedPrefix/WaitAvailableKeys, the
   dispatcher and the loop, for every keymap without macro bindings, every command
   semantics and any fuel); fed keys are popped as byte(rune), which is the typed byte for
   single-byte keys only: it is refuted for characters above 0x7f (known finding), and
   the timing of a lone ESC in vi keymaps cannot be replayed (known finding): DESIGN.md C18. *)
From Model Require Import Base Uni Notation Utf8 Macro Dispatch.
From Proofs Require Import NotationP MacroP FeedP UndoCtxP.
Open Scope Z_scope.

(* the recorded text survives its inputrc notation (the codec of C19) *)
Theorem C18_macro_notation_round_trips : forall K, forallb dom K = true -> unescape (escape true K) = K.
Proof. intros K H. apply unescape_escape. exact H. Qed.

(* Emacs style: start-kbd-macro, any commands called with keys k1..kn, end-kbd-macro,
   call-last-kbd-macro: the keys fed back are k1 ++ ... ++ kn *)
Theorem C18_emacs_replay_feeds_the_recorded_keys : forall sk ek ck kss s0,
  m_rec s0 = false -> m_cur s0 = [] -> norm sk <> [] ->
  Forall (fun k => norm k <> []) kss -> kss <> [] -> forallb dom (concat (map norm kss)) = true ->
  let s := fold_left mstep ([MStart 0 sk] ++ map MKeys kss ++ [MStop 0 ek; MCallLast ck]) s0 in
  m_fed s = m_fed s0 ++ concat (map norm kss) /\ m_rec s = false.
Proof. intros sk ek ck kss s0 R0 C0. exact (replay_feeds_recorded_keys false 0 sk ek ck kss s0 R0 C0 eq_refl). Qed.

(* Vi style: record into register r, run by name *)
Theorem C18_vi_replay_feeds_the_recorded_keys : forall r sk ek ck kss s0,
  valid_macro_id r = true ->
  m_rec s0 = false -> m_cur s0 = [] -> norm sk <> [] ->
  Forall (fun k => norm k <> []) kss -> kss <> [] -> forallb dom (concat (map norm kss)) = true ->
  let s := fold_left mstep ([MStart r sk] ++ map MKeys kss ++ [MStop r ek; MRun r ck]) s0 in
  m_fed s = m_fed s0 ++ concat (map norm kss) /\ m_rec s = false.
Proof.
  intros r sk ek ck kss s0 Hr R0 C0. apply (replay_feeds_recorded_keys true r sk ek ck kss s0 R0 C0).
  rewrite Hr. reflexivity.
Qed.

(* single-byte keys: the command saw the bytes typed, and fed keys are popped as those bytes *)
Theorem C18_single_byte_keys_are_replayed_as_typed : forall k s,
  Forall (fun c => 0 <= c < 128) k -> norm k = k /\
  (Forall (fun c => 0 <= c < 256) (m_fed s) -> fed_bytes s = m_fed s).
Proof. intros k s H. split; [apply norm_ascii; exact H | apply fed_bytes_small]. Qed.

(* the macro command has run and fed `rs` back: from there the loop (any keymap without
   macro bindings, any command semantics `exec`, any fuel) behaves exactly as if the bytes
   of `rs` were returned by the next read - same commands with the same keys, same
   engine, same application state, same outcome (returned / waiting / ended), key stacks
   holding the same bytes *)
Theorem C18_fed_keys_run_like_typed_bytes : forall A exec t fuel eng app m rs ins,
  t <> [] -> table_no_macros t -> eng_ok eng -> rs <> [] ->
  let k0 := {| k_buf := []; k_macro := []; k_matched := m; k_must_wait := false |} in
  orel A (loop A exec (S fuel) false t {| l_eng := eng; l_keys := feed k0 rs; l_app := app |} ins)
         (loop A exec (S fuel) false t {| l_eng := eng; l_keys := k0; l_app := app |} (Chunk (map b256 rs) :: ins)).
Proof. exact fed_like_typed. Qed.

(* ... and in general: two loops whose key stacks hold the same bytes, one of them as fed keys *)
Theorem C18_loop_simulation : forall A exec t, t <> [] -> table_no_macros t ->
  forall fuel cm st1 st2 ins, srel A st1 st2 -> orel A (loop A exec fuel cm t st1 ins) (loop A exec fuel cm t st2 ins).
Proof. exact loop_R. Qed.

(* refuted beyond one byte: a recorded character such as U+4E16 is fed back as one rune
   and popped as byte(rune) = 0x16, not as its UTF-8 bytes e4 b8 96 *)
Theorem C18_multibyte_keys_refuted :
  let s := mrun [MStart 0 [24; 40]; MKeys [19990]; MStop 0 [24; 41]; MCallLast [24; 101]] in
  m_fed s = [19990] /\ fed_bytes s = [22] /\ utf8_encode [19990] = [228; 184; 150].
Proof. vm_compute. repeat split; reflexivity. Qed.

(* refuted in the presence of undo (known finding undo-one-more-command), on the editor model
   the sessions are compared with: the keys K = a C-_ C-k a typed after ONE command that
   changes nothing (the end of the recording) and after TWO (the end of the recording, then
   the replay command itself) end with different buffers - `x a` and `x aa`, what the real
   sessions show - although the keys are the same: the save after every command refreshes
   the cursor kept in the newest undo snapshot *)
Theorem C18_one_more_command_changes_undo_refuted :
  ed_result (undo_pre ++ [nop_cmd] ++ undo_K ++ [nop_cmd] ++ undo_K) = Some ([120; 32; 97], 3) /\
  ed_result (undo_pre ++ [nop_cmd] ++ undo_K ++ [nop_cmd; nop_cmd] ++ undo_K) = Some ([120; 32; 97; 97], 4).
Proof. exact one_more_command_changes_the_result. Qed.

(* non-vacuity: C-x ( a C-a M-b ' \ C-x ) C-x e *)
Example C18_example :
  fed_bytes (mrun [MStart 0 [24; 40]; MKeys [97]; MKeys [1]; MKeys [27; 98]; MKeys [39]; MKeys [92]; MStop 0 [24; 41]; MCallLast [24; 101]])
  = [97; 1; 27; 98; 39; 92]
  /\ forallb dom [97; 1; 27; 98; 39; 92] = true /\ norm [24; 40] <> [].
Proof. split; [vm_compute; reflexivity | split; [vm_compute; reflexivity | vm_compute; discriminate]]. Qed.

(* non-vacuity of the simulation: the live emacs keymap has no macro bindings in it, and the
   initial engine is eng_ok *)
Example C18_sim_example : eng_ok {| e_active := no_bind; e_prefixed := no_bind; e_vi := false |}
  /\ srel (list Z) (init_state _ false []) (init_state _ false []).
Proof. split; [split; reflexivity|]. repeat split; reflexivity. Qed.

Print Assumptions C18_fed_keys_run_like_typed_bytes.
Print Assumptions C18_loop_simulation.
