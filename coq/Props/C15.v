(* C15 - menu completion cycles through every candidate exactly once. *)
From Model Require Import Base Grid.
Open Scope Z_scope.

Example C15_example :
  run_selects {| e_groups := [fresh_group [4; 3; 1] true 4 3 4; fresh_group [1] false 1 1 1]; e_cur := -1 |} [1; 1; 1; 1]
  = [Ok (Some (0, 0, 0)); Ok (Some (0, 1, 0)); Ok (Some (0, 2, 0)); Ok (Some (0, 0, 1))].
Proof. vm_compute. reflexivity. Qed.
