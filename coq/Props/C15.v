(* C15 - menu completion cycles through every candidate exactly once.
   Property theorems only; proofs are in Proofs/GridP.v.  The model (Model/Grid.v) is
   the selector of internal/completion: moveSelector, findFirstCandidate, firstCell,
   lastCell, group cycling and Engine.Select; a group is the shape of its grid.
   Proved here for EVERY plain (non-aliased) grid: any number of rows, rows of any
   lengths >= 1.  rank_plain numbers the cells of a grid in row-major order and is a
   bijection between the cells and [0, total): a menu-complete step moves from a cell
   to the cell of the next rank and reports the end of the group exactly on the last
   one, menu-complete-backward to the previous rank and reports the start exactly on
   the first; entering a group from its successor lands on the last rank, from its
   predecessor on rank 0.  Hence N steps in one direction show N distinct candidates
   - all of them - and the next step starts over.
   The same is proved for EVERY aliased group (values sharing descriptions: ragged rows of any
   lengths within maxX, walked column by column through findFirstCandidate, whose loop is
   shown to terminate within its fuel): rank_al numbers the cells in column-major order.
   And for the whole engine, forward (Engine.Select with cycleNextGroup, any number of groups
   of either kind): k menu-complete steps from the candidate of global rank r end on the
   candidate of rank (r + k) mod N, the global rank tells all candidates apart, and the
   first step of a fresh engine shows rank 0 - so N steps show every candidate exactly
   once and step N + 1 is the first again.
   The same backward (cyclePreviousGroup + lastCell): k menu-complete-backward steps end on
   rank (r - k) mod N, and the first backward step of a fresh engine shows the last candidate.
   NOT modelled (DESIGN.md C15): grid construction - the shapes it produces are checked
   against the hypotheses of these theorems on every run. *)
From Model Require Import Base Grid.
From Proofs Require Import GridP EngineP.
Open Scope Z_scope.

Theorem C15_plain_forward_step : forall g c, wf_plain g -> valid g c ->
  match move_selector (at_cell g c) 1 0 with
  | Ok (g', false, _) => g' = at_cell g (pos_of g') /\ valid g (pos_of g') /\ rank_plain g (pos_of g') = rank_plain g c + 1
  | Ok (g', true, next) => (exists a b, g' = set_pos g a b) /\ next = true /\ rank_plain g c = total g - 1
  | _ => False
  end.
Proof. exact plain_forward_rank. Qed.

Theorem C15_plain_backward_step : forall g c, wf_plain g -> valid g c ->
  match move_selector (at_cell g c) (-1) 0 with
  | Ok (g', false, _) => g' = at_cell g (pos_of g') /\ valid g (pos_of g') /\ rank_plain g (pos_of g') = rank_plain g c - 1
  | Ok (g', true, next) => (exists a b, g' = set_pos g a b) /\ next = false /\ rank_plain g c = 0
  | _ => False
  end.
Proof. exact plain_backward_rank. Qed.

(* the rank is a numbering of the cells: within [0, total), no two cells share one *)
Theorem C15_plain_rank_is_a_numbering : forall g, wf_plain g ->
  (forall c, valid g c -> 0 <= rank_plain g c < total g) /\
  (forall c1 c2, valid g c1 -> valid g c2 -> rank_plain g c1 = rank_plain g c2 -> c1 = c2).
Proof. intros g W. split; [intros c; apply rank_plain_range; exact W | intros c1 c2; apply rank_plain_inj; exact W]. Qed.

(* how a group is entered: its first use, and coming back from the next / previous group *)
Theorem C15_plain_entry : forall g, wf_plain g ->
  (g_px g = -1 -> g_py g = -1 -> move_selector g 1 0 = Ok (set_pos g 0 0, false, false)) /\
  (g_px g = -1 -> g_py g = -1 -> move_selector g (-1) 0 = Ok (set_pos g 0 0, true, false)) /\
  rank_plain g (pos_of (first_cell g)) = 0 /\
  (exists g', last_cell g = Ok g' /\ g' = at_cell g (pos_of g') /\ valid g (pos_of g') /\ rank_plain g (pos_of g') = total g - 1).
Proof.
  intros g W. split; [apply plain_fresh_forward; exact W|]. split; [apply plain_fresh_backward; exact W|].
  split; [reflexivity | apply plain_last_rank; exact W].
Qed.

(* non-vacuity: a 3-row grid (4, 4, 2 candidates); and an aliased two-group run of the model *)
Example C15_example :
  wf_plain (fresh_group [4; 4; 2] false 4 3 4) /\ valid (fresh_group [4; 4; 2] false 4 3 4) (1, 3) /\
  run_selects {| e_groups := [fresh_group [4; 3; 1] true 4 3 4; fresh_group [1] false 1 1 1]; e_cur := -1 |} [1; 1; 1; 1]
  = [Ok (Some (0, 0, 0)); Ok (Some (0, 1, 0)); Ok (Some (0, 2, 0)); Ok (Some (0, 0, 1))].
Proof.
  split; [|split; [|vm_compute; reflexivity]].
  - unfold wf_plain, rows_pos, nrows, zlen, fresh_group. cbn. repeat split; try lia; try reflexivity. repeat constructor; lia.
  - unfold valid. repeat split; try (vm_compute; reflexivity); vm_compute; discriminate.
Qed.

(* ---- aliased groups (candidates sharing a description): ragged rows, column-major *)

Theorem C15_aliased_forward_step : forall g c, wf_aliased g -> valid_al g c ->
  match move_selector (at_cell g c) 0 1 with
  | Ok (g', false, _) => g' = at_cell g (pos_of g') /\ valid_al g (pos_of g') /\ rank_al g (pos_of g') = rank_al g c + 1
  | Ok (g', true, next) => (exists a b, g' = set_pos g a b) /\ next = true /\ rank_al g c + 1 = total_al g
  | _ => False
  end.
Proof. exact aliased_forward_rank. Qed.

Theorem C15_aliased_backward_step : forall g c, wf_aliased g -> valid_al g c ->
  match move_selector (at_cell g c) 0 (-1) with
  | Ok (g', false, _) => g' = at_cell g (pos_of g') /\ valid_al g (pos_of g') /\ rank_al g (pos_of g') = rank_al g c - 1
  | Ok (g', true, next) => (exists a b, g' = set_pos g a b) /\ next = false /\ rank_al g c = 0
  | _ => False
  end.
Proof. exact aliased_backward_rank. Qed.

Theorem C15_aliased_rank_is_a_numbering : forall g, wf_aliased g ->
  (forall c, valid_al g c -> 0 <= rank_al g c < total_al g) /\
  (forall c1 c2, valid_al g c1 -> valid_al g c2 -> rank_al g c1 = rank_al g c2 -> c1 = c2).
Proof. intros g W. split; [intros c; apply rank_al_range; exact W | intros c1 c2; apply rank_al_inj; exact W]. Qed.

Theorem C15_aliased_entry : forall g, wf_aliased g ->
  (g_px g = -1 -> g_py g = -1 -> move_selector g 0 1 = Ok (set_pos g 0 0, false, false)) /\
  rank_al g (pos_of (first_cell g)) = 0 /\
  (exists g', last_cell g = Ok g' /\ g' = at_cell g (pos_of g') /\ valid_al g (pos_of g') /\ rank_al g (pos_of g') = total_al g - 1).
Proof.
  intros g W. split; [apply aliased_fresh_forward; exact W|]. split; [reflexivity | apply aliased_last_rank; exact W].
Qed.

(* non-vacuity: the ragged aliased grid [4; 3; 1] *)
Example C15_aliased_example :
  wf_aliased (fresh_group [4; 3; 1] true 4 3 4) /\ valid_al (fresh_group [4; 3; 1] true 4 3 4) (1, 2) /\
  rank_al (fresh_group [4; 3; 1] true 4 3 4) (1, 2) = 6 /\ total_al (fresh_group [4; 3; 1] true 4 3 4) = 8.
Proof.
  split; [|split; [|split; vm_compute; reflexivity]].
  - unfold wf_aliased, nrows, zlen, fresh_group. cbn. repeat split; try lia; try reflexivity. repeat constructor; lia.
  - unfold valid_al, valid. repeat split; try (vm_compute; reflexivity); vm_compute; discriminate.
Qed.

(* ---- the whole engine, forward: any number of groups, plain or aliased *)

(* k menu-complete steps move the global rank by k modulo the number of candidates *)
Theorem C15_forward_cycle : forall k e r, all_wf e -> estate e r ->
  exists e', selects k e = Ok e' /\ all_wf e' /\ gtotals e' = gtotals e /\ estate e' ((r + Z.of_nat k) mod Gtotal e).
Proof. exact forward_steps. Qed.

(* candidates with the same global rank are the same candidate *)
Theorem C15_global_rank_tells_candidates_apart : forall e i1 g1 c1 i2 g2 c2, all_wf e ->
  nth_grp e i1 = Some g1 -> nth_grp e i2 = Some g2 -> gvalid g1 c1 -> gvalid g2 c2 ->
  goffset e i1 + grank g1 c1 = goffset e i2 + grank g2 c2 -> i1 = i2 /\ c1 = c2.
Proof. exact global_rank_inj. Qed.

(* the first menu-complete of a fresh engine shows the first candidate (rank 0) *)
Theorem C15_first_step : forall e g0 rest, all_wf e -> e_cur e = -1 -> e_groups e = g0 :: rest -> g_px g0 = -1 -> g_py g0 = -1 ->
  exists e', select e 1 = Ok e' /\ all_wf e' /\ gtotals e' = gtotals e /\ estate e' 0.
Proof. exact first_select. Qed.

(* k menu-complete-backward steps move the global rank by -k modulo the number of candidates *)
Theorem C15_backward_cycle : forall k e r, all_wf e -> estate e r ->
  exists e', selects_back k e = Ok e' /\ all_wf e' /\ gtotals e' = gtotals e /\ estate e' ((r - Z.of_nat k) mod Gtotal e).
Proof. exact backward_steps. Qed.

(* the first menu-complete-backward of a fresh engine shows the last candidate (rank N - 1) *)
Theorem C15_first_step_backward : forall e g0 rest, all_wf e -> e_cur e = -1 -> e_groups e = g0 :: rest -> g_px g0 = -1 -> g_py g0 = -1 ->
  exists e', select e (-1) = Ok e' /\ all_wf e' /\ gtotals e' = gtotals e /\ estate e' (Gtotal e - 1).
Proof. exact first_select_back. Qed.
