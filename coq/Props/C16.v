(* C16 - yank gives back exactly what kill took.
   Property theorems only; proofs are in Proofs/EditorP.v. *)
From Coq Require Import String.
From Model Require Import Base Uni Utf8 Notation Inputrc HistFile Editor.
From Proofs Require Import EditorP.
Open Scope Z_scope.

(* Line level: what Cut removes, Insert puts back (Insert drops trailing NUL runes
   of its argument, so the text must not end with one) *)
Theorem C16_cut_then_insert : forall l b ep, 0 <= b <= ep -> ep <= zlen l -> no_trailing_nul (sub l b ep) ->
  l_insert (l_cut l b ep) b (sub l b ep) = l.
Proof. exact cut_then_insert. Qed.

(* the kill ring: every kill goes on top, the earlier ones stay below in order -
   "after several kills, yank inserts the most recent one" *)
Theorem C16_ring_most_recent_on_top : forall e t, t <> [] -> ring_top (ring_write e t) = t /\
  (forall k, (k < 9)%nat -> nth (S k) (ring (ring_write e t)) [] = nth k (ring e) []).
Proof. exact ring_write_top. Qed.

(* the common tail of kill-line, kill-word (and of every kill that marks a range, cuts
   it and leaves the cursor at its start): for every buffer, every range inside it and
   every state without an active visual selection, the ring's top is exactly the text
   removed and an immediate yank restores the buffer *)
Theorem C16_kill_range_then_yank : forall e b ep e' e2,
  s_visual (sel e) = false -> 0 <= b < ep -> ep <= llen e -> no_trailing_nul (sub (line e) b ep) ->
  kill_range e b ep b = Ok e' -> it_times e' = [] -> cmd_yank e' = Ok e2 ->
  ring_top e' = sub (line e) b ep /\ line e2 = line e.
Proof. exact kill_range_then_yank. Qed.

Theorem C16_kill_range_removes_exactly_the_range : forall e b ep,
  s_visual (sel e) = false -> 0 <= b < ep -> ep <= llen e ->
  exists e', kill_range e b ep b = Ok e' /\
             line e' = l_cut (line e) b ep /\ ring_top e' = sub (line e) b ep /\ cpos e' = b.
Proof. exact kill_range_spec. Qed.

(* kill-whole-line then yank, from any state and cursor position *)
Theorem C16_kill_whole_line_then_yank : forall e e1 e2,
  line e <> [] -> no_trailing_nul (line e) ->
  cmd_kill_whole_line e = Ok e1 -> it_times e1 = [] -> cmd_yank e1 = Ok e2 ->
  ring_top e1 = line e /\ line e1 = [] /\ line e2 = line e.
Proof. exact kill_whole_line_yank. Qed.

(* non-vacuity, through the command interpreter: "hello world", cursor after "hello",
   kill-line then yank; and the vi clause's counterexample (x on the last character,
   then P) is what the model computes too *)
Example C16_example :
  let ty := fold_left (fun r c => match r with Ok e => run_one (zs "self-insert") [c] true (-1) e | x => x end)
                      [104; 101; 108; 108; 111; 32; 119] (Ok (ed_init false [])) in
  match ty with
  | Ok e =>
    match run_one (zs "backward-char") [] true (-1) e with
    | Ok e1 => match run_one (zs "backward-char") [] true (-1) e1 with
               | Ok e2 => match run_one (zs "kill-line") [] true (-1) e2 with
                          | Ok e3 => match run_one (zs "yank") [] true (-1) e3 with
                                     | Ok e4 => eqlZ (line e3) [104; 101; 108; 108; 111] && eqlZ (ring_top e3) [32; 119]
                                                && eqlZ (line e4) (line e)
                                     | _ => false end
                          | _ => false end
               | _ => false end
    | _ => false end
  | _ => false
  end = true.
Proof. vm_compute. reflexivity. Qed.
