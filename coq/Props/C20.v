(* C20 - resizes and async prints never break an edit in progress.
   Property theorems only; proofs are in Proofs/ProtoP.v.  Model/Proto.v is a transition
   system over the program points of the main loop, of any number of goroutines that
   redisplay concurrently (SIGWINCH watcher, Shell.Printf) and hence ask the terminal for
   the cursor position, of the terminal and of the user; a schedule is any interleaving.
   PARTIAL by nature: data races of the Go memory model, signal delivery and the
   scheduler are outside any Gallina model (every step here is atomic); reads take
   everything queued.  Within the model:
   - proved for every schedule in which the concurrent redisplays start while the main
     loop is blocked waiting for input (the ordinary case): no typed byte is lost,
     duplicated or reordered, no report byte reaches the key buffer;
   - refuted otherwise, with explicit schedules: a redisplay that starts while a command
     runs can lose a key, or reorder two keys; and an asker that went to sleep on the
     channel of one WaitAvailableKeys call is never woken once the main loop has left
     that call (proved: stuck for ever, under every continuation); a report read before
     the asker receives is dropped (non-blocking send), even while the main loop waits. *)
From Model Require Import Base Proto.
From Proofs Require Import ProtoP.
Open Scope Z_scope.

Theorem C20_keys_survive_disturbances_while_waiting : forall n sched s',
  prun_waiting sched (p_init n) = Some s' ->
  p_buf s' ++ users (p_stdin s') = p_typed s'.
Proof.
  intros n sched s' R. exact (proj1 (waiting_schedules_keep_the_keys sched (p_init n) s' (init_safe n) R)).
Qed.

Theorem C20_stale_asker_is_stuck_for_ever : forall sched s i c, stale s i c -> stale (prun sched s) i c.
Proof. exact stale_asker_is_stuck_for_ever. Qed.

(* a resize during a command: the watcher reads stdin itself, the main loop starts
   waiting before the watcher stores what it read: the key typed in between is dropped *)
Theorem C20_key_lost_refuted :
  let s := prun [LAskStart 0; LAskBranch 0; LType 120; LAnswer; LAskRead 0; LMainEnter; LAskFinish 0] (p_init 1) in
  p_typed s = [120] /\ p_buf s = [] /\ p_stdin s = [] /\ p_askers s = [ADone].
Proof. vm_compute. repeat split; reflexivity. Qed.

(* ... or stored after a key typed later *)
Theorem C20_keys_reordered_refuted :
  let s := prun [LAskStart 0; LAskBranch 0; LType 120; LAskRead 0; LType 121; LMainEnter; LMainRead; LAskFinish 0] (p_init 1) in
  p_typed s = [120; 121] /\ p_buf s = [121; 120].
Proof. vm_compute. repeat split; reflexivity. Qed.

(* the report of a redisplay that started during one wait arrives after the main loop has
   left it: it is dropped at the next wait and the watcher sleeps for ever *)
Theorem C20_watcher_stuck_refuted :
  let s := prun [LMainEnter; LAskStart 0; LAskBranch 0; LType 97; LMainRead; LAnswer; LMainEnter; LMainRead] (p_init 1) in
  stale s 0 1 /\ p_buf s = [97] /\ p_stdin s = [] /\ p_pending s = 0.
Proof. vm_compute. repeat split; reflexivity. Qed.

(* even while the main loop waits: the terminal's answer can be read - and dropped, nobody is
   receiving yet - between the watcher's query and its receive; the watcher then waits for a
   report that will never come (no query is outstanding any more) *)
Theorem C20_report_dropped_before_receive_refuted :
  let s := prun [LMainEnter; LAskStart 0; LAnswer; LMainRead; LAskBranch 0] (p_init 1) in
  p_askers s = [ARecv 1] /\ p_chan s = 1 /\ p_pending s = 0 /\ p_stdin s = [] /\
  prun_waiting [LMainEnter; LAskStart 0; LAnswer; LMainRead; LAskBranch 0] (p_init 1) = Some s.
Proof. vm_compute. repeat split; reflexivity. Qed.

(* non-vacuity of the guarded run: a resize and a Printf during one wait, the user types, both reports arrive *)
Example C20_example :
  match prun_waiting [LMainEnter; LAskStart 0; LAskStart 1; LAskBranch 0; LAskBranch 1; LType 97; LAnswer; LMainRead; LMainEnter; LAnswer; LMainRead]
                     (p_init 2) with
  | Some s => eqlZ (p_buf s) [97] && (match p_askers s with [ADone; ARecv 1] => true | _ => false end)
  | None => false
  end = true.
Proof. vm_compute. reflexivity. Qed.
