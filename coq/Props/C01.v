(* C01 - Readline never crashes, spins or deadlocks on any keyboard input.
   Property theorems only; proofs are in Proofs/TermP.v, Proofs/HistoryP.v and
   Proofs/BoundsP.v.  What is proved, and what is left to the sweep of the real
   Readline (DESIGN.md, C01): the input loop - wait for keys, dispatch, run a command,
   again - never spins, for every script of reads and whatever the commands do; the
   checks the loop runs after every command are total.  That every COMMAND returns
   without panicking is proved for the after-command steps only; for the commands
   themselves the model records a panic as a value (res) and the correspondence check
   compares it with the implementation. *)
From Coq Require Import String.
From Model Require Import Base Uni Utf8 Notation Inputrc HistFile Dispatch Editor.
From Gen Require Import Binds.
From Proofs Require Import DispatchP LoopP TermP HistoryP BoundsP.
Open Scope Z_scope.

Section C01.
  (* any application state and commands (total functions of that state: a command that
     reads keys itself is outside this theorem), any non-empty bind table without macro
     bindings, emacs or vi main keymap, convert-meta on or off *)
  Variable A : Type.
  Variable exec : list Z -> list Z -> A -> option (A * bool).
  Variable t : table.
  Hypothesis t_nonempty : t <> [].
  Hypothesis no_macros : forall e, In e t -> snd (snd e) = false.

  (* For every script of reads - any bytes, empty reads, the end of input anywhere -
     the loop started by a Readline call reaches, within 2 + (2 per byte + 2 per read)
     iterations, one of: blocked in a read with the script used up (Waiting), a command
     accepted the line (Returned), or the input ended (Ended: Readline returns the
     error).  It never runs out of that budget: no busy loop. *)
  Theorem C01_input_loop_never_spins : forall cm vi a ins,
    match loop A exec (S (S (iweight cm ins))) cm t (init_state A vi a) ins with
    | NoFuel _ _ => False
    | _ => True
    end.
  Proof. exact (readline_loop_terminates A exec t t_nonempty no_macros). Qed.

  (* the same from any state between two commands (no macro keys pending) *)
  Theorem C01_input_loop_never_spins_from_any_state : forall fuel cm st ins,
    k_macro (l_keys A st) = [] -> snd (e_prefixed (l_eng A st)) = false ->
    (kweight (l_keys A st) + iweight cm ins < fuel)%nat ->
    match loop A exec fuel cm t st ins with NoFuel _ _ => False | _ => True end.
  Proof. exact (loop_terminates A exec t t_nonempty no_macros). Qed.

  (* when the input ends while the loop waits for keys, the loop stops there with the
     application state untouched (Readline returns the line and the error) *)
  Theorem C01_input_end_stops_the_loop : forall f cm st r,
    k_macro (l_keys A st) = [] -> (k_buf (l_keys A st) = [] \/ k_must_wait (l_keys A st) = true) ->
    exists st', loop A exec (S f) cm t st (Eof :: r) = Ended A st' /\ l_app A st' = l_app A st.
  Proof. exact (loop_stops_at_eof A exec t). Qed.
End C01.

(* the steps the loop runs after EVERY command never panic, in any state: the cursor
   check of vi command mode, the undo save, and walking to any history position *)
Theorem C01_cursor_check_total : forall e, exists e', c_check_command e = Ok e'.
Proof. exact c_check_command_total. Qed.
Theorem C01_undo_save_total : forall e, exists e', h_save e = Ok e'.
Proof. exact h_save_total. Qed.
Theorem C01_history_walk_total : forall mk e pos, exists e', h_walk mk e pos = Ok e'.
Proof. exact h_walk_total. Qed.

(* The statement for ANY inputrc configuration is false: a macro bound to a key it
   feeds makes the loop spin - no budget is enough (known finding C01-self-feeding-macro). *)
Theorem C01_any_configuration_refuted : forall A exec f cm e mt mw a,
  exists st, loop A exec f cm self_macro
       {| l_eng := e; l_keys := {| k_buf := []; k_macro := [97]; k_matched := mt; k_must_wait := mw |}; l_app := a |} []
  = NoFuel A st.
Proof. exact self_macro_spins. Qed.

(* non-vacuity: the effective main keymaps of a fresh shell are non-empty and bind no
   macro; the editor commands under the loop, "ab", C-a, then the input ends *)
Definition table_of (name : string) : table :=
  match find (fun p => eqlZ (fst p) (zs name)) effective_binds with Some p => snd p | None => [] end.
Example C01_example :
  forallb (fun n => match table_of n with [] => false | tb => forallb (fun e => negb (snd (snd e))) tb end)
          ["emacs"; "vi-insert"; "vi-command"]%string = true /\
  match loop (res ed) (ed_exec true (-1)) 100 false (table_of "emacs") (init_state _ false (Ok (ed_init false [])))
             [Chunk [97; 98]; Chunk [1]; Eof] with
  | Ended _ st => match l_app _ st with Ok e => eqlZ (line e) [97; 98] && (cpos e =? 0) | _ => false end
  | _ => false
  end = true.
Proof. split; vm_compute; reflexivity. Qed.

