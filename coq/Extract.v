(* Extraction of the executable models for the correspondence check.
   ExtrOcamlBasic only: bool, option, list, prod, unit, sumbool map to OCaml's;
   Z, N, positive, nat stay the extracted inductive types.  No Extract Constant
   or Extract Inductive of our own. *)
From Coq Require Import ExtrOcamlBasic.
From Model Require Import Base Uni Notation Utf8 Inputrc HistFile Dispatch Editor Grid Macro CompInsert Term Display.
From Gen Require Import Binds.
Extraction "rlmodel_core.ml"
  dom escape unescape unescape_range convert_meta quote
  utf8_decode utf8_encode full_rune parse read_next
  trim_space open_hist write crash_write
  match_bind loop init_state probe_exec
  run_one ed_init cur_undo ring_top modelled_commands sources_accept ed_exec default_binds effective_binds
  run_selects fresh_group
  m_init mstep fed_bytes
  set_prefix complete_with accept_candidate
  term_init term_feed row_text layout coordinates_cursor coordinates_line next_cell.
