"""C19 - key-sequence notation and configuration dumps round-trip."""
import random

import vlib
from vlib import enc_list, Dec

ASCII_P = list(range(0x20, 0x7F))
LATIN = list(range(0x80, 0x100))
CTRL = list(range(0x00, 0x20)) + [0x7F]
NOTATION = [ord(c) for c in "\\CM-x?abdefnrtv01789AFaf\"' "]


def rand_rune(rnd):
    r = rnd.random()
    if r < 0.35:
        return rnd.choice(ASCII_P)
    if r < 0.55:
        return rnd.choice(CTRL)
    if r < 0.75:
        return rnd.choice(LATIN)
    if r < 0.85:
        return rnd.choice(NOTATION)
    if r < 0.93:
        return rnd.randrange(0x100, 0x3000)
    if r < 0.97:
        return rnd.randrange(0x4E00, 0x9FFF)
    return rnd.randrange(0x1F300, 0x1FAFF)


def check(rep, tier, seed):
    rnd = random.Random(seed)
    if not vlib.common_setup(rep):
        return
    info, broken = vlib.proof_step(rep, "C19")

    n_rand = 4000 if tier == "quick" else 120000
    seqs = [[c] for c in range(256)]
    # the sequences the one- and two-rune sweeps cannot see (found while proving)
    seqs += [[28, 77, 45, 120], [220, 67, 45, 120], [128, 48], [255, 55], [162, 58], [167, 58], [92, 120, 52, 49]]
    d = Dec(vlib.impl(["defkeys"])[0])
    defkeys = [d.list() for _ in range(d.int())]
    seqs += defkeys
    if tier != "quick":
        seqs += [[a, b] for a in range(256) for b in range(256)]
    for _ in range(n_rand):
        seqs.append([rand_rune(rnd) for _ in range(rnd.choice([1, 2, 2, 3, 4, 6, 10, 30]))])
    # malformed / arbitrary notation text for Unescape alone
    texts = []
    for _ in range(n_rand // 2):
        texts.append([rnd.choice(NOTATION) if rnd.random() < 0.8 else rand_rune(rnd) for _ in range(rnd.randrange(0, 12))])

    lines = []
    for s in seqs:
        lines.append("esc 0 " + enc_list(s))
        lines.append("esc 1 " + enc_list(s))
        lines.append("rt 0 " + enc_list(s))
        lines.append("rt 1 " + enc_list(s))
    for t in texts:
        lines.append("unesc " + enc_list(t))
    got_i = vlib.impl(lines)
    got_m = vlib.model(lines)
    doms = vlib.model(["dom " + enc_list(s) for s in seqs])

    mism = [(l, a, b) for l, a, b in zip(lines, got_i, got_m) if a != b]
    # the property's oracle, evaluated on the implementation
    bad_rt = []
    in_dom = 0
    for k, s in enumerate(seqs):
        if doms[k].strip() != "1":
            continue
        in_dom += 1
        for j, name in ((2, "Escape"), (3, "EscapeMacro")):
            o = got_i[4 * k + j]
            if o != enc_list(s):
                bad_rt.append({"function": name, "sequence": s, "unescape_of_escape": o,
                               "escaped": got_i[4 * k + j - 2]})
    distinct = len({tuple(s) for s in seqs if len(s) > 1}) + len({tuple(t) for t in texts if 92 in t})
    rep.coverage.update({
        "evaluations": len(lines),
        "distinct_nontrivial": distinct,
        "rule": "all 256 single runes, every key of every default keymap (read from the live code), random sequences over "
                "ASCII/control/Latin-1/notation characters/BMP/astral runes, random notation-like texts for Unescape; "
                "non-trivial = a sequence of more than one rune, or a text containing a backslash; "
                + ("all 65536 two-rune sequences" if tier != "quick" else "two-rune sweep only in the thorough tier"),
        "samples": [{"case": lines[i], "impl": got_i[i], "model": got_m[i]} for i in (2, 4 * 28 + 2, 4 * 300 + 2, len(lines) - 1)],
        "correspondence": {"cases": len(lines), "mismatches": len(mism)},
        "oracle_on_impl": {"sequences_in_domain": in_dom, "roundtrip_failures": len(bad_rt)},
        "default_keys": len(defkeys),
        "exhaustive": False,
    })
    rep.assumptions += ["unicode.IsPrint/ToUpper of the Go runtime are the tables in coq/Gen/Unicode.v (regenerated on every run)",
                        "runes outside 0x00-0xFF that are not printable are outside the property's domain"]
    for b in bad_rt[:5]:
        rep.violation("call", "Unescape(%s(s)) != s" % b["function"], b)
    if (mism or broken) and not bad_rt:
        data = {"broken_obligations": broken, "correspondence_mismatches": len(mism),
                "first_mismatches": [{"case": l, "impl": a, "model": b} for l, a, b in mism[:5]]}
        rep.violation("proof" if broken else "correspondence",
                      "C19 theorems or the Notation.v correspondence no longer check", data, failing_input=False)
