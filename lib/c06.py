"""C06 - cursor and selection stay inside the buffer; movements never edit."""
import random

import vlib
import edsess as E

# documented as pure movements or copies (emacs.go / vim.go command comments)
EM_PURE = ["forward-char", "backward-char", "forward-word", "backward-word", "beginning-of-line", "end-of-line",
           "copy-region-as-kill", "copy-forward-word", "copy-backward-word", "set-mark", "exchange-point-and-mark"]
VI_PURE = E.VI_MOVES + ["vi-backward-end-word", "vi-match", "vi-yank-whole-line"]
EM_ALL = EM_PURE + E.EM_EDITS + ["undo", "redo", "transpose-chars", "yank-pop", "unix-word-rubout", "previous-history", "next-history",
                                 "revert-line", "up-line-or-history", "down-line-or-history"]
VI_CMD_ALL = VI_PURE + ["vi-delete", "vi-put-before", "vi-put-after", "vi-kill-eol", "vi-change-case", "vi-undo", "vi-visual-mode",
                        "vi-visual-line-mode", "vi-delete-to", "vi-yank-to", "vi-insertion-mode", "vi-append-mode",
                        "previous-history", "next-history"]


def gen(rnd):
    vi = rnd.random() < 0.5
    start, hist = E.start_cmds(rnd, vi)
    if hist is None and rnd.random() < 0.5:
        hist = [rnd.choice(E.HTEXTS + E.TEXTS) for _ in range(rnd.randrange(1, 3))]
    if hist is not None and rnd.random() < 0.35:
        # an entry that ends with a newline: the last line of the buffer is empty, the one before it is not
        hist = hist + [rnd.choice(["ab\n", "x y\nz\n", "é\n"])]
    cmds = list(start)
    mode = "ins"
    if hist and hist[-1].endswith("\n") and rnd.random() < 0.8:
        cmds += [("previous-history",)] + ([("vi-movement-mode",), ("raw", b"k"), ("raw", b"$")] if vi else [("backward-char",), ("end-of-line",)])
        mode = "cmd" if vi else mode
    for _ in range(rnd.randrange(3, 14)):
        r = rnd.random()
        if not vi:
            if r < 0.12:
                cmds.append(("self-insert", rnd.choice("ab c.(")))
            elif r < 0.22:
                cmds.append(("digit-argument", rnd.choice("0234-")))
            else:
                cmds.append((rnd.choice(EM_ALL),))
        elif mode == "ins":
            if r < 0.4:
                cmds.append(("self-insert", rnd.choice("ab c.")))
            elif r < 0.5:
                cmds.append(("backward-delete-char",))
            else:
                cmds.append(("vi-movement-mode",))
                mode = "cmd"
        else:
            if r < 0.12:
                cmds.append(("vi-arg-digit", rnd.choice("234")))
            elif r < 0.2:
                # copies into a named register, then into its appending (upper-case) form: pure copies
                reg = rnd.choice("ab")
                if rnd.random() < 0.6:
                    cmds += [("raw", b"k")] * rnd.randrange(1, 3)      # up a line (or into history)
                cmds += [("raw", b'"', "pure"), ("raw", reg.encode(), "pure"), ("raw", rnd.choice([b"Y", b"yw", b"y$"]), "pure")]
                cmds += E.moves(rnd, True, rnd.randrange(0, 2))
                cmds += [("raw", b'"', "pure"), ("raw", reg.upper().encode(), "pure"), ("raw", rnd.choice([b"yw", b"ye", b"Y"]), "pure")]
            else:
                c = rnd.choice(VI_CMD_ALL)
                cmds.append((c,))
                if c in ("vi-insertion-mode", "vi-append-mode"):
                    mode = "ins"
    if rnd.random() < 0.5:
        cmds.append(("accept-line",))
    return {"vi": vi, "hist": hist, "cmds": cmds}


def check(rep, tier, seed):
    rnd = random.Random(seed)
    if not vlib.common_setup(rep):
        return
    info, broken = vlib.proof_step(rep, "C06")
    n = 500 if tier == "quick" else 15000
    sess = [gen(rnd) for _ in range(n)]
    modelled = E.modelled_names()
    for s in sess:
        s["modelled"] = all(c[0] in modelled for c in s["cmds"])
    out = E.run(sess, sel_pos=True)
    mism, bad = [], []
    stats = {"waits": 0, "vi_command_waits": 0, "selection_active_waits": 0, "pure_command_steps": 0, "returns": 0}
    nontriv = set()
    for s, o in zip(sess, out):
        if s["modelled"]:
            d = E.compare(s, o)
            if d:
                mism.append({"session": s, "diff": d})
        r = o["impl"]
        pan = [e for e in r["events"] if e["ev"] == "panic"]
        prev = None
        for k, w in enumerate(o["waits"]):
            stats["waits"] += 1
            line, cp = w["line"], w["cpos"]
            n_ = len(line)
            fails = []
            if not (0 <= cp <= n_):
                fails.append("cursor %d outside [0, %d]" % (cp, n_))
            if w["main"] in ("vi-command", "vi", "vi-move") and w["local"] == "":
                stats["vi_command_waits"] += 1
                # on a character of the current line: not past the end, and not on the newline that ends a non-empty line
                cur_line_empty = n_ == 0 or ((cp == n_ or line[cp] == 10) and (cp == 0 or line[cp - 1] == 10))
                on_char = cp < n_ and line[cp] != 10
                line_empty = cur_line_empty
                if not (on_char or line_empty):
                    fails.append("vi command mode: cursor %d is past the last character of a %d-rune buffer" % (cp, n_))
            sp = w.get("selpos")
            if sp is not None and sp != [-1, -1]:
                stats["selection_active_waits"] += 1
                if not (0 <= sp[0] <= sp[1] <= n_):
                    fails.append("selection %r outside the buffer of length %d" % (sp, n_))
            if k >= 1 and k - 1 < len(s["cmds"]):
                c = s["cmds"][k - 1]
                if (c[0] in EM_PURE + VI_PURE or (c[0] == "raw" and len(c) > 2)) and prev is not None and (o["waits"][k - 1]["local"] != "vi-opp" or c[0] == "raw"):
                    stats["pure_command_steps"] += 1
                    nontriv.add((tuple(prev), c[0]))
                    if prev != line:
                        fails.append("%s changed the buffer from %r to %r" % (c[0], E_txt(prev), E_txt(line)))
            if fails:
                bad.append({"cmds": [c if len(c) > 1 else c[0] for c in s["cmds"]], "hist": s["hist"], "vi": s["vi"],
                            "at_wait": k, "failure": fails})
                break
            prev = line
        rets = [e for e in r["events"] if e["ev"] == "return"]
        if rets and o["waits"]:
            stats["returns"] += 1
            if rets[0]["line"] != o["waits"][-1]["line"] and s["cmds"][-1][0] == "accept-line" and len(o["waits"]) == len(s["cmds"]):
                bad.append({"cmds": [c if len(c) > 1 else c[0] for c in s["cmds"]], "hist": s["hist"],
                            "failure": "returned line %r is not the buffer at acceptance %r" % (E_txt(rets[0]["line"]), E_txt(o["waits"][-1]["line"]))})
        if pan and not s["modelled"]:
            pass     # crashes of commands outside the model are C01's business
    rep.coverage.update({
        "evaluations": len(sess),
        "distinct_nontrivial": len(nontriv),
        "rule": "random command sessions in emacs and vi modes typed into the real Readline over a pty (buffers typed or taken from history: "
                "multi-byte, multi-line), all movement/copy command names with numeric arguments mixed with edits, kills, undo, history "
                "moves, visual and operator-pending modes; at EVERY input wait: cursor and Selection().Pos() inside the buffer, vi command mode "
                "on a character; every pure movement/copy step leaves the text unchanged; returned line = buffer at acceptance; "
                "non-trivial = distinct (buffer, pure command) steps",
        "samples": [{"cmds": [c if len(c) > 1 else c[0] for c in sess[i]["cmds"]], "hist": sess[i]["hist"]} for i in (0, 1)],
        "stats": stats,
        "correspondence": {"cases": sum(1 for s in sess if s["modelled"]), "mismatches": len(mism)},
        "oracle_on_impl": {"sessions": len(sess), "failures": len(bad)},
        "pure_commands": EM_PURE + VI_PURE,
        "exhaustive": False,
    })
    rep.assumptions += ["history-autosuggest is off (with it, forward-char/forward-word insert the suggestion by design)"]
    for b in bad[:3]:
        rep.violation("session", "cursor/selection out of the buffer, or a movement edited the text", b)
    if (mism or broken) and not bad:
        rep.violation("proof" if broken else "correspondence", "C06 theorems or the Editor.v correspondence no longer check",
                      {"broken_obligations": broken, "correspondence_mismatches": len(mism), "first_mismatches": mism[:3]},
                      failing_input=False)


def E_txt(t):
    return "".join(chr(c) for c in t)
