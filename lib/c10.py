"""C10 - file-backed history survives restarts and crashes."""
import os
import random

import vlib
from vlib import enc_list, enc_str, Dec

TEXTS = ["ls -la", "echo \"hi\"", "a\\b\\\\c", "  padded  ", "\tTab\t", "multi\nline\ncmd", "x", "", "   ", "\n", " nbsp ", " em ",
         "café", "世界", "emoji \U0001F600 end", "<a href='x'>&amp;</a>", "line sep", "ctl\x01\x02\x1b[0m", "nul\x00byte", "quote'single",
         "{\"block\":\"fake\"}", "}", "{\"datetime\":\"2020-01-01T00:00:00Z\",\"block\":\"inject\"}", "trailing\r", "\r\n", "a\r\nb", "\x7f", "\u0085nel\u0085",
         "tab\tin", "﻿bom", "é combining", "\U0010FFFF", "back\\u0041slash-u"]


def rand_text(rnd):
    r = rnd.random()
    if r < 0.55:
        return rnd.choice(TEXTS)
    if r < 0.9:
        n = rnd.choice([1, 2, 5, 20, 80])
        pool = [rnd.randrange(0x20, 0x7F), rnd.choice([9, 10, 13, 32, 0xA0, 0x3000]), rnd.randrange(0xA1, 0x2FF),
                rnd.randrange(0x4E00, 0x9FFF), rnd.randrange(0x1F300, 0x1F64F), rnd.randrange(0, 0x20), 0x22, 0x5C]
        return "".join(chr(rnd.choice(pool)) for _ in range(n))
    return rnd.choice(["w" * 65500, "x" * 65536, "y" * 70000, ("z" * 999 + "\n") * 70, "世" * 30000])


def go_case(ops):
    parts = ["hist", str(len(ops))]
    for op in ops:
        if op[0] == 0:
            parts += ["0", enc_str(op[1])]
        elif op[0] == 1:
            parts.append("1")
        else:
            parts += ["2", str(op[1]), enc_str(op[2])]
    return " ".join(parts)


def parse_go(line):
    """-> list of events"""
    d = Dec(line)
    ev = []
    while not d.done():
        w = d.tok()
        if w == "W":
            err, prefix_ok = d.int(), d.int()
            ev.append(("W", err, prefix_ok, d.list(), d.list()))
        elif w == "C":
            ev.append(("C", d.list(), d.list()))
        elif w == "R":
            err = d.int()
            blocks = [d.list() for _ in range(d.int())]
            lines = []
            for _ in range(d.int()):
                l = d.list()
                ok = d.int()
                lines.append((l, ok, d.list()))
            ev.append(("R", err, blocks, lines))
        elif w == "F":
            ev.append(("F", d.list()))
        else:
            raise ValueError("bad token " + w)
    return ev


def record_of(delta, file_before):
    """the record bytes of an append (its separator newline and final newline removed)"""
    e = list(delta)
    if file_before and file_before[-1] != 10 and e and e[0] == 10:
        e = e[1:]
    if e and e[-1] == 10:
        e = e[:-1]
    return e


def analyse(ops, ev, rep_stats):
    """Evaluates the property on what the implementation did; builds the model case.
    Returns (failures, model_case_line, expected model output)."""
    fails = []
    f = []                 # the file, mirrored from the deltas
    expected = []          # entries the property says a reopen must return
    dtab = {}
    mops = []
    records = []
    for op, e in zip(ops, ev):
        if op[0] == 0:
            _, err, prefix_ok, delta, trimmed = e
            if err or not prefix_ok:
                fails.append("Write failed or rewrote earlier bytes")
            rec = record_of(delta, f)
            if trimmed:
                records.append((rec, trimmed))
                expected.append(trimmed)
            elif delta:
                fails.append("blank line wrote %d bytes" % len(delta))
            mops.append("0 %s %s" % (enc_list(rec), enc_str(op[1])))
            f += delta
        elif op[0] == 2:
            _, delta, trimmed = e
            rec = record_of(delta, f)
            k = op[1]
            if trimmed:
                records.append((rec, trimmed))
                whole = len(delta) - 1 if delta and delta[-1] == 10 else len(delta)
                if k >= whole:
                    expected.append(trimmed)
            mops.append("2 %d %s %s" % (k, enc_list(rec), enc_str(op[2])))
            f += delta[:k]
        else:
            _, err, blocks, lines = e
            if err:
                fails.append("reopen failed")
            if blocks != expected:
                fails.append("reopen returned %d entries, expected %d: got %r want %r" % (
                    len(blocks), len(expected), [bytes_or(b) for b in blocks][:6], [bytes_or(b) for b in expected][:6]))
            for (l, ok, b) in lines:
                key = tuple(l[:-1] if l and l[-1] == 13 else l)
                dtab[key] = (ok, b)
            mops.append("1")
    final = ev[-1][1]
    if final != f:
        fails.append("file content is not the concatenation of the appends")
    # hypotheses J1, J2 on the real encoder/decoder
    for rec, trimmed in records:
        rep_stats["records"] += 1
        if 10 in rec or 13 in rec:
            rep_stats["j2_bad"] += 1
        if tuple(rec) in dtab and dtab[tuple(rec)] != (1, trimmed):
            rep_stats["j1_bad"] += 1
    mcase = "histm %d %s %d %s" % (len(dtab), " ".join("%s %d %s" % (enc_list(list(k)), v[0], enc_list(v[1])) for k, v in dtab.items()),
                                  len(mops), " ".join(mops))
    want = []
    for op, e in zip(ops, ev):
        if op[0] == 1:
            want.append("R %d%s" % (len(e[2]), "".join(" " + enc_list(b) for b in e[2])))
    want.append("F " + enc_list(final))
    return fails, mcase, " ".join(want), records


def bytes_or(b):
    try:
        return "".join(chr(c) for c in b)[:40]
    except ValueError:
        return b[:40]


def check(rep, tier, seed):
    rnd = random.Random(seed)
    if not vlib.common_setup(rep):
        return
    info, broken = vlib.proof_step(rep, "C10")
    tmp = os.path.join(vlib.BUILD, "tmp")
    os.makedirs(tmp, exist_ok=True)
    env = dict(os.environ, VERIF_TMP=tmp)
    nscen = 40 if tier == "quick" else 1500
    scen = []
    # write sequences + reopen
    for _ in range(nscen * 3):
        ops = [(0, rand_text(rnd)) for _ in range(rnd.randrange(1, 7))] + [(1,)]
        if rnd.random() < 0.5:
            ops += [(0, rand_text(rnd)) for _ in range(rnd.randrange(1, 4))] + [(1,)]
        scen.append(ops)
    long_scen = [[(0, "before"), (0, "L" * 70000), (0, "after"), (1,)], [(0, "q" * 65536), (1,), (0, "r"), (1,)],
                 [(0, "first"), (0, "M" * 1100000), (0, "last"), (1,)], [(0, "\x01\x02" * 100000), (0, "end"), (1,)]]
    if tier != "quick":
        long_scen += [[(0, "a"), (0, "G" * (1 << 23)), (0, "z"), (1,)]]
    scen += long_scen
    # crash scenarios: pass 1 to learn the record length, then every offset
    bases = []
    def short_text():
        t = rand_text(rnd)
        while len(t) > 200:
            t = rand_text(rnd)
        return t
    for _ in range(nscen):
        pre = [(0, short_text()) for _ in range(rnd.randrange(0, 3))]
        cut = short_text()
        while not cut.strip():
            cut = short_text()
        post = [(0, short_text()) for _ in range(rnd.randrange(1, 3))]
        bases.append((pre, cut, post))
    p1 = vlib.impl([go_case(pre + [(0, cut)]) for pre, cut, post in bases], env=env)
    for (pre, cut, post), line in zip(bases, p1):
        ev = parse_go(line)
        dl = len(ev[len(pre)][3])
        # a second torn append right after the first one, sometimes
        for k in range(0, dl + 2):
            ops = pre + [(2, k, cut), (1,)] + post + [(1,)]
            if rnd.random() < 0.15:
                ops += [(2, rnd.randrange(0, 40), "second cut"), (1,), (0, "tail"), (1,)]
            scen.append(ops)
    cases = [go_case(o) for o in scen]
    got = vlib.impl(cases, env=env, timeout=900)
    stats = {"records": 0, "j1_bad": 0, "j2_bad": 0, "j3_bad": 0}
    bad, mcases, wants, allrecs = [], [], [], []
    for ops, line in zip(scen, got):
        try:
            ev = parse_go(line)
        except Exception as ex:      # crash / panic output
            bad.append({"ops": [repr(o)[:120] for o in ops], "impl_output": line[:300], "failures": ["harness output unreadable: %s" % ex]})
            mcases.append(None)
            wants.append(None)
            continue
        fails, mc, want, recs = analyse(ops, ev, stats)
        allrecs += [r for r, _ in recs]
        mcases.append(mc)
        wants.append(want)
        if fails:
            bad.append({"ops": [repr(o)[:120] for o in ops], "failures": fails})
    # J3 on a sample of records
    sample = allrecs if len(allrecs) < 400 else rnd.sample(allrecs, 400)
    j3 = vlib.impl(["j3 " + enc_list(r) for r in sample], env=env)
    stats["j3_checked"] = len(sample)
    stats["j3_bad"] = sum(1 for x in j3 if x.strip() != "0")
    # trim_space model vs strings.TrimSpace
    tl = ["trim " + enc_str(rand_text(rnd)[:300]) for _ in range(300)]
    trim_mism = sum(1 for a, b in zip(vlib.impl(tl), vlib.model(tl)) if a != b)
    idx = [i for i, m in enumerate(mcases) if m is not None]
    gm = vlib.model([mcases[i] for i in idx], timeout=900)
    mism = []
    for i, o in zip(idx, gm):
        if o != wants[i]:
            mism.append({"ops": [repr(x)[:120] for x in scen[i]], "impl": wants[i][:300], "model": o[:300]})
    ncrash = sum(1 for s in scen if any(o[0] == 2 for o in s))
    rep.coverage.update({
        "evaluations": len(scen),
        "distinct_nontrivial": len({c for c, s in zip(cases, scen) if len(s) > 2}),
        "rule": "op sequences on a real file through readline.NewHistoryFromFile: writes (texts with quotes, backslashes, newlines, control "
                "characters, Unicode spaces, CJK, astral, JSON-looking text, blanks, 64 KiB+), reopen, and an append cut at EVERY byte offset "
                "of its record (0..len+1) followed by reopen, further writes, reopen; non-trivial = more than two operations",
        "samples": [{"ops": [repr(o)[:80] for o in scen[i]], "impl": got[i][:160]} for i in (0, len(scen) - 1)],
        "crash_scenarios": ncrash, "long_record_scenarios": len(long_scen),
        "codec_hypotheses_checked_against_encoding_json": stats,
        "trim_space_mismatches": trim_mism,
        "correspondence": {"cases": len(idx), "mismatches": len(mism)},
        "oracle_on_impl": {"cases": len(scen), "failures": len(bad)},
        "exhaustive": False,
    })
    rep.assumptions += ["a crash leaves a prefix of the bytes of the interrupted append (single write(2) on an O_APPEND descriptor); kernel and disk behaviour below that are not modelled",
                        "encoding/json satisfies J1-J4 (checked on every record of this run, proper prefixes on a sample)",
                        "the record encoder is a function of the block in the theorems; the real one also embeds the time, each instance satisfying the same hypotheses",
                        "texts are valid UTF-8 (encoding/json replaces invalid bytes)"]
    for b in bad[:3]:
        rep.violation("call", "history file lost, reordered or invented entries", b)
    hyp_broken = stats["j1_bad"] or stats["j2_bad"] or stats["j3_bad"]
    if (mism or broken or hyp_broken or trim_mism) and not bad:
        rep.violation("proof" if broken else "correspondence", "C10 theorems, codec hypotheses or the HistFile.v correspondence no longer check",
                      {"broken_obligations": broken, "correspondence_mismatches": len(mism), "first_mismatches": mism[:3],
                       "codec_hypotheses": stats, "trim_space_mismatches": trim_mism}, failing_input=False)
