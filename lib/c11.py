"""C11 - the terminal is restored on every way out of Readline."""
import random

import vlib
import ptydrive as P
import disp as D

ASCII = "abcdefghij klmno.pqrs-tuv/wxyz"


def gen_case(rnd, path):
    vi = rnd.random() < 0.35
    width = rnd.choice([10, 20, 40, 80])
    prompt = rnd.choice(["> ", "$ ", ">>> "])
    shape = rnd.choice(["empty", "short", "wrapped", "wrapped", "exact", "multiline"])
    p = len(prompt)
    if shape == "empty":
        text = ""
    elif shape == "short":
        text = "".join(rnd.choice(ASCII) for _ in range(rnd.randrange(1, max(2, width - p - 1))))
    elif shape == "wrapped":
        text = "".join(rnd.choice(ASCII) for _ in range(rnd.randrange(width, 3 * width)))
    elif shape == "exact":
        text = "".join(rnd.choice(ASCII) for _ in range(rnd.choice([1, 2]) * width - p))
    else:
        text = "\\\n".join("".join(rnd.choice(ASCII) for _ in range(rnd.randrange(1, width))) for _ in range(rnd.choice([2, 3])))
    keys = []
    if vi and path in ("vi-cmd-enter", "vi-cmd-interrupt"):
        pass
    for ch in text:
        keys.extend(D.key_for(ch))
    multiline_scn = "\n" in text
    # where the cursor is when the call ends
    moves = rnd.choice(["end", "end", "start", "middle", "up"])
    if text and moves == "start":
        keys.append(b"\x01")
    elif text and moves == "middle":
        keys += [b"\x02"] * rnd.randrange(1, min(len(text), 15) + 1)
    elif text and moves == "up" and shape in ("wrapped", "multiline"):
        keys += [b"\x02"] * min(len(text), width + 3)
    scn = {"calls": 1, "prompt": prompt, "vi": vi, "multiline": multiline_scn}
    expect_return = True
    end = []
    if path == "accept":
        end = [b"\r"]
    elif path == "interrupt":
        end = [b"\x03"]
    elif path == "eof-empty":
        keys, text = [], ""
        end = [b"\x04"]
    elif path == "panic":
        scn["panic_cmd"] = "verif-panic"
        scn["binds"] = [{"keymap": "vi-insert" if vi else "emacs", "seq": "\\C-o", "action": "verif-panic"}]
        end = [b"\x0f"]
    elif path == "hangup":
        end = [("eof",)]
    elif path == "multiline-accept":
        scn["multiline"] = True
        keys = [c.encode() for c in "abc\\"] + [b"\r"] + [c.encode() for c in "def"]
        text = "abc\\\ndef"
        end = [b"\r"]
    elif path == "vi-cmd-enter":
        scn["vi"] = vi = True
        end = [b"\x1b", b"\r"]
    elif path == "vi-cmd-interrupt":
        scn["vi"] = vi = True
        end = [b"\x1b", b"\x03"]
    elif path == "menu-accept":
        scn["completer"] = {"cands": [{"value": v, "desc": "", "tag": ""} for v in ("alpha", "beta", "gamma")], "filter_pref": False}
        keys, text = [b"x", b" "], "x "
        end = [b"\t", b"\r", b"\r"]
    elif path == "second-call":
        scn["calls"] = 2
        end = [b"\r"] + [c.encode() for c in "ok"] + [b"\r"]
    elif path == "insert-comment":
        scn["vi"] = vi = False          # M-# is an emacs binding
        end = [b"\x1b#"]
    scn["preamble"] = rnd.choice([0, 0, 3, 7])   # rows already used above the prompt
    return {"path": path, "vi": vi, "width": width, "prompt": prompt, "text": text, "shape": shape, "scn": scn, "keys": keys, "end": end,
            "moves": moves}


PATHS = ["accept", "accept", "interrupt", "eof-empty", "panic", "hangup", "multiline-accept", "vi-cmd-enter", "vi-cmd-interrupt",
         "menu-accept", "second-call", "insert-comment"]

KNOWN = {
    "C11-multiline-buffer": "a buffer with embedded newlines is repainted wrongly on the way out (the multi-line prompt pass moves up by the "
                            "number of rows and does not come back; every line after the first counts one extra row): with three lines "
                            "only the first is left on the screen, with two the cursor ends one row too low",
    "C11-interrupt-echo": "C-c echoes ^C at the cursor, which moves the terminal cursor two cells the display engine does not know of: "
                          "when prompt + text + 2 crosses a multiple of the width the cursor ends one row too low (a blank row is left)",
    "C11-panic-cursor-row": "when a bound command panics the deferred calls restore the terminal mode and the cursor style, but nothing moves "
                            "the cursor below the input: it stays on the input row",
}


def check(rep, tier, seed):
    rnd = random.Random(seed)
    if not vlib.common_setup(rep):
        return
    info, broken = vlib.proof_step(rep, "C11")
    n = 180 if tier == "quick" else 4000
    cases = [gen_case(rnd, PATHS[i % len(PATHS)]) for i in range(n)]
    jobs = []
    for c in cases:
        rc = "set convert-meta off\n" + ("set editing-mode vi\n" if c["vi"] else "")
        jobs.append({"scenario": c["scn"], "chunks": c["keys"] + c["end"], "cols": c["width"], "rows": 30, "keep_output": True, "inputrc": rc,
                     "step_timeout": 8.0})
    res = P.run_many(jobs)
    rep_in = [(30, c["width"], [w.get("out", b"") for w in r["waits"]] + [r.get("final_out", b"")]) for c, r in zip(cases, res)]
    states = D.replay(rep_in)
    bad, mism = [], []
    known = {}
    stats = {"cases": len(cases), "by_path": {}, "returns_checked": 0, "termios_checked": 0}
    nontriv = set()
    lay_items, lay_meta = [], []
    for ci, (c, r, sts) in enumerate(zip(cases, res, states)):
        stats["by_path"][c["path"]] = stats["by_path"].get(c["path"], 0) + 1
        rets = P.returns(r)
        pans = P.panics(r)
        tios = [e for e in r["events"] if e["ev"] == "termios"]
        fails = []
        ncalls = c["scn"]["calls"]
        if r["outcome"] != "exit" or len(tios) != ncalls:
            fails.append("the Readline call did not end: %s (returns %d, panics %d)" % (r["outcome"], len(rets), len(pans)))
        if c["path"] == "panic" and not pans:
            fails.append("the panicking command did not run")
        for t in tios:
            if c["path"] == "hangup":
                break          # the pty is gone: tcgetattr fails, nothing can be observed after the hang-up
            stats["termios_checked"] += 1
            if not t["equal"]:
                fails.append("terminal mode settings after Readline differ from before (call %d; still raw: %s)" % (t["call"], t["raw_after"]))
        if fails:
            bad.append({"case": {k: c[k] for k in ("path", "vi", "width", "prompt", "text", "shape", "moves")}, "failure": fails,
                        "panics": [p["msg"] for p in pans][:1]})
            continue
        if c["path"] == "hangup":
            continue
        st = sts[-1] if sts else None
        live = {"rows": D.vt_rows(r["final_screen"]), "cursor": list(r["final_cursor"])}
        if st is None or "bad" in st or st["rows"] != live["rows"] or [st["r"], st["c"], st["pend"]] != live["cursor"]:
            mism.append({"case": {k: c[k] for k in ("path", "width", "prompt", "text")}, "why": "Term.v and the live emulator differ",
                         "term": None if st is None else [st.get("r"), st.get("c")], "vt": live["cursor"]})
            continue
        # what the last call returned decides where the input ended
        final_text = "".join(chr(x) for x in rets[-1]["line"]) if rets else c["text"]
        lay_items.append((30, c["width"], c["prompt"], final_text, len(final_text)))
        lay_meta.append((ci, st, final_text))
    lays = D.layouts(lay_items) if lay_items else []
    for (ci, st, final_text), e in zip(lay_meta, lays):
        c = cases[ci]
        stats["returns_checked"] += 1
        fails = []
        # rows used by the input of the LAST call; earlier calls (second-call) sit above it
        used = [i for i, x in enumerate(e["rows"]) if x != ""]
        last_row_rel = used[-1] if used else 0
        # the prompt row of the last call: the last row of the screen that starts with the prompt
        prow = [i for i, x in enumerate(st["rows"]) if x.startswith(c["prompt"].rstrip(" ")) and (c["prompt"].strip() != "")]
        base = prow[-1] if prow else 0
        if st["scrolled"]:
            continue
        # the fresh row: column 0 of the first row below everything the call left on the screen (the input, and the ^C
        # an interrupt echoes); a line that exactly fills its last row owns the row the cursor had wrapped to
        nonblank = [i for i, x in enumerate(st["rows"]) if x != ""]
        last_screen = nonblank[-1] if nonblank else 0
        # a row filled up to the last column (or to the column before it: the terminal erases the last cell, C04's finding)
        exact = any(sum(D.rune_width(ch) for ch in st["rows"][i]) >= c["width"] - 1 for i in nonblank[-2:])
        shown = len(c["prompt"]) + len(final_text.split("\n")[-1]) - (1 if c["path"] == "insert-comment" else 0)
        exact = exact or (shown > 0 and shown % c["width"] == 0)
        ok_rows = {last_screen + 1} | ({last_screen + 2} if exact else set())
        if st["c"] != 0 or st["r"] not in ok_rows or st["r"] <= base + last_row_rel:
            fails.append("cursor after return on (%d,%d): the fresh row below the input is (%d,0)" % (st["r"], st["c"], last_screen + 1))
        if st["style"] != 0:
            fails.append("the last cursor style sequence is not the default one (ESC[0 q): %s" % st["style"])
        if not st["visible"]:
            fails.append("cursor left hidden")
        nontriv.add((c["path"], c["vi"], c["shape"], c["moves"], c["width"]))
        if fails:
            if c["path"] == "panic" and len(fails) == 1 and fails[0].startswith("cursor after return"):
                known["C11-panic-cursor-row"] = known.get("C11-panic-cursor-row", 0) + 1
                continue
            if final_text.count("\n") >= 1 and len(fails) == 1 and fails[0].startswith("cursor after return"):
                known["C11-multiline-buffer"] = known.get("C11-multiline-buffer", 0) + 1
                continue
            if c["path"] in ("interrupt", "vi-cmd-interrupt") and len(fails) == 1 and st["c"] == 0 and st["r"] == last_screen + 2:
                known["C11-interrupt-echo"] = known.get("C11-interrupt-echo", 0) + 1
                continue
            bad.append({"case": {k: c[k] for k in ("path", "vi", "width", "prompt", "text", "shape", "moves")}, "failure": fails,
                        "screen": st["rows"][:6], "cursor": [st["r"], st["c"]], "returned": final_text})
    for kid, cnt in sorted(known.items()):
        rep.known_finding(kid, KNOWN[kid] + " (%d cases)" % cnt)
    rep.coverage.update({
        "evaluations": len(cases),
        "distinct_nontrivial": len(nontriv),
        "rule": "one or two Readline calls over a pty, ended by: accept-line; C-c; C-d on an empty line; a user-registered command that "
                "panics (recovered by the application); hang-up of the terminal; multi-line accept (AcceptMultiline); Enter and C-c from "
                "vi command mode; Enter with a completion menu open; a second call after a first; insert-comment - in emacs and vi, with "
                "buffers that are empty, short, wrapped over several rows, exactly filling a row, or holding embedded newlines, and the "
                "cursor at the end, the start, the middle or a non-last row; oracle: tcgetattr before and after every call equal; after "
                "the return the terminal model (Term.v, fed with every byte written) has the cursor in column 0 of the row below the last "
                "row of the reference layout of the returned line, the last DECSCUSR is 0, the cursor is visible; non-trivial = distinct "
                "(exit path, mode, buffer shape, cursor placement, width)",
        "samples": [{"path": cases[i]["path"], "vi": cases[i]["vi"], "shape": cases[i]["shape"], "width": cases[i]["width"]} for i in (0, 4)],
        "stats": stats,
        "correspondence": {"cases": len(cases), "mismatches": len(mism)},
        "oracle_on_impl": {"cases": len(cases), "failures": len(bad)},
        "exhaustive": False,
    })
    rep.assumptions += ["the terminal mode is observed with tcgetattr on the pty (the ioctl itself is outside any model)",
                        "edit-and-execute-command (external editor) is not exercised"]
    for b in bad[:3]:
        rep.violation("session", "the terminal is not restored after Readline returned", b)
    if (mism or broken) and not bad:
        rep.violation("proof" if broken else "correspondence", "C11 theorems or the terminal-model correspondence no longer check",
                      {"broken_obligations": broken, "correspondence_mismatches": len(mism), "first_mismatches": mism[:3]},
                      failing_input=False)
