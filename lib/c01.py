"""C01 - Readline never crashes, spins or deadlocks on any keyboard input."""
import json
import os
import random

import vlib
import ptydrive as P
import edsess as E
import c05
from vlib import Dec, enc_list, enc_str

BOOLVARS = ["convert-meta", "input-meta", "output-meta", "history-autosuggest", "autopairs", "blink-matching-paren",
            "completion-ignore-case", "history-preserve-point", "revert-all-at-newline", "echo-control-characters",
            "enable-bracketed-paste", "menu-complete-display-prefix", "show-all-if-ambiguous", "show-all-if-unmodified",
            "skip-completed-text", "mark-modified-lines", "show-mode-in-prompt", "prefer-visible-bell", "autocomplete",
            "usage-hint-always", "isearch-terminators-x", "horizontal-scroll-mode"]
TEXTS = [b"hello world", b"ls -la /tmp", b"(a [b] {c})", b"'q r' \"s t\"", b"x", b"", b"a.b-c_d e", b"git commit -m 'x y'",
         b"say \"hi", b"f(x, y", b"a] b} c)", b"it's", b"{[(", b"a 'b c"]
PAIRS = b"\"'`()[]{}<>bBw "


def conv_bytes(seq):
    out = []
    for c in seq:
        if 0x80 <= c <= 0xFF:
            out += [27, c & 0x7F]
        else:
            out += list(chr(c).encode())
    return bytes(out)


def load_keys():
    d = Dec(vlib.impl(["effbinds"])[0])
    keys = {}
    for _ in range(d.int()):
        km = d.str()
        seq = d.list()
        act = d.str()
        d.int()
        keys.setdefault(km, []).append((conv_bytes(seq), act))
    return keys


SKIP_ACTIONS = {"edit-and-execute-command", "edit-command-line", "vi-edit-and-execute-command", "vi-edit-command-line"}


def gen(rnd, keys, k):
    vi = rnd.random() < 0.45
    rc = ["set editing-mode vi"] if vi else []
    for v in rnd.sample(BOOLVARS, rnd.randrange(0, 5)):
        rc.append("set %s %s" % (v, rnd.choice(["on", "off"])))
    if rnd.random() < 0.2:
        rc.append("set history-size %d" % rnd.choice([0, 1, 5]))
    if rnd.random() < 0.1:
        rc.append("\"\\C-t\": \"macro text\\C-a\"")
    scn = {"calls": rnd.choice([1, 1, 2]), "no_snapshot": True}
    if rnd.random() < 0.6:
        scn["histories"] = [{"name": "h", "kind": "mem", "lines": [rnd.choice(["ls", "echo a", "pwd", "git status", "a\nb", "héllo"]) for _ in range(rnd.randrange(0, 5))]}]
    if rnd.random() < 0.5:
        scn["completer"] = {"cands": [{"value": v, "desc": rnd.choice(["", "", "a description"]), "tag": rnd.choice(["", "", "files"])}
                                      for v in rnd.sample(["hello", "help", "hold", "world", "work", "x1", "x2", "alpha", "beta", "gamma", "a-very-long-candidate-name-for-the-menu"], rnd.randrange(1, 8))],
                            "filter_pref": rnd.random() < 0.7}
    if rnd.random() < 0.2:
        scn["multiline"] = True
    if vi and rnd.random() < 0.25:
        return gen_vi_objects(rnd, rc, scn)
    maps_main = ["vi-insert", "vi-command"] if vi else ["emacs"]
    maps_local = ["vi-opp", "vi-visual", "menu-select", "isearch"]
    chunks = []
    if rnd.random() < 0.8:
        chunks.append(rnd.choice(TEXTS))
    for _ in range(rnd.randrange(3, 28)):
        r = rnd.random()
        if r < 0.55:
            km = rnd.choice(maps_main)
            b, a = rnd.choice(keys[km])
            if a in SKIP_ACTIONS or not b:
                continue
            chunks.append(b)
        elif r < 0.65:
            b, a = rnd.choice(keys[rnd.choice(maps_local)])
            if b:
                chunks.append(b)
        elif r < 0.72 and vi:
            # operator / surround / text-object commands that read further keys themselves
            seq = rnd.choice([b"c", b"d", b"y", b"v", b""]) + rnd.choice([b"s", b"i", b"a", b"f", b"t", b"F", b"T", b"r", b"\""]) + \
                bytes([rnd.choice(PAIRS)]) + (bytes([rnd.choice(PAIRS)]) if rnd.random() < 0.6 else b"")
            if not any(c == b"\x1b" for c in chunks):
                chunks.append(b"\x1b")
            chunks.append(rnd.choice([b"0", b"$", b"b", b"h", b""]) + seq)
        elif r < 0.8:
            chunks.append(bytes([rnd.choice(b"abcxyz .-/'\"([{0123456789")]))
        elif r < 0.9:
            chunks.append(bytes(rnd.randrange(256) for _ in range(rnd.randrange(1, 4))))
        elif r < 0.95:
            chunks.append(rnd.choice([b"\x1b", b"\t", b"\t\t", b"\x1b[Z", b"\r", b"\x03", b"\x04", b"\x1b[5;5R", b"\x1b[200~paste\x1b[201~"]))
        else:
            chunks.append(rnd.choice(["é", "日本", "😀"]).encode())
    # merge some neighbouring chunks (paste / type-ahead)
    merged = []
    for c in chunks:
        if merged and rnd.random() < 0.3:
            merged[-1] = merged[-1] + c
        else:
            merged.append(c)
    merged = [c for c in merged if c]
    eof = rnd.random() < 0.3
    if eof:
        cut = rnd.randrange(0, len(merged) + 1)
        merged = merged[:cut]
        if rnd.random() < 0.5:
            # the input ends in the middle of a key sequence: after a proper prefix of a binding
            km = rnd.choice(maps_main)
            b, a = rnd.choice(keys[km])
            if len(b) > 1:
                if km == "vi-command" and not any(c == b"\x1b" for c in merged):
                    merged.append(b"\x1b")
                merged.append(b[:rnd.randrange(1, len(b))])
        merged.append(("eof",))
    return {"scenario": scn, "chunks": merged, "inputrc": "\n".join(rc) + "\n", "step_timeout": 3.0}


def gen_vi_objects(rnd, rc, scn):
    """vi command mode: operators with surround / inside / around objects and the character-reading motions,
    on texts with balanced and unbalanced pairs, the argument characters drawn from the text"""
    text = rnd.choice(TEXTS[8:] + TEXTS[2:4] + [b"(a (b) c)", b"x \"y\" z", b"<a> <b"])
    chunks = [text, b"\x1b"]
    punct = bytes(c for c in text if not chr(c).isalnum()) or b"\""
    for _ in range(rnd.randrange(2, 5)):
        mv = rnd.choice([b"0", b"$", b"b", b"h", b"w", b"", b"l", b"^"])
        op = rnd.choice([b"c", b"d", b"y", b"v"])
        kind = rnd.choice([b"s", b"i", b"a"]) if rnd.random() < 0.75 else rnd.choice([b"f", b"t", b"F", b"T"])
        ch = bytes([rnd.choice(punct if rnd.random() < 0.7 else PAIRS)])
        ch2 = bytes([rnd.choice(PAIRS)]) if rnd.random() < 0.7 else b""
        seq = mv + op + kind + ch + ch2
        chunks.append(seq if rnd.random() < 0.5 else mv + op)
        if chunks[-1] != seq:
            chunks.append(kind + ch + ch2)
        chunks.append(b"\x1b")
    if rnd.random() < 0.3:
        chunks = chunks[:rnd.randrange(2, len(chunks))] + [("eof",)]
    return {"scenario": scn, "chunks": chunks, "inputrc": "\n".join(rc) + "\n", "step_timeout": 3.0}


def signature(r):
    pan = [e for e in r["events"] if e["ev"] == "panic"]
    if pan:
        fr = pan[0]["frames"]
        fn = [f for f in fr if "(*Shell)" in f or "internal/" in f]
        top = (fn[0] if fn else (fr[0] if fr else "?")).split("(")[0].split("/")[-1]
        return "panic:" + top
    if r["outcome"] in ("spin", "hang", "died"):
        return r["outcome"]
    return None


def check(rep, tier, seed):
    rnd = random.Random(seed)
    if not vlib.common_setup(rep):
        return
    info, broken = vlib.proof_step(rep, "C01")
    keys = load_keys()
    n = 420 if tier == "quick" else 12000
    jobs = [gen(rnd, keys, k) for k in range(n)]
    os.environ["EDITOR"] = "/bin/true"
    # corpus first: the recorded self-feeding macro
    selfmac = {"scenario": {"calls": 1, "no_snapshot": True}, "chunks": [b"a"], "inputrc": "\"a\": \"a\"\n", "step_timeout": 3.0}
    jobs.insert(0, selfmac)
    # ... and the minimised witness of the panic fixed by e7dc7b2: vi-match-bracket on a closing bracket with no opener
    jobs.append({"scenario": {"calls": 1, "no_snapshot": True}, "chunks": [b"a", b"]", b"\x1b", b"%"], "inputrc": "set editing-mode vi\n"})
    res = P.run_many(jobs, confirm_timing=False)
    # spin / hang / died are decided by timers: a session classified that way (and not a recorded finding) is run again on its
    # own, with more time, before it counts
    reruns = 0
    for k, (j, r) in enumerate(zip(jobs, res)):
        if k > 0 and r["outcome"] in ("spin", "hang", "died") and not P.panics(r):
            reruns += 1
            res[k] = P.run_session(**dict(j, step_timeout=10.0))
    corr = correspondence(rnd, tier)
    known = {f["signature"].get("site"): f for f in rep.known if f["signature"].get("kind") in ("panic", "hang", "spin")}
    bad = []
    outcomes, hits = {}, {}
    for j, r in zip(jobs, res):
        outcomes[r["outcome"]] = outcomes.get(r["outcome"], 0) + 1
        sig = signature(r)
        if sig is None:
            continue
        matched = None
        for site, f in known.items():
            fs = f["signature"]
            if fs.get("inputrc"):
                hit = sig in ("spin", "hang") and fs["inputrc"] in j["inputrc"] and \
                    any(fs.get("input", "").encode("latin-1") in c for c in j["chunks"] if isinstance(c, bytes))
            else:
                hit = bool(site) and site in sig
            if hit:
                matched = f
        if matched:
            hits[matched["id"]] = hits.get(matched["id"], 0) + 1
            continue
        bad.append({"signature": sig, "inputrc": j["inputrc"], "scenario": j["scenario"],
                    "chunks": [c.decode("latin-1") if isinstance(c, bytes) else list(c) for c in j["chunks"]],
                    "events": [e for e in r["events"] if e["ev"] in ("panic", "return", "readerr")][:4],
                    "goroutines": r.get("goroutine_dump", "")[-1500:]})
    bad += corr["bad"]
    for fid, cnt in hits.items():
        rep.known_finding(fid, "%s (%d sessions)" % (known_what(rep, fid), cnt))
    nkeys = sum(len(v) for v in keys.values())
    rep.coverage.update({
        "evaluations": len(jobs),
        "distinct_nontrivial": len({json.dumps([c.decode("latin-1") if isinstance(c, bytes) else c for c in j["chunks"]]) for j in jobs if len(j["chunks"]) > 3}),
        "rule": "sessions of the real Readline over a pty: emacs or vi mode, 0-4 random boolean variables set through INPUTRC, optional history-size, "
                "macro binding, bound history, completer with candidates, AcceptMultiline; 3-27 inputs drawn from EVERY binding of the effective main "
                "keymaps (emacs / vi-insert / vi-command) and local keymaps (vi-opp, vi-visual, menu-select, isearch), printable keys, random bytes "
                "0-255, ESC / TAB / C-c / C-d / bracketed paste / an unsolicited cursor report / UTF-8 text, merged at random into reads; input ended "
                "(pty hang-up) at a random point in 30%% of the sessions; oracle: every Readline call returns or is blocked in its read - no panic, "
                "no spin (CPU while not reading), no hang; non-trivial = distinct scripts with more than 3 reads",
        "samples": [{"inputrc": jobs[i]["inputrc"], "chunks": [c.decode("latin-1") if isinstance(c, bytes) else list(c) for c in jobs[i]["chunks"]][:8]} for i in (0, 1)],
        "outcomes": outcomes, "bindings_drawn_from": nkeys, "timing_outcomes_rerun_alone": reruns,
        "oracle_on_impl": {"sessions": len(jobs), "failures_new": len(bad), "failures_known": hits},
        "correspondence": {"cases": corr["cases"], "mismatches": len(corr["mism"]), "ended_by_eof": corr["eof"],
                           "model_outcomes": corr["outcomes"],
                           "rule": "emacs key scripts (text + keys of the effective table bound to modelled commands, optional Enter), cut into "
                                   "random reads, the input ended after the last read in half of them: the extracted model of the whole call "
                                   "(effective table + key loop of Dispatch.v + commands of Editor.v) must end the way the real Readline does - "
                                   "waiting with the same buffer and cursor, returned with the same line and error, or stopped by the end of input "
                                   "with the same line"},
        "exhaustive": False,
    })
    rep.assumptions += ["the application ignores SIGHUP (otherwise a hang-up kills the process before the library sees the failing read)",
                        "macro bindings do not feed themselves (a self-referential macro spins by construction: known finding)"]
    seen = set()
    for b in bad:
        if b["signature"] in seen:
            continue
        seen.add(b["signature"])
        rep.violation("session", "Readline %s" % b["signature"], b)
        if len(seen) >= 3:
            break
    if (broken or corr["mism"]) and not bad:
        rep.violation("proof" if broken else "correspondence", "C01 theorems or the loop-model correspondence no longer check",
                      {"broken_obligations": broken, "correspondence_mismatches": len(corr["mism"]), "first_mismatches": corr["mism"][:3]},
                      failing_input=False)


def correspondence(rnd, tier):
    binds = c05.load_binds()
    pool = c05.key_pool(binds, "emacs", E.modelled_names())
    n = 120 if tier == "quick" else 3000
    jobs, mlines, metas = [], [], []
    for _ in range(n):
        data = list(rnd.choice(["hello world", "ls -la /tmp", "a b c", "foo.bar baz", "x", ""]).encode())
        for _ in range(rnd.randrange(1, 9)):
            if rnd.random() < 0.2:
                data += list(rnd.choice("xyz ").encode())
            else:
                data += rnd.choice(pool)[0]
        if rnd.random() < 0.3:
            data.append(13)
        if not data:
            data = [97]
        chunks, cur = [], []
        for i, b in enumerate(data):
            cur.append(b)
            if i == len(data) - 1 or rnd.random() < 0.3:
                chunks.append(cur)
                cur = []
        eof = rnd.random() < 0.5
        if eof and rnd.random() < 0.4 and 13 not in data:
            k = rnd.choice([k for k, _ in pool if len(k) > 1])      # the input ends after a proper prefix of a binding
            chunks.append(k[:rnd.randrange(1, len(k))])
        jobs.append({"scenario": {"calls": 1}, "chunks": [bytes(c) for c in chunks] + ([("eof",)] if eof else []), "inputrc": ""})
        ins = ["0 " + enc_list(c) for c in chunks] + (["1 0"] if eof else [])
        mlines.append("full 0 1 %s 0 %d %s" % (enc_str("emacs"), len(ins), " ".join(ins)))
        metas.append({"chunks": chunks, "eof": eof})
    res = P.run_many(jobs)
    gm = vlib.model(mlines)
    mism, outcomes, neof, bad = [], {}, 0, []
    for m, r, ml in zip(metas, res, gm):
        d = Dec(ml)
        code = d.int()
        tag = d.tok()
        outcomes[code] = outcomes.get(code, 0) + 1
        rets = [e for e in r["events"] if e["ev"] == "return"]
        pan = [e for e in r["events"] if e["ev"] == "panic"]
        w = [e for e in r["events"] if e["ev"] == "wait"]
        if pan:
            got = ("panic",)
        elif rets:
            got = ("returned", tuple(rets[0]["line"]), rets[0]["err"])
        elif r["outcome"] == "waiting" and w:
            got = ("waiting", tuple(w[-1]["line"]), w[-1]["cpos"])
        else:
            got = (r["outcome"],)
        if tag != "S":
            want = ("panic",)
        else:
            ln = tuple(d.list())
            cp = d.int()
            err = d.int()
            if code == 3:
                want = ("returned", ln, {0: "nil", 1: "interrupt", 2: "eof"}[err])
            elif code == 1:
                want = ("returned", ln, "eof")
                neof += 1
            elif code == 0:
                want = ("waiting", ln, cp)
            else:
                want = ("nofuel",)
        if want != got:
            mism.append({"chunks": m["chunks"], "eof": m["eof"], "impl": repr(got)[:200], "model": ml[:200]})
        if got[0] in ("panic", "spin", "hang", "died"):
            bad.append({"signature": got[0], "inputrc": "", "scenario": {"calls": 1}, "chunks": [bytes(c).decode("latin-1") for c in m["chunks"]] + (["<end of input>"] if m["eof"] else []),
                        "events": [e for e in r["events"] if e["ev"] in ("panic", "return", "readerr")][:4], "model_says": ml[:120]})
    return {"cases": n, "mism": mism, "eof": neof, "outcomes": outcomes, "bad": bad}


def known_what(rep, fid):
    for f in rep.known:
        if f["id"] == fid:
            return f["what"][:160]
    return fid
