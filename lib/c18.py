"""C18 - replaying a keyboard macro equals retyping its keys."""
import random

import vlib
import ptydrive as P
from vlib import enc_list, enc_str, Dec

EM_TEXT = [c.encode() for c in "abcxyz01 .-/'\"\\"]
EM_CTRL = [b"\x01", b"\x05", b"\x02", b"\x06", b"\x04", b"\x08", b"\x7f", b"\x0b", b"\x15", b"\x17", b"\x19", b"\x14"]
EM_ESC = [b"\x1bb", b"\x1bf", b"\x1bd", b"\x1b\x7f", b"\x1b[C", b"\x1b[D", b"\x1b[H", b"\x1b[F", b"\x1bt", b"\x1bu", b"\x1bl", b"\x1bc"]
EM_MULTI = [b"\x18\x18", b"\x1b2", b"\x1b3"]          # C-x C-x, M-2, M-3 (numeric arguments)
EM_ARG = [b"\x11x", b"\x16\t", b"\x1do"]               # C-q x, C-v TAB, C-] o: commands that read their argument key themselves
VI_CMD = [b"h", b"l", b"w", b"b", b"e", b"0", b"$", b"x", b"X", b"D", b"~", b"dw", b"db", b"de", b"d$", b"yw", b"p", b"P", b"W", b"B", b"E",
          b"2", b"3", b"^", b"dd", b"yy", b"u", b"|"]
VI_INS = [b"i", b"a", b"A", b"I"]
VI_ARG = [b"fo", b"t ", b"rz", b"Fh"]
STARTS = ["hello world foo", "one two three four", "a.b-c d/e", "say \"hi\" 'there' \\ back", "x", "", "ls -la /tmp/file name"]


def gen_script(rnd, vi, cls):
    """a list of key tokens (each token is typed in one read)"""
    toks = []
    n = rnd.choice([1, 2, 3, 4, 6, 9])
    if not vi:
        for _ in range(n):
            r = rnd.random()
            if cls == "text":
                toks.append(rnd.choice(EM_TEXT))
            elif cls == "ctrl":
                toks.append(rnd.choice(EM_CTRL + EM_TEXT[:8]))
            elif cls == "esc":
                toks.append(rnd.choice(EM_ESC + EM_TEXT[:4]))
            elif cls == "multi":
                toks.append(rnd.choice(EM_MULTI + EM_CTRL + EM_ESC))
            elif cls == "arg":
                toks.append(rnd.choice(EM_ARG + EM_CTRL))
            elif cls == "undo":
                toks.append(rnd.choice([b"\x1f", b"\x0b", b"\x17", b"a", b"\x19"]))
            elif cls == "utf8":
                toks.append(rnd.choice(["é".encode(), "世".encode(), b"a", b"\x02", "😀".encode()]))
            else:
                toks.append(rnd.choice(EM_TEXT + EM_CTRL + EM_ESC + EM_MULTI))
        return toks
    if cls == "insert-one":
        # commands, then one insert session: the only ESC is the last key of the macro
        toks = [rnd.choice(VI_CMD[:10]) for _ in range(rnd.randrange(0, 3))]
        return toks + [rnd.choice(VI_INS)] + [c.encode() for c in rnd.choice(["ab", "x y", "q'\\", "Z", "a"])] + [b"\x1b"]
    for _ in range(n):
        r = rnd.random()
        if cls == "cmd":
            toks.append(rnd.choice(VI_CMD))
        elif cls == "insert":
            if r < 0.5:
                toks += [rnd.choice(VI_INS)] + [c.encode() for c in rnd.choice(["ab", "x y", "q'\\", "Z"])] + [b"\x1b"]
            else:
                toks.append(rnd.choice(VI_CMD))
        elif cls == "ctrl":
            toks.append(rnd.choice([b"\x0c", b"\x08", b"\x7f", b"\x1b[C", b"\x1b[D"] + VI_CMD[:8]))
        elif cls == "arg":
            toks.append(rnd.choice(VI_ARG + VI_CMD[:8]))
        else:
            toks.append(rnd.choice(VI_CMD + [b"\x1b[C", b"\x1b[D", b"\x0c"]))
    return toks


def check(rep, tier, seed):
    rnd = random.Random(seed)
    if not vlib.common_setup(rep):
        return
    info, broken = vlib.proof_step(rep, "C18")
    ncase = 260 if tier == "quick" else 6000
    cases = []
    em_classes = ["text", "ctrl", "esc", "multi", "mixed", "arg", "undo", "utf8"]
    vi_classes = ["cmd", "insert", "insert-one", "ctrl", "arg", "mixed"]
    for i in range(ncase):
        vi = (i % 5) >= 3
        cls = (vi_classes if vi else em_classes)[(i // 5) % (len(vi_classes) if vi else len(em_classes))]
        cases.append({"vi": vi, "cls": cls, "start": rnd.choice(STARTS), "keys": gen_script(rnd, vi, cls),
                      "reg": rnd.choice("abzQ7") if vi else None})
    # corpus first: the minimised witness of C18-undo-one-more-command
    cases.insert(0, {"vi": False, "cls": "undo", "start": "x y", "keys": [b"a", b"\x1f", b"\x0b", b"a"], "reg": None})
    jobs = []
    for c in cases:
        pre = [ch.encode() for ch in c["start"]]
        K = c["keys"]
        if c["vi"]:
            rc = "set editing-mode vi\n"
            pre = pre + [b"\x1b"]
            reg = c["reg"].encode()
            a = pre + [b"q" + reg] + K + [b"q"] + K
            b = pre + [b"q" + reg] + K + [b"q", b"@" + reg]
        else:
            rc = "set convert-meta off\n" if c["cls"] == "utf8" else ""
            a = pre + [b"\x18("] + K + [b"\x18)"] + K
            b = pre + [b"\x18("] + K + [b"\x18)", b"\x18e"]
        jobs.append({"scenario": {"calls": 1}, "chunks": a, "inputrc": rc})
        jobs.append({"scenario": {"calls": 1}, "chunks": b, "inputrc": rc})
    res = P.run_many(jobs)
    bad = []
    known = {}
    stats = {"cases": len(cases), "by_class": {}, "agree": 0}
    nontriv = set()

    def final(r):
        pan = P.panics(r)
        if pan:
            return ("panic", pan[0]["msg"])
        w = [e for e in r["events"] if e["ev"] == "wait"]
        rets = P.returns(r)
        if rets:
            return ("returned", "".join(chr(x) for x in rets[0]["line"]), rets[0]["err"])
        if r["outcome"] == "waiting" and w:
            return ("waiting", "".join(chr(x) for x in w[-1]["line"]), w[-1]["cpos"], w[-1]["main"])
        return (r["outcome"],)
    for i, c in enumerate(cases):
        fa, fb = final(res[2 * i]), final(res[2 * i + 1])
        key = ("vi-" if c["vi"] else "em-") + c["cls"]
        stats["by_class"][key] = stats["by_class"].get(key, 0) + 1
        if len(c["keys"]) > 1:
            nontriv.add((c["vi"], c["start"], tuple(c["keys"])))
        # "the same effect on the buffer": the text (and where an edit would go: the cursor, the keymap)
        if fa == fb:
            stats["agree"] += 1
            continue
        kid = classify(c)
        if kid:
            known[kid] = known.get(kid, 0) + 1
            continue
        bad.append({"vi": c["vi"], "class": c["cls"], "start": c["start"], "keys": [list(k) for k in c["keys"]], "register": c["reg"],
                    "retyped": repr(fa), "replayed": repr(fb)})
    # known finding C18-undo-one-more-command: an emacs macro with an undo in it.  The replay command is itself one more
    # command, and the Save after ANY command refreshes the cursor kept in the newest undo snapshot: a third session in
    # which a command that changes nothing (end-kbd-macro while not recording) is run before K is retyped must end exactly
    # like the replay - then the keys were replayed faithfully and the difference is the undo log's; anything else stays
    # a violation
    sus = [b for b in bad if not b["vi"] and [0x1f] in b["keys"]]
    if sus:
        jobs3 = [{"scenario": {"calls": 1}, "inputrc": "",
                  "chunks": [ch.encode() for ch in b["start"]] + [b"\x18("] + [bytes(k) for k in b["keys"]] + [b"\x18)", b"\x18)"] + [bytes(k) for k in b["keys"]]}
                 for b in sus]
        for b, r3 in zip(sus, P.run_many(jobs3)):
            if repr(final(r3)) == b["replayed"]:
                bad.remove(b)
                known["C18-undo-one-more-command"] = known.get("C18-undo-one-more-command", 0) + 1
    for kid, n in sorted(known.items()):
        rep.known_finding(kid, KNOWN[kid] + " (%d cases)" % n)
    # the recorder / codec model against the implementation's own notation functions is C19's; here the recorder model
    mism = model_corr(rnd, tier)
    rep.coverage.update({
        "evaluations": 2 * len(cases),
        "distinct_nontrivial": len(nontriv),
        "rule": "key scripts K (classes: printable text incl. quotes and backslashes; control keys; ESC-prefixed keys and arrow/Home/End "
                "sequences; multi-key bindings and numeric arguments; commands that read an argument key; undo; non-ASCII text; vi command "
                "keys, operators, insert sessions ended by ESC, counts) after a starting buffer; session A types pre, start-record, K, end-record, K again; session B types "
                "pre, start-record, K, end-record, replay (emacs: C-x ( K C-x ) C-x e; vi: q<r> K q @<r>, registers a b z Q 7) into the real "
                "Readline over a pty, one key token per read; oracle: the two sessions end with the same buffer, cursor and keymap; "
                "non-trivial = distinct (mode, start, K) with at least 2 tokens",
        "samples": [{"vi": cases[i]["vi"], "start": cases[i]["start"], "keys": [list(k) for k in cases[i]["keys"]]} for i in (0, 3)],
        "stats": stats,
        "correspondence": {"cases": mism[0], "mismatches": len(mism[1])},
        "oracle_on_impl": {"cases": len(cases), "failures": len(bad)},
        "exhaustive": False,
    })
    for b in bad[:3]:
        rep.violation("session", "replaying the recorded macro does not give what retyping its keys gives", b)
    if (mism[1] or broken) and not bad:
        rep.violation("proof" if broken else "correspondence", "C18 theorems or the recorder correspondence no longer check",
                      {"broken_obligations": broken, "correspondence_mismatches": len(mism[1]), "first_mismatches": mism[1][:3]},
                      failing_input=False)


KNOWN = {
    "C18-undo-one-more-command": "an emacs macro with an undo in it: the replay command is one more command, and the Save after any command "
                                 "refreshes the cursor kept in the newest undo snapshot (first stored clamped to the last character, then "
                                 "refreshed to the real cursor), so a later undo lands one cell away; retyping after any command that "
                                 "changes nothing ends exactly like the replay",
    "C18-non-ascii-keys": "a macro that contains a non-ASCII character replays it as the single byte byte(rune) (fed keys are runes popped as "
                          "bytes), not as the character's UTF-8 bytes",
    "C18-vi-esc-then-keys": "a vi macro in which ESC is followed by further keys replays ESC and the next key as one Meta-prefixed sequence "
                            "(all fed keys are available at once, and only timing tells a lone ESC from a prefix in vi keymaps)",
}


def classify(c):
    """id of the known finding that covers this case, or None"""
    for kid, pred in KNOWN_PRED.items():
        if pred(c):
            return kid
    return None


KNOWN_PRED = {
    "C18-non-ascii-keys": lambda c: any(b >= 0x80 for k in c["keys"] for b in k),
    "C18-vi-esc-then-keys": lambda c: c["vi"] and any(k == b"\x1b" for k in c["keys"][:-1]),
}


def model_corr(rnd, tier):
    """the recorder model (Macro.v) against the implementation's macro engine driven directly:
    sequences of (start | stop | keys matched by a command, mustWait) -> stored macro text and replayed keys"""
    n = 300 if tier == "quick" else 5000
    # corpus first: a nested start with an invalid register keeps the register being recorded (a slip of the OCaml driver
    # around the model, found by the thorough tier)
    lines = ["macro 7 0 2 98 65 4 1 55 3 0 0 2 27 8364 4 1 33 2 0 6 1 55"]
    for _ in range(n):
        ops = []
        for _ in range(rnd.randrange(1, 9)):
            r = rnd.random()
            if r < 0.2:
                ops.append("1 0")                      # start-kbd-macro
            elif r < 0.35:
                ops.append("2 0")                      # end-kbd-macro
            elif r < 0.45:
                ops.append("3 0")                      # call-last-kbd-macro
            elif r < 0.52:
                ops.append("4 1 %d" % rnd.choice([97, 98, 81, 55, 34, 33]))      # vi style start, register (33 is not a valid one)
            elif r < 0.58:
                ops.append("5 0")
            elif r < 0.66:
                ops.append("6 1 %d" % rnd.choice([97, 98, 81, 55, 34, 33, 0]))   # run by name
            else:
                ks = [rnd.choice([1, 5, 27, 91, 65, 34, 39, 92, 97, 98, 32, 127, 200, 233, 8364])
                      for _ in range(rnd.randrange(1, 4))]
                ops.append("0 %s" % enc_list(ks))
        lines.append("macro %d %s" % (len(ops), " ".join(ops)))
    gi = vlib.impl(lines)
    gm = vlib.model(lines)
    mism = [{"case": l, "impl": a, "model": b} for l, a, b in zip(lines, gi, gm) if a != b]
    return len(lines), mism
