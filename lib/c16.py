"""C16 - yank gives back exactly what kill took."""
import random

import vlib
import edsess as E

SWEEP_KILLS = ["unix-word-rubout"]          # not in the model: oracle only


def check(rep, tier, seed):
    rnd = random.Random(seed)
    if not vlib.common_setup(rep):
        return
    info, broken = vlib.proof_step(rep, "C16")
    n = 500 if tier == "quick" else 12000
    sess = []
    for i in range(n):
        vi = rnd.random() < 0.25
        start, hist = E.start_cmds(rnd, vi)
        repeated = (not vi) and rnd.random() < 0.2
        if repeated:      # the same text killed more than once, with other kills in between
            start, hist = E.type_text(rnd.choice(["foo bar foo ", "ab ab ab ", "x y x y ", "one two one two one "])), None
        ringfull = (not vi) and (not repeated) and rnd.random() < 0.06
        if ringfull:      # more kills than the ring has slots (10): the newest kill is still what yank gives back
            start, hist = E.type_text(" ".join("w%02d" % j for j in range(1, 15)) + " "), None
        cmds = list(start)
        modelled = True
        if ringfull:
            kills = [[("backward-kill-word",), ("beginning-of-line",), ("end-of-line",)] for _ in range(rnd.choice([10, 11, 12, 13]))]
            kills[-1] = [("backward-kill-word",)]
            yank = ("yank",)
        elif vi:
            cmds.append(("vi-movement-mode",))
            cmds += E.moves(rnd, True, rnd.randrange(0, 4))
            kills = []
            for _ in range(rnd.choice([1, 1, 2])):
                k = []
                if rnd.random() < 0.3:
                    k.append(("vi-arg-digit", rnd.choice("23")))
                k.append(("vi-delete",))
                kills.append(k)
            yank = ("vi-put-before",)
        else:
            cmds += E.moves(rnd, False, rnd.randrange(0, 4))
            kills = []
            for _ in range(rnd.choice([1, 1, 1, 2, 3]) if not repeated else rnd.choice([3, 4, 5])):
                name = rnd.choice(E.EM_KILLS + (SWEEP_KILLS if rnd.random() < 0.1 else [])) if not repeated else rnd.choice(["backward-kill-word", "kill-word", "backward-kill-word"])
                k = []
                if name == "kill-region":
                    k += [("set-mark",)] + E.moves(rnd, False, rnd.randrange(1, 3))
                elif rnd.random() < 0.3 and name in ("kill-line", "backward-kill-line"):
                    k.append(("digit-argument", rnd.choice("23")))   # the other kills leave a pending argument to the yank
                k.append((name,))
                if name in SWEEP_KILLS:
                    modelled = False
                kills.append(k)
                if len(kills) < 3 and rnd.random() < 0.5 and not repeated:
                    kills[-1] += E.moves(rnd, False, 1)
            yank = ("yank",)
        kill_idx = []
        for k in kills:
            cmds += k
            # index of the kill command itself (movement after a kill comes later in k)
            names = [c[0] for c in cmds]
        # the last kill is followed directly by the yank: strip trailing moves of the last group
        while cmds and cmds[-1][0] in E.EM_MOVES + ["digit-argument"]:
            cmds.pop()
        cmds.append(yank)
        sess.append({"vi": vi, "hist": hist, "cmds": cmds, "modelled": modelled})
    out = E.run(sess)
    mism, bad = [], []
    nontriv = set()
    stats = {"kills_that_removed_text": 0, "empty_kills": 0}
    known_eol = 0
    for s, o in zip(sess, out):
        if s["modelled"]:
            d = E.compare(s, o)
            if d:
                mism.append({"session": s, "diff": d})
        steps = [o["first"]] + o["steps"]
        if len(steps) < len(s["cmds"]) + 1:
            bad.append({"session": s, "failure": "session did not complete: %s" % o["impl"]["outcome"],
                        "panics": [p["msg"] for p in P_panics(o)]})
            continue
        # the last kill: the command just before the final yank
        before, after_kill, after_yank = steps[-3], steps[-2], steps[-1]
        line0, line1, line2 = before[0], after_kill[0], after_yank[0]
        top = after_kill[5]
        if line1 == line0:
            stats["empty_kills"] += 1
            continue          # a kill that removed nothing: narrow reading (DESIGN.md C16)
        stats["kills_that_removed_text"] += 1
        nontriv.add((line0, before[1], tuple(c[0] for c in s["cmds"][-3:])))
        c = after_kill[1]
        fails = []
        if line1[:c] + top + line1[c:] != line0:
            fails.append("the buffer before the kill is not the buffer after it with the kill-ring top spliced in at the cursor")
        if s["cmds"][-1][0] == "yank" and line2 != line0:
            fails.append("yank right after the kill does not restore the buffer")
        if s["cmds"][-1][0] == "vi-put-before" and line2 != line0:
            fails.append("vi-put-before right after vi-delete does not restore the buffer")
        if fails and s["cmds"][-2][0] == "vi-delete" and (c < before[1] or (top and top[-1] == 10)):
            known_eol += 1       # x on the last character of a line, or x that removed a newline
            continue
        if fails:
            bad.append({"session": s, "failure": fails, "before": txt(line0), "after_kill": txt(line1), "kill_ring_top": txt(top),
                        "cursor_after_kill": c, "after_yank": txt(line2)})
    if known_eol:
        rep.known_finding("C16-vi-delete-last-char", "vi-delete on the last character of a line moves the cursor left, so vi-put-before "
                          "reinserts the character one cell too early (%d sessions; vim behaves the same)" % known_eol)
    rep.coverage.update({
        "evaluations": len(sess),
        "distinct_nontrivial": len(nontriv),
        "rule": "sessions typed into the real Readline over a pty: text (typed ASCII, or a history entry with multi-byte / multi-line text), "
                "movements, 1-3 kills by command name (kill-line, backward-kill-line, kill-whole-line, kill-word, backward-kill-word, "
                "kill-region after set-mark + moves, unix-word-rubout; vi: x with counts), numeric arguments, then yank / vi-put-before; "
                "non-trivial = the last kill removed text (distinct buffer, cursor, command triple)",
        "samples": [{"cmds": [c if len(c) > 1 else c[0] for c in sess[i]["cmds"]], "hist": sess[i]["hist"]} for i in (0, 1)],
        "stats": stats,
        "correspondence": {"cases": sum(1 for s in sess if s["modelled"]), "mismatches": len(mism)},
        "oracle_on_impl": {"cases": len(sess), "failures": len(bad)},
        "modelled_commands": sorted(E.modelled_names()),
        "exhaustive": False,
    })
    rep.assumptions += ["a kill that removes nothing leaves the ring alone (the following yank inserts the previous kill); the statement is read for kills that remove text"]
    for b in bad[:3]:
        rep.violation("session", "kill followed by yank does not give the text back", b)
    if (mism or broken) and not bad:
        rep.violation("proof" if broken else "correspondence", "C16 theorems or the Editor.v correspondence no longer check",
                      {"broken_obligations": broken, "correspondence_mismatches": len(mism), "first_mismatches": mism[:3]},
                      failing_input=False)


def txt(t):
    return "".join(chr(c) for c in t)


def P_panics(o):
    return [e for e in o["impl"]["events"] if e["ev"] == "panic"]
