"""C13 - inputrc directives apply iff all enclosing conditions hold."""
import random

import vlib
import inputrc_gen as G


def cond_true(cond, mode, term, app):
    if cond.startswith("mode="):
        return cond[5:] == mode
    if cond.startswith("term="):
        return cond[5:] == term
    return cond.lower() == app


STRICT_OK = {"emacs", "emacs-standard", "emacs-meta", "emacs-ctlx", "vi", "vi-move", "vi-command", "vi-insert"}


def flatten(text, mode, term, app, files=None, strict=False, depth=0):
    """Reference evaluator of the block structure: keeps a leaf iff every enclosing
    $if/$else block is active; an active $include is replaced by the flattened file,
    bracketed by the keymap switches that reproduce the included parser's own keymap
    scope. Returns (flattened text, nested-in-inactive flag, max depth)."""
    files = files or {}
    sep = "\r\n" if "\r\n" in text else "\n"
    out, stack = [], []
    nested_inactive = False
    maxdepth = 0
    keymap = "emacs"
    for ln in text.split(sep):
        s = ln.strip()
        if s.startswith("$if "):
            if not all(stack):
                nested_inactive = True
            stack.append(cond_true(s[4:].strip(), mode, term, app))
            maxdepth = max(maxdepth, len(stack))
        elif s == "$else":
            if not all(stack[:-1]):
                nested_inactive = True
            stack[-1] = not stack[-1]
        elif s == "$endif":
            stack.pop()
        elif all(stack):
            if s.startswith("$include ") and s[9:].strip() in files and depth < 3:
                inner, ni, md = flatten(files[s[9:].strip()], mode, term, app, files, False, depth + 1)
                nested_inactive = nested_inactive or ni
                maxdepth = max(maxdepth, md)
                out.append("set keymap emacs")
                out += [x for x in inner.split("\n") if x != ""]
                out.append("set keymap " + keymap)
                continue
            if s.startswith("set keymap "):
                v = s[11:].split()[0] if s[11:].split() else ""
                if not strict or v in STRICT_OK:
                    keymap = v
            out.append(ln)
    return sep.join(out) + sep, nested_inactive, maxdepth


def check(rep, tier, seed):
    rnd = random.Random(seed)
    if not vlib.common_setup(rep):
        return
    info, broken = vlib.proof_step(rep, "C13")
    n = 2500 if tier == "quick" else 50000
    files = [("inc1", 0, b"set from-inc 1\n\"\\C-i\": tab-insert\nset keymap vi\nq: in-vi-map\n"),
             ("inc2", 0, b"$if mode=vi\nset k 2\n$else\nset k 3\n$endif\nx: y\n$if term=xterm\nt: on-xterm\n$else\nt: not-xterm\n$endif\n$if Bash\nset a 1\n$endif\n"),
             ("nope", 1, b"")]
    fmap = {n: c.decode() for (n, k, c) in files if k == 0}
    cases, flat, meta = [], [], []
    for i in range(n):
        mode, term, app = rnd.choice(["emacs", "vi"]), rnd.choice(["xterm", "rxvt"]), rnd.choice(["bash", "usql"])
        prog = G.gen_program(rnd, files=[f[0] for f in files], max_stmts=rnd.choice([3, 5, 8]))
        vs = G.gen_initial_vars(rnd)
        strict = rnd.random() < 0.4
        ftxt, nested, depth = flatten(prog, mode, term, app, fmap, strict)
        cases.append(G.parse_case(False, strict, app, term, mode, vs, files, prog.encode()))
        flat.append(G.parse_case(False, strict, app, term, mode, vs, [], ftxt.encode()))
        meta.append({"program": prog, "mode": mode, "term": term, "app": app, "nested_in_inactive": nested, "depth": depth, "strict": strict,
                     "flattened": ftxt})
    got_i = vlib.impl(cases)
    got_f = vlib.impl(flat)
    got_m = vlib.model(cases)
    mism = [{"case": meta[k], "impl": a[:600], "model": b[:600]} for k, (a, b) in enumerate(zip(got_i, got_m)) if a != b]
    bad, known = [], 0
    depth_hist = {}
    for k in range(n):
        depth_hist[meta[k]["depth"]] = depth_hist.get(meta[k]["depth"], 0) + 1
        a, f = G.ParseOut(got_i[k]), G.ParseOut(got_f[k])
        if a.panic or a.bad or f.panic or f.bad or (a.binds, a.vars) != (f.binds, f.vars):
            if meta[k]["nested_in_inactive"]:
                known += 1
            else:
                bad.append({"case": meta[k], "impl_on_program": got_i[k][:600], "impl_on_active_leaves_only": got_f[k][:600]})
    if known:
        rep.known_finding("C13-nested-if-in-inactive-block",
                          "an $if/$else nested inside an inactive block is evaluated on its own test alone (%d generated programs; "
                          "pinned by testdata/default.inputrc of the existing suite)" % known)
    rep.coverage.update({
        "evaluations": 3 * n,
        "distinct_nontrivial": len({m["program"] for m in meta if m["depth"] >= 1}),
        "rule": "well-formed programs from the grammar ($if mode=/term=/app nested up to 4 deep, $else, $endif, set keymap, set var, key-name and "
                "quoted binds, macros, comments, $include) x (mode, term, app) x preset variables; each program is run by the implementation, by the "
                "model, and (oracle) by the implementation again on the program reduced to the leaves a block-structure reference evaluator keeps; "
                "non-trivial = at least one $if",
        "samples": [meta[0], meta[1]],
        "nesting_depth_histogram": depth_hist,
        "correspondence": {"cases": n, "mismatches": len(mism)},
        "oracle_on_impl": {"cases": n, "failures_new": len(bad), "failures_known_nested_inactive": known,
                           "programs_with_nested_inactive": sum(1 for m in meta if m["nested_in_inactive"])},
        "exhaustive": False,
    })
    rep.assumptions += ["the reference evaluator of the oracle reads $if tests as the grammar writes them (mode=, term=, application name)"]
    for b in bad[:3]:
        rep.violation("call", "a directive was applied or skipped against its enclosing $if/$else blocks", b)
    if (mism or broken) and not bad:
        rep.violation("proof" if broken else "correspondence", "C13 theorems or the Inputrc.v correspondence no longer check",
                      {"broken_obligations": broken, "correspondence_mismatches": len(mism), "first_mismatches": mism[:3]},
                      failing_input=False)
