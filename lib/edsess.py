"""Editing sessions at command level: the same command sequence is typed into the real
Readline over a pty (each command through a key binding, one read per command) and run
through the extracted Editor.v; the state at each input wait is compared."""
import vlib
import ptydrive as P
from vlib import enc_list, enc_str, Dec

PFX = 0x1C   # private prefix key for custom bindings: "\034" + letter

# commands bound through the private prefix (name -> letter)
CUSTOM = {}
_letters = "abcdefghijklmnopqrstuvwxyzABCDEFGHIJKLMNOPQRSTUVWXYZ0123456789"
_NAMES = ["accept-line", "forward-char", "backward-char", "forward-word", "backward-word", "vi-backward-word",
          "beginning-of-line", "end-of-line", "vi-end-of-line", "delete-char", "backward-delete-char", "kill-line",
          "backward-kill-line", "kill-whole-line", "kill-word", "backward-kill-word", "kill-region",
          "copy-region-as-kill", "set-mark", "exchange-point-and-mark", "yank", "undo", "vi-undo", "redo",
          "previous-history", "next-history", "vi-movement-mode", "vi-insertion-mode", "vi-append-mode",
          "vi-forward-char", "vi-backward-char", "vi-forward-word", "vi-forward-bigword", "vi-backward-bigword",
          "vi-end-word", "vi-end-bigword", "vi-first-print", "vi-delete", "vi-put-before", "vi-visual-mode",
          # not in the model (exercised by the direct oracle sweeps only)
          "yank-pop", "transpose-chars", "copy-forward-word", "copy-backward-word", "vi-put-after", "vi-kill-eol",
          "vi-change-case", "unix-word-rubout", "vi-yank-whole-line", "revert-line", "vi-backward-end-word", "vi-match",
          "up-line-or-history", "down-line-or-history", "beginning-of-history", "end-of-history",
          "history-search-backward", "history-search-forward", "vi-visual-line-mode",
          "accept-and-hold", "operate-and-get-next", "accept-and-infer-next-history", "history-substring-search-backward",
          "history-substring-search-forward", "infer-next-history", "fetch-history", "vi-search", "reverse-search-history",
          "forward-search-history", "end-of-file", "abort"]
for i, n in enumerate(_NAMES):
    CUSTOM[n] = _letters[i // 62] + _letters[i % 62]


def inputrc(vi, extra=""):
    lines = []
    if vi:
        lines.append("set editing-mode vi")
    for km in (["emacs"] if not vi else ["vi-insert", "vi-command"]):
        lines.append("set keymap " + km)
        for n, l in CUSTOM.items():
            lines.append("\"\\034%s\": %s" % (l, n))
    return "\n".join(lines) + "\n" + extra


def typed(cmd):
    """cmd: (name, arg) where arg is the typed character(s) for key-inspecting commands.
    Returns (bytes to type, Keys.Caller() runes)."""
    name = cmd[0]
    if name == "raw":                  # bytes typed as they are (commands outside the model)
        return cmd[1], list(cmd[1])
    if name == "self-insert":
        c = cmd[1]
        return c.encode(), [ord(c)]
    if name == "digit-argument":       # M-<digit>
        return b"\x1b" + cmd[1].encode(), [27, ord(cmd[1])]
    if name == "vi-arg-digit":
        return cmd[1].encode(), [ord(cmd[1])]
    if name == "vi-delete-to":
        return b"d", [100]
    if name == "vi-yank-to":
        return b"y", [121]
    l = CUSTOM[name]
    return bytes([PFX]) + l.encode(), [PFX] + [ord(c) for c in l]


MAIN = {"emacs": 0, "vi-insert": 1, "vi-command": 2, "vi": 2, "vi-move": 2}
LOCAL = {"": 0, "vi-opp": 1, "vi-visual": 2}


def snap_tuple(s):
    sel = s["sel"]
    return (tuple(s["line"]), s["cpos"], MAIN.get(s["main"], 9), LOCAL.get(s["local"], 9), s["upos"], tuple(s["kill"]),
            int(sel[0]), int(sel[1]), int(sel[2]), sel[3], sel[4])


def model_steps(line):
    """parses the edsess output: list of state tuples (same shape as snap_tuple) + accepted + written"""
    out = []
    d = Dec(line)
    while not d.done():
        w = d.tok()
        if w == "S":
            ln = tuple(d.list())
            cp, km, kl, up = d.int(), d.int(), d.int(), d.int()
            kill = tuple(d.list())
            sel = (d.int(), d.int(), d.int(), d.int(), d.int())
            acc = d.int()
            wr = [d.list() for _ in range(d.int())]
            out.append({"t": (ln, cp, km, kl, up, kill) + sel, "accepted": acc, "written": wr})
        elif w == "PANIC":
            out.append({"panic": d.int()})
            break
        else:
            out.append({"bad": w})
            break
    return out


def model_case(vi, mem_kind, max_entries, hist, cmds):
    parts = ["edsess", "1" if vi else "0", "1" if mem_kind else "0", str(max_entries), str(len(hist))]
    parts += [enc_str(h) for h in hist]
    parts.append(str(len(cmds)))
    for c in cmds:
        _, caller = typed(c)
        parts += [enc_str(c[0]), enc_list(caller)]
    return " ".join(parts)


def run(sessions, sel_pos=False, calls=1, extra_rc="", end_eof=False):
    """sessions: list of dicts {vi, hist (list of str), cmds (list of (name[,arg]))}.
    Returns per session: {"impl": pty result, "steps": [snapshot tuple after each command], "model": model steps}"""
    jobs, mlines = [], []
    for s in sessions:
        scn = {"calls": calls, "sel_pos": sel_pos}
        if s.get("hist") is not None:
            scn["histories"] = [{"name": "h", "kind": "mem", "lines": s["hist"]}]
        chunks = [typed(c)[0] for c in s["cmds"]]
        if end_eof:
            # hang up at the end: the call ends, the child reports the contents of its history sources and exits
            chunks.append(("eof",))
        jobs.append({"scenario": scn, "chunks": chunks, "inputrc": inputrc(s["vi"], s.get("rc", "") + extra_rc)})
        if any(c[0] == "raw" for c in s["cmds"]):
            s["modelled"] = False
        mlines.append(model_case(s["vi"], True, s.get("max", -1), s.get("hist") or [],
                                 [c for c in s["cmds"] if c[0] != "raw"] if s.get("modelled", True) else []))
    res = P.run_many(jobs)
    gm = vlib.model(mlines)
    out = []
    for s, r, ml in zip(sessions, res, gm):
        waits = [e for e in r["events"] if e["ev"] == "wait"]
        # wait 1 is the initial one; wait k+1 follows command k
        steps = [snap_tuple(w) for w in waits[1:]]
        out.append({"impl": r, "first": snap_tuple(waits[0]) if waits else None, "steps": steps, "waits": waits,
                    "model": model_steps(ml), "model_raw": ml})
    return out


def compare(sess, o):
    """first step at which model and implementation differ, or None"""
    r = o["impl"]
    pan = [e for e in r["events"] if e["ev"] == "panic"]
    ms = o["model"]
    n = len(sess["cmds"])
    for k in range(n):
        m = ms[k] if k < len(ms) else None
        if m is None:
            return {"step": k, "why": "model stopped", "model": ms[-1] if ms else None}
        if "panic" in m:
            if pan:
                return None        # both panic
            return {"step": k, "why": "model panics, implementation does not", "site": m["panic"]}
        if m["accepted"]:
            rets = [e for e in r["events"] if e["ev"] == "return"]
            if not rets:
                return {"step": k, "why": "model accepts, implementation did not return"}
            if tuple(rets[0]["line"]) != m["t"][0]:
                return {"step": k, "why": "returned line differs", "impl": rets[0]["line"], "model": list(m["t"][0])}
            return None
        if k >= len(o["steps"]):
            return {"step": k, "why": "implementation stopped: %s %s" % (r["outcome"], [p["msg"] for p in pan][:1]),
                    "frames": [p["frames"][:3] for p in pan][:1]}
        if o["steps"][k] != m["t"]:
            return {"step": k, "why": "state differs", "cmd": sess["cmds"][k], "impl": o["steps"][k], "model": m["t"]}
    return None


# ---------------------------------------------------------------- generators shared by C06 C07 C16 C17

TEXTS = ["hello world", "foo bar-baz qux", "a  b", "x", "ls -la /tmp", "(a.b) c", "one\\ two", "echo 'a b' \"c d\"",
         "  lead", "trail  ", "a.b.c", "word", "if (x[1] == {y}) z"]
HTEXTS = ["héllo wörld", "日本語 テキスト", "a\nb c\nd", "first line\n\nthird", "tab\there", "emoji 😀 end", "x\n", "é",
          "é\na", "éé\nab", "日本\nabcd", "é\n\ncd", "hello world\nsecond line", "éa"]

EM_MOVES = ["forward-char", "backward-char", "forward-word", "backward-word", "beginning-of-line", "end-of-line"]
EM_KILLS = ["kill-line", "backward-kill-line", "kill-whole-line", "kill-word", "backward-kill-word", "kill-region"]
EM_EDITS = ["delete-char", "backward-delete-char"] + EM_KILLS + ["yank"]
VI_MOVES = ["vi-forward-char", "vi-backward-char", "vi-forward-word", "vi-backward-word", "vi-forward-bigword",
            "vi-backward-bigword", "vi-end-word", "vi-end-bigword", "vi-first-print", "vi-end-of-line", "beginning-of-line"]


def type_text(t):
    return [("self-insert", c) for c in t]


def start_cmds(rnd, vi, allow_hist=True):
    """commands that put some text in the buffer, and the history to bind"""
    if allow_hist and rnd.random() < 0.3:
        t = rnd.choice(HTEXTS + TEXTS)
        return [("previous-history",)], [t]
    return type_text(rnd.choice(TEXTS)), None


def moves(rnd, vi, n):
    """movements; a numeric argument only before the ones that consume it (the others leave it pending)"""
    out = []
    for _ in range(n):
        m = rnd.choice(VI_MOVES if vi else EM_MOVES)
        consumes = m not in ("beginning-of-line", "end-of-line", "vi-end-of-line", "vi-first-print")
        if consumes and rnd.random() < 0.2:
            out.append(("vi-arg-digit", rnd.choice("23")) if vi else ("digit-argument", rnd.choice("234")))
        out.append((m,))
    return out


_MODELLED = None


def modelled_names():
    """command names Editor.v implements (asked from the extracted model)"""
    global _MODELLED
    if _MODELLED is None:
        d = Dec(vlib.model(["edcmds"])[0])
        _MODELLED = {d.str() for _ in range(d.int())}
    return _MODELLED
