"""C05 - the result does not depend on how input is chunked or timed."""
import random

import vlib
import ptydrive as P
import edsess as E
from vlib import enc_list, enc_str, Dec


def conv_bytes(seq):
    out = []
    for c in seq:
        if 0x80 <= c <= 0xFF:
            out += [27, c & 0x7F]
        else:
            out += list(chr(c).encode())
    return out


def load_binds():
    d = Dec(vlib.impl(["effbinds"])[0])
    binds = {}
    for _ in range(d.int()):
        km = d.str()
        seq = d.list()
        act = d.str()
        mac = d.int()
        binds.setdefault(km, []).append((seq, act, mac))
    return binds


def key_pool(binds, km, modelled):
    """typed byte sequences of the keymap whose command the model implements and which no other binding extends"""
    seqs = {tuple(conv_bytes(s)): a for (s, a, m) in binds[km] if not m}
    pool = []
    for b, a in seqs.items():
        if a not in modelled or a in ("self-insert",) or not b:
            continue
        if any(o != b and o[:len(b)] == b for o in seqs):
            continue
        if a in ("accept-line", "vi-movement-mode", "vi-insertion-mode", "vi-append-mode", "vi-delete-to", "vi-yank-to",
                 "accept-and-hold", "operate-and-get-next", "vi-visual-mode"):
            continue
        pool.append((list(b), a))
    return pool


def cuts(rnd, data, forced=(), nocut=()):
    """several ways of cutting the byte list into reads; `forced` = indexes after which a cut is always made,
    `nocut` = indexes after which none is (ESC that starts a sequence, in vi)"""
    n = len(data)
    outs = []
    for mode in ("one", "bytes", "rand", "rand", "pairs"):
        cur, chunks = [], []
        for i, b in enumerate(data):
            cur.append(b)
            last = i == n - 1
            cut = (i in forced) or last
            if not cut and i not in nocut:
                if mode == "bytes":
                    cut = True
                elif mode == "rand":
                    cut = rnd.random() < 0.35
                elif mode == "pairs":
                    cut = len(cur) >= 2
            if cut:
                chunks.append(cur)
                cur = []
        outs.append(chunks)
    seen, res = set(), []
    for c in outs:
        t = tuple(tuple(x) for x in c)
        if t not in seen:
            seen.add(t)
            res.append(c)
    return res


# commands that read their argument key themselves (outside the model): oracle across chunkings only
ARG_EMACS = [[0x11, ord("x")], [0x16, ord("\t")], [0x1D, ord("o")],      # C-q x, C-v TAB, C-] o (character-search)
             [0x11] + list("€".encode()), [0x16] + list("世".encode()), [0x1D] + list("€".encode())]
ARG_VI = [[ord("f"), ord("o")], [ord("t"), ord(" ")], [ord("r"), ord("z")], [ord("F"), ord("h")],
          [ord("f")] + list("€".encode()), [ord("r")] + list("世".encode()), [ord("F")] + list("€".encode())]


def check(rep, tier, seed):
    rnd = random.Random(seed)
    if not vlib.common_setup(rep):
        return
    info, broken = vlib.proof_step(rep, "C05")
    binds = load_binds()
    modelled = E.modelled_names()
    pools = {"emacs": key_pool(binds, "emacs", modelled), "vi-command": key_pool(binds, "vi-command", modelled)}
    nscripts = 110 if tier == "quick" else 3000
    scripts = []
    for i in range(nscripts):
        vi = rnd.random() < 0.3
        data, forced, nocut, modelled_script = [], set(), set(), True
        text = rnd.choice(["hello world", "ls -la /tmp", "a b c", "foo.bar baz", "x", "日本 €x 😀", "a€ 世b"])
        data += list(text.encode())
        if vi:
            data.append(27)
            forced.add(len(data) - 1)          # a lone ESC is only distinguishable by timing: always its own read end
        pool = pools["vi-command" if vi else "emacs"]
        for _ in range(rnd.randrange(2, 9)):
            r = rnd.random()
            if r < 0.15 and not vi:
                data += list(rnd.choice("xyz ").encode())
            elif r < 0.25:
                data += rnd.choice(ARG_VI if vi else ARG_EMACS)
                modelled_script = False
            elif vi and r < 0.45:
                # an operator and its motion: the operator-pending local keymap hands the motion key back to the main one,
                # with the rest of the read already waiting behind it
                data += list(rnd.choice([b"dw", b"de", b"yw", b"db", b"d$", b"dd", b"dh", b"yl", b"yb"]))
                modelled_script = False
            else:
                k = rnd.choice(pool)[0]
                if vi and k[0] == 27 and len(k) > 1:
                    nocut.add(len(data))
                data += k
        if rnd.random() < 0.7:
            data.append(13)
        if not vi and rnd.random() < 0.06:      # C-c with keys typed after it
            data = list(text.encode()) + [3] + list(b"xyz") + [13]
            forced, nocut, modelled_script = set(), set(), False
        scripts.append({"vi": vi, "data": data, "forced": forced, "nocut": nocut, "modelled": modelled_script})
    jobs, meta = [], []
    for si, s in enumerate(scripts):
        for ch in cuts(rnd, s["data"], s["forced"], s["nocut"]):
            jobs.append({"scenario": {"calls": 1}, "chunks": [bytes(c) for c in ch], "inputrc": "set editing-mode vi\n" if s["vi"] else "",
                         "keep_output": False})
            meta.append({"script": si, "chunks": ch, "glued": False})
    res = P.run_many(jobs)
    # second half: bytes delivered together with a cursor position report
    gjobs, gmeta = [], []
    for k, (m, r) in enumerate(zip(meta, res)):
        ch = m["chunks"]
        if len(ch) < 2 or rnd.random() > 0.5:
            continue
        waits = r["waits"]
        j = rnd.randrange(1, len(ch))          # deliver chunk j with the report that precedes its wait
        if j >= len(waits) or r["outcome"] not in ("waiting", "exit"):
            continue
        qi = waits[j]["nq"] - 1
        if qi < 0 or waits[j]["nq"] <= waits[j - 1]["nq"]:
            continue          # no query between the two reads: nothing to glue this chunk to
        x = bytes(ch[j])
        cutp = rnd.randrange(0, len(x) + 1)
        if scripts[m["script"]]["vi"] and (27 in x):
            cutp = 0
        qa = [None] * qi + [[x[:cutp] + b"<REPORT>" + x[cutp:]]]
        gjobs.append({"scenario": {"calls": 1}, "chunks": [bytes(c) for i, c in enumerate(ch) if i != j],
                      "inputrc": "set editing-mode vi\n" if scripts[m["script"]]["vi"] else "", "query_answers": qa})
        gmeta.append({"script": m["script"], "chunks": ch, "glued": True, "glued_chunk": j, "split_at": cutp})
    gres = P.run_many(gjobs) if gjobs else []
    allmeta, allres = meta + gmeta, res + gres

    def final(r):
        rets = [e for e in r["events"] if e["ev"] == "return"]
        pan = [e for e in r["events"] if e["ev"] == "panic"]
        if pan:
            return ("panic", pan[0]["msg"])
        if rets:
            return ("returned", tuple(rets[0]["line"]), rets[0]["err"])
        w = [e for e in r["events"] if e["ev"] == "wait"]
        if r["outcome"] == "waiting" and w:
            return ("waiting", tuple(w[-1]["line"]), w[-1]["cpos"], w[-1]["main"])
        return (r["outcome"],)
    # model
    mlines = []
    for s in scripts:
        km = "vi-insert" if s["vi"] else "emacs"
        mlines.append("full %d 1 %s 0 1 0 %s" % (1 if s["vi"] else 0, enc_str(km), enc_list(s["data"])))
    # the model switches tables with the keymap only through its exec state: vi scripts are compared across chunkings only
    gm = vlib.model(mlines)
    by_script = {}
    for m, r in zip(allmeta, allres):
        by_script.setdefault(m["script"], []).append((m, final(r)))
    bad, mism = [], []
    known_abort = 0
    stats = {"runs": len(allres), "glued_runs": len(gres), "scripts_with_argument_commands": sum(1 for s in scripts if not s["modelled"]),
             "vi_scripts": sum(1 for s in scripts if s["vi"])}
    nontriv = set()
    for si, runs in by_script.items():
        s = scripts[si]
        outs = {f for _, f in runs}
        if len(runs) > 1:
            nontriv.add(tuple(s["data"]))
        if len(outs) > 1 and 3 in s["data"] and s["data"].index(3) < len(s["data"]) - 1:
            known_abort += 1
        elif len(outs) > 1:
            ref = runs[0][1]
            odd = [(m, f) for m, f in runs if f != ref][0]
            bad.append({"bytes": s["data"], "vi": s["vi"], "chunks_a": runs[0][0]["chunks"], "result_a": repr(ref)[:200],
                        "chunks_b": odd[0]["chunks"], "glued_with_report": odd[0].get("glued"), "glued_chunk": odd[0].get("glued_chunk"),
                        "result_b": repr(odd[1])[:200]})
        if s["modelled"] and not s["vi"]:
            d = Dec(gm[si])
            code = d.int()
            tag = d.tok()
            f0 = runs[0][1]
            if tag == "S":
                ln = tuple(d.list())
                cp = d.int()
                err = d.int()
                want = ("returned", ln, {0: "nil", 1: "interrupt", 2: "eof"}[err]) if code == 3 else ("waiting", ln, cp)
                got = f0[:3] if f0[0] == "waiting" else f0
                if want != got:
                    mism.append({"bytes": s["data"], "impl": repr(f0)[:200], "model": gm[si][:200]})
    if known_abort:
        rep.known_finding("C05-abort-consumes-typeahead", "C-c followed by more keys in the same read does not interrupt and eats a key, "
                          "C-c alone in its read interrupts (%d scripts)" % known_abort)
    rep.coverage.update({
        "evaluations": len(allres),
        "distinct_nontrivial": len(nontriv),
        "rule": "key scripts (typed text, then 2-8 keys of the default emacs / vi-command tables bound to modelled commands - arrows and other "
                "escape sequences included - and argument-reading commands f<c> t<c> r<c> F<c> C-q<c> C-v<c> C-]<c>, optional Enter) typed into the "
                "real Readline over a pty in up to 5 chunkings each (one read, one byte per read, pairs, two random cuttings; in vi a lone ESC "
                "always ends a read) and, for half of them, with one chunk delivered in the same read as a cursor position report (before, after "
                "or around it); oracle: all runs of a script give the same returned (line, error) or waiting (buffer, cursor, keymap); emacs "
                "scripts without argument commands are also compared with the full model (default table + key loop + editor)",
        "samples": [{"bytes": scripts[i]["data"], "chunkings": [m["chunks"] for m, _ in by_script[i]][:3]} for i in (0, 1)],
        "stats": stats,
        "correspondence": {"cases": sum(1 for s in scripts if s["modelled"] and not s["vi"]), "mismatches": len(mism)},
        "oracle_on_impl": {"scripts": len(scripts), "failures": len(bad)},
        "exhaustive": False,
    })
    rep.assumptions += ["in vi keymaps (and local keymaps) a lone ESC is told from an ESC-prefixed sequence by timing only: no cut or glue directly after ESC there"]
    for b in bad[:3]:
        rep.violation("session", "the same bytes gave different results under different chunkings", b)
    if (mism or broken) and not bad:
        rep.violation("proof" if broken else "correspondence", "C05 theorems or the full-model correspondence no longer check",
                      {"broken_obligations": broken, "correspondence_mismatches": len(mism), "first_mismatches": mism[:3]},
                      failing_input=False)
