"""C08 - accepted lines are recorded in history exactly once."""
import os
import random

import vlib
import ptydrive as P
import edsess as E
from vlib import enc_list, enc_str, Dec

LINES = ["ls -l", " ls -l ", "echo hi", "", "   ", "x", "dup", "dup ", "a b  c", "échø", "two\\"]
ACCEPTS = [("accept-line", 0, False), ("accept-and-hold", 0, False), ("operate-and-get-next", 0, True),
           ("accept-and-infer-next-history", 0, True), ("interrupt", 1, False), ("eof", 2, False), ("multiline", 0, False)]


def gen(rnd, tmpdir, k):
    nsrc = rnd.choice([0, 1, 1, 2, 2, 3])
    srcs = []
    for i in range(nsrc):
        kind = rnd.choice(["mem", "mem", "file"])
        lines = [rnd.choice(["dup", "ls -l", "old", "echo hi", "x"]) for _ in range(rnd.randrange(0, 5))]
        if kind == "file":
            lines = [l for j, l in enumerate(lines) if l.strip() and (j == 0 or lines[j - 1].strip() != l.strip())]
        srcs.append({"name": "s%d" % i, "kind": kind, "path": os.path.join(tmpdir, "c08-%d-%d.hist" % (k, i)), "lines": lines})
    size = rnd.choice([None, None, 0, 1, 2, 3, 50])
    line = rnd.choice(LINES)
    acc = rnd.choice(ACCEPTS)
    if acc[0] == "eof":
        line = ""
    if any(ord(c) > 127 for c in line):
        line = "plain"          # non-ASCII cannot be typed (C02); history entries carry it elsewhere
    return {"srcs": srcs, "size": size, "line": line, "accept": acc}


def check(rep, tier, seed):
    rnd = random.Random(seed)
    if not vlib.common_setup(rep):
        return
    info, broken = vlib.proof_step(rep, "C08")
    tmp = os.path.join(vlib.BUILD, "tmp")
    os.makedirs(tmp, exist_ok=True)
    n = 400 if tier == "quick" else 10000
    cases = [gen(rnd, tmp, k) for k in range(n)]
    jobs, mlines = [], []
    for c in cases:
        for s in c["srcs"]:
            if s["kind"] == "file" and os.path.exists(s["path"]):
                os.remove(s["path"])
        rc = E.inputrc(False, ("set history-size %d\n" % c["size"]) if c["size"] is not None else "")
        name, err, inf = c["accept"]
        chunks = [ch.encode() for ch in c["line"]] if c["line"] else []
        scn = {"calls": 1, "histories": c["srcs"], "no_snapshot": True}
        if rnd.random() < 0.4 and name != "multiline" and not c["line"].endswith("\\"):
            scn["multiline"] = True          # the application has an AcceptMultiline callback; the line is complete
            c["callback"] = True
        typed = c["line"]
        if name == "interrupt":
            chunks.append(b"\x03")
        elif name == "eof":
            chunks.append(b"\x04")
        elif name == "multiline":
            scn["multiline"] = True
            if typed.endswith("\\"):
                chunks += [b"\r", b"m", b"\r"]
                typed = typed + "\nm"
            else:
                chunks.append(b"\r")
        elif name == "accept-line":
            chunks.append(b"\r")
        else:
            chunks.append(E.typed((name,))[0])
        jobs.append({"scenario": scn, "chunks": chunks, "inputrc": rc})
        mx = -1 if c["size"] in (None, 0) else c["size"]
        parts = ["c08", str(err), "1" if inf else "0", str(mx), enc_str(typed), str(len(c["srcs"]))]
        for s in c["srcs"]:
            parts += ["1" if s["kind"] == "mem" else "0", str(len(s["lines"]))] + [enc_str(l) for l in s["lines"]]
        mlines.append(" ".join(parts))
        c["typed"] = typed
    res = P.run_many(jobs)
    gm = vlib.model(mlines)
    for c in cases:
        for s in c["srcs"]:
            if s["kind"] == "file" and os.path.exists(s["path"]):
                os.remove(s["path"])
    mism, bad = [], []
    stats = {"recorded": 0, "not_recorded": 0, "by_accept": {}}
    nontriv = set()
    for c, r, ml in zip(cases, res, gm):
        name, err, inf = c["accept"]
        stats["by_accept"][name] = stats["by_accept"].get(name, 0) + 1
        rets = [e for e in r["events"] if e["ev"] == "return"]
        hev = {e["idx"]: ["".join(chr(x) for x in l) for l in (e["lines"] or [])] for e in r["events"] if e["ev"] == "hist"}
        d = Dec(ml)
        model_srcs = []
        for _ in range(d.int()):
            d.int()
            model_srcs.append([d.str() for _ in range(d.int())])
        desc = {"sources": [(s["kind"], s["lines"]) for s in c["srcs"]], "history_size": c["size"], "line": c["typed"], "accept": name,
                "accept_multiline_callback": c.get("callback", False)}
        if not rets:
            bad.append({"case": desc, "failure": "Readline did not return (%s) %s" % (r["outcome"], [e["msg"] for e in r["events"] if e["ev"] == "panic"])})
            continue
        want_err = {0: "nil", 1: "interrupt", 2: "eof"}[err]
        fails = []
        if rets[0]["err"] != want_err:
            fails.append("returned error %s, expected %s" % (rets[0]["err"], want_err))
        impl_srcs = [hev.get(i, None) for i in range(len(c["srcs"]))]
        if impl_srcs != model_srcs:
            mism.append({"case": desc, "impl": impl_srcs, "model": model_srcs})
        # the property itself, on what the implementation did
        t = c["typed"].strip()
        for i, s in enumerate(c["srcs"]):
            before, after = s["lines"], impl_srcs[i]
            if after is None:
                fails.append("source %d not reported" % i)
                continue
            appended = after[len(before):] if after[:len(before)] == before else None
            if appended is None or len(appended) > 1 or (appended and appended[0].strip() != t):
                fails.append("source %d went from %r to %r" % (i, before, after))
                continue
            must_not = err != 0 or inf or t == "" or (before and before[-1].strip() == t and before[-1] != "")
            size = c["size"] if c["size"] else None
            must = (not must_not) and (size is None or len(before) < size)
            if must_not and appended:
                fails.append("source %d recorded %r though it must not (%s)" % (i, appended[0], name))
            if must and not appended:
                fails.append("source %d did not record %r (history-size %r, %d entries)" % (i, t, c["size"], len(before)))
            if appended:
                stats["recorded"] += 1
                nontriv.add((tuple(before), c["typed"], name, c["size"]))
            else:
                stats["not_recorded"] += 1
        if fails:
            bad.append({"case": desc, "after": impl_srcs, "failure": fails})
    rep.coverage.update({
        "evaluations": len(cases),
        "distinct_nontrivial": len(nontriv),
        "rule": "one Readline call over a pty per case: 0-3 bound sources (in-memory / file-backed, 0-4 prior entries incl. duplicates of the "
                "line), history-size unset/0/1/2/3/50 through INPUTRC, a typed line (plain, padded, blank, empty, duplicate of the last entry, "
                "continued with a backslash under AcceptMultiline) and one accept variant (accept-line, accept-and-hold, operate-and-get-next, "
                "accept-and-infer-next-history, C-c, C-d on the empty line, multi-line accept); source contents before/after compared with the "
                "model and with the property; non-trivial = a source recorded the line (distinct prior contents, line, variant, size)",
        "samples": [{"sources": [(s["kind"], s["lines"]) for s in cases[i]["srcs"]], "size": cases[i]["size"], "line": cases[i]["line"], "accept": cases[i]["accept"][0]} for i in (0, 1)],
        "stats": stats,
        "correspondence": {"cases": len(cases), "mismatches": len(mism)},
        "oracle_on_impl": {"cases": len(cases), "failures": len(bad)},
        "exhaustive": False,
    })
    rep.assumptions += ["history-size 0 is treated by the code as unlimited; the property does not judge it",
                        "a source that already holds history-size entries is not written (the property's reading)"]
    for b in bad[:3]:
        rep.violation("session", "an accepted line was not recorded exactly as the property says", b)
    if (mism or broken) and not bad:
        rep.violation("proof" if broken else "correspondence", "C08 theorems or the sources_accept correspondence no longer check",
                      {"broken_obligations": broken, "correspondence_mismatches": len(mism), "first_mismatches": mism[:3]},
                      failing_input=False)
