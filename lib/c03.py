"""C03 - key sequences run exactly the command they are bound to."""
import random

import vlib
import ptydrive as P
from vlib import enc_list, enc_str, Dec

TYPED = [97, 98, 99, 27, 24]
SEQ_ALPHA = [97, 98, 27, 24, 0xE1]     # a b ESC C-x M-a


def esc_notation(seq):
    out = ""
    for c in seq:
        if c == 27:
            out += "\\e"
        elif c == 24:
            out += "\\C-x"
        elif c == 0xE1:
            out += "\\M-a"
        else:
            out += chr(c)
    return out


def conv_bytes(seq):
    """bytes a table sequence is matched against (ConvertMeta then UTF-8)"""
    out = []
    for c in seq:
        if 0x80 <= c <= 0xFF:
            out += [27, c & 0x7F]
        else:
            out += list(chr(c).encode())
    return out


def gen_table(rnd, allow_macro):
    n = rnd.randrange(1, 6)
    tbl = {}
    for i in range(n):
        seq = tuple(rnd.choice(SEQ_ALPHA) for _ in range(rnd.choice([1, 1, 2, 2, 3])))
        if allow_macro and rnd.random() < 0.2:
            body = [rnd.choice([99, 99, 98, 27, 24, 97]) for _ in range(rnd.randrange(1, 4))]
            tbl[seq] = ("".join(chr(c) for c in body), True)
        else:
            tbl[seq] = ("p%d" % (i + 1), False)
    return tbl


def chunkings(rnd, keys, vi):
    """one chunk, one byte per chunk, random cuts (never right after ESC in vi keymaps)"""
    outs = [[keys]] if keys else [[]]
    outs.append([[k] for k in keys])
    for _ in range(2):
        cuts, cur = [], []
        for i, k in enumerate(keys):
            cur.append(k)
            if rnd.random() < 0.4 and i + 1 < len(keys):
                cuts.append(cur)
                cur = []
        if cur:
            cuts.append(cur)
        outs.append(cuts)
    if vi:
        outs = [c for c in outs if all(ch[-1] != 27 for ch in c[:-1])] or [[keys]]
        outs = [c for c in outs if not (c and c[-1] and c[-1][-1] == 27)] or outs
    # dedupe
    seen, res = set(), []
    for c in outs:
        t = tuple(tuple(x) for x in c if x)
        if t not in seen:
            seen.add(t)
            res.append([list(x) for x in t])
    return res


def lookup(tbl_sorted, read):
    match, ext = None, False
    for sb, b in tbl_sorted:
        if len(read) < len(sb) and sb[:len(read)] == read:
            ext = True
        if read == sb:
            match = b
    return match, ext


def reference(tbl, keys, expand_macros=True):
    """The property as an automaton over the typed keys: extend while some binding has the
    keys read so far as a proper prefix, remember the last exact match; run it when the next key
    rules the longer ones out (that key is consumed); a macro's keys are read as if typed there."""
    srt = sorted(tbl.items(), key=lambda kv: (len("".join(map(chr, kv[0])).encode()), "".join(map(chr, kv[0])).encode()))
    ts = [(conv_bytes(k), v) for k, v in srt]
    events = []
    keys = list(keys)
    cur, mem = [], None
    steps = 0
    while keys and steps < 5000:
        steps += 1
        k = keys.pop(0)
        cur = cur + [k]
        m, ext = lookup(ts, cur)
        fire = None
        if m is None and not ext:
            fire, cur, mem = mem, [], None
            used = None
        elif ext:
            if m is not None:
                mem = m
            continue
        else:
            fire, used, cur, mem = m, cur, [], None
        if fire is not None:
            if fire[1]:
                if expand_macros:
                    keys = [ord(c) for c in fire[0]] + keys
            else:
                events.append(fire[0])
    return events, cur


def check(rep, tier, seed):
    rnd = random.Random(seed)
    if not vlib.common_setup(rep):
        return
    info, broken = vlib.proof_step(rep, "C03")
    n = 260 if tier == "quick" else 6000
    jobs, meta, mlines = [], [], []
    for i in range(n):
        vi = rnd.random() < 0.35
        km = "vi-insert" if vi else "emacs"
        tbl = gen_table(rnd, allow_macro=(rnd.random() < 0.4))
        keys = [rnd.choice(TYPED) for _ in range(rnd.randrange(1, 8))]
        # make bound sequences likely
        if rnd.random() < 0.7:
            k = list(rnd.choice(list(tbl)))
            keys = keys[:rnd.randrange(0, 3)] + conv_bytes(k) + keys[rnd.randrange(0, 3):]
        keys = keys[:10]
        for ch in chunkings(rnd, keys, vi):
            scn = {"calls": 1, "vi": vi, "clear_maps": [km], "no_snapshot": True,
                   "probes": [{"keymap": km, "seq": esc_notation(s), "action": a} for s, (a, m) in tbl.items() if not m],
                   "binds": [{"keymap": km, "seq": esc_notation(s), "action": a, "macro": True} for s, (a, m) in tbl.items() if m]}
            jobs.append({"scenario": scn, "chunks": [bytes(c) for c in ch], "inputrc": "set editing-mode vi\n" if vi else ""})
            meta.append({"keymap": km, "table": {esc_notation(s): (a if not m else "macro:" + repr(a)) for s, (a, m) in tbl.items()},
                         "keys": keys, "chunks": ch, "has_macro": any(m for (_, m) in tbl.values()), "tbl": tbl})
            parts = ["disp", "1" if vi else "0", "1", str(len(tbl))]
            for s, (a, m) in tbl.items():
                parts += [enc_list(list(s)), enc_str(a), "1" if m else "0"]
            names = sorted({a for (a, m) in tbl.values() if not m})
            parts.append(str(len(names)))
            parts += [enc_str(a) for a in names]
            parts.append(str(len(ch)))
            parts += ["0 " + enc_list(c) for c in ch]
            mlines.append(" ".join(parts))
    res = P.run_many(jobs)
    gm = vlib.model(mlines)
    mism, bad, known = [], [], 0
    nonterm_agree = 0
    nontriv = set()
    for k, (r, ml) in enumerate(zip(res, gm)):
        m = meta[k]
        impl_log = [(e["name"], e["keys"]) for e in r["events"] if e["ev"] == "probe"]
        d = Dec(ml)
        code = d.int()
        mlog = []
        for _ in range(d.int()):
            a = d.str()
            mlog.append((a, d.list()))
        nonterm = code == 2 and r["outcome"] in ("spin", "hang")
        if nonterm:
            nonterm_agree += 1
            continue
        if r["outcome"] != "waiting" or code != 0 or impl_log != mlog:
            mism.append({"case": {x: m[x] for x in ("keymap", "table", "keys", "chunks")}, "impl_outcome": r["outcome"],
                         "impl_log": impl_log, "model": ml[:300]})
        want, _ = reference(m["tbl"], m["keys"])
        got = [a for a, _ in impl_log]
        if len(impl_log) >= 1:
            nontriv.add((str(m["table"]), tuple(m["keys"])))
        if got != want:
            rec = {"case": {x: m[x] for x in ("keymap", "table", "keys", "chunks")}, "commands_run": got, "property_says": want}
            if m["has_macro"] and any(len(c) > 1 for c in m["chunks"]):
                known += 1
            else:
                bad.append(rec)
    if known:
        rep.known_finding("C03-macro-typeahead-order",
                          "keys that arrive in the same read after a macro-bound sequence are dispatched before the macro's keys (%d runs)" % known)
    rep.coverage.update({
        "evaluations": len(jobs),
        "distinct_nontrivial": len(nontriv),
        "rule": "random bind tables (1-5 bindings of length 1-3 over a, b, ESC, C-x, M-a; overlapping prefixes; 40% of tables with macro "
                "bindings) bound as probe commands into an emptied emacs or vi-insert keymap of the real Readline over a pty x key strings "
                "(<= 10 keys over a, b, c, ESC, C-x, biased to contain a bound sequence) x chunkings (one read, one byte per read, random cuts; "
                "no cut directly after ESC in vi-insert); non-trivial = at least one probe command ran",
        "samples": [{"case": {x: meta[i][x] for x in ("keymap", "table", "keys", "chunks")},
                     "impl_log": [(e["name"], e["keys"]) for e in res[i]["events"] if e["ev"] == "probe"]} for i in (0, len(jobs) // 2)],
        "correspondence": {"cases": len(jobs), "mismatches": len(mism), "self_feeding_macros_nonterminating_on_both_sides": nonterm_agree},
        "oracle_on_impl": {"cases": len(jobs), "failures_new": len(bad), "failures_known_macro_typeahead": known},
        "not_covered": "local keymaps (vi-opp, visual, menu-select) are not in the model yet; vi-command main keymap not exercised by this check",
        "exhaustive": False,
    })
    for b in bad[:3]:
        rep.violation("session", "a key sequence ran a different command list than its bindings say", b)
    if (mism or broken) and not bad:
        rep.violation("proof" if broken else "correspondence", "C03 theorems or the Dispatch.v correspondence no longer check",
                      {"broken_obligations": broken, "correspondence_mismatches": len(mism), "first_mismatches": mism[:3]},
                      failing_input=False)
