"""C20 - resizes and async prints never break an edit in progress."""
import random

import vlib
import ptydrive as P

TEXT = "abcdefghij klmnop"
KEYS = [b"\x01", b"\x05", b"\x02", b"\x06", b"\x17", b"\x19", b"\x1bb", b"\x1bf", b"\x7f", b"\x0b", b"\x1b[D", b"\x1b[C"]


def gen_script(rnd):
    chunks = [c.encode() for c in "".join(rnd.choice(TEXT) for _ in range(rnd.randrange(2, 14)))]
    for _ in range(rnd.randrange(0, 6)):
        chunks.insert(rnd.randrange(0, len(chunks) + 1), rnd.choice(KEYS))
    for _ in range(rnd.randrange(0, 3)):
        chunks.append(rnd.choice(TEXT).encode())
    return chunks + [b"\r"]


def disturb(rnd, chunks, kind, many):
    """the script with disturbances between its reads; returns (events, printf_at).
    many = False: ONE disturbance, at a random read (a watcher left asleep by an earlier one would mask the later ones)"""
    ev, printf_at = [], []
    widths = [80, 60, 100, 40, 120]
    where = set(range(len(chunks))) if many else {rnd.randrange(0, len(chunks))}
    i = 0
    while i < len(chunks):
        nwait = i + 1          # the wait at which chunk i is sent (one wait per chunk in an undisturbed run)
        hit = i in where and (not many or rnd.random() < 0.4)
        if hit and kind == "winch":
            for _ in range(rnd.choice([1, 1, 2, 3]) if many else 1):
                ev.append(("winch", 24, rnd.choice(widths), rnd.choice([0.0, 0.005, 0.03])))
        elif hit and kind == "printf":
            printf_at.append(nwait)
        elif hit and kind == "both":
            printf_at.append(nwait)
            ev.append(("winch", 24, rnd.choice(widths), rnd.choice([0.0, 0.01])))
        elif hit and kind == "glued" and chunks[i] != b"\r":
            # the next key arrives in the same read as the report of the resize redisplay: before, after or around it
            x = chunks[i]
            cut = rnd.randrange(0, len(x) + 1) if x[0] != 0x1b else rnd.choice([0, len(x)])
            ev.append(("winch-glued", 24, rnd.choice(widths), x[:cut] + b"<REPORT>" + x[cut:]))
            i += 1
            continue
        ev.append(chunks[i])
        i += 1
    return ev, printf_at


def check(rep, tier, seed):
    rnd = random.Random(seed)
    race = tier != "quick"
    if not vlib.common_setup(rep, race=race):
        return
    info, broken = vlib.proof_step(rep, "C20")
    n = 50 if tier == "quick" else 1500
    scripts = [gen_script(rnd) for _ in range(n)]
    kinds = ["winch", "printf", "both", "glued"]
    jobs, meta = [], []
    for si, ch in enumerate(scripts):
        jobs.append({"scenario": {"calls": 1, "askers_check": True}, "chunks": ch, "step_timeout": 8.0})
        meta.append((si, "none"))
        for kind in kinds:
            # quiet: ONE disturbance while the main loop is blocked waiting for input; the next key is sent only after the
            # redisplay it causes is over
            ev, pf = disturb(rnd, ch, kind, False)
            jobs.append({"scenario": {"calls": 1, "askers_check": True, "printf_at": pf}, "chunks": ev, "step_timeout": 3.0,
                         "serialize": True})
            meta.append((si, kind))
            if kind != "glued":
                # racing: many disturbances, keys keep coming while the redisplays run
                ev, pf = disturb(rnd, ch, kind, True)
                jobs.append({"scenario": {"calls": 1, "askers_check": True, "printf_at": pf}, "chunks": ev, "step_timeout": 3.0})
                meta.append((si, "racing-" + kind))
    res = P.run_many(jobs, workers=12, confirm_timing=False)
    base = {}
    bad = []
    known = {}
    stats = {"scripts": len(scripts), "runs": len(jobs), "by_kind": {}, "disturbed_runs_with_a_redisplay_query": 0, "stuck_askers_seen": 0}
    nontriv = set()

    def final(r):
        pan = P.panics(r)
        if pan:
            return ("panic", pan[0]["msg"], tuple(pan[0]["frames"][:3]))
        rets = P.returns(r)
        if rets:
            return ("returned", "".join(chr(x) for x in rets[0]["line"]), rets[0]["err"])
        return (r["outcome"],)
    for (si, kind), r, job in zip(meta, res, jobs):
        stats["by_kind"][kind] = stats["by_kind"].get(kind, 0) + 1
        f = final(r)
        if kind == "none":
            base[si] = f
            continue
        fails = []
        if f != base[si]:
            fails.append("with disturbances the call ended with %r, without them with %r" % (f, base[si]))
        if r["outcome"] in ("hang", "spin"):
            fails.append("the call did not end (%s)" % r["outcome"])
        ask = [e for e in r["events"] if e["ev"] == "askers"]
        stuck = sum(e["stuck"] for e in ask)
        if stuck:
            stats["stuck_askers_seen"] += 1
        nontriv.add((si, kind))
        if fails and not P.panics(r) and base[si][0] == "returned":
            typed = set("".join(chr(b) for ch in scripts[si] for b in ch if 32 <= b < 127))
            if f[0] in ("hang", "waiting", "spin"):
                # known finding: the main loop and a concurrent redisplay wait for each other's cursor report, or a
                # redisplay never ends and input is not read any more
                known["C20-handoff-deadlock"] = known.get("C20-handoff-deadlock", 0) + 1
                continue
            if f[0] == "returned" and set(f[1]) <= typed and f[2] == base[si][2]:
                # only typed characters, some missing or out of order
                kid = "C20-keys-reordered" if sorted(f[1]) == sorted(base[si][1]) else "C20-keys-lost"
                known[kid] = known.get(kid, 0) + 1
                continue
        if fails:
            bad.append({"kind": kind, "script": [list(c) for c in scripts[si]],
                        "events": [list(e) if isinstance(e, (bytes, bytearray)) else [str(x) for x in e] for e in job["chunks"]],
                        "printf_at_waits": job["scenario"].get("printf_at"), "failure": fails,
                        "goroutine_dump": r.get("goroutine_dump", "")[-1500:]})
        elif stuck:
            # the model's refuted clause (C20_watcher_stuck_refuted): a watcher left asleep on a dead channel
            known["C20-stale-channel"] = known.get("C20-stale-channel", 0) + 1
    for kid, cnt in sorted(known.items()):
        rep.known_finding(kid, KNOWN[kid] + " (%d runs)" % cnt)
    rep.coverage.update({
        "evaluations": len(jobs),
        "distinct_nontrivial": len(nontriv),
        "rule": "key scripts (typed text, movement / kill / yank keys, arrow sequences, Enter) run in the real Readline over a pty once "
                "undisturbed and four times with disturbances injected between reads: SIGWINCH (1-3 in a row, 0-30 ms apart, new widths), "
                "Shell.Printf from another goroutine, both at the same wait, and a resize whose cursor report arrives in the same read as "
                "the next key (before, after or around it); oracle: the disturbed call returns what the undisturbed one returns, does not "
                "hang or panic; goroutines still inside GetCursorPos after the return are counted; non-trivial = disturbed runs; thorough "
                "tier: the child is also built with -race",
        "samples": [{"script": [list(c) for c in scripts[i]]} for i in (0, 1)],
        "stats": stats,
        "correspondence": {"cases": 0, "mismatches": 0,
                           "note": "the protocol model is not run against the implementation: schedules cannot be imposed on goroutines; "
                                   "its refutation witnesses describe interleavings, the sessions sample the ones a driver can provoke"},
        "oracle_on_impl": {"cases": len(jobs), "failures": len(bad)},
        "exhaustive": False,
    })
    rep.assumptions += ["data races (Go memory model), signal delivery and goroutine scheduling are outside the Gallina model: observed only",
                        "disturbances are injected while the main loop is blocked waiting for input (the driver cannot time them inside a command)"]
    for b in bad[:3]:
        rep.violation("session", "a resize / async print changed the outcome of the edit", b)
    if broken and not bad:
        rep.violation("proof", "C20 theorems no longer check", {"broken_obligations": broken}, failing_input=False)


KNOWN = {
    "C20-handoff-deadlock": "a resize / Printf redisplay concurrent with the main loop can consume or drop the cursor report the other side "
                            "is waiting for: the call stops reading input for good (theorems C20_watcher_stuck_refuted, "
                            "C20_stale_asker_is_stuck_for_ever; two outstanding queries answered in one read lose a report)",
    "C20-keys-lost": "keys typed while a concurrent redisplay handles stdin are dropped (theorem C20_key_lost_refuted)",
    "C20-keys-reordered": "keys typed while a concurrent redisplay handles stdin are stored out of order (theorem C20_keys_reordered_refuted)",
    "C20-stale-channel": "a goroutine that redisplays (resize watcher or Printf) was still inside GetCursorPos after Readline returned: "
                         "nobody will send it a report any more (theorem C20_stale_asker_is_stuck_for_ever)",
}
