"""C07 - undo walks back through real earlier states; redo reverses undo."""
import random

import vlib
import edsess as E

SAVING_EDITS = ["delete-char", "backward-delete-char", "kill-line", "backward-kill-line", "kill-whole-line", "kill-word",
                "backward-kill-word", "yank"]
# commands after which the buffer shown is not (yet) in the undo log (they set SkipSave)
UNSAVED = {"self-insert", "backward-kill-word", "digit-argument", "vi-arg-digit"} | set(E.EM_MOVES) | (set(E.VI_MOVES) - {"vi-forward-word", "vi-first-print"})


def gen(rnd, kind):
    vi = rnd.random() < 0.25
    hist = None
    if rnd.random() < 0.25:      # multi-byte / multi-line text, through a history entry
        hist = [rnd.choice(E.HTEXTS)]
        cmds = [("previous-history",)]
    else:
        cmds = E.type_text(rnd.choice(E.TEXTS))
    if vi:
        cmds.append(("vi-movement-mode",))
    undo = ("vi-undo",) if vi else ("undo",)
    edits = ["vi-delete", "vi-put-before"] if vi else SAVING_EDITS
    mv = E.VI_MOVES if vi else E.EM_MOVES

    def some_edits(k):
        out = []
        for _ in range(k):
            r = rnd.random()
            if r < 0.5:
                out.append((rnd.choice(edits),))
            elif r < 0.8:
                out.append((rnd.choice(mv),))
            elif not vi:
                out.append(("self-insert", rnd.choice("xyz ")))
            else:
                out.append((rnd.choice(mv),))
        return out
    cmds += some_edits(rnd.randrange(1, 7))
    mark = len(cmds)
    if kind == "walk":        # (a) (b): undo many times
        cmds += [undo] * rnd.randrange(1, 14)
    elif kind == "redo":      # (c): n undos then n redos
        n = rnd.randrange(1, 5)
        cmds += [undo] * n + [("redo",)] * n
    elif kind == "rewalk":    # (b) again after a new edit made at the oldest state
        cmds += [undo] * (len(cmds) + 2) + [(rnd.choice(["yank", "kill-line"] if not vi else ["vi-put-before"]),)] + [undo] * 6
    elif kind == "branch":    # (d): undo, a saved edit, redo
        cmds += [undo] * rnd.randrange(1, 4) + [(rnd.choice(["kill-line", "backward-kill-line", "delete-char"] if not vi else ["vi-delete"]),), ("redo",)]
    else:                     # mixed
        for _ in range(rnd.randrange(2, 10)):
            r = rnd.random()
            cmds += [undo] if r < 0.4 else ([("redo",)] if r < 0.6 else some_edits(1))
    return {"vi": vi, "hist": hist, "cmds": cmds, "kind": kind, "mark": mark}


def check(rep, tier, seed):
    rnd = random.Random(seed)
    if not vlib.common_setup(rep):
        return
    info, broken = vlib.proof_step(rep, "C07")
    n = 500 if tier == "quick" else 15000
    sess = [gen(rnd, rnd.choice(["walk", "walk", "redo", "redo", "branch", "mixed", "rewalk"])) for _ in range(n)]
    if tier != "quick":
        # exhaustive short sequences over a command alphabet
        alpha = [("self-insert", "a"), ("delete-char",), ("backward-char",), ("kill-line",), ("backward-kill-line",), ("yank",), ("undo",), ("redo",)]
        import itertools
        for L in (3, 4):
            for seq in itertools.product(alpha, repeat=L):
                if ("undo",) in seq:
                    sess.append({"vi": False, "hist": None, "cmds": E.type_text("ab c") + list(seq), "kind": "exhaustive", "mark": 4})
    out = E.run(sess, extra_rc="")
    mism, bad = [], []
    known = {"redo_unsaved": 0, "log_truncated": 0}
    stats = {"undo_steps": 0, "sessions_by_kind": {}}
    nontriv = set()
    for s, o in zip(sess, out):
        stats["sessions_by_kind"][s["kind"]] = stats["sessions_by_kind"].get(s["kind"], 0) + 1
        d = E.compare(s, o)
        if d:
            mism.append({"session": s, "diff": d})
        steps = [o["first"]] + o["steps"]
        if len(steps) < len(s["cmds"]) + 1:
            bad.append({"cmds": cm(s), "failure": "session did not complete (%s)" % o["impl"]["outcome"],
                        "panics": [e["msg"] for e in o["impl"]["events"] if e["ev"] == "panic"]})
            continue
        lines = [st[0] for st in steps]
        names = [c[0] for c in s["cmds"]]
        fails = []
        seen = set()
        for k, name in enumerate(names):
            seen.add(lines[k])
            if name in ("undo", "vi-undo"):
                stats["undo_steps"] += 1
                # (a) what undo shows was shown before
                if lines[k + 1] not in seen:
                    fails.append("(a) undo at step %d produced %r, never shown before" % (k, txt(lines[k + 1])))
        undos_present = any(x in ("undo", "vi-undo") for x in names)
        if undos_present:
            nontriv.add((tuple(names), lines[s["mark"]]))
        if s["kind"] == "walk" and not fails:
            # (b) enough undos reach the initial (empty) buffer
            nund = len(names) - s["mark"]
            # every undo goes back over at least one change of the text: as many undos as there were changes, plus one,
            # are enough (counting distinct texts is not: a text that comes back, x / empty / x / empty, is a state each time)
            saved_states = 1 + sum(1 for i in range(s["mark"]) if lines[i + 1] != lines[i])
            if nund >= saved_states + 1 and lines[-1] != () and s["hist"] is None:
                fails.append("(b) %d undos over %d successive states end at %r, not at the initial empty line" % (nund, saved_states, txt(lines[-1])))
        if s["kind"] == "redo" and not fails:
            target = lines[s["mark"]]
            if lines[-1] != target:
                j = s["mark"] - 1
                while j >= 0 and lines[j + 1] == lines[j]:
                    j -= 1
                if j >= 0 and names[j] in UNSAVED:   # the last change before the undos was never put in the undo log
                    known["redo_unsaved"] += 1        # the state before the undos was never saved
                else:
                    fails.append("(c) n undos then n redos give %r, not %r" % (txt(lines[-1]), txt(target)))
        if s["kind"] == "rewalk" and not fails and s["hist"] is None:
            if lines[-1] != ():
                k_edit = len(names) - 7
                if lines[k_edit + 1] != lines[k_edit]:      # the edit at the oldest state changed the buffer (was saved)
                    known["log_truncated"] += 1
                else:
                    fails.append("(b) undoing repeatedly ends at %r, not at the initial empty line" % txt(lines[-1]))
        if s["kind"] == "branch" and not fails:
            if lines[-1] != lines[-2]:
                fails.append("(d) redo after a new edit changed the buffer from %r to %r" % (txt(lines[-2]), txt(lines[-1])))
        if fails:
            bad.append({"cmds": cm(s), "kind": s["kind"], "vi": s["vi"], "buffers": [txt(l) for l in lines], "failure": fails})
    if known["redo_unsaved"]:
        rep.known_finding("C07-redo-unsaved-state", "n undos then n redos do not bring back a buffer whose last change was a self-insert "
                          "(typed text is not in the undo log and undo does not save it) (%d sessions)" % known["redo_unsaved"])
    if known["log_truncated"]:
        rep.known_finding("C07-edit-at-oldest-state-drops-log", "a saved edit made right after undoing back to the oldest state truncates the "
                          "whole undo log, initial state included: further undos never reach the initial line (%d sessions)" % known["log_truncated"])
    rep.coverage.update({
        "evaluations": len(sess),
        "distinct_nontrivial": len(nontriv),
        "rule": "command sessions typed into the real Readline over a pty: text, 1-6 edits/movements, then (walk) 1-13 undos, (redo) n undos + n "
                "redos, (branch) undos + a saved edit + redo, (mixed) random undo/redo/edit; thorough: all sequences of length 3-4 over an "
                "8-command alphabet containing an undo; non-trivial = distinct (command sequence, buffer) with at least one undo",
        "samples": [{"cmds": cm(sess[i]), "kind": sess[i]["kind"]} for i in (0, 1)],
        "stats": stats, "known_classes": known,
        "correspondence": {"cases": len(sess), "mismatches": len(mism)},
        "oracle_on_impl": {"sessions": len(sess), "failures": len(bad)},
        "exhaustive": False,
    })
    for b in bad[:3]:
        rep.violation("session", "undo/redo does not behave as the property says", b)
    if (mism or broken) and not bad:
        rep.violation("proof" if broken else "correspondence", "C07 theorems or the Editor.v correspondence no longer check",
                      {"broken_obligations": broken, "correspondence_mismatches": len(mism), "first_mismatches": mism[:3]},
                      failing_input=False)


def cm(s):
    return [c if len(c) > 1 else c[0] for c in s["cmds"]]


def txt(t):
    return "".join(chr(c) for c in t)
