"""C02 - what the user types is what Readline returns."""
import itertools
import random

import vlib
import ptydrive as P
from vlib import enc_list, enc_str, Dec

ASCII = [chr(c) for c in range(32, 127)]
LATIN1 = [chr(c) for c in range(0xA0, 0x100)]
BMP = list("ĀžƒǅʒΩЖשׁعकๅ€™←∑─●☺﹏ｱ�ﬁ ") + [chr(0x800), chr(0xFFF), chr(0x1000), chr(0xD7FF), chr(0xE000), chr(0xFFFD), chr(0xFFFF)]
CJK = list("日本語中文한국어テキストａＡ！")
ASTRAL = list("😀𝒜🚀🀄𐍈") + [chr(0x10000), chr(0x10FFFF), chr(0x1F1FA), chr(0x20000)]
COMBINING = ["é", "ä", "ñ", "कि", "👍🏽", "👨‍👩"]
# characters whose UTF-8 encoding contains bytes that are bound keys when read as Latin-1 / meta keys
TRICKY = [chr(0xC3 * 64 % 0x800 + 0x1B)] + list("Ã\u009b¿àÿ\u0080­") + [chr(0x7FF), chr(0x80 + 0x1B), "؛", "਍"]
TRICKY = [c for c in TRICKY if ord(c) >= 0xA0]


def gen_string(rnd, cls):
    n = rnd.choice([1, 2, 3, 5, 8, 13, 21])
    pools = {"ascii": ASCII, "latin1": LATIN1 + ASCII, "bmp": BMP + ASCII[:20], "cjk": CJK + [" "], "astral": ASTRAL + ["a"],
             "combining": COMBINING + ["x"], "tricky": TRICKY + ["a"], "mixed": ASCII + LATIN1 + BMP + CJK + ASTRAL + TRICKY}
    return "".join(rnd.choice(pools[cls]) for _ in range(n))


def cuttings(rnd, data, tier):
    """ways of cutting the typed bytes (RET included) into reads"""
    n = len(data)
    outs = [[data], [data[i:i + 1] for i in range(n)]]
    # every cut inside a multi-byte character: two reads
    for i in range(1, n):
        if data[i] & 0xC0 == 0x80:
            outs.append([data[:i], data[i:]])
    for _ in range(2 if tier == "quick" else 6):
        cur, chunks = [], []
        for b in data:
            cur.append(b)
            if rnd.random() < 0.4:
                chunks.append(cur)
                cur = []
        if cur:
            chunks.append(cur)
        outs.append([bytes(c) for c in chunks])
    seen, res = set(), []
    for c in outs:
        t = tuple(bytes(x) for x in c)
        if t not in seen and all(t):
            seen.add(t)
            res.append(list(t))
    if tier == "quick" and len(res) > 7:
        res = res[:3] + rnd.sample(res[3:], 4)
    return res


META_VARS = ["convert-meta", "input-meta", "output-meta", "meta-flag"]


def check(rep, tier, seed):
    rnd = random.Random(seed)
    if not vlib.common_setup(rep):
        return
    info, broken = vlib.proof_step(rep, "C02")
    nstr = 220 if tier == "quick" else 5000
    cases = []
    classes = ["ascii", "latin1", "bmp", "cjk", "astral", "combining", "tricky", "mixed"]
    for i in range(nstr):
        cls = classes[i % len(classes)]
        s = gen_string(rnd, cls)
        vi = rnd.random() < 0.5
        if all(ord(c) < 128 for c in s):
            meta = {v: rnd.random() < 0.5 for v in META_VARS}      # ASCII must hold under every setting
        else:
            meta = {v: rnd.random() < 0.5 for v in META_VARS}
            meta["convert-meta"] = False
        cases.append({"s": s, "vi": vi, "meta": meta, "cls": cls})
    # all 16 meta settings x both modes on one ASCII string with every printable character
    allascii = "".join(ASCII)
    for bits in itertools.product([False, True], repeat=4):
        for vi in (False, True):
            cases.append({"s": allascii if bits[0] or not bits[2] else allascii[::-1], "vi": vi, "meta": dict(zip(META_VARS, bits)), "cls": "ascii-all"})
    # a paste longer than one read buffer (1024 bytes), cut by the library itself inside characters
    cases.append({"s": ("a€世😀" * 130)[:400] + "é" * 300, "vi": False, "meta": {"convert-meta": False}, "cls": "long"})
    cases.append({"s": "x" + "世" * 700, "vi": True, "meta": {"convert-meta": False}, "cls": "long"})
    jobs, meta = [], []
    for ci, c in enumerate(cases):
        data = c["s"].encode("utf-8") + b"\r"
        rc = "".join("set %s %s\n" % (k, "on" if v else "off") for k, v in c["meta"].items())
        if c["vi"]:
            rc += "set editing-mode vi\n"
        cs = cuttings(rnd, data, tier) if c["cls"] not in ("long", "ascii-all") else [[data]]
        for ch in cs:
            jobs.append({"scenario": {"calls": 1}, "chunks": [bytes(x) for x in ch], "inputrc": rc, "step_timeout": 8.0})
            meta.append({"case": ci, "chunks": ch})
    res = P.run_many(jobs)
    # the model: full = effective default table + key loop + editor
    mlines = []
    for m in meta:
        c = cases[m["case"]]
        cm = 1 if c["meta"].get("convert-meta", True) else 0
        ins = []
        for ch in m["chunks"]:
            for k in range(0, len(ch), 1024):          # one read returns at most 1024 bytes
                ins.append(list(ch[k:k + 1024]))
        if cm:
            # a character cut by the end of a read is held back by the library: the model converts whole characters
            fixed, carry = [], []
            for x in ins:
                x = carry + x
                carry = []
                k = len(x)
                j = k - 1
                while j >= 0 and j >= k - 3 and x[j] & 0xC0 == 0x80:
                    j -= 1
                if j >= 0 and x[j] >= 0xC0:
                    need = 2 if x[j] < 0xE0 else 3 if x[j] < 0xF0 else 4
                    if k - j < need:
                        carry = x[j:]
                        x = x[:j]
                if x:
                    fixed.append(x)
            ins = fixed
        km = "vi-insert" if c["vi"] else "emacs"
        mlines.append("full %d %d %s 0 %d %s" % (1 if c["vi"] else 0, cm, enc_str(km), len(ins),
                                                 " ".join("0 " + enc_list(x) for x in ins)))
    gm = vlib.model(mlines)
    bad, mism = [], []
    nontriv = set()
    stats = {"strings": len(cases), "runs": len(jobs), "by_class": {}, "vi_runs": 0, "non_ascii_runs": 0, "cut_inside_character": 0}
    for m, r, ml in zip(meta, res, gm):
        c = cases[m["case"]]
        typed = [ord(ch) for ch in c["s"]]
        stats["by_class"][c["cls"]] = stats["by_class"].get(c["cls"], 0) + 1
        stats["vi_runs"] += int(c["vi"])
        if any(x > 127 for x in typed):
            stats["non_ascii_runs"] += 1
        if any(len(ch) and (ch[0] & 0xC0) == 0x80 for ch in m["chunks"]):
            stats["cut_inside_character"] += 1
        rets = P.returns(r)
        pan = P.panics(r)
        waits = [e for e in r["events"] if e["ev"] == "wait"]
        fails = []
        if pan:
            fails.append("panic: %s" % pan[0]["msg"])
        elif not rets:
            fails.append("Readline did not return (%s)" % r["outcome"])
        else:
            if rets[0]["line"] != typed:
                fails.append("returned line differs from the typed text")
            if rets[0]["err"] != "nil":
                fails.append("returned error %s" % rets[0]["err"])
        for w in waits:
            if w["line"] != typed[:len(w["line"])]:
                fails.append("buffer at an input wait is not a prefix of the typed text")
                break
        if len(typed) > 1:
            nontriv.add((c["s"], c["vi"], tuple(sorted(c["meta"].items()))))
        if fails:
            bad.append({"typed": c["s"], "typed_runes": typed, "vi": c["vi"], "settings": c["meta"],
                        "chunks": [list(x) for x in m["chunks"]][:40], "failures": fails,
                        "returned": rets[0]["line"] if rets else None,
                        "returned_text": "".join(chr(x) for x in rets[0]["line"]) if rets else None})
        # correspondence with the model
        d = Dec(ml)
        try:
            code = d.int()
            tag = d.tok()
            if tag == "S":
                ln = d.list()
                d.int()
                err = d.int()
                mres = ("returned" if code == 3 else "other%d" % code, ln, err)
            else:
                mres = (tag,)
        except (IndexError, ValueError):
            mres = ("bad-output", ml[:100])
        ires = ("returned", rets[0]["line"], {"nil": 0, "interrupt": 1, "eof": 2}.get(rets[0]["err"], 9)) if rets else (r["outcome"],)
        if mres != ires:
            mism.append({"typed": c["s"], "vi": c["vi"], "settings": c["meta"], "chunks": [list(x) for x in m["chunks"]][:40],
                         "impl": repr(ires)[:300], "model": repr(mres)[:300]})
    rep.coverage.update({
        "evaluations": len(jobs),
        "distinct_nontrivial": len(nontriv),
        "rule": "strings of printable characters (classes: ASCII; Latin-1; BMP incl. U+0800/U+0FFF/U+FFFD/U+FFFF boundaries; CJK wide and "
                "full-width; astral incl. U+10000/U+10FFFF; combining sequences and ZWJ emoji; characters whose UTF-8 bytes are bound keys "
                "when read bytewise; mixtures) + RET typed into the real Readline over a pty, emacs and vi-insert, random settings of "
                "convert-meta/input-meta/output-meta/meta-flag (convert-meta off for non-ASCII text; all 16 settings x 2 modes on the 95 "
                "printable ASCII characters), each under several cuttings into reads (one read, one byte per read, EVERY cut inside a "
                "multi-byte character, random cuttings) and two pastes longer than the 1024-byte read buffer; oracle: returned line == typed "
                "text, nil error, buffer at every wait a prefix of the text; each run also compared with the full model; "
                "non-trivial = distinct (string of >= 2 characters, mode, settings)",
        "samples": [{"typed": cases[i]["s"], "vi": cases[i]["vi"], "settings": cases[i]["meta"]} for i in (1, 4)],
        "stats": stats,
        "correspondence": {"cases": len(jobs), "mismatches": len(mism)},
        "oracle_on_impl": {"cases": len(jobs), "failures": len(bad)},
        "exhaustive": False,
    })
    rep.assumptions += ["printable = ASCII 0x20-0x7e and every Unicode scalar value from U+00A0 up (C1 controls excluded)",
                        "non-ASCII text is typed with convert-meta off, as the property says; the library's default is on"]
    for b in bad[:3]:
        rep.violation("session", "Readline did not return exactly the typed text", b)
    if (mism or broken) and not bad:
        rep.violation("proof" if broken else "correspondence", "C02 theorems or the full-model correspondence no longer check",
                      {"broken_obligations": broken, "correspondence_mismatches": len(mism), "first_mismatches": mism[:3]},
                      failing_input=False)
