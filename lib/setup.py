"""setup_cmd: build everything from files on disk (harness, tables, full Coq build, model)."""
import vlib


def main():
    with vlib.Lock():
        ok, err = vlib.build_go()
        if not ok:
            print(err)
            return 1
        ok, err = vlib.gentables()
        if not ok:
            print(err)
            return 1
        ok, lg = vlib.coq_make([])
        if not ok:
            print(lg[-5000:])
            return 1
        ok, err = vlib.build_model()
        if not ok:
            print(err)
            return 1
    print("setup ok")
    return 0
