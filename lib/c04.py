"""C04 - the terminal shows exactly the buffer, cursor on the right cell."""
import random

import vlib
import ptydrive as P
import disp as D

ASCII = "abcdefghij klmno.pqrs-tuv/wxyz0123456789"
WIDE = "日本語テキスト中文"
COMB = ["é", "ñ", "ö"]


def gen_session(rnd, cls):
    width = rnd.choice([8, 10, 13, 20, 24, 40, 57, 80, 120]) if cls != "wide" else rnd.choice([9, 10, 20, 21, 40])
    prompt = rnd.choice(["> ", "$ ", "", "prompt> ", ">>> ", "λ "])
    if len(prompt) >= width - 2:
        prompt = "> "
    p = sum(D.rune_width(ch) for ch in prompt)
    keys = []          # list of byte chunks (one read each)

    def typ(s):
        for ch in s:
            keys.extend(D.key_for(ch))
    if cls == "fill":
        # lengths around multiples of the width
        k = rnd.choice([1, 1, 2, 3])
        n = max(0, k * width - p + rnd.choice([-2, -1, 0, 0, 0, 1, 2]))
        typ("".join(rnd.choice(ASCII) for _ in range(n)))
        for _ in range(rnd.randrange(0, 4)):
            keys.append(rnd.choice([b"\x02", b"\x02", b"\x01", b"\x05", b"\x06", b"\x7f", b"x"]))
    elif cls == "ascii":
        typ("".join(rnd.choice(ASCII) for _ in range(rnd.randrange(0, 3 * width))))
        for _ in range(rnd.randrange(0, 6)):
            keys.append(rnd.choice([b"\x02", b"\x01", b"\x05", b"\x06", b"\x1bb", b"\x1bf", b"\x7f", b"y", b"\x04"]))
    elif cls == "ghost":
        # longer, then shorter contents
        typ("".join(rnd.choice(ASCII) for _ in range(rnd.randrange(width, 3 * width))))
        for _ in range(rnd.randrange(1, 5)):
            keys.append(rnd.choice([b"\x17", b"\x15", b"\x7f", b"\x1b\x7f", b"\x01", b"\x0b", b"\x02\x02\x02"[:1], b"\x19"]))
    elif cls == "wide":
        typ("".join(rnd.choice(WIDE + "ab") for _ in range(rnd.randrange(1, 2 * width))))
        for _ in range(rnd.randrange(0, 4)):
            keys.append(rnd.choice([b"\x02", b"\x01", b"\x05", b"\x7f"]))
    elif cls == "comb":
        typ("".join(rnd.choice(COMB + list("abc ")) for _ in range(rnd.randrange(1, width))))
        for _ in range(rnd.randrange(0, 3)):
            keys.append(rnd.choice([b"\x02", b"\x01", b"\x05"]))
    elif cls == "tabs":
        typ("".join(rnd.choice(["\t", "a", "b", " ", "cd"]) for _ in range(rnd.randrange(1, 8))))
        for _ in range(rnd.randrange(0, 4)):
            keys.append(rnd.choice([b"\x02", b"\x01", b"\x05", b"\x06"]))
    elif cls == "multiline":
        lines = ["".join(rnd.choice(ASCII) for _ in range(rnd.choice([0, 1, 3, width - p, width - p - 1, width + 2, 5])))
                 for _ in range(rnd.choice([2, 2, 3]))]
        typ("\\\n".join(lines))
        for _ in range(rnd.randrange(0, 5)):
            keys.append(rnd.choice([b"\x02", b"\x01", b"\x05", b"\x10", b"\x0e", b"\x1b<", b"z", b"\x7f"]))
    # rows already used above the prompt (the input area does not start on the top row of the screen)
    pre = rnd.choice([0, 0, 2, 5, 9])
    return {"cls": cls, "width": width, "height": 24, "prompt": prompt, "keys": keys, "multiline": cls == "multiline", "pre": pre}


def known_class(f):
    """id of the recorded finding that explains this frame's failure, or None"""
    w, p = f["width"], f["pwidth"]
    buf = f["buffer"]
    lines = buf.split("\n")
    if len(lines) >= 2:
        return "C04-multiline"
    widths = [sum(5 if ch == "\t" else D.rune_width(ch) for ch in ln) for ln in lines]
    if any(D.rune_width(ch) == 2 for ch in buf):
        # a wide character that does not fit in the last column (the terminal wraps it early, leaving a cell unused)
        col = p
        for ch in buf:
            cw = 5 if ch == "\t" else D.rune_width(ch)
            if cw == 2 and col % w == w - 1:
                return "C04-wide-straddle"
            col += cw
            if ch == "\n":
                col = p
    if len(lines) == 1 and (p + widths[0]) % w == 0 and (p + widths[0]) > 0:
        # only the character in the last column of the filled row may be missing, nothing else
        if f.get("only_last_cell_differs"):
            return "C04-exact-fill-erased"
        return None
    return None


KNOWN = {
    "C04-multiline": "a buffer with embedded newlines is repainted wrongly once it has three lines, or a continuation line that wraps or "
                     "exactly fills a row (the multi-line prompt pass moves up by the number of rows and never comes back down; LineSpan "
                     "counts one extra row per line after the first): text painted over, secondary prompt on the wrong row, cursor off",
    "C04-no-prompt": "with no prompt (width 0) an empty buffer counts as a line that exactly fills a row (0 mod width = 0): every redisplay "
                     "of an empty buffer emits a newline and the whole input area moves one row further down",
    "C04-exact-fill-erased": "a single-line buffer that exactly fills its last row: the character in the last column is erased by the "
                             "ESC[0K that follows the line (the terminal is in the pending-wrap state on that column)",
    "C04-wide-straddle": "a double-width character that does not fit in the last column wraps early on the terminal while the row "
                         "arithmetic divides the total width by the terminal width",
}


def check(rep, tier, seed):
    rnd = random.Random(seed)
    if not vlib.common_setup(rep):
        return
    info, broken = vlib.proof_step(rep, "C04")
    n = 150 if tier == "quick" else 4000
    classes = ["fill", "ascii", "ghost", "wide", "comb", "tabs", "multiline", "fill", "ascii", "ghost"]
    sess = [gen_session(rnd, classes[i % len(classes)]) for i in range(n)]
    jobs = [{"scenario": {"calls": 1, "prompt": s["prompt"], "multiline": s["multiline"], "preamble": s["pre"]}, "chunks": s["keys"], "cols": s["width"], "rows": s["height"],
             "keep_output": True, "inputrc": "set convert-meta off\n", "step_timeout": 8.0} for s in sess]
    res = P.run_many(jobs)
    # the oracle terminal: everything written, step by step, through Term.v
    rep_in = []
    for s, r in zip(sess, res):
        rep_in.append((s["height"], s["width"], [w.get("out", b"") for w in r["waits"]]))
    states = D.replay(rep_in)
    frames, items = [], []
    bad, mism = [], []
    stats = {"sessions": len(sess), "frames": 0, "frames_scrolled_skipped": 0, "by_class": {}, "frames_by_class": {}}
    for si, (s, r, sts) in enumerate(zip(sess, res, states)):
        stats["by_class"][s["cls"]] = stats["by_class"].get(s["cls"], 0) + 1
        pan = P.panics(r)
        # C-d on an empty buffer ends the call with EOF: the frames up to there are judged, the keys after it were never read
        ended_by_eof = (not pan) and r["outcome"] == "exit" and any(e.get("err") == "eof" for e in P.returns(r)) \
            and 1 <= len(r["waits"]) <= len(s["keys"]) and s["keys"][len(r["waits"]) - 1] == b"\x04" \
            and not r["waits"][-1]["snap"]["line"]
        if ended_by_eof:
            stats["sessions_ended_by_eof_on_empty_buffer"] = stats.get("sessions_ended_by_eof_on_empty_buffer", 0) + 1
        elif pan or r["outcome"] not in ("waiting",) or len(r["waits"]) != len(s["keys"]) + 1:
            bad.append({"session": {"cls": s["cls"], "width": s["width"], "prompt": s["prompt"], "keys": [list(k) for k in s["keys"]]},
                        "failure": "session did not complete: %s" % r["outcome"], "panics": [(p["msg"], p["frames"][:4]) for p in pan][:1]})
            continue
        for k, (w, st) in enumerate(zip(r["waits"], sts)):
            snap = w["snap"]
            buf = "".join(chr(x) for x in snap["line"])
            f = {"session": si, "step": k, "width": s["width"], "height": s["height"], "prompt": s["prompt"],
                 "pwidth": sum(D.rune_width(ch) for ch in s["prompt"]), "buffer": buf, "cpos": snap["cpos"], "term": st,
                 "vt": {"rows": D.vt_rows(w["screen"]), "cursor": list(w["cursor"])}, "cls": s["cls"], "pre": s["pre"],
                 "keys_so_far": [list(x) for x in s["keys"][:k]]}
            frames.append(f)
            items.append((s["height"] - s["pre"], s["width"], s["prompt"], buf, snap["cpos"]))
    exp = D.layouts(items)
    for f, e in zip(frames, exp):
        e["rows"], e["r"] = [""] * f["pre"] + e["rows"], e["r"] + f["pre"]
    nontriv = set()
    known = {}
    for f, e in zip(frames, exp):
        st = f["term"]
        stats["frames"] += 1
        stats["frames_by_class"][f["cls"]] = stats["frames_by_class"].get(f["cls"], 0) + 1
        if "bad" in st:
            mism.append({"frame": {k: f[k] for k in ("width", "prompt", "buffer", "cpos")}, "why": "terminal model output: %s" % st["bad"]})
            continue
        # the live emulator (answers the cursor queries) and the terminal model must agree on what was written
        if st["rows"] != f["vt"]["rows"] or [st["r"], st["c"], st["pend"]] != f["vt"]["cursor"]:
            mism.append({"frame": {k: f[k] for k in ("width", "prompt", "buffer", "cpos")}, "why": "Term.v and the live emulator differ",
                         "term": [st["r"], st["c"], st["pend"]], "vt": f["vt"]["cursor"],
                         "rows_term": st["rows"][:4], "rows_vt": f["vt"]["rows"][:4]})
            continue
        if st["scrolled"] or e["scrolled"]:
            stats["frames_scrolled_skipped"] += 1
            continue
        fails = []
        # continuation rows of a multi-line buffer start with the secondary prompt glyph in the indent area: not buffer text
        rows_seen = [(" " + x[1:]).rstrip(" ") if (i > 0 and x.startswith("\u2514") and "\n" in f["buffer"]) else x
                     for i, x in enumerate(st["rows"])]
        cur_seen = (st["r"], st["c"])
        shifted = False
        k = st["r"] - e["r"]
        if f["pwidth"] == 0 and k >= 1 and all(x == "" for x in rows_seen[:k]):
            # known finding C04-no-prompt: the input area sits k rows lower (one more for every redisplay of an
            # empty buffer); judge it there
            rows_seen, cur_seen, shifted = rows_seen[k:] + [""] * k, (st["r"] - k, st["c"]), True
        if rows_seen != e["rows"]:
            first = [i for i in range(len(e["rows"])) if rows_seen[i] != e["rows"][i]][0]
            fails.append("row %d shows %r, should show %r" % (first, rows_seen[first], e["rows"][first]))
        if cur_seen != (e["r"], e["c"]):
            fails.append("terminal cursor on cell (%d,%d), the buffer cursor is on (%d,%d)" % (cur_seen[0], cur_seen[1], e["r"], e["c"]))
        elif st["pend"]:
            fails.append("terminal cursor left in the pending-wrap state on (%d,%d)" % (st["r"], st["c"]))
        if shifted:
            known["C04-no-prompt"] = known.get("C04-no-prompt", 0) + 1
        if not st["visible"]:
            fails.append("cursor left hidden")
        if len(f["buffer"]) > 1:
            nontriv.add((f["width"], f["prompt"], f["buffer"], f["cpos"]))
        if fails:
            diff_rows = [i for i in range(len(e["rows"])) if rows_seen[i] != e["rows"][i]]
            f["only_last_cell_differs"] = (cur_seen == (e["r"], e["c"]) and len(diff_rows) == 1 and
                                           sum(D.rune_width(ch) for ch in e["rows"][diff_rows[0]]) == f["width"] and rows_seen[diff_rows[0]] == e["rows"][diff_rows[0]][:-1].rstrip(" "))
            kid = known_class(f)
            if kid:
                known[kid] = known.get(kid, 0) + 1
                continue
            bad.append({"width": f["width"], "prompt": f["prompt"], "buffer": f["buffer"], "cursor": f["cpos"], "class": f["cls"], "rows_above_the_prompt": f["pre"],
                        "keys_before_this_frame": f["keys_so_far"][-12:], "failure": fails,
                        "screen": st["rows"][:f["pre"] + 5], "expected": e["rows"][:f["pre"] + 5]})
    for kid, cnt in sorted(known.items()):
        rep.known_finding(kid, KNOWN[kid] + " (%d frames)" % cnt)
    rep.coverage.update({
        "evaluations": stats["frames"],
        "distinct_nontrivial": len(nontriv),
        "rule": "editing sessions typed into the real Readline over a pty, one key per read, a frame judged at every input wait: buffers "
                "of ASCII text with lengths around multiples of the width, CJK double-width, combining sequences, tabs and embedded "
                "newlines (through quoted-insert), cursor moved to any position, longer-then-shorter contents (kills, rubouts, yank), on "
                "terminals 8-120 columns wide with prompts of 0-8 columns, the prompt starting on row 0, 2, 5 or 9 of the screen; everything the library writes is replayed through the "
                "extracted Term.v (cross-checked against the live emulator that answers the cursor queries); oracle: the rows of the "
                "screen equal the reference layout (prompt + buffer written character by character on Term.v, nothing else anywhere) and "
                "the terminal cursor is on the cell of the buffer cursor, not in the pending-wrap state, visible; non-trivial = distinct "
                "(width, prompt, buffer, cursor)",
        "samples": [{"width": frames[i]["width"], "prompt": frames[i]["prompt"], "buffer": frames[i]["buffer"], "cursor": frames[i]["cpos"]}
                    for i in (min(5, len(frames) - 1), min(40, len(frames) - 1))] if frames else [],
        "stats": stats,
        "correspondence": {"cases": stats["frames"], "mismatches": len(mism)},
        "oracle_on_impl": {"cases": stats["frames"], "failures": len(bad)},
        "exhaustive": False,
    })
    rep.assumptions += ["Term.v follows xterm: a character written in the last column leaves the cursor on it with the wrap pending, and "
                        "EL 0 then erases that column", "helpers (hints, completion menu), right/secondary/multi-line prompts and syntax "
                        "highlighting are not exercised: plain single-line prompt"]
    for b in bad[:3]:
        rep.violation("frame", "the terminal does not show exactly the buffer with the cursor on the right cell", b)
    if (mism or broken) and not bad:
        rep.violation("proof" if broken else "correspondence", "C04 theorems or the terminal-model correspondence no longer check",
                      {"broken_obligations": broken, "correspondence_mismatches": len(mism), "first_mismatches": mism[:3]},
                      failing_input=False)
