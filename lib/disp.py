"""Shared by C04 and C11: editing sessions over the pty with every byte the library writes kept per input wait,
replayed through the extracted terminal model (Term.v), and the reference layout (Display.v) of what the screen
should show."""
import unicodedata

import vlib
import ptydrive as P
from vlib import enc_list, enc_str, Dec


def rune_width(ch):
    """the width classes of Term.v's rune_width (the generators stay inside them)"""
    c = ord(ch)
    if 768 <= c <= 879 or 8203 <= c <= 8207 or 65024 <= c <= 65039:
        return 0
    for lo, hi in ((4352, 4447), (11904, 42191), (44032, 55203), (63744, 64255), (65072, 65135), (65280, 65376), (65504, 65510),
                   (127744, 128591), (129280, 129535), (131072, 262141)):
        if lo <= c <= hi:
            return 2
    return 1


def key_for(ch):
    """bytes that insert the character: a tab through quoted-insert; a newline is Enter after a backslash with the
    scenario's AcceptMultiline callback (the line continues while it ends with a backslash)"""
    if ch == "\t":
        return [b"\x16", b"\t"]
    if ch == "\n":
        return [b"\r"]
    return [ch.encode()]


def parse_term(line):
    """the states printed by the `term` op: list of dicts"""
    d = Dec(line)
    out = []
    while not d.done():
        tag = d.tok()
        if tag != "T":
            out.append({"bad": tag})
            break
        r, c, pend, style, vis, scrolled, queries = d.int(), d.int(), d.int(), d.int(), d.int(), d.int(), d.int()
        nrows = d.int()
        rows = ["".join(chr(x) for x in d.list()) for _ in range(nrows)]
        out.append({"r": r, "c": c, "pend": bool(pend), "style": style, "visible": bool(vis), "scrolled": scrolled, "queries": queries,
                    "rows": [x.rstrip(" ") for x in rows]})
    return out


def parse_layout(line):
    d = Dec(line)
    cr, cc, scrolled = d.int(), d.int(), d.int()
    nrows = d.int()
    rows = ["".join(chr(x) for x in d.list()).rstrip(" ") for _ in range(nrows)]
    return {"r": cr, "c": cc, "scrolled": scrolled, "rows": rows}


def replay(sessions):
    """sessions: list of (rows, cols, [bytes per step]); returns the Term.v states after each step"""
    lines = []
    for rows, cols, chunks in sessions:
        lines.append("term %d %d %d %s" % (rows, cols, len(chunks), " ".join(enc_list(list(c)) for c in chunks)))
    return [parse_term(x) for x in vlib.model(lines)]


def layouts(items):
    """items: list of (rows, cols, prompt, buffer, cpos)"""
    lines = ["layout %d %d %s %s %d" % (r, c, enc_str(p), enc_str(b), cp) for (r, c, p, b, cp) in items]
    return [parse_layout(x) for x in vlib.model(lines)]


def vt_rows(screen):
    return [x.rstrip(" ") for x in screen]
