"""C14 - completion only rewrites the word being completed."""
import random

import vlib
import ptydrive as P
from vlib import enc_list, enc_str, Dec

TAB, BTAB, CC = b"\t", b"\x1b[Z", b"\x03"

BUFFERS = ["say fo x", "fo", "", "git  origin", "ls -la /tm", "x café y", "日本 テキ end", "echo 'a b' fo", "a\\ b c", "cmd --fl=va rest",
           "one two", "  lead", "word ", "é", "x 😀y z"]


def word_start(b, c):
    """start of the blank word before the cursor: an escaped blank inside the word belongs to it; right after a blank
    (escaped or not) the word is empty - the engine decides blank/non-blank on the character before the cursor alone"""
    if c > 0 and b[c - 1] in " \t\n\f\r":
        return c
    i = c
    while i > 0:
        ch = b[i - 1]
        if ch in " \t\n\f\r" and not (i - 2 >= 0 and b[i - 2] == "\\"):
            break
        i -= 1
    return i


def gen_case(rnd, cls):
    b = rnd.choice(BUFFERS)
    c = rnd.randrange(0, len(b) + 1)
    w = b[word_start(b, c):c]
    sufs = ["", "o", "bar", "baz-qux", "é", "日本", " sp", "/", "=v", "'q"]
    n = rnd.choice([2, 2, 3, 4, 6])
    comp = {"filter_pref": False}
    if cls in ("unique", "case-unique"):
        n = 1
    vals = []
    while len(vals) < n:
        s = rnd.choice(sufs[1:] if (n == 1 or rnd.random() < 0.8) else sufs)
        v = w + s
        if cls in ("case", "case-unique"):
            v = w.upper() + s if w.upper() != w else w.lower() + s
        if v and v not in vals:
            vals.append(v)
    if cls == "nospace":
        comp["nospace"] = "/="
    if cls in ("case", "case-unique"):
        comp["case_insens"] = True
    if cls == "described":
        cands = [{"value": v, "desc": "d%d" % (i % 2), "tag": ""} for i, v in enumerate(vals)]
    elif cls == "tags":
        cands = [{"value": v, "desc": "", "tag": "t%d" % (i % 2)} for i, v in enumerate(vals)]
    else:
        cands = [{"value": v, "desc": "", "tag": ""} for v in vals]
    comp["cands"] = cands
    keys = []
    for _ in range(rnd.randrange(1, 6)):
        keys.append(rnd.choice([TAB, TAB, TAB, BTAB]))
    end = rnd.choice(["abort", "abort", "type", "none", "abort-then-tab"])
    if end == "abort":
        keys.append(CC)
    elif end == "type":
        keys.append(rnd.choice([b"z", b" ", b"/"]))
    elif end == "abort-then-tab":
        keys += [CC, TAB, TAB, CC]
    return {"b": b, "c": c, "comp": comp, "keys": keys, "cls": cls, "vals": vals}


def check(rep, tier, seed):
    rnd = random.Random(seed)
    if not vlib.common_setup(rep):
        return
    info, broken = vlib.proof_step(rep, "C14")
    n = 320 if tier == "quick" else 8000
    classes = ["plain", "plain", "unique", "nospace", "case", "case-unique", "described", "tags"]
    cases = [gen_case(rnd, classes[i % len(classes)]) for i in range(n)]
    jobs = []
    for cs in cases:
        b, c = cs["b"], cs["c"]
        chunks = [ch.encode() for ch in b] + [b"\x02"] * (len(b) - c) + cs["keys"]
        jobs.append({"scenario": {"calls": 1, "comp_snap": True, "completer": cs["comp"]}, "chunks": chunks,
                     "inputrc": "set convert-meta off\n"})
    res = P.run_many(jobs)
    bad, mism, mlines, mmeta = [], [], [], []
    stats = {"cases": len(cases), "insertions_checked": 0, "aborts_checked": 0, "unique_accepts": 0, "by_class": {},
             "non_ascii_word": 0, "cursor_mid_word": 0, "empty_word": 0}
    nontriv = set()

    def S(x):
        return "".join(chr(k) for k in x)
    for ci, (cs, r) in enumerate(zip(cases, res)):
        b, c = cs["b"], cs["c"]
        stats["by_class"][cs["cls"]] = stats["by_class"].get(cs["cls"], 0) + 1
        ws = word_start(b, c)
        before, word, after = b[:ws], b[ws:c], b[c:]
        if any(ord(x) > 127 for x in word):
            stats["non_ascii_word"] += 1
        if c < len(b) and not b[c].isspace() and word:
            stats["cursor_mid_word"] += 1
        if not word:
            stats["empty_word"] += 1
        waits = [e for e in r["events"] if e["ev"] == "wait"]
        pan = P.panics(r)
        nsetup = len(b) + (len(b) - c) + 1          # waits up to and including the one before the first completion key
        fails = []
        if pan:
            fails.append("panic: %s %s" % (pan[0]["msg"], pan[0]["frames"][:3]))
        elif len(waits) < nsetup:
            fails.append("session did not reach the completion keys: %s" % r["outcome"])
        else:
            w0 = waits[nsetup - 1]
            if S(w0["line"]) != b or w0["cpos"] != c:
                fails.append("setup failed: %r %d" % (S(w0["line"]), w0["cpos"]))
        if fails:
            bad.append({"case": {k: cs[k] for k in ("b", "c", "cls", "vals")}, "keys": [list(k) for k in cs["keys"]], "failure": fails})
            continue
        # walk the completion keys: `real` is the buffer the completion works on
        real_b, real_c = b, c
        menu_was_inserting = False
        for k, key in enumerate(cs["keys"]):
            if nsetup + k >= len(waits):
                rets = P.returns(r)
                if key == CC and menu_was_inserting:
                    fails.append("C-c with a candidate inserted ended the Readline call (%s)" % (rets[0]["err"] if rets else r["outcome"]))
                break
            w = waits[nsetup + k]
            comp = w["comp"]
            line, cpos, sel, cl = S(w["line"]), w["cpos"], S(comp["selected"]), S(comp["line"])
            if key in (TAB, BTAB):
                if sel:
                    # a candidate is inserted in the completed line: only the word before the cursor is replaced
                    rs = word_start(real_b, real_c)
                    want = real_b[:rs] + sel + real_b[real_c:]
                    stats["insertions_checked"] += 1
                    nontriv.add((real_b, real_c, sel))
                    if cl != want or line != want:
                        fails.append("inserting %r in %r at %d gave %r, not %r" % (sel, real_b, real_c, cl, want))
                        break
                    if cpos != len(real_b[:rs] + sel):
                        fails.append("cursor after inserting %r is %d, not after the candidate (%d)" % (sel, cpos, len(real_b[:rs] + sel)))
                        break
                    if sel not in cs["vals"]:
                        fails.append("inserted %r is not a candidate of the completer" % sel)
                        break
                    mlines.append("c14 %s %d %s" % (enc_str(real_b), real_c, enc_str(sel)))
                    mmeta.append((ci, k, cl, cpos))
                    menu_was_inserting = True
                elif w["local"] == "" and line != real_b:
                    # a unique candidate was accepted into the real line
                    rs = word_start(real_b, real_c)
                    ok = [real_b[:rs] + v + tail + real_b[real_c:] for v in cs["vals"] for tail in ("", " ")]
                    stats["unique_accepts"] += 1
                    if line not in ok:
                        fails.append("accepting the only match in %r at %d gave %r" % (real_b, real_c, line))
                        break
                    real_b, real_c = line, cpos
                    menu_was_inserting = False
                else:
                    menu_was_inserting = False
                    if line != real_b:
                        fails.append("a completion key changed the buffer without inserting a candidate: %r -> %r" % (real_b, line))
                        break
            elif key == CC:
                if menu_was_inserting:
                    stats["aborts_checked"] += 1
                    if line != real_b or cpos != real_c:
                        fails.append("C-c on the menu did not restore the buffer and cursor: %r %d, was %r %d" % (line, cpos, real_b, real_c))
                        break
                    if w["local"] != "":
                        fails.append("C-c on the menu left the %s keymap active" % w["local"])
                        break
                menu_was_inserting = False
            else:
                # a typed character ends the completion: what follows is not this property's
                break
        if fails:
            bad.append({"case": {k: cs[k] for k in ("b", "c", "cls", "vals")}, "keys": [list(k) for k in cs["keys"]], "failure": fails[:2],
                        "before_word": before, "word": word, "after_cursor": after})
    gm = vlib.model(mlines) if mlines else []
    for (ci, k, cl, cpos), ml, mline in zip(mmeta, gm, mlines):
        d = Dec(ml)
        try:
            d.list()
            got = ("".join(chr(x) for x in d.list()), d.int())
        except (IndexError, ValueError):
            got = ("bad", ml[:80])
        if got != (cl, cpos):
            mism.append({"case": {k2: cases[ci][k2] for k2 in ("b", "c", "vals")}, "step": k, "impl": [cl, cpos], "model": list(got)})
    rep.coverage.update({
        "evaluations": len(cases),
        "distinct_nontrivial": len(nontriv),
        "rule": "buffers (plain words, quotes, an escaped blank, tabs, leading/trailing blanks, multi-byte and wide words, empty) x every cursor "
                "position x candidate sets from a scripted completer (2-6 values extending the word, a unique match, NoSpace suffix "
                "characters, completion-ignore-case with a differently cased word, descriptions, tags) x key sequences of 1-5 TAB/Shift-TAB "
                "ended by C-c, by a typed character, by C-c then the menu again, or left open - typed into the real Readline over a pty; "
                "oracle at every wait: with a candidate inserted the completed line is text-before-the-word + candidate + text-after-the-cursor "
                "and the cursor is after the candidate; C-c with a candidate inserted restores buffer and cursor, leaves the menu keymap and "
                "the call continues; a unique match is accepted in place; the completed line and cursor are also compared with the model "
                "(setPrefix + insertCandidate); non-trivial = distinct (buffer, cursor, inserted candidate)",
        "samples": [{"b": cases[i]["b"], "c": cases[i]["c"], "vals": cases[i]["vals"], "keys": [list(k) for k in cases[i]["keys"]]} for i in (0, 4)],
        "stats": stats,
        "correspondence": {"cases": len(mlines), "mismatches": len(mism)},
        "oracle_on_impl": {"cases": len(cases), "failures": len(bad)},
        "exhaustive": False,
    })
    rep.assumptions += ["the word being completed is the engine's: the run of non-blank characters (escaped blanks included) before the cursor, "
                        "empty when the character before the cursor is a blank, even an escaped one",
                        "an active completion menu = a candidate is inserted in the line (after possible-completions only lists candidates, "
                        "C-c interrupts the call: not judged)"]
    for x in bad[:3]:
        rep.violation("session", "completion changed more than the word being completed, or C-c did not just cancel the menu", x)
    if (mism or broken) and not bad:
        rep.violation("proof" if broken else "correspondence", "C14 theorems or the CompInsert.v correspondence no longer check",
                      {"broken_obligations": broken, "correspondence_mismatches": len(mism), "first_mismatches": mism[:3]},
                      failing_input=False)
