"""Shared machinery of the checks: build steps, running both sides on the same
case lines, diffing, proof audit, evidence, violation / known-finding reporting."""
import fcntl
import hashlib
import json
import os
import re
import subprocess
import sys
import time

VERIF = os.path.dirname(os.path.dirname(os.path.abspath(__file__)))
REPO = os.environ.get("VERIF_REPO", "/repo")
BUILD = os.path.join(VERIF, "build")
BIN = os.path.join(BUILD, "bin")
COQ = os.path.join(VERIF, "coq")
NPROC = os.cpu_count() or 4

GOENV = dict(os.environ, GOFLAGS="-mod=mod", GOPROXY="off")
for k in ("GOTOOLCHAIN", "GOSUMDB"):
    GOENV.pop(k, None)   # both break the offline build here (DESIGN.md section 2)


def log(*a):
    print(*a, file=sys.stderr, flush=True)


def run(cmd, cwd=None, env=None, timeout=None, inp=None, check=False):
    p = subprocess.run(cmd, cwd=cwd, env=env, timeout=timeout, input=inp,
                       stdout=subprocess.PIPE, stderr=subprocess.PIPE, text=True)
    if check and p.returncode != 0:
        raise RuntimeError("command failed: %s\n%s\n%s" % (cmd, p.stdout[-4000:], p.stderr[-4000:]))
    return p


class Lock:
    def __enter__(self):
        os.makedirs(BUILD, exist_ok=True)
        self.f = open(os.path.join(BUILD, ".lock"), "w")
        fcntl.flock(self.f, fcntl.LOCK_EX)
        return self

    def __exit__(self, *a):
        fcntl.flock(self.f, fcntl.LOCK_UN)
        self.f.close()


# ------------------------------------------------------------------ build steps

def build_go(race=False):
    """Builds the harness binaries against /repo's current working tree."""
    os.makedirs(BIN, exist_ok=True)
    hdir = os.path.join(VERIF, "harness")
    gosum = os.path.join(hdir, "go.sum")
    src = os.path.join(REPO, "go.sum")
    if os.path.exists(src):
        data = open(src).read()
        if not os.path.exists(gosum) or open(gosum).read() != data:
            open(gosum, "w").write(data)
    p = run(["go", "build", "-tags", "verif", "-o", BIN + "/", "./cmd/..."], cwd=hdir, env=GOENV, timeout=600)
    if p.returncode != 0:
        return False, p.stderr
    if race:
        p = run(["go", "build", "-race", "-tags", "verif", "-o", os.path.join(BIN, "rlchild-race"), "./cmd/rlchild"],
                cwd=hdir, env=GOENV, timeout=900)
        if p.returncode != 0:
            return False, p.stderr
    return True, ""


def gentables():
    os.makedirs(os.path.join(COQ, "Gen"), exist_ok=True)
    p = run([os.path.join(BIN, "gentables"), os.path.join(COQ, "Gen")], timeout=300)
    return p.returncode == 0, p.stderr


def coq_makefile():
    mk = os.path.join(COQ, "Makefile")
    proj = os.path.join(COQ, "_CoqProject")
    if not os.path.exists(mk) or os.path.getmtime(mk) < os.path.getmtime(proj):
        run(["coq_makefile", "-f", "_CoqProject", "-o", "Makefile"], cwd=COQ, check=True)


def coq_make(targets, timeout=3000):
    """Full .vo build of the given targets (never -vos). Returns (ok, log)."""
    coq_makefile()
    p = run(["timeout", str(timeout), "make", "-j%d" % NPROC] + targets, cwd=COQ, timeout=timeout + 30)
    return p.returncode == 0, (p.stdout + p.stderr)


def _hash_files(paths):
    h = hashlib.sha256()
    for p in sorted(paths):
        h.update(p.encode())
        h.update(open(p, "rb").read())
    return h.hexdigest()


def build_model():
    """Extracts the models to OCaml and builds build/bin/rlmodel (when stale)."""
    odir = os.path.join(BUILD, "ocaml")
    os.makedirs(odir, exist_ok=True)
    srcs = [os.path.join(COQ, "Extract.v")]
    for d in ("Model", "Gen"):
        dd = os.path.join(COQ, d)
        srcs += [os.path.join(dd, f) for f in os.listdir(dd) if f.endswith(".v")]
    osrc = os.path.join(VERIF, "ocaml")
    srcs += [os.path.join(osrc, f) for f in os.listdir(osrc) if f.endswith(".ml")]
    stamp = os.path.join(odir, "stamp")
    h = _hash_files(srcs)
    exe = os.path.join(BIN, "rlmodel")
    if os.path.exists(stamp) and open(stamp).read() == h and os.path.exists(exe):
        return True, ""
    models = sorted("Model/" + f[:-2] + ".vo" for f in os.listdir(os.path.join(COQ, "Model")) if f.endswith(".v"))
    ok, lg = coq_make(models + ["Gen/Binds.vo", "Gen/Unicode.vo"])
    if not ok:
        return False, lg
    p = run(["coqc", "-Q", os.path.join(COQ, "Model"), "Model", "-Q", os.path.join(COQ, "Gen"), "Gen",
             "-o", "Extract.vo", os.path.join(COQ, "Extract.v")], cwd=odir, timeout=900)
    if p.returncode != 0:
        return False, p.stdout + p.stderr
    mls = sorted(f for f in os.listdir(osrc) if f.endswith(".ml"))
    for f in mls:
        open(os.path.join(odir, f), "w").write(open(os.path.join(osrc, f)).read())
    order = ["conv.ml"] + [f for f in mls if f not in ("conv.ml", "main.ml")] + ["main.ml"]
    p = run(["ocamlfind", "ocamlopt", "-w", "-a", "-package", "str", "-linkpkg", "rlmodel_core.mli", "rlmodel_core.ml"] + order
            + ["-o", exe], cwd=odir, timeout=900)
    if p.returncode != 0:
        return False, p.stdout + p.stderr
    open(stamp, "w").write(h)
    return True, ""


FORBIDDEN = re.compile(r"\b(Admitted|admit|Axiom|Axioms|Parameter|Parameters|Conjecture|Conjectures"
                       r"|Admit Obligations|Unset Guard Checking|bypass_check|type-in-type|impredicative-set"
                       r"|Unset Positivity Checking|Unset Universe Checking)\b")
SECTIONED = re.compile(r"\b(Section|Module|End|Variable|Variables|Hypothesis|Hypotheses|Context)\b")


def strip_coq_comments(s):
    out, depth, i = [], 0, 0
    while i < len(s):
        if s.startswith("(*", i):
            depth += 1
            i += 2
        elif s.startswith("*)", i) and depth > 0:
            depth -= 1
            i += 2
        else:
            if depth == 0:
                out.append(s[i])
            i += 1
    return "".join(out)


def audit_sources():
    """No Admitted/Axiom/... anywhere in the development (Variables are allowed
    only inside Sections; we use none)."""
    bad = []
    for d, _, fs in os.walk(COQ):
        if os.path.basename(d) == "Gen":
            continue
        for f in fs:
            if f.endswith(".v"):
                txt = strip_coq_comments(open(os.path.join(d, f)).read())
                for m in FORBIDDEN.finditer(txt):
                    bad.append("%s: %s" % (os.path.join(d, f), m.group(0)))
                depth = 0
                for m in SECTIONED.finditer(txt):
                    w = m.group(0)
                    if w in ("Section", "Module"):
                        depth += 1
                    elif w == "End":
                        depth -= 1
                    elif depth <= 0:
                        bad.append("%s: %s outside a section" % (os.path.join(d, f), w))
    proj = open(os.path.join(COQ, "_CoqProject")).read()
    for w in ("type-in-type", "impredicative-set", "bypass"):
        if w in proj:
            bad.append("_CoqProject: " + w)
    return bad


STMT = re.compile(r"^\s*(Theorem|Lemma|Example|Corollary|Fact|Remark|Proposition)\s+([A-Za-z0-9_']+)", re.M)


def statements(vfile):
    return [(m.group(1), m.group(2)) for m in STMT.finditer(strip_coq_comments(open(vfile).read()))]


def coq_deps(vfile):
    """Transitive .v dependencies inside coq/ (via coqdep)."""
    p = run(["coqdep", "-f", "_CoqProject"], cwd=COQ)
    deps = {}
    for line in p.stdout.splitlines():
        if ":" not in line:
            continue
        lhs, rhs = line.split(":", 1)
        tg = [x for x in lhs.split() if x.endswith(".vo")]
        ds = [x[:-1] for x in rhs.split() if x.endswith(".vo")]
        for t in tg:
            deps[t[:-1]] = ds
    seen, todo = [], [vfile]
    while todo:
        x = todo.pop()
        if x in seen:
            continue
        seen.append(x)
        todo += deps.get(x, [])
    return seen


def prove(prop):
    """Builds Props/<prop>.vo (full build of everything it depends on), audits the
    sources and prints the assumptions of each theorem in it.
    Returns a dict for the evidence file and a list of broken obligations."""
    rel = "Props/%s.v" % prop
    broken = []
    info = {"checker_cmd": "cd coq && coq_makefile -f _CoqProject -o Makefile && make Props/%s.vo (coqc 8.16.1, full .vo build) + Print Assumptions for every theorem" % prop}
    ok, lg = coq_make(["Props/%s.vo" % prop])
    info["build_ok"] = ok
    if not ok:
        m = re.findall(r'File "([^"]+)", line (\d+)[^\n]*\n(?:.*\n){0,6}?Error:[^\n]*(?:\n[^\n]+){0,3}', lg)
        broken.append("coq build of %s failed: %s" % (rel, lg[-1500:]))
        info["build_log_tail"] = lg[-3000:]
    bad = audit_sources()
    info["forbidden_tokens"] = bad
    if bad:
        broken.append("forbidden declarations: " + "; ".join(bad))
    deps = [d for d in coq_deps(rel) if not d.startswith("Gen/")]
    obligations = 0
    per_file = {}
    for d in deps:
        n = len(statements(os.path.join(COQ, d)))
        if n:
            per_file[d] = n
        obligations += n
    info["obligations"] = obligations
    info["obligations_per_file"] = per_file
    thms = [n for (k, n) in statements(os.path.join(COQ, rel))]
    info["theorems"] = thms
    assum = {}
    if ok:
        adir = os.path.join(BUILD, "assump")
        os.makedirs(adir, exist_ok=True)
        src = "From Props Require Import %s.\n" % prop
        for t in thms:
            src += 'Goal True. idtac "@@ %s". Abort.\nPrint Assumptions %s.\n' % (t, t)
        vf = os.path.join(adir, "A_%s.v" % prop)
        open(vf, "w").write(src)
        p = run(["coqc", "-Q", os.path.join(COQ, "Model"), "Model", "-Q", os.path.join(COQ, "Gen"), "Gen",
                 "-Q", os.path.join(COQ, "Proofs"), "Proofs", "-Q", os.path.join(COQ, "Props"), "Props",
                 "-o", os.path.join(adir, "A_%s.vo" % prop), vf], cwd=adir, timeout=600)
        if p.returncode != 0:
            broken.append("Print Assumptions run failed: " + (p.stdout + p.stderr)[-800:])
        cur = None
        for line in p.stdout.splitlines():
            if line.startswith("@@ "):
                cur = line[3:].strip()
                assum[cur] = ""
            elif cur is not None:
                assum[cur] += line + "\n"
        for t in thms:
            a = assum.get(t, "").strip()
            if "Closed under the global context" not in a:
                broken.append("theorem %s is not closed under the global context: %s" % (t, a[:300]))
    info["assumptions_printed"] = {k: v.strip() for k, v in assum.items()}
    info["discharged"] = obligations if (ok and not broken) else 0
    return info, broken


# ------------------------------------------------------------------ running both sides

def _big_stack():
    """the extracted OCaml code recurses on long lists: lift the stack limit"""
    import resource
    try:
        resource.setrlimit(resource.RLIMIT_STACK, (resource.RLIM_INFINITY, resource.RLIM_INFINITY))
    except (ValueError, OSError):
        try:
            soft, hard = resource.getrlimit(resource.RLIMIT_STACK)
            resource.setrlimit(resource.RLIMIT_STACK, (hard, hard))
        except (ValueError, OSError):
            pass


def run_lines(exe, lines, timeout=1800, shards=None, env=None):
    """Feeds case lines to an executable (sharded over the cores), returns its output lines."""
    if not lines:
        return []
    shards = shards or min(NPROC, max(1, len(lines) // 200))
    chunks = [lines[i::shards] for i in range(shards)]
    procs = []
    for ch in chunks:
        p = subprocess.Popen([exe], stdin=subprocess.PIPE, stdout=subprocess.PIPE, stderr=subprocess.PIPE, text=True, env=env,
                             preexec_fn=_big_stack)
        procs.append((p, ch))
    import threading
    outs = [None] * shards

    def work(i):
        p, ch = procs[i]
        try:
            o, e = p.communicate("\n".join(ch) + "\n", timeout=timeout)
        except subprocess.TimeoutExpired:
            p.kill()
            o, e = p.communicate()
            o += "\nTIMEOUT"
        outs[i] = (o.split("\n"), e, p.returncode)
    ths = [threading.Thread(target=work, args=(i,)) for i in range(shards)]
    [t.start() for t in ths]
    [t.join() for t in ths]
    res = [None] * len(lines)
    for i in range(shards):
        o, e, rc = outs[i]
        if o and o[-1] == "":
            o = o[:-1]
        n = len(chunks[i])
        for j in range(n):
            res[i + j * shards] = o[j] if j < len(o) else "NO-OUTPUT rc=%s %s" % (rc, e[-200:].replace("\n", " "))
    return res


def impl(lines, **kw):
    return run_lines(os.path.join(BIN, "rlcall"), lines, **kw)


def model(lines, **kw):
    return run_lines(os.path.join(BIN, "rlmodel"), lines, **kw)


def enc_list(xs):
    return "%d%s" % (len(xs), "".join(" %d" % x for x in xs))


def enc_str(s):
    return enc_list([ord(c) for c in s])


class Dec:
    """decoder of an output line of integers"""

    def __init__(self, line):
        self.t = line.split()
        self.i = 0
        self.raw = line

    def tok(self):
        x = self.t[self.i]
        self.i += 1
        return x

    def int(self):
        return int(self.tok())

    def list(self):
        n = self.int()
        return [self.int() for _ in range(n)]

    def str(self):
        return "".join(chr(c) if 0 <= c < 0x110000 and not (0xD800 <= c < 0xE000) else "�" for c in self.list())

    def done(self):
        return self.i >= len(self.t)


# ------------------------------------------------------------------ reporting

def load_known():
    p = os.path.join(VERIF, "known_findings.json")
    if not os.path.exists(p):
        return {"findings": [], "fixed": []}
    return json.load(open(p))


class Report:
    def __init__(self, prop, tier, seed):
        self.prop, self.tier, self.seed = prop, tier, seed
        self.t0 = time.time()
        self.violations = []      # (replay dict, has_input)
        self.known_hits = {}
        self.coverage = {}
        self.assumptions = []
        self.known = [f for f in load_known().get("findings", []) if f["property"] == prop]

    def violation(self, kind, what, data, failing_input=True):
        self.violations.append({"kind": kind, "what": what, "data": data, "failing_input": failing_input})

    def known_finding(self, fid, what):
        self.known_hits[fid] = what

    def finish(self, level="proof"):
        os.makedirs(os.path.join(VERIF, "evidence"), exist_ok=True)
        os.makedirs(os.path.join(VERIF, "replays"), exist_ok=True)
        for fid, what in sorted(self.known_hits.items()):
            print("KNOWN-FINDING: property=%s %s" % (self.prop, what))
        rc = 0
        seen = set()
        with_input = [v for v in self.violations if v["failing_input"]]
        chosen = with_input[:3] if with_input else self.violations[:1]
        for v in chosen:
            h = hashlib.sha256(json.dumps(v, sort_keys=True, default=str).encode()).hexdigest()[:12]
            path = os.path.join(VERIF, "replays", "%s-%s.json" % (self.prop, h))
            rep = {"property": self.prop, "kind": v["kind"], "what": v["what"], "tier": self.tier, "seed": self.seed,
                   "data": v["data"], "all_violations_this_run": len(self.violations),
                   "how_to_rerun": "VERIF_SEED=%d bin/check %s --tier %s" % (self.seed, self.prop, self.tier)}
            json.dump(rep, open(path, "w"), indent=1, default=str)
            tail = "" if v["failing_input"] else " no-failing-input-found"
            print("VIOLATION property=%s replay=%s%s" % (self.prop, path, tail))
            rc = 1
        ev = {"property_id": self.prop, "tier": self.tier, "seed": self.seed, "level": level,
              "coverage": self.coverage, "assumptions": self.assumptions,
              "wall_s": round(time.time() - self.t0, 2), "violations": len(self.violations)}
        ev["coverage"]["known_findings_reconfirmed"] = sorted(self.known_hits)
        json.dump(ev, open(os.path.join(VERIF, "evidence", "%s.json" % self.prop), "w"), indent=1, default=str)
        return rc


TRUSTED_BASE = [
    "Coq 8.16.1 kernel and coqc, vm_compute (no native_compute); coqchk in the thorough tier",
    "Print Assumptions of every property theorem: closed under the global context (no axioms)",
    "extraction with ExtrOcamlBasic only (no Extract Constant / Extract Inductive of our own), OCaml 4.13.1, ocaml/*.ml driver",
    "the correspondence harness (harness/cmd/*, lib/*.py, bin/check) that runs model and implementation on the same inputs",
    "harness/cmd/gentables printing what the live tables contain (coq/Gen/*.v)",
    "the Gallina models are hand transliterations of the Go code; they reach the code only through the correspondence run",
]


def common_setup(rep, need_model=True, race=False):
    """go build, gentables, model build. Any failure is a violation without input
    (the property is no longer shown to hold)."""
    with Lock():
        ok, err = build_go(race=race)
        if not ok:
            rep.violation("build", "harness does not build against the current /repo tree", {"stderr": err[-3000:]}, False)
            return False
        ok, err = gentables()
        if not ok:
            rep.violation("build", "gentables failed", {"stderr": err[-3000:]}, False)
            return False
        if need_model:
            ok, err = build_model()
            if not ok:
                rep.violation("build", "model/extraction build failed", {"log": err[-3000:]}, False)
                return False
    return True


def proof_step(rep, prop):
    with Lock():
        info, broken = prove(prop)
    rep.coverage.update({
        "obligations": info["obligations"], "discharged": info["discharged"],
        "checker_cmd": info["checker_cmd"], "trusted_base": TRUSTED_BASE,
        "theorems": info["theorems"], "assumptions_printed": info["assumptions_printed"],
        "obligations_per_file": info["obligations_per_file"],
    })
    return info, broken
