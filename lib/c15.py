"""C15 - menu completion cycles through every candidate exactly once."""
import random

import vlib
import ptydrive as P
from vlib import enc_list, Dec

TAB = b"\t"
BTAB = b"\x1b[Z"


def gen_cands(rnd, kind, n):
    """distinct candidate values with descriptions / tags of the given kind"""
    words = []
    seen = set()
    while len(words) < n:
        if kind == "long":
            w = "".join(rnd.choice("abcdefghij") for _ in range(rnd.choice([3, 10, 25, 40, 70])))
        elif kind == "wide":
            w = "".join(rnd.choice("日本語テキスト中文ab") for _ in range(rnd.randrange(1, 8)))
        else:
            w = "".join(rnd.choice("abcdefghijklmnopqrstuvwxyz-_.") for _ in range(rnd.randrange(1, 9)))
        if w in seen or not w.strip() or w.startswith("-") and False:
            continue
        seen.add(w)
        words.append(w)
    cands = []
    ndesc = rnd.choice([1, 2, 3, 5, 8])
    ntags = rnd.choice([2, 3, 4])
    for i, w in enumerate(words):
        desc, tag = "", ""
        if kind == "described":
            desc = "description number %d" % i
        elif kind == "aliased":
            desc = "shared %d" % rnd.randrange(ndesc)
        elif kind == "aliased-long":
            desc = "a rather long shared description text %d" % rnd.randrange(ndesc)
        elif kind == "mixed":
            r = rnd.random()
            desc = "" if r < 0.3 else ("alias %d" % rnd.randrange(ndesc) if r < 0.7 else "unique %d" % i)
        elif kind == "tags":
            tag = "tag%d" % rnd.randrange(ntags)
            r = rnd.random()
            desc = "" if r < 0.5 else "alias %d" % rnd.randrange(ndesc)
        elif kind == "tags-single":
            # one tag holds exactly one candidate
            tag = "solo" if i == 0 else "tag%d" % (1 + rnd.randrange(ntags))
        elif kind in ("long", "wide"):
            desc = "" if rnd.random() < 0.6 else "d%d" % rnd.randrange(ndesc)
        cands.append({"value": w, "desc": desc, "tag": tag})
    return cands


def directions(rnd, n, mode):
    if mode == "fwd":
        return [1] * (2 * n + 3)
    if mode == "back":
        return [-1] * (2 * n + 3)
    if mode == "fwd-back":
        k = rnd.randrange(1, 2 * n + 2)
        return [1] * k + [-1] * (2 * n + 2)
    out = []
    while len(out) < 2 * n + 6:
        out += [rnd.choice([1, -1])] * rnd.randrange(1, n + 2)
    return out


def check(rep, tier, seed):
    rnd = random.Random(seed)
    if not vlib.common_setup(rep):
        return
    info, broken = vlib.proof_step(rep, "C15")
    nsess = 260 if tier == "quick" else 6000
    kinds = ["plain", "described", "aliased", "aliased-long", "mixed", "tags", "tags-single", "long", "wide"]
    sess = []
    for i in range(nsess):
        kind = kinds[i % len(kinds)]
        n = rnd.choice([2, 2, 3, 3, 4, 5, 6, 7, 8, 9, 10, 12, 15, 20, 30, 45, 60]) if tier == "quick" else rnd.randrange(2, 61)
        if tier == "quick" and n > 20 and rnd.random() < 0.6:
            n = rnd.randrange(2, 14)
        cands = gen_cands(rnd, kind, n)
        width = rnd.choice([20, 24, 30, 40, 57, 80, 100, 132, 200])
        height = rnd.choice([8, 12, 24, 50])
        mode = rnd.choice(["fwd", "back", "fwd-back", "mixed"])
        sess.append({"kind": kind, "cands": cands, "width": width, "height": height, "dirs": directions(rnd, n, mode), "mode": mode})
    # a single candidate: inserted at once
    for kind in ("plain", "described"):
        sess.append({"kind": kind + "-1", "cands": gen_cands(rnd, kind, 1), "width": 80, "height": 24, "dirs": [1], "mode": "fwd"})
    jobs = []
    for s in sess:
        scn = {"calls": 1, "comp_snap": True, "completer": {"cands": s["cands"], "filter_pref": False}}
        # the first key opens the menu from the main keymap (TAB = complete, or menu-complete / menu-complete-backward bound
        # through a private prefix); the following ones are keys of the menu-select keymap
        chunks = []
        for k, d in enumerate(s["dirs"]):
            if k == 0:
                chunks.append((TAB if rnd.random() < 0.5 else b"\x1cf") if d > 0 else b"\x1cb")
            else:
                chunks.append(rnd.choice([TAB, b"\x0e"]) if d > 0 else rnd.choice([BTAB, b"\x10"]))
        jobs.append({"scenario": scn, "chunks": chunks, "cols": s["width"], "rows": s["height"], "step_timeout": 8.0,
                     "inputrc": "\"\\034f\": menu-complete\n\"\\034b\": menu-complete-backward\n"})
    res = P.run_many(jobs)
    bad, mism, mlines, mmeta = [], [], [], []
    stats = {"sessions": len(sess), "by_kind": {}, "aliased_groups": 0, "plain_groups": 0, "multi_group_sessions": 0,
             "ragged_aliased_groups": 0, "steps": 0, "widths": sorted({s["width"] for s in sess})}
    nontriv = set()
    for si, (s, r) in enumerate(zip(sess, res)):
        stats["by_kind"][s["kind"]] = stats["by_kind"].get(s["kind"], 0) + 1
        waits = [e for e in r["events"] if e["ev"] == "wait"]
        pan = P.panics(r)
        vals = [c["value"] for c in s["cands"]]
        n = len(vals)
        if pan or r["outcome"] not in ("waiting",) or len(waits) != len(s["dirs"]) + 1:
            if n == 1 and not pan and len(waits) == 2:
                ln = "".join(chr(c) for c in waits[1]["line"])
                if ln.strip() != vals[0]:
                    bad.append({"session": s, "failure": "the only candidate was not inserted", "line": ln})
                continue
            bad.append({"session": s, "failure": "session did not complete: %s" % r["outcome"], "panics": [p["msg"] for p in pan][:1],
                        "frames": [p["frames"][:4] for p in pan][:1]})
            continue
        if n == 1:
            continue
        steps = waits[1:]
        groups = steps[0]["comp"]["groups"] or []
        shapes = []
        for g in groups:
            rows = [["".join(chr(c) for c in v) for v in row] for row in g["rows"]]
            shapes.append({"rows": rows, "aliased": g["aliased"], "maxx": g["maxx"], "maxy": g["maxy"], "ncols": g["ncols"]})
            if rows:
                stats["aliased_groups" if g["aliased"] else "plain_groups"] += 1
                if g["aliased"] and len({len(x) for x in rows}) > 1:
                    stats["ragged_aliased_groups"] += 1
        if sum(1 for g in shapes if g["rows"]) > 1:
            stats["multi_group_sessions"] += 1
        fails = []
        # the grid holds every candidate exactly once, and has the shape the selector relies on
        cells = [v for g in shapes for row in g["rows"] for v in row]
        if sorted(cells) != sorted(vals):
            fails.append("the grids do not hold every candidate exactly once")
        for g in shapes:
            if not g["rows"]:
                continue
            lens = [len(x) for x in g["rows"]]
            if min(lens) < 1 or max(lens) > g["maxx"] or g["maxy"] != len(lens) or (g["aliased"] and g["ncols"] != g["maxx"]):
                fails.append("grid shape: rows %s maxx %d maxy %d ncols %d" % (lens, g["maxx"], g["maxy"], g["ncols"]))
        seq = []
        for w in steps:
            c = w["comp"]
            sel = "".join(chr(x) for x in c["selected"])
            ln = "".join(chr(x) for x in c["line"])
            if ln != sel or "".join(chr(x) for x in w["line"]) != sel:
                fails.append("the line is not the selected candidate: line %r selected %r" % (ln, sel))
                break
            seq.append(sel)
        stats["steps"] += len(seq)
        # every window of N consecutive steps in one direction visits every candidate exactly once,
        # and the step after it is the first of the window again
        dirs = s["dirs"]
        if not fails:
            i = 0
            while i < len(seq):
                j = i
                while j + 1 < len(seq) and dirs[j + 1] == dirs[i]:
                    j += 1
                run = seq[i:j + 1]          # seq[k] is the candidate after step k; steps i..j have the same direction
                for a in range(0, len(run) - n + 1):
                    win = run[a:a + n]
                    if sorted(win) != sorted(vals):
                        missing = sorted(set(vals) - set(win))
                        fails.append("%d consecutive %s steps do not visit every candidate exactly once (missing %s, visited %s)"
                                     % (n, "forward" if dirs[i] > 0 else "backward", missing[:5], win[:12]))
                        break
                    if a + n < len(run) and run[a + n] != run[a]:
                        fails.append("after a full cycle the selection does not return to where it started")
                        break
                i = j + 1
            # a step back undoes a step forward
            for k in range(1, len(seq) - 1):
                if dirs[k + 1] == -dirs[k] and seq[k + 1] != seq[k - 1] and not fails:
                    fails.append("a step %s after a step %s does not return to the previous candidate (%r, %r, %r)"
                                 % ("back" if dirs[k + 1] < 0 else "forward", "forward" if dirs[k] > 0 else "back", seq[k - 1], seq[k], seq[k + 1]))
        if len(seq) >= n:
            nontriv.add((tuple(tuple(len(x) for x in g["rows"]) for g in shapes), tuple(g["aliased"] for g in shapes), s["mode"]))
        if fails:
            bad.append({"session": {k: s[k] for k in ("kind", "cands", "width", "height", "dirs", "mode")}, "failure": fails[:3],
                        "grids": [[len(x) for x in g["rows"]] for g in shapes], "aliased": [g["aliased"] for g in shapes],
                        "inserted_sequence": seq[:40]})
        # the model on the same grid shapes and directions
        parts = ["c15", str(len(shapes))]
        for g in shapes:
            parts += ["1" if g["aliased"] else "0", str(g["maxx"]), str(g["maxy"]), str(g["ncols"]), enc_list([len(x) for x in g["rows"]])]
        parts.append(enc_list(dirs))
        mlines.append(" ".join(parts))
        mmeta.append((si, shapes, steps))
    gm = vlib.model(mlines) if mlines else []
    for (si, shapes, steps), ml in zip(mmeta, gm):
        d = Dec(ml)
        for k, w in enumerate(steps):
            if d.done():
                mism.append({"session": si, "step": k, "why": "model output ended", "model": ml[:200]})
                break
            tag = d.tok()
            if tag != "S":
                mism.append({"session": si, "step": k, "why": "model: " + tag, "model": ml[:200]})
                break
            g, y, x = d.int(), d.int(), d.int()
            wg = w["comp"]["groups"] or []
            cur = [i for i, gg in enumerate(wg) if gg["cur"]]
            ig = wg[cur[0]] if cur else None
            iy, ix = (ig["py"], ig["px"]) if ig else (None, None)
            if ig is not None and (iy == -1 or ix == -1):
                iy, ix = 0, 0
            if not cur or (cur[0], iy, ix) != (g, y, x):
                mism.append({"session": si, "step": k, "why": "selector differs", "impl": [cur[0] if cur else None, iy, ix], "model": [g, y, x],
                             "grids": [[len(r) for r in sh["rows"]] for sh in shapes], "dirs": sess[si]["dirs"][:k + 1]})
                break
    rep.coverage.update({
        "evaluations": len(sess),
        "distinct_nontrivial": len(nontriv),
        "rule": "candidate sets of 2-60 distinct values (plain; uniquely described; aliased by shared descriptions, short and long; mixtures of "
                "undescribed/aliased/unique; several tags incl. a tag with a single candidate; long values; wide CJK values) on terminals of "
                "width 20-200 and height 8-50, completed on an empty line in the real Readline over a pty with TAB (menu-complete) and "
                "Shift-TAB (menu-complete-backward): forward, backward, forward-then-backward and mixed cycling of more than 2N steps; oracle: "
                "the grids hold every candidate once and have the shape the selector relies on, the line is the selected candidate after "
                "every step, every window of N same-direction steps visits every candidate exactly once and step N+1 is the first again, a "
                "step back undoes a step forward; the selector position after every step is compared with the model run on the same grid "
                "shapes; non-trivial = distinct (grid shapes, aliased flags, cycling mode) with at least N steps",
        "samples": [{"kind": sess[i]["kind"], "n": len(sess[i]["cands"]), "width": sess[i]["width"], "mode": sess[i]["mode"]} for i in (2, 5)],
        "stats": stats,
        "correspondence": {"cases": len(mlines), "mismatches": len(mism)},
        "oracle_on_impl": {"cases": len(sess), "failures": len(bad)},
        "exhaustive": False,
    })
    for b in bad[:3]:
        rep.violation("session", "menu completion does not cycle through every candidate exactly once", b)
    if (mism or broken) and not bad:
        rep.violation("proof" if broken else "correspondence", "C15 theorems or the Grid.v correspondence no longer check",
                      {"broken_obligations": broken, "correspondence_mismatches": len(mism), "first_mismatches": mism[:3]},
                      failing_input=False)
