"""Generators of inputrc texts: well-formed programs from a grammar (C13, C19c) and
mutated / malformed byte strings (C12)."""
from vlib import enc_list, enc_str

KEYMAPS = ["emacs", "emacs-standard", "emacs-meta", "emacs-ctlx", "vi", "vi-move", "vi-command", "vi-insert", "custom-map"]
ACTIONS = ["self-insert", "kill-line", "beginning-of-line", "forward-word", "abort", "accept-line", "yank", "x", "do-it"]
KEYNAMES = ["Control-a", "Meta-x", "C-M-f", "Meta-Control-p", "Escape", "RET", "tab", "SPC", "DEL", "Control-Space",
            "a", "Z", "ctrl-u", "M-Rubout", "lfd", "Control-Meta-v", "é", "m-é"]
QUOTED = ["\\C-a", "\\M-x", "\\e[A", "\\C-x\\C-r", "abc", "\\\"", "\\\\", "\\x41", "\\101", "\\M-\\C-f", "\\C-\\M-p", "\\e\\e[C",
          "x", "\\C-?", "\\d", "\\t", "é", "\\M-", "\\7", "\\C-", "世", "\\1\\e[4 q\\2"]
VARS_BOOL = ["bell-visible", "convert-meta", "input-meta", "show-all-if-ambiguous", "my-flag"]
VARS_INT = ["history-size", "completion-query-items", "keyseq-timeout", "my-int"]
VARS_STR = ["bell-style", "comment-begin", "editing-mode", "vi-ins-mode-string", "my-str"]
VALUES = ["on", "off", "On", "OFF", "1", "0", "5", "50", "1010", "-3", "+7", "none", "audible", "vi", "emacs", "x",
          "\"quoted value\"", "'single q'", "\"a\\\"b\"", "99999999999999999999", "1e3", "é", "a#b"]
MODES = ["emacs", "vi", ""]
TERMS = ["xterm", "rxvt", "xterm-256color", ""]
APPS = ["bash", "usql", "Bash", ""]


def gen_cond(rnd):
    r = rnd.random()
    if r < 0.4:
        return "mode=" + rnd.choice(["emacs", "vi", "vim"])
    if r < 0.7:
        return "term=" + rnd.choice(["xterm", "rxvt", "linux", "xterm-256color"])
    return rnd.choice(["bash", "Bash", "usql", "gdb", "BASH"])


def gen_leaf(rnd, files):
    r = rnd.random()
    if r < 0.22:
        return "\"%s\": %s" % (rnd.choice(QUOTED), rnd.choice(ACTIONS))
    if r < 0.34:
        return "\"%s\": \"%s\"" % (rnd.choice(QUOTED), rnd.choice(QUOTED))
    if r < 0.48:
        return "%s: %s" % (rnd.choice(KEYNAMES), rnd.choice(ACTIONS))
    if r < 0.54:
        return "%s: '%s'" % (rnd.choice(KEYNAMES), rnd.choice(QUOTED))
    if r < 0.66:
        return "set keymap " + rnd.choice(KEYMAPS)
    if r < 0.90:
        return "set %s %s" % (rnd.choice(VARS_BOOL + VARS_INT + VARS_STR), rnd.choice(VALUES))
    if r < 0.94:
        return "# " + rnd.choice(["comment", "set x y", "\"a\": b"])
    if r < 0.97 and files:
        return "$include " + rnd.choice(files)
    return rnd.choice(["", "   ", "$unknown thing"])


def gen_block(rnd, depth, files, out, max_stmts):
    n = rnd.randrange(0, max_stmts)
    for _ in range(n):
        if depth < 4 and rnd.random() < 0.22:
            out.append("$if " + gen_cond(rnd))
            gen_block(rnd, depth + 1, files, out, max_stmts)
            if rnd.random() < 0.5:
                out.append("$else")
                gen_block(rnd, depth + 1, files, out, max_stmts)
            out.append("$endif")
        else:
            ind = " " * rnd.choice([0, 0, 0, 2, 4]) if rnd.random() < 0.3 else ""
            out.append(ind + gen_leaf(rnd, files))


def gen_program(rnd, files=(), max_stmts=6):
    out = []
    gen_block(rnd, 0, list(files), out, max_stmts)
    sep = "\r\n" if rnd.random() < 0.05 else "\n"
    txt = sep.join(out)
    if rnd.random() < 0.8:
        txt += sep
    return txt


def gen_initial_vars(rnd):
    vs = []
    for n in VARS_BOOL:
        if rnd.random() < 0.5:
            vs.append((n, 0, [rnd.randrange(2)]))
    for n in VARS_INT:
        if rnd.random() < 0.5:
            vs.append((n, 1, [rnd.choice([0, 5, 500])]))
    for n in VARS_STR:
        if rnd.random() < 0.5:
            vs.append((n, 2, [ord(c) for c in rnd.choice(["", "audible", "emacs"])]))
    return vs


def mutate(rnd, data):
    """byte-level mutations of a text: truncation, deletion, duplication, random bytes, lone modifiers..."""
    b = bytearray(data)
    for _ in range(rnd.randrange(1, 4)):
        r = rnd.random()
        if not b:
            b += bytes([rnd.randrange(256)])
            continue
        i = rnd.randrange(len(b))
        if r < 0.2:
            del b[i:]
        elif r < 0.35:
            del b[i:i + rnd.randrange(1, 4)]
        elif r < 0.5:
            b[i:i] = bytes(rnd.randrange(256) for _ in range(rnd.randrange(1, 3)))
        elif r < 0.62:
            b[i] = rnd.choice(b"\"'\\:#$ \t\n\r\x00\x7f\xff\xc3\xe2-")
        elif r < 0.72:
            b[i:i] = rnd.choice([b"set", b"set ", b"set  \n", b"$if", b"$else\n", b"$endif\n", b"$include ", b"\"", b"'", b"\\",
                                 b"Control-", b"Meta-", b"C-M-", b"-", b":", b"\\C-", b"\\M-\\C-", b"\\x", b" \t", b"\xe2\x82",
                                 b"set x", b"set x \"", b"set keymap", b"set editing-mode x", b"s", b"se", b"$"])
        elif r < 0.8:
            j = rnd.randrange(len(b))
            b[i:i] = b[min(i, j):max(i, j)][:40]
        elif r < 0.9:
            b[i:i + 1] = b"\n"
        else:
            b[i:i] = b" " * rnd.randrange(1, 5)
    return bytes(b)


def parse_case(halt, strict, app, term, mode, vars_, files, src_bytes):
    """files: list of (name, kind, bytes)"""
    parts = ["parse", "1" if halt else "0", "1" if strict else "0", enc_str(app), enc_str(term), enc_str(mode), str(len(vars_))]
    for (n, k, v) in vars_:
        parts += [enc_str(n), str(k), enc_list(v)]
    parts.append(str(len(files)))
    for (n, k, c) in files:
        parts += [enc_str(n), str(k), enc_list(list(c))]
    parts.append(enc_list(list(src_bytes)))
    return " ".join(parts)


class ParseOut:
    def __init__(self, line):
        self.raw = line
        self.panic = line.startswith("PANIC") or line.startswith("GOPANIC")
        self.bad = line.startswith("NO-OUTPUT") or line.startswith("UNKNOWN") or line.startswith("TIMEOUT") or line.startswith("OUTOFFUEL")
        self.ret = None
        self.errs, self.binds, self.vars = [], [], []
        if self.panic or self.bad:
            return
        from vlib import Dec
        d = Dec(line)
        self.ret = d.int()
        for _ in range(d.int()):
            self.errs.append((d.int(), d.int()))
        for _ in range(d.int()):
            km, sq, ac = d.str(), d.list(), d.str()
            self.binds.append((km, tuple(sq), ac, d.int()))
        for _ in range(d.int()):
            n, k, v = d.str(), d.int(), d.list()
            self.vars.append((n, k, tuple(v)))

    def norm(self):
        """canonical form compared between model and implementation"""
        if self.panic:
            return "PANIC"
        return self.raw
