"""Drives harness/cmd/rlchild over a pty: feeds input chunks only when the child is
about to block for input (it says so on its report fd), answers every cursor
position query from a VT100 emulator fed with everything the child writes."""
import fcntl
import json
import os
import pty
import select
import signal
import struct
import subprocess
import tempfile
import termios
import time
from concurrent.futures import ThreadPoolExecutor

import vlib


class VT:
    """VT100/xterm subset with deferred wrap (the oracle terminal for C04/C11 is the
    extracted Term.v; this one answers queries live and is cross-checked against it)."""

    def __init__(self, rows=24, cols=80):
        self.rows, self.cols = rows, cols
        self.grid = [[" "] * cols for _ in range(rows)]
        self.r = self.c = 0
        self.pending = False
        self.state = 0
        self.params = ""
        self.queries = 0
        self.cursor_style = None
        self.cursor_visible = True
        self.scrolled = 0
        self.utf = b""
        self.log = []

    def resize(self, rows, cols):
        self.grid = [(row + [" "] * cols)[:cols] for row in self.grid]
        while len(self.grid) < rows:
            self.grid.append([" "] * cols)
        self.grid = self.grid[:rows]
        self.rows, self.cols = rows, cols
        self.r, self.c = min(self.r, rows - 1), min(self.c, cols - 1)
        self.pending = False

    def scroll(self):
        self.grid.pop(0)
        self.grid.append([" "] * self.cols)
        self.scrolled += 1

    def linefeed(self):
        if self.r == self.rows - 1:
            self.scroll()
        else:
            self.r += 1

    def put(self, ch):
        import unicodedata
        w = 2 if unicodedata.east_asian_width(ch) in ("W", "F") else (0 if unicodedata.combining(ch) or unicodedata.category(ch) in ("Mn", "Me", "Cf") else 1)
        if w == 0:
            return
        if self.pending:
            self.c = 0
            self.linefeed()
            self.pending = False
        if w == 2 and self.c == self.cols - 1:
            self.c = 0
            self.linefeed()
        self.grid[self.r][self.c] = ch
        if w == 2 and self.c + 1 < self.cols:
            self.grid[self.r][self.c + 1] = ""
        if self.c + w >= self.cols:
            self.c = self.cols - 1
            self.pending = True
        else:
            self.c += w

    def feed(self, data):
        """returns the number of cursor position queries seen in data"""
        q = 0
        for b in data:
            if self.state == 0:
                if self.utf or b >= 0x80:
                    self.utf += bytes([b])
                    try:
                        ch = self.utf.decode("utf-8")
                        self.utf = b""
                        self.put(ch)
                    except UnicodeDecodeError:
                        if len(self.utf) >= 4:
                            self.utf = b""
                    continue
                if b == 0x1B:
                    self.state = 1
                elif b == 13:
                    self.c = 0
                    self.pending = False
                elif b == 10:
                    self.pending = False
                    self.linefeed()
                elif b == 8:
                    self.pending = False
                    if self.c > 0:
                        self.c -= 1
                elif b == 7 or b < 0x20 or b == 0x7F:
                    pass
                else:
                    self.put(chr(b))
            elif self.state == 1:
                if b == ord("["):
                    self.state = 2
                    self.params = ""
                elif b in (ord("("), ord(")")):
                    self.state = 3
                else:
                    self.state = 0
            elif self.state == 3:
                self.state = 0
            elif self.state == 2:
                if 0x30 <= b <= 0x3F or b == 0x20:
                    self.params += chr(b)
                else:
                    q += self.csi(chr(b))
                    self.state = 0
        return q

    def csi(self, final):
        p = self.params
        priv = p.startswith("?")
        nums = [int(x) if x.strip().isdigit() else 0 for x in p.lstrip("?").split(";")] if p.lstrip("?").strip() else []
        n = nums[0] if nums else 0
        n1 = n if n > 0 else 1
        if final == "n" and n == 6:
            self.queries += 1
            return 1
        if priv:
            if final in "hl" and n == 25:
                self.cursor_visible = (final == "h")
            return 0
        if final == "q" and p.endswith(" "):
            self.cursor_style = n
            return 0
        if final in "ABCDGHJKfd":
            self.pending = False
        if final == "A":
            self.r = max(0, self.r - n1)
        elif final == "B":
            self.r = min(self.rows - 1, self.r + n1)
        elif final == "C":
            self.c = min(self.cols - 1, self.c + n1)
        elif final == "D":
            self.c = max(0, self.c - n1)
        elif final == "G":
            self.c = min(self.cols - 1, n1 - 1)
        elif final in "Hf":
            r = (nums[0] if len(nums) > 0 and nums[0] > 0 else 1) - 1
            c = (nums[1] if len(nums) > 1 and nums[1] > 0 else 1) - 1
            self.r, self.c = min(self.rows - 1, r), min(self.cols - 1, c)
        elif final == "J":
            if n == 0:
                for c in range(self.c, self.cols):
                    self.grid[self.r][c] = " "
                for r in range(self.r + 1, self.rows):
                    self.grid[r] = [" "] * self.cols
            elif n == 1:
                for c in range(0, self.c + 1):
                    self.grid[self.r][c] = " "
                for r in range(0, self.r):
                    self.grid[r] = [" "] * self.cols
            else:
                self.grid = [[" "] * self.cols for _ in range(self.rows)]
        elif final == "K":
            if n == 0:
                rng = range(self.c, self.cols)
            elif n == 1:
                rng = range(0, self.c + 1)
            else:
                rng = range(0, self.cols)
            for c in rng:
                self.grid[self.r][c] = " "
        return 0

    def screen(self):
        return ["".join(row).rstrip() for row in self.grid]

    def report(self):
        return ("\x1b[%d;%dR" % (self.r + 1, self.c + 1)).encode()


class Session:
    """One child process on one pty."""

    def __init__(self, scenario, inputrc="", rows=24, cols=80, exe=None, env_extra=None):
        self.tmp = tempfile.mkdtemp(prefix="s", dir=os.path.join(vlib.BUILD, "tmp"))
        self.scn = os.path.join(self.tmp, "scn.json")
        json.dump(scenario, open(self.scn, "w"))
        rc = os.path.join(self.tmp, "inputrc")
        open(rc, "w", encoding="utf-8", errors="surrogateescape").write(inputrc)
        self.master, self.slave = pty.openpty()
        fcntl.ioctl(self.slave, termios.TIOCSWINSZ, struct.pack("HHHH", rows, cols, 0, 0))
        self.rfd, wfd = os.pipe()
        env = dict(os.environ, INPUTRC=rc, HOME=self.tmp, TERM="xterm")
        if env_extra:
            env.update(env_extra)
        exe = exe or os.path.join(vlib.BIN, "rlchild")

        def pre():
            os.setsid()
            fcntl.ioctl(0, termios.TIOCSCTTY, 0)
        self.proc = subprocess.Popen([exe, self.scn, str(wfd)], stdin=self.slave, stdout=self.slave, stderr=self.slave,
                                     pass_fds=(wfd,), env=env, preexec_fn=pre, close_fds=True)
        os.close(wfd)
        self.vt = VT(rows, cols)
        self.events = []
        self.rbuf = b""
        self.out_since = b""
        self.alive = True
        self.rows, self.cols = rows, cols
        self.query_answers = None     # optional scripted answers: list of lists of byte strings
        self.nq = 0

    def pump(self, timeout):
        """Reads whatever the child wrote (terminal output and report events) for up to
        `timeout` seconds or until a new event arrives. Returns the new events."""
        new = []
        end = time.time() + timeout
        while True:
            left = max(0, end - time.time())
            fds = [f for f in (self.master, self.rfd) if f is not None]
            if not fds:
                break
            try:
                r, _, _ = select.select(fds, [], [], min(left, 0.05) if not new else 0)
            except (OSError, ValueError):
                break
            if self.master in r:
                try:
                    data = os.read(self.master, 65536)
                except OSError:
                    data = b""
                if data:
                    self.out_since += data
                    nq = self.vt.feed(data)
                    for _ in range(nq):
                        self.answer_query()
                else:
                    pass
            if self.rfd in r:
                data = os.read(self.rfd, 65536)
                if not data:
                    os.close(self.rfd)
                    self.rfd = None
                    self.alive = False
                else:
                    self.rbuf += data
                    while b"\n" in self.rbuf:
                        line, self.rbuf = self.rbuf.split(b"\n", 1)
                        try:
                            ev = json.loads(line)
                        except ValueError:
                            ev = {"ev": "garbled", "raw": line.decode("latin-1")[:200]}
                        self.events.append(ev)
                        new.append(ev)
            if new and not r:
                break
            if not r and time.time() >= end:
                break
            if self.rfd is None and not r:
                break
        return new

    def answer_query(self):
        self.nq += 1
        if isinstance(self.query_answers, dict):
            qa = self.query_answers.get(self.nq - 1)
        elif self.query_answers is not None and self.nq - 1 < len(self.query_answers):
            qa = self.query_answers[self.nq - 1]
        else:
            qa = None
        if qa is not None:
            for part in qa:
                os.write(self.master, part.replace(b"<REPORT>", self.vt.report()))
                time.sleep(0.002)
        else:
            os.write(self.master, self.vt.report())

    def send(self, data):
        os.write(self.master, data)

    def hangup(self):
        try:
            os.close(self.master)
        except OSError:
            pass
        self.master = None

    def resize(self, rows, cols):
        fcntl.ioctl(self.slave, termios.TIOCSWINSZ, struct.pack("HHHH", rows, cols, 0, 0))
        self.vt.resize(rows, cols)
        self.proc.send_signal(signal.SIGWINCH)

    def cpu(self):
        try:
            f = open("/proc/%d/stat" % self.proc.pid).read().rsplit(")", 1)[1].split()
            return int(f[11]) + int(f[12])
        except Exception:
            return 0

    def close(self):
        try:
            self.proc.kill()
        except Exception:
            pass
        self.proc.wait()
        for fd in (self.master, self.slave, self.rfd):
            if fd is not None:
                try:
                    os.close(fd)
                except OSError:
                    pass
        import shutil
        shutil.rmtree(self.tmp, ignore_errors=True)


def run_session(scenario, chunks, inputrc="", rows=24, cols=80, step_timeout=4.0, exe=None, query_answers=None,
                keep_output=False, serialize=False):
    """Runs one scenario. chunks: list of bytes (one read each), or ("eof",), ("winch", rows, cols),
    ("sleep", s). Returns a dict: events, outcome (returned/waiting/panic/hang/spin/exit), waits (per-wait records)."""
    s = Session(scenario, inputrc, rows, cols, exe=exe)
    s.query_answers = query_answers
    res = {"events": s.events, "outcome": None, "waits": [], "screens": []}
    try:
        i = 0
        pending_wait = False
        resume_at = None
        hung_up = None
        t_idle = time.time()
        cpu0 = s.cpu()
        done = False
        while not done:
            new = s.pump(0.25)
            for ev in new:
                if ev["ev"] == "wait":
                    # serialize: a wait at which the child starts an async Printf is not a point to send input at -
                    # the redisplay it causes ends with the main loop reading again (the next wait event)
                    pending_wait = not (serialize and ev.get("n") in (scenario.get("printf_at") or []))
                    resume_at = None if pending_wait else time.time() + 0.3
                    rec = {"n": ev["n"], "snap": ev, "nq": s.nq}
                    if keep_output:
                        rec["out"] = s.out_since
                        rec["screen"] = s.vt.screen()
                        rec["cursor"] = (s.vt.r, s.vt.c, s.vt.pending)
                        rec["scrolled"] = s.vt.scrolled
                    s.out_since = b""
                    res["waits"].append(rec)
                elif ev["ev"] == "exit":
                    done = True
            if new:
                t_idle = time.time()
                cpu0 = s.cpu()
            if done:
                break
            if not s.alive:
                res["outcome"] = "died"
                break
            if pending_wait:
                # the child is about to block (or is blocked) in its stdin read
                if i < len(chunks):
                    ch = chunks[i]
                    i += 1
                    if isinstance(ch, (bytes, bytearray)):
                        pending_wait = False
                        s.send(bytes(ch))
                    elif ch[0] == "eof":
                        pending_wait = False
                        hung_up = len(res["waits"])
                        s.hangup()
                    elif ch[0] == "winch":
                        s.resize(ch[1], ch[2])
                        time.sleep(ch[3] if len(ch) > 3 else 0.03)
                        if serialize:
                            pending_wait = False      # the redisplay ends with the main loop reading again
                            resume_at = time.time() + 0.3
                    elif ch[0] == "winch-glued":
                        # the report that answers the redisplay's query arrives in the same read as user bytes
                        if not isinstance(s.query_answers, dict):
                            s.query_answers = {}
                        s.query_answers[s.nq] = [ch[3]]
                        s.resize(ch[1], ch[2])
                        time.sleep(0.05)
                        pending_wait = not (b"<REPORT>" in ch[3] and ch[3] != b"<REPORT>")
                    elif ch[0] == "sleep":
                        time.sleep(ch[1])
                    t_idle = time.time()
                    cpu0 = s.cpu()
                    continue
                if hung_up is not None:
                    # every read of a hung-up terminal fails at once: a call that keeps reading it is spinning
                    if len(res["waits"]) - hung_up >= 40:
                        res["outcome"] = "spin"
                        break
                    if time.time() - t_idle < 0.6:
                        continue
                res["outcome"] = "waiting"
                break
            if serialize and not pending_wait and resume_at and time.time() > resume_at and not new:
                # no new read by the main loop: it never left the one it was blocked in (the report of the redisplay was
                # handed over without one, or dropped); input can be sent
                pending_wait, resume_at = True, None
                continue
            if time.time() - t_idle > step_timeout:
                res["outcome"] = "spin" if s.cpu() - cpu0 > 50 else "hang"
                break
            if serialize and not pending_wait and i < len(chunks) and time.time() - t_idle > 0.8:
                # nothing moves: if the main loop is blocked reading (a redisplay that ended without a new read), go on
                pending_wait = True
                continue
        if res["outcome"] is None:
            res["outcome"] = "exit"
        if keep_output:
            res["final_out"] = s.out_since
            res["final_screen"] = s.vt.screen()
            res["final_cursor"] = (s.vt.r, s.vt.c, s.vt.pending)
            res["cursor_style"] = s.vt.cursor_style
        res["unsent_chunks"] = len(chunks) - i
        if res["outcome"] in ("hang", "spin"):
            try:
                s.proc.send_signal(signal.SIGQUIT)
                time.sleep(0.3)
                data = b""
                while True:
                    r, _, _ = select.select([s.master], [], [], 0.2)
                    if not r:
                        break
                    d = os.read(s.master, 65536)
                    if not d:
                        break
                    data += d
                res["goroutine_dump"] = data.decode("latin-1")[-40000:]
            except Exception:
                pass
    finally:
        s.close()
    return res


def run_many(jobs, workers=None, confirm_timing=True):
    """jobs: list of kwargs dicts for run_session; runs them in parallel, keeps order.
    hang / spin / died are decided by timers: with confirm_timing a session that ended that way without a panic is run
    again on its own, with twice the time, and the second run is the one that counts."""
    os.makedirs(os.path.join(vlib.BUILD, "tmp"), exist_ok=True)
    workers = workers or min(16, vlib.NPROC)
    with ThreadPoolExecutor(max_workers=workers) as ex:
        res = list(ex.map(lambda kw: run_session(**kw), jobs))
    if confirm_timing:
        for k, (kw, r) in enumerate(zip(jobs, res)):
            if r["outcome"] in ("hang", "spin", "died") and not panics(r):
                r2 = run_session(**dict(kw, step_timeout=2 * kw.get("step_timeout", 4.0)))
                r2["rerun_alone"] = True
                res[k] = r2
    return res


def returns(res):
    return [e for e in res["events"] if e["ev"] == "return"]


def panics(res):
    return [e for e in res["events"] if e["ev"] == "panic"]
