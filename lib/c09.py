"""C09 - history navigation and search are faithful and non-destructive."""
import random

import vlib
import edsess as E

HISTS = [[], ["only"], ["ls", "echo a", "pwd"], ["git status", "git commit -m x", "git push", "git status"],
         ["a", "ab", "abc", "abcd"], ["make", "make test", "ls", "make"], ["x\ny", "echo multi\nline", "z"],
         ["héllo", "echo é", "日本"], ["same", "same", "same"], ["  spaced", "echo  two"]]
NAV = ["previous-history", "next-history", "beginning-of-history", "end-of-history"]
SEARCH = ["history-search-backward", "history-search-forward"]
SWEEP = ["history-substring-search-backward", "history-substring-search-forward", "up-line-or-history", "down-line-or-history",
         "infer-next-history", "fetch-history"]


def gen(rnd, kind):
    hist = list(rnd.choice(HISTS))
    typed = rnd.choice(["", "e", "ec", "git", "git s", "ma", "a", "ab", "zzz", "l", "make t", "s", "ls", "make", "pwd", "same", "only", "abcd"])
    cmds = E.type_text(typed)
    if kind == "walk":          # (a) k previous-history from the bottom
        cmds += [("previous-history",)] * rnd.randrange(1, len(hist) + 3)
    elif kind == "updown":      # (b) up k, down k+: back to what was being typed
        k = rnd.randrange(1, len(hist) + 2)
        if rnd.random() < 0.3:      # to the oldest entry at once, then all the way down
            cmds += [("beginning-of-history",)] + [("next-history",)] * (len(hist) + 2)
        else:
            cmds += [("previous-history",)] * k + [("next-history",)] * (k + rnd.randrange(0, 3))
    elif kind == "nav":         # any mix of the four navigation commands, judged at every step against the abstract walk
        for _ in range(rnd.randrange(1, 12)):
            cmds.append((rnd.choice(NAV + ["previous-history", "next-history", "previous-history"]),))
    elif kind == "substr":      # (c) substring searches, search texts with characters that mean something in a regular expression
        hist = list(rnd.choice([["grep a.c file", "echo abc", "ls *.go", "cd $HOME", "f(x) = 1", "a[0] = 2", "echo a+b"],
                                ["make", "make test", "ls", "make"], ["x.y", "xzy", "x.y z", "1+1", "(a|b)"]]))
        typed = rnd.choice(["a.c", "*.go", "$HOME", "f(", "a[0", "a+b", "x.y", "1+1", "(a|b", "ake", "ma", "s", "zzz"])
        cmds = E.type_text(typed)
        for _ in range(rnd.randrange(1, 5)):
            cmds.append((rnd.choice(["history-substring-search-backward", "history-substring-search-backward",
                                     "history-substring-search-forward"]),))
    elif kind == "search":      # (c)
        for _ in range(rnd.randrange(1, 7)):
            cmds.append((rnd.choice(SEARCH + ["history-search-backward"]),))
    elif kind == "isearch":     # C-r / C-s on an empty prompt, a query, Enter: the buffer must be a stored entry
        if rnd.random() < 0.5:
            hist = list(rnd.choice([["x\ny", "echo multi\nline", "z"], ["for i in 1 2\ndo echo $i\ndone", "ls"], ["a\nb", "e\nf", "m\nn"]]))
        cmds = [("raw", rnd.choice([b"\x12", b"\x13"]))]
        q = rnd.choice(["e", "g", "ma", "a", "x", "l", "ech", "", "m"])
        cmds += [("raw", ch.encode()) for ch in q]
        for _ in range(rnd.randrange(0, 3)):
            cmds.append(("raw", rnd.choice([b"\x12", b"\x13", b"\x1b[A", b"\x1b[B"])))
        cmds.append(("raw", b"\r"))
        return {"vi": False, "hist": hist, "cmds": cmds, "kind": kind, "typed": ""}
    else:                       # mixed, including commands outside the model
        for _ in range(rnd.randrange(2, 10)):
            r = rnd.random()
            if r < 0.45:
                cmds.append((rnd.choice(NAV),))
            elif r < 0.75:
                cmds.append((rnd.choice(SEARCH),))
            elif r < 0.9:
                cmds.append((rnd.choice(SWEEP),))
            else:
                cmds.append((rnd.choice(["backward-char", "beginning-of-line", "end-of-line"]),))
    return {"vi": False, "hist": hist, "cmds": cmds, "kind": kind, "typed": typed}


def check(rep, tier, seed):
    rnd = random.Random(seed)
    if not vlib.common_setup(rep):
        return
    info, broken = vlib.proof_step(rep, "C09")
    n = 500 if tier == "quick" else 15000
    sess = [gen(rnd, rnd.choice(["walk", "updown", "nav", "nav", "search", "search", "substr", "mixed", "mixed", "isearch"])) for _ in range(n)]
    modelled = E.modelled_names()
    for s in sess:
        s["modelled"] = all(c[0] in modelled for c in s["cmds"])
    out = E.run(sess, end_eof=True)
    mism, bad = [], []
    stats = {"by_kind": {}, "search_steps": 0, "search_steps_that_moved": 0}
    nontriv = set()
    for s, o in zip(sess, out):
        stats["by_kind"][s["kind"]] = stats["by_kind"].get(s["kind"], 0) + 1
        if s["modelled"]:
            d = E.compare(s, o)
            if d:
                mism.append({"session": s, "diff": d})
        r = o["impl"]
        hist = s["hist"]
        steps = [o["first"]] + o["steps"]
        fails = []
        pan = [e for e in r["events"] if e["ev"] == "panic"]
        # returns that accepted a line (the hang-up that ends every session returns an error)
        rets = [e for e in r["events"] if e["ev"] == "return" and e.get("err") == "nil"]
        if s["kind"] == "isearch" and not pan and (rets or len(steps) >= len(s["cmds"])):
            got = "".join(chr(c) for c in rets[0]["line"]) if rets else "".join(chr(c) for c in steps[-1][0])
            if got != "" and got not in hist:
                fails.append("(c) incremental search left %r in the buffer, which is not a stored entry" % got)
            if got:
                nontriv.add((tuple(hist), "isearch", tuple(c[1] for c in s["cmds"])))
        elif pan or len(steps) < len(s["cmds"]) + 1:
            fails.append("(d) the session failed: %s %s" % (r["outcome"], [p["msg"] for p in pan][:1]))
        else:
            lines = ["".join(chr(c) for c in st[0]) for st in steps]
            nt = len(s["typed"])
            names = [c[0] for c in s["cmds"]]
            inprog = s["typed"]
            if s["kind"] == "walk":
                for k in range(1, len(names) - nt + 1):
                    want = hist[len(hist) - min(k, len(hist))] if hist else inprog
                    if lines[nt + k] != want:
                        fails.append("(a) after %d previous-history the buffer is %r, the entry is %r" % (k, lines[nt + k], want))
                        break
            if s["kind"] == "nav" and hist:
                # the abstract walk of the theorem (WalkP.astep): 0 = the line being entered, k = the k-th newest entry
                pos, nh = 0, len(hist)
                for k, nm in enumerate(names[nt:]):
                    step = {"previous-history": 1, "next-history": -1, "beginning-of-history": nh, "end-of-history": 1 - nh}[nm]
                    if step != 0:
                        pos = max(0, min(nh, pos + step))
                    want = inprog if pos == 0 else hist[nh - pos]
                    if lines[nt + k + 1] != want:
                        fails.append("(a)/(b) after %s the buffer is %r; the walk is at position %d (0 = the line being entered): %r"
                                     % (" ".join(names[nt:nt + k + 1]), lines[nt + k + 1], pos, want))
                        break
                nontriv.add((tuple(hist), inprog, tuple(names[nt:])))
            if s["kind"] == "substr":
                # documented: the search text is what lies between the start of the CURRENT line and the cursor
                for k, nm in enumerate(names[nt:]):
                    before, cur_before = lines[nt + k], steps[nt + k][1]
                    text = before[:cur_before] if cur_before < len(before) else before
                    got = lines[nt + k + 1]
                    if not (got == inprog or got == before or (got in hist and text in got)):
                        fails.append("(c) %s put %r in the buffer: neither the text typed (%r), nor the buffer before, nor an entry containing the "
                                     "search text %r" % (nm, got, inprog, text))
                        break
                    if k == 0 and nm.endswith("backward"):
                        # the first search backward finds the newest entry that contains the text, when there is one
                        cands = [h for h in hist if inprog in h]
                        want = cands[-1] if cands else inprog
                        if got != want:
                            fails.append("(c) the first %s from %r gave %r; the newest entry containing it is %r" % (nm, inprog, got, want))
                            break
                nontriv.add((tuple(hist), inprog, tuple(names[nt:])))
            if s["kind"] == "updown" and hist:
                if lines[-1] != inprog:
                    fails.append("(b) walking back down ends with %r, the text being typed was %r" % (lines[-1], inprog))
            for k, nm in enumerate(names):
                if nm in SEARCH + SWEEP[:2]:
                    stats["search_steps"] += 1
                    got = lines[k + 1]
                    if got != lines[k]:
                        stats["search_steps_that_moved"] += 1
                    if all(c[0] in SEARCH + ["self-insert"] for c in s["cmds"][:k + 1]):
                        # pure prefix-search session: the result is the text typed or an entry it is a prefix of
                        if not (got == inprog or (got in hist and got.startswith(inprog))):
                            fails.append("(c) %s put %r in the buffer: neither the text typed (%r) nor an entry starting with it" % (nm, got, inprog))
                            break
                        nontriv.add((tuple(hist), inprog, tuple(names[nt:k + 1])))
        # non-destructive: the source is what it was
        hev = [e for e in r["events"] if e["ev"] == "hist"]
        stats["sources_compared"] = stats.get("sources_compared", 0) + (1 if hev and not rets else 0)
        if hev and not rets:        # (a line accepted by the final Enter of an isearch session is recorded, rightly)
            after = ["".join(chr(c) for c in l) for l in (hev[0]["lines"] or [])]
            if after != hist:
                fails.append("the history source changed: %r -> %r" % (hist, after))
        if fails:
            bad.append({"hist": hist, "typed": s["typed"], "cmds": [c[0] for c in s["cmds"] if c[0] != "self-insert"], "kind": s["kind"],
                        "buffers": ["".join(chr(c) for c in st[0]) for st in steps], "failure": fails})
    # ---- two calls: what the first call leaves behind (the undo logs of the history lines it walked over live on, the
    # history grows by the accepted line) must not disturb the second: previous-history shows the entries of the source as
    # it is now, newest first
    import ptydrive as P
    two = []
    for _ in range(60 if tier == "quick" else 1500):
        hist = list(rnd.choice([h for h in HISTS if h]))
        typed = rnd.choice(["", "", "new line", "x"])
        keys1 = [ch.encode() for ch in typed]
        for _ in range(rnd.randrange(0, len(hist) + 3)):
            keys1.append(rnd.choice([b"\x10", b"\x10", b"\x10", b"\x0e", b"\x1b<", b"\x1b>"]))
        keys1.append(b"\r")
        two.append({"hist": hist, "typed": typed, "keys1": keys1, "ups": len(hist) + 2})
    res2 = P.run_many([{"scenario": {"calls": 2, "histories": [{"name": "h", "kind": "mem", "lines": t["hist"]}]},
                        "chunks": t["keys1"] + [b"\x10"] * t["ups"] + [("eof",)],
                        "inputrc": '"\\C-p": previous-history\n"\\C-n": next-history\n"\\e<": beginning-of-history\n"\\e>": end-of-history\n'} for t in two])
    stats["two_call_sessions"] = len(two)
    for t, r in zip(two, res2):
        waits = [e for e in r["events"] if e["ev"] == "wait"]
        hev = [e for e in r["events"] if e["ev"] == "hist"]
        pan = [e for e in r["events"] if e["ev"] == "panic"]
        fails = []
        if pan or len(waits) != len(t["keys1"]) + 1 + t["ups"] or not hev:
            fails.append("(d) the two-call session failed: %s %s" % (r["outcome"], [p["msg"] for p in pan][:1]))
        else:
            now = ["".join(chr(c) for c in l) for l in (hev[-1]["lines"] or [])]
            base = len(t["keys1"])
            for k in range(1, t["ups"] + 1):
                got = "".join(chr(c) for c in waits[base + k]["line"])
                want = now[len(now) - min(k, len(now))]
                if got != want:
                    fails.append("(a) second call: after %d previous-history the buffer is %r, the entry is %r (source now: %r)" % (k, got, want, now))
                    break
            nontriv.add((tuple(t["hist"]), t["typed"], tuple(t["keys1"])))
        if fails:
            bad.append({"hist": t["hist"], "typed": t["typed"], "kind": "two-calls", "keys_of_the_first_call": [list(k) for k in t["keys1"]],
                        "buffers": ["".join(chr(c) for c in w["line"]) for w in waits], "failure": fails})
    rep.coverage.update({
        "evaluations": len(sess) + len(two),
        "distinct_nontrivial": len(nontriv),
        "rule": "sessions typed into the real Readline over a pty with a bound in-memory history (empty, one entry, duplicates, multi-line, "
                "multi-byte, entries that are prefixes of each other): an in-progress text, then walks (previous/next/beginning/end-of-history; kind nav: any mix, every step judged against the abstract walk of the theorem), "
                "up-then-down walks, prefix searches (history-search-backward/forward), and mixed sequences with substring search, "
                "up/down-line-or-history, infer-next-history, fetch-history; substring searches for texts with regular-expression metacharacters (literal containment, first match = newest containing entry); two-call sessions (walk, accept, then previous-history through the whole source in the second call); oracle: entries in order, in-progress text restored, search "
                "results are the typed text or an entry with that prefix, no failure at either end, source unchanged; "
                "non-trivial = distinct (history, typed text, search sequence)",
        "samples": [{"hist": sess[i]["hist"], "typed": sess[i]["typed"], "cmds": [c[0] for c in sess[i]["cmds"] if c[0] != "self-insert"]} for i in (0, 1)],
        "stats": stats,
        "correspondence": {"cases": sum(1 for s in sess if s["modelled"]), "mismatches": len(mism)},
        "oracle_on_impl": {"sessions": len(sess), "failures": len(bad)},
        "not_covered": "incremental search (C-r / C-s) uses the completion menu and is not exercised by this check",
        "exhaustive": False,
    })
    for b in bad[:3]:
        rep.violation("session", "history navigation/search misbehaved", b)
    if (mism or broken) and not bad:
        rep.violation("proof" if broken else "correspondence", "C09 theorems or the Editor.v correspondence no longer check",
                      {"broken_obligations": broken, "correspondence_mismatches": len(mism), "first_mismatches": mism[:3]},
                      failing_input=False)
