"""C17 - vi delete removes exactly what yank would copy."""
import random

import vlib
import edsess as E

MODELLED_MOTIONS = ["vi-forward-char", "vi-backward-char", "vi-forward-word", "vi-backward-word", "vi-end-word",
                    "vi-forward-bigword", "vi-backward-bigword", "vi-end-bigword", "beginning-of-line", "vi-end-of-line",
                    "vi-first-print"]
# typed as they are (text objects of the vi-opp keymap, find/till with their argument in a second read, %, ge)
RAW_MOTIONS = [[b"iw"], [b"aw"], [b"iW"], [b"aW"], [b"i\""], [b"a\""], [b"i'"], [b"a'"], [b"i("], [b"a("], [b"i["], [b"i{"], [b"a{"],
               [b"ia"], [b"aa"], [b"%"], [b"ge"], [b"f", b"a"], [b"F", b"o"], [b"t", b" "], [b"T", b"("], [b"f", b"."], [b"t", b"z"]]
MB_TEXTS = ["héllo wörld foo", "日本語 テキスト です", "naïve (café) \"crème\"", "a é b"]
TEXTS = ["hello world foo", "foo(bar, baz) qux", "say \"hi there\" now", "a.b-c d", "x", "  two  spaces  ", "{a [b] (c)} 'q r'",
         "one two\nthree four", "end."]


def sub_remove(before, after, kill):
    """is `after` = `before` with one occurrence of `kill` taken out?"""
    n = len(kill)
    if len(before) != len(after) + n:
        return False
    for p in range(len(after) + 1):
        if before[p:p + n] == kill and before[:p] + before[p + n:] == after:
            return True
    return False


def check(rep, tier, seed):
    rnd = random.Random(seed)
    if not vlib.common_setup(rep):
        return
    info, broken = vlib.proof_step(rep, "C17")
    n = 300 if tier == "quick" else 8000
    sess, pairs = [], []
    for i in range(n):
        t = rnd.choice(TEXTS + MB_TEXTS) if rnd.random() < 0.8 else rnd.choice(MB_TEXTS)
        rc = "set blink-matching-paren on\n" if rnd.random() < 0.3 else ""
        if "\n" in t or any(ord(c) > 127 for c in t):
            start, hist = [("previous-history",)], [t]
        else:
            start, hist = E.type_text(t), None
        prefix = list(start) + [("vi-movement-mode",)] + E.moves(rnd, True, rnd.randrange(0, 4))
        r = rnd.random()
        visual = r < 0.2
        linewise = 0.2 <= r < 0.28
        if linewise:
            tails = ([("vi-delete-to",), ("vi-delete-to",)], [("vi-yank-to",), ("vi-yank-to",)])
            kind = "dd/yy"
        else:
            if rnd.random() < 0.6:
                m = [(rnd.choice(MODELLED_MOTIONS),)]
                if rnd.random() < 0.3 and m[0][0] not in ("beginning-of-line", "vi-end-of-line", "vi-first-print"):
                    m = [("vi-arg-digit", rnd.choice("23"))] + m
                kind = m[-1][0]
            else:
                raw = rnd.choice(RAW_MOTIONS)
                m = [("raw", b) for b in raw]
                kind = b"".join(raw).decode()
            if visual:
                if any(c[0] == "raw" and c[1][:1] in (b"i", b"a") for c in m):
                    m = [(rnd.choice(MODELLED_MOTIONS),)]
                    kind = m[0][0]
                tails = ([("vi-visual-mode",)] + m + [("vi-delete-to",)], [("vi-visual-mode",)] + m + [("vi-yank-to",)])
                kind = "visual " + kind
            else:
                tails = ([("vi-delete-to",)] + m, [("vi-yank-to",)] + m)
        a = {"vi": True, "hist": hist, "cmds": prefix + tails[0], "kind": kind, "rc": rc}
        b = {"vi": True, "hist": hist, "cmds": prefix + tails[1], "kind": kind, "rc": rc}
        pairs.append((len(sess), len(sess) + 1, len(prefix)))
        sess += [a, b]
    out = E.run(sess)
    mism, bad = [], []
    kinds, nontriv = {}, set()
    for s, o in zip(sess, out):
        if s.get("modelled", True):
            d = E.compare(s, o)
            if d:
                mism.append({"session": s, "diff": d})
    for (ia, ib, npre) in pairs:
        sa, sb, oa, ob = sess[ia], sess[ib], out[ia], out[ib]
        sta, stb = [oa["first"]] + oa["steps"], [ob["first"]] + ob["steps"]
        if len(sta) < len(sa["cmds"]) + 1 or len(stb) < len(sb["cmds"]) + 1:
            pa = [e["msg"] for e in oa["impl"]["events"] + ob["impl"]["events"] if e["ev"] == "panic"]
            if pa:
                bad.append({"kind": sa["kind"], "delete_session": sa["cmds"], "failure": "panic: %s" % pa[0]})
            continue       # a motion that needs more keys than given: nothing to compare
        before = sta[npre]
        fa, fb = sta[-1], stb[-1]
        kills = (fa[5], fb[5])
        kinds[sa["kind"]] = kinds.get(sa["kind"], 0) + 1
        fails = []
        if fb[0] != before[0]:
            fails.append("yank changed the buffer")
        if kills[0] != kills[1]:
            fails.append("delete put %r in the register, yank %r" % (E_txt(kills[0]), E_txt(kills[1])))
        if fa[0] != before[0]:
            nontriv.add((before[0], before[1], sa["kind"]))
            k = kills[0]
            if not (sub_remove(before[0], fa[0], k) or (k and k[-1] == 10 and (sub_remove(before[0], fa[0], k[:-1])
                    or sub_remove(before[0] + (10,), fa[0] + (10,), k) or sub_remove(before[0], fa[0], (10,) + k[:-1])))):
                fails.append("the buffer after delete is not the buffer before it minus the register text")
        elif kills[0] != before[5] and kills[0] != kills[1]:
            pass
        if fails:
            bad.append({"kind": sa["kind"], "before": E_txt(before[0]), "cursor": before[1], "delete_session": [c if len(c) > 1 else c[0] for c in sa["cmds"][npre:]],
                        "after_delete": E_txt(fa[0]), "register_after_delete": E_txt(kills[0]),
                        "after_yank": E_txt(fb[0]), "register_after_yank": E_txt(kills[1]), "failure": fails})
    rep.coverage.update({
        "evaluations": len(sess),
        "distinct_nontrivial": len(nontriv),
        "rule": "pairs of sessions from identical states (typed text or a multi-line history entry, ESC, 0-3 movements): d<motion> vs "
                "y<motion>, for motions by command name with counts (h l w b e W B E 0 $ ^), text objects and find/till/%%/ge typed raw "
                "(iw aw iW aW i\" a\" i' a' i( a( i[ i{ a{ ia aa f/F/t/T<c> %% ge), visual mode (v<motion>d / v<motion>y) and dd/yy; "
                "30%% of the pairs with `set blink-matching-paren on`; buffers include multi-byte text (from history); non-trivial = the delete changed the buffer (distinct buffer, cursor, motion)",
        "samples": [{"cmds": [c if len(c) > 1 else c[0] for c in sess[i]["cmds"][-4:]], "kind": sess[i]["kind"]} for i in (0, 2)],
        "motion_kinds": kinds,
        "correspondence": {"cases": sum(1 for s in sess if s.get("modelled", True)), "mismatches": len(mism)},
        "oracle_on_impl": {"pairs": len(pairs), "failures": len(bad)},
        "exhaustive": False,
    })
    for b in bad[:3]:
        rep.violation("session", "vi delete and vi yank of the same motion disagree", b)
    if (mism or broken) and not bad:
        rep.violation("proof" if broken else "correspondence", "C17 theorems or the Editor.v correspondence no longer check",
                      {"broken_obligations": broken, "correspondence_mismatches": len(mism), "first_mismatches": mism[:3]},
                      failing_input=False)


def E_txt(t):
    return "".join(chr(c) for c in t)
