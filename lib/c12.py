"""C12 - parsing any inputrc text terminates without crashing."""
import random

import vlib
import inputrc_gen as G


def include_graphs(rnd):
    """(files, main source) pairs exercising $include: self-inclusion, cycles, chains around the depth limit, errors."""
    out = []
    out.append(([("self", 0, b"set a 1\n$include self\nset b 2\n")], b"$include self\n"))
    out.append(([("a", 0, b"$include b\nset x on\n"), ("b", 0, b"$include a\nset y off\n")], b"$include a\n$include b\n"))
    for depth in (1, 2, 15, 16, 17, 18, 40):
        files = [("f%d" % i, 0, ("set v%d %d\n$include f%d\n\"k%d\": act\n" % (i, i, i + 1, i)).encode()) for i in range(depth)]
        files.append(("f%d" % depth, 0, b"set last 1\n"))
        out.append((files, b"$include f0\nset after 1\n"))
    out.append(([("gone", 1, b""), ("bad", 2, b"")], b"$include gone\n$include bad\n$include nowhere\nset z 1\n"))
    out.append(([("long", 0, b"set a 1\n" + b"x" * 70000 + b"\nset b 2\n")], b"$include long\nset c 3\n"))
    out.append(([("inner", 0, b"set keymap vi\n\"a\": b\n$if mode=vi\n\"c\": d\n")], b"$if mode=emacs\n$include inner\n$endif\n\"e\": f\n"))
    return out


def long_lines():
    out = []
    for n in (65534, 65535, 65536, 65537, 70000):
        out.append(b"set a 1\n" + b"#" + b"y" * (n - 1) + b"\nset b 2\n")
        out.append(b"set a 1\n#" + b"k" * (n - 2) + b"\r\nset c 3")
        if n >= 65536:   # too long: never lexed (the model's index loops are quadratic on lexed lines)
            out.append(b"\"" + b"z" * (n - 1))
    out.append(b"\"" + b"z" * 9000)
    out.append(b"Control-" + b"q" * 9000 + b": x")
    return out


def gen_cases(rnd, n):
    cases, meta = [], []
    for files, src in include_graphs(rnd):
        for halt in (False, True):
            cases.append(G.parse_case(halt, False, "bash", "xterm", "emacs", [], files, src))
            meta.append({"kind": "include-graph", "src": src.decode("latin-1")[:200], "files": [f[0] for f in files][:5]})
    for src in long_lines():
        cases.append(G.parse_case(False, False, "bash", "xterm", "emacs", [], [], src))
        meta.append({"kind": "long-line", "len": len(src)})
    fixed = [b"set", b"set ", b"set x", b"set x ", b"set  ", b"set\t", b"set x \"", b"set x \"a", b"set x 'a\\", b"$", b"$if", b"$else", b"$endif",
             b"$include", b"$include ", b"\"", b"'", b"\"\\", b"\"a\"", b"\"a\":", b"\"a\": \"", b"\"a\": '\\", b":", b"a", b"a:", b"a: ",
             b"-", b"-:", b"C-", b"C-: x", b"Control-: x", b"Meta-Control-", b"x-y: z", b"\\", b"\xff", b"\xff: x", b"\x00", b" \x00",
             b"\r", b" \r", b"#", b"   #", b"s", b"se", b"set\x00", b"set \x00 \x00", b"\"\\C-", b"\"\\M-\\C-\": x", b"\"\\x\": y",
             b"set keymap", b"set keymap ", b"set editing-mode", b"set editing-mode  ", b"$if mode=", b"$if term=", b"$if ",
             b"$else\n$else\n$endif\n$endif\n", b"$endif", b"set a 99999999999999999999", b"set history-size x", b"set a -", b"set a +",
             b"\xe2\x82", b"\"\xe2\x82\": \xf0\x9f", b"\t\t", b"\"a\" : b", b"\"a\"\t:\tb # c", b"a b: c", b"\"a\"b: c", b"set a b c d"]
    for src in fixed:
        for tail in (b"", b"\n"):
            cases.append(G.parse_case(False, rnd.random() < 0.5, "bash", "xterm", "emacs",
                                      [("history-size", 1, [500]), ("a", 0, [1])], [], src + tail))
            meta.append({"kind": "fixed", "src": (src + tail).decode("latin-1")})
    files = [("inc1", 0, b"set from-inc 1\n\"\\C-i\": tab-insert\n"), ("inc2", 0, b"$include inc1\n$if mode=vi\nset k 2\n$endif\n"), ("nope", 1, b"")]
    for i in range(n):
        prog = G.gen_program(rnd, files=[f[0] for f in files]).encode()
        r = rnd.random()
        src = prog if r < 0.25 else G.mutate(rnd, prog)
        if r > 0.9:
            src = bytes(rnd.randrange(256) for _ in range(rnd.randrange(0, 40)))
        cases.append(G.parse_case(rnd.random() < 0.3, rnd.random() < 0.3, rnd.choice(G.APPS), rnd.choice(G.TERMS), rnd.choice(G.MODES),
                                  G.gen_initial_vars(rnd), files, src))
        meta.append({"kind": "wellformed" if r < 0.25 else ("random-bytes" if r > 0.9 else "mutated"), "src": src.decode("latin-1")})
    return cases, meta


def classify(line):
    if line.startswith("GOPANIC") or line.startswith("PANIC"):
        return "panic"
    if line.startswith("NO-OUTPUT"):
        return "crash"
    if line.startswith("TIMEOUT"):
        return "timeout"
    if line.startswith("OUTOFFUEL"):
        return "outoffuel"
    return "ok"


def check(rep, tier, seed):
    rnd = random.Random(seed)
    if not vlib.common_setup(rep):
        return
    info, broken = vlib.proof_step(rep, "C12")
    n = 3000 if tier == "quick" else 60000
    cases, meta = gen_cases(rnd, n)
    got_i = vlib.impl(cases, timeout=600)
    # a fatal crash (stack overflow) or a hang takes a whole shard with it: isolate
    redo = [k for k, o in enumerate(got_i) if classify(o) in ("crash", "timeout")]
    for k in redo[:400]:
        got_i[k] = vlib.run_lines(vlib.BIN + "/rlcall", [cases[k]], timeout=20, shards=1)[0]
    got_m = vlib.model(cases, timeout=900)
    kinds = {}
    bad = []
    mism = []
    for k, (a, b) in enumerate(zip(got_i, got_m)):
        c = classify(a)
        kinds[c] = kinds.get(c, 0) + 1
        if c != "ok":
            bad.append({"outcome": c, "impl_output": a[:300], "case": meta[k], "case_line": cases[k][:2000]})
        na = "PANIC" if c == "panic" else a
        nb = "PANIC" if classify(b) == "panic" else b
        if na != nb:
            mism.append({"case": meta[k], "impl": a[:400], "model": b[:400], "case_line": cases[k][:2000]})
    dist = {}
    for m in meta:
        dist[m["kind"]] = dist.get(m["kind"], 0) + 1
    errkinds = {}
    for a in got_i:
        po = G.ParseOut(a)
        for (k, _) in po.errs:
            errkinds[k] = errkinds.get(k, 0) + 1
    rep.coverage.update({
        "evaluations": len(cases),
        "distinct_nontrivial": len({c for c, m in zip(cases, meta) if m["kind"] != "wellformed"}),
        "rule": "include graphs (self-inclusion, cycles, chains of 1..40 files around the depth limit of 16, missing/failing files), "
                "lines of 65534..70000 bytes, a fixed list of truncated directives, grammar-derived programs mutated at byte level, random bytes; "
                "x parser options (haltOnErr, strict, app, term, mode) x preset variables; non-trivial = not an unmodified well-formed program",
        "samples": [{"meta": meta[i], "impl": got_i[i][:200]} for i in (0, 40, len(cases) - 1)],
        "input_distribution": dist, "outcome_classes": kinds, "error_kinds_seen": errkinds,
        "correspondence": {"cases": len(cases), "mismatches": len(mism)},
        "oracle_on_impl": {"cases": len(cases), "panics_crashes_timeouts": len(bad)},
        "exhaustive": False,
    })
    rep.assumptions += ["application variables hold bool, int or string values (doSet's explicit panic(\"unsupported type\") is outside the property)",
                        "$include paths do not start with ~/ (os/user expansion is not modelled)",
                        "Handler.Do has no registered Funcs"]
    for b in bad[:3]:
        rep.violation("call", "inputrc parse %s" % b["outcome"], b)
    if (mism or broken) and not bad:
        rep.violation("proof" if broken else "correspondence", "C12 theorems or the Inputrc.v correspondence no longer check",
                      {"broken_obligations": broken, "correspondence_mismatches": len(mism), "first_mismatches": mism[:3]},
                      failing_input=False)
