// rlchild runs scripted Readline() calls of the library under test with its
// stdin/stdout/stderr on a pty slave (set up by lib/ptydrive.py) and reports
// what it observes as JSON lines on fd 3: a snapshot each time the shell is about
// to block for user input, every probe-command invocation, the value or panic of
// each Readline call, tcgetattr before/after, and the history sources at the end.
package main

import (
	"encoding/json"
	"errors"
	"fmt"
	"io"
	"os"
	"os/signal"
	"reflect"
	"runtime"
	"runtime/debug"
	"strings"
	"syscall"
	"time"

	"github.com/reeflective/readline"
	"github.com/reeflective/readline/inputrc"
	"golang.org/x/sys/unix"
)

type histSpec struct {
	Name  string   `json:"name"`
	Kind  string   `json:"kind"` // mem | file
	Path  string   `json:"path"`
	Lines []string `json:"lines"`
}

type bindSpec struct {
	Keymap string `json:"keymap"`
	Seq    string `json:"seq"` // inputrc notation
	Action string `json:"action"`
	Macro  bool   `json:"macro"`
}

type candSpec struct {
	Value string `json:"value"`
	Desc  string `json:"desc"`
	Tag   string `json:"tag"`
}

type compSpec struct {
	Cands      []candSpec `json:"cands"`
	Prefix     string     `json:"prefix"`      // "" = let the engine compute it
	FilterPref bool       `json:"filter_pref"` // only candidates with the current word as prefix
	NoSpace    string     `json:"nospace"`
	Suffix     string     `json:"suffix"`
	CaseInsens bool       `json:"case_insens"`
}

type scenario struct {
	Vi          bool       `json:"vi"`
	Prompt      string     `json:"prompt"`
	Calls       int        `json:"calls"`
	Histories   []histSpec `json:"histories"`
	Probes      []bindSpec `json:"probes"`
	Binds       []bindSpec `json:"binds"`
	ClearMaps   []string   `json:"clear_maps"` // keymaps emptied before binds/probes are applied
	Completer   *compSpec  `json:"completer"`
	Multiline   bool       `json:"multiline"` // accept only when the line does not end with a backslash
	PanicCmd    string     `json:"panic_cmd"` // name of a registered command that panics
	SelPos      bool       `json:"sel_pos"`   // also report Selection().Pos() in snapshots
	PrintfAt    []int      `json:"printf_at"` // wait indexes at which another goroutine calls Shell.Printf
	NoSnapshot  bool       `json:"no_snapshot"`
	AskersCheck bool       `json:"askers_check"` // after each call, count goroutines still inside GetCursorPos
	Preamble    int        `json:"preamble"`     // rows of output printed before the first call (the prompt starts lower on the screen)
	CompSnap    bool       `json:"comp_snap"`    // also report the completion engine (grids, selector, completed line) in snapshots
}

var rep *os.File

func emit(v map[string]interface{}) {
	b, _ := json.Marshal(v)
	rep.Write(append(b, '\n'))
}

func runes(s string) []int {
	out := []int{}
	for _, r := range s {
		out = append(out, int(r))
	}
	return out
}

type snapReader struct {
	sh    *readline.Shell
	sc    *scenario
	waits int
}

func (r *snapReader) Read(p []byte) (int, error) {
	r.waits++
	if !r.sc.NoSnapshot {
		sh := r.sh
		act, vis, visl, b, e := sh.VerifSelection()
		ev := map[string]interface{}{
			"ev": "wait", "n": r.waits,
			"line": runes(string(*sh.Line())), "cpos": sh.Cursor().Pos(), "mark": sh.Cursor().Mark(),
			"sel":  []interface{}{act, vis, visl, b, e},
			"main": string(sh.Keymap.Main()), "local": string(sh.Keymap.Local()),
			"upos": sh.History.Pos(), "kill": runes(string(sh.Buffers.GetKill())),
			"rec": sh.Macros.Recording(),
		}
		if r.sc.SelPos {
			// on a copy: Pos() stores the clamped range back into the selection, and observing must not
			// change the shell (display.Engine passes a copy to its highlighter in the same way)
			selCopy := *sh.Selection()
			pb, pe := selCopy.Pos()
			ev["selpos"] = []int{pb, pe}
		}
		if r.sc.CompSnap {
			cl, selv := sh.VerifCompleted()
			var groups []map[string]interface{}
			for _, g := range sh.VerifCompletionGroups() {
				rows := [][][]int{}
				for _, row := range g.Rows {
					rr := [][]int{}
					for _, v := range row {
						rr = append(rr, runes(v))
					}
					rows = append(rows, rr)
				}
				groups = append(groups, map[string]interface{}{"tag": g.Tag, "rows": rows, "aliased": g.Aliased, "maxx": g.MaxX,
					"maxy": g.MaxY, "ncols": g.Columns, "px": g.PosX, "py": g.PosY, "cur": g.IsCurrent, "tw": g.TermWidth})
			}
			ev["comp"] = map[string]interface{}{"line": runes(cl), "selected": runes(selv), "groups": groups}
		}
		emit(ev)
	} else {
		emit(map[string]interface{}{"ev": "wait", "n": r.waits})
	}
	for _, at := range r.sc.PrintfAt {
		if at == r.waits {
			go r.sh.Printf("async message %d", at)
		}
	}
	n, err := os.Stdin.Read(p)
	if err != nil {
		emit(map[string]interface{}{"ev": "readerr", "err": err.Error(), "eof": errors.Is(err, io.EOF)})
	}
	return n, err
}

func (r *snapReader) Close() error { return nil }

func termios() *unix.Termios {
	t, err := unix.IoctlGetTermios(0, unix.TCGETS)
	if err != nil {
		return nil
	}
	return t
}

func completer(cs *compSpec) func(line []rune, cursor int) readline.Completions {
	return func(line []rune, cursor int) readline.Completions {
		// the word being completed: back to the previous space
		start := cursor
		for start > 0 && line[start-1] != ' ' {
			start--
		}
		word := string(line[start:cursor])
		byTag := map[string][]string{}
		var tags []string
		for _, c := range cs.Cands {
			if cs.FilterPref && !strings.HasPrefix(c.Value, word) {
				continue
			}
			if _, ok := byTag[c.Tag]; !ok {
				tags = append(tags, c.Tag)
			}
			byTag[c.Tag] = append(byTag[c.Tag], c.Value, c.Desc)
		}
		var comps readline.Completions
		first := true
		for _, tag := range tags {
			var c readline.Completions
			described := false
			for i := 1; i < len(byTag[tag]); i += 2 {
				if byTag[tag][i] != "" {
					described = true
				}
			}
			if described {
				c = readline.CompleteValuesDescribed(byTag[tag]...)
			} else {
				var vals []string
				for i := 0; i < len(byTag[tag]); i += 2 {
					vals = append(vals, byTag[tag][i])
				}
				c = readline.CompleteValues(vals...)
			}
			if tag != "" {
				c = c.Tag(tag)
			}
			if first {
				comps = c
				first = false
			} else {
				comps = comps.Merge(c)
			}
		}
		if cs.Prefix != "" {
			comps = comps.Prefix(cs.Prefix)
		}
		if cs.NoSpace != "" {
			comps = comps.NoSpace([]rune(cs.NoSpace)...)
		}
		if cs.Suffix != "" {
			comps = comps.Suffix(cs.Suffix)
		}
		return comps
	}
}

func main() {
	fd := 3
	if len(os.Args) > 2 {
		fmt.Sscan(os.Args[2], &fd)
	}
	rep = os.NewFile(uintptr(fd), "report")
	// a hang-up of the terminal must reach the library as a failing read, not kill the process
	signal.Ignore(syscall.SIGHUP)
	data, err := os.ReadFile(os.Args[1])
	if err != nil {
		fmt.Fprintln(os.Stderr, err)
		os.Exit(2)
	}
	var sc scenario
	if err := json.Unmarshal(data, &sc); err != nil {
		fmt.Fprintln(os.Stderr, err)
		os.Exit(2)
	}

	sh := readline.NewShell()
	if sc.Prompt != "" {
		p := sc.Prompt
		sh.Prompt.Primary(func() string { return p })
	}
	if sc.Vi {
		sh.Config.Set("editing-mode", "vi")
	}
	for _, km := range sc.ClearMaps {
		sh.Config.Binds[km] = map[string]inputrc.Bind{}
	}
	for i := range sc.Probes {
		p := sc.Probes[i]
		name := p.Action
		sh.Keymap.Register(map[string]func(){name: func() {
			emit(map[string]interface{}{"ev": "probe", "name": name, "keys": runes(string(sh.Keys.Caller())),
				"line": runes(string(*sh.Line())), "cpos": sh.Cursor().Pos()})
		}})
		sh.Config.Bind(p.Keymap, inputrc.Unescape(p.Seq), name, false)
	}
	if sc.PanicCmd != "" {
		sh.Keymap.Register(map[string]func(){sc.PanicCmd: func() { panic("verif: command panics on purpose") }})
	}
	for _, b := range sc.Binds {
		act := b.Action
		sh.Config.Bind(b.Keymap, inputrc.Unescape(b.Seq), act, b.Macro)
	}
	var hists []readline.History
	for i, h := range sc.Histories {
		var src readline.History
		if h.Kind == "file" {
			src, _ = readline.NewHistoryFromFile(h.Path)
		} else {
			src = readline.NewInMemoryHistory()
		}
		for _, l := range h.Lines {
			src.Write(l)
		}
		hists = append(hists, src)
		if i == 0 {
			sh.History.Add(h.Name, src)
		} else {
			sh.History.Add(h.Name, src)
		}
	}
	if sc.Completer != nil {
		sh.Completer = completer(sc.Completer)
		if sc.Completer.CaseInsens {
			sh.Config.Set("completion-ignore-case", true)
		}
	}
	if sc.Multiline {
		sh.AcceptMultiline = func(line []rune) bool {
			return len(line) == 0 || line[len(line)-1] != '\\'
		}
	}
	rd := &snapReader{sh: sh, sc: &sc}
	readline.VerifSetStdin(rd)

	emit(map[string]interface{}{"ev": "ready", "main": string(sh.Keymap.Main()), "ncommands": len(sh.Keymap.Commands())})
	for i := 0; i < sc.Preamble; i++ {
		fmt.Print("\r\n")
	}
	for call := 0; call < sc.Calls; call++ {
		before := termios()
		func() {
			defer func() {
				if r := recover(); r != nil {
					st := strings.Split(string(debug.Stack()), "\n")
					var fr []string
					for _, l := range st {
						if strings.Contains(l, "reeflective/readline") && !strings.Contains(l, "harness") {
							fr = append(fr, strings.TrimSpace(l))
						}
					}
					if len(fr) > 12 {
						fr = fr[:12]
					}
					emit(map[string]interface{}{"ev": "panic", "call": call, "msg": fmt.Sprint(r), "frames": fr})
				}
			}()
			line, err := sh.Readline()
			kind := "nil"
			switch {
			case err == nil:
			case errors.Is(err, readline.ErrInterrupt):
				kind = "interrupt"
			case errors.Is(err, io.EOF):
				kind = "eof"
			default:
				kind = "other:" + err.Error()
			}
			emit(map[string]interface{}{"ev": "return", "call": call, "line": runes(line), "err": kind})
		}()
		if sc.AskersCheck {
			// goroutines still inside GetCursorPos some time after the call returned: askers nobody will ever answer
			time.Sleep(60 * time.Millisecond)
			buf := make([]byte, 1<<20)
			n := runtime.Stack(buf, true)
			stuck := 0
			for _, g := range strings.Split(string(buf[:n]), "\n\n") {
				if strings.Contains(g, "GetCursorPos") {
					stuck++
				}
			}
			emit(map[string]interface{}{"ev": "askers", "call": call, "stuck": stuck})
		}
		after := termios()
		emit(map[string]interface{}{"ev": "termios", "call": call, "equal": before != nil && after != nil && reflect.DeepEqual(*before, *after),
			"raw_after": after != nil && after.Lflag&unix.ICANON == 0})
	}
	for i, h := range hists {
		var lines [][]int
		for j := 0; j < h.Len(); j++ {
			l, _ := h.GetLine(j)
			lines = append(lines, runes(l))
		}
		emit(map[string]interface{}{"ev": "hist", "idx": i, "name": sc.Histories[i].Name, "lines": lines})
	}
	emit(map[string]interface{}{"ev": "exit"})
}
