package main

import (
	"encoding/json"
	"os"
	"path/filepath"
	"strconv"
	"strings"
	"time"

	"github.com/reeflective/readline"
)

// what json.Unmarshal makes of one physical line of the history file, the way
// openHist reads it: (ok and non-empty block, block)
func decodeLine(line []byte) (bool, string) {
	var item struct {
		Index    int
		DateTime time.Time
		Block    string
	}
	if err := json.Unmarshal(line, &item); err != nil || len(item.Block) == 0 {
		return false, ""
	}
	return true, item.Block
}

func fileBytes(path string) []byte {
	b, err := os.ReadFile(path)
	if err != nil {
		return nil
	}
	return b
}

var histSeq int

func init() {
	// hist <nops> { 0 text | 1 | 2 k text }
	//   0: Write(text) on the open history object        -> "W" delta
	//   1: reopen from the file                            -> "R" err n blocks.. nlines {line ok block}..
	//   2: Write(text), then cut the file k bytes into what was appended, then
	//      the process is gone: the object is reopened      -> "C" delta
	ops["hist"] = func(t *toks, o *out) {
		dir := os.Getenv("VERIF_TMP")
		if dir == "" {
			dir = os.TempDir()
		}
		histSeq++
		path := filepath.Join(dir, "hist-"+itoa(os.Getpid())+"-"+itoa(histSeq))
		os.Remove(path)
		defer os.Remove(path)
		h, _ := readline.NewHistoryFromFile(path)
		n := t.int()
		for i := 0; i < n; i++ {
			switch t.int() {
			case 0:
				text := t.str()
				before := fileBytes(path)
				_, err := h.Write(text)
				after := fileBytes(path)
				o.word("W")
				o.bool(err != nil)
				o.bool(len(after) >= len(before) && string(after[:len(before)]) == string(before))
				o.bytes(after[len(before):])
				o.str(strings.TrimSpace(text))
			case 1:
				var err error
				h, err = readline.NewHistoryFromFile(path)
				o.word("R")
				o.bool(err != nil && fileBytes(path) != nil)
				o.int(h.Len())
				for j := 0; j < h.Len(); j++ {
					l, _ := h.GetLine(j)
					o.str(l)
				}
				lines := strings.Split(string(fileBytes(path)), "\n")
				o.int(len(lines))
				for _, l := range lines {
					o.bytes([]byte(l))
					ok, b := decodeLine([]byte(strings.TrimSuffix(l, "\r")))
					o.bool(ok)
					o.str(b)
				}
			case 2:
				k := t.int()
				text := t.str()
				before := fileBytes(path)
				h.Write(text)
				after := fileBytes(path)
				delta := after[len(before):]
				if k < len(delta) {
					os.Truncate(path, int64(len(before)+k))
				}
				o.word("C")
				o.bytes(delta)
				o.str(strings.TrimSpace(text))
				h, _ = readline.NewHistoryFromFile(path)
			}
		}
		o.word("F")
		o.bytes(fileBytes(path))
	}

	// prefixes of a record that json.Unmarshal accepts with a non-empty block
	// (hypothesis J3 says there are none); checks every prefix of short records
	// and a spread of prefixes of long ones.
	ops["j3"] = func(t *toks, o *out) {
		rec := t.bytes()
		bad := 0
		step := 1
		if len(rec) > 400 {
			step = len(rec) / 200
		}
		for k := 0; k < len(rec); k += step {
			if ok, _ := decodeLine(rec[:k]); ok {
				bad++
			}
		}
		for k := len(rec) - 20; k < len(rec); k++ {
			if k >= 0 {
				if ok, _ := decodeLine(rec[:k]); ok {
					bad++
				}
			}
		}
		o.int(bad)
	}
}

func itoa(n int) string { return strconv.Itoa(n) }

func init() {
	ops["trim"] = func(t *toks, o *out) { o.str(strings.TrimSpace(t.str())) }
}
