package main

import (
	"os"

	"github.com/reeflective/readline"
	"github.com/reeflective/readline/inputrc"
)

func init() {
	ops["esc"] = func(t *toks, o *out) {
		m := t.bool()
		s := t.str()
		if m {
			o.str(inputrc.EscapeMacro(s))
		} else {
			o.str(inputrc.Escape(s))
		}
	}
	ops["unesc"] = func(t *toks, o *out) { o.str(inputrc.Unescape(t.str())) }
	ops["rt"] = func(t *toks, o *out) {
		m := t.bool()
		s := t.str()
		if m {
			o.str(inputrc.Unescape(inputrc.EscapeMacro(s)))
		} else {
			o.str(inputrc.Unescape(inputrc.Escape(s)))
		}
	}
}

func init() {
	// every key sequence bound in the default keymaps, one list after the other
	ops["defkeys"] = func(t *toks, o *out) {
		n := 0
		var all [][]rune
		for _, km := range inputrc.DefaultBinds() {
			for k := range km {
				all = append(all, []rune(k))
				n++
			}
		}
		o.int(n)
		for _, k := range all {
			o.runes(k)
		}
	}
}

func init() {
	// every default binding: keymap, sequence, action, macro flag
	ops["defbinds"] = func(t *toks, o *out) {
		n := 0
		for _, km := range inputrc.DefaultBinds() {
			n += len(km)
		}
		o.int(n)
		for name, km := range inputrc.DefaultBinds() {
			for k, b := range km {
				o.str(name)
				o.runes([]rune(k))
				o.str(b.Action)
				o.bool(b.Macro)
			}
		}
	}
}

func init() {
	// the effective binds of a fresh shell (inputrc defaults + builtin keymaps)
	ops["effbinds"] = func(t *toks, o *out) {
		os.Setenv("INPUTRC", "/dev/null")
		sh := readline.NewShell()
		n := 0
		for _, km := range sh.Config.Binds {
			n += len(km)
		}
		o.int(n)
		for name, km := range sh.Config.Binds {
			for k, b := range km {
				o.str(name)
				o.runes([]rune(k))
				o.str(b.Action)
				o.bool(b.Macro)
			}
		}
	}
}
