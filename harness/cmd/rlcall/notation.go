package main

import (
	"github.com/reeflective/readline/inputrc"
)

func init() {
	ops["esc"] = func(t *toks, o *out) {
		m := t.bool()
		s := t.str()
		if m {
			o.str(inputrc.EscapeMacro(s))
		} else {
			o.str(inputrc.Escape(s))
		}
	}
	ops["unesc"] = func(t *toks, o *out) { o.str(inputrc.Unescape(t.str())) }
	ops["rt"] = func(t *toks, o *out) {
		m := t.bool()
		s := t.str()
		if m {
			o.str(inputrc.Unescape(inputrc.EscapeMacro(s)))
		} else {
			o.str(inputrc.Unescape(inputrc.Escape(s)))
		}
	}
}

func init() {
	// every key sequence bound in the default keymaps, one list after the other
	ops["defkeys"] = func(t *toks, o *out) {
		n := 0
		var all [][]rune
		for _, km := range inputrc.DefaultBinds() {
			for k := range km {
				all = append(all, []rune(k))
				n++
			}
		}
		o.int(n)
		for _, k := range all {
			o.runes(k)
		}
	}
}
