// rlcall runs the implementation on case lines read from stdin (one case per
// line: an operation name, then integers) and prints one line of integers per
// case, in the format the model side (ocaml/main.ml) prints.
package main

import (
	"bufio"
	"fmt"
	"os"
	"strconv"
	"strings"
)

type toks struct{ rest []string }

func (t *toks) tok() string {
	if len(t.rest) == 0 {
		panic("short line")
	}
	x := t.rest[0]
	t.rest = t.rest[1:]
	return x
}

func (t *toks) int() int {
	n, err := strconv.Atoi(t.tok())
	if err != nil {
		panic(err)
	}
	return n
}

func (t *toks) bool() bool { return t.int() != 0 }

func (t *toks) runes() []rune {
	n := t.int()
	rs := make([]rune, n)
	for i := range rs {
		rs[i] = rune(t.int())
	}
	return rs
}

func (t *toks) bytes() []byte {
	n := t.int()
	rs := make([]byte, n)
	for i := range rs {
		rs[i] = byte(t.int())
	}
	return rs
}

func (t *toks) str() string { return string(t.runes()) }

type out struct{ parts []string }

func (o *out) int(n int)  { o.parts = append(o.parts, strconv.Itoa(n)) }
func (o *out) bool(b bool) {
	if b {
		o.int(1)
	} else {
		o.int(0)
	}
}
func (o *out) runes(rs []rune) {
	o.int(len(rs))
	for _, r := range rs {
		o.int(int(r))
	}
}
func (o *out) bytes(bs []byte) {
	o.int(len(bs))
	for _, b := range bs {
		o.int(int(b))
	}
}
func (o *out) str(s string)  { o.runes([]rune(s)) }
func (o *out) word(s string) { o.parts = append(o.parts, s) }

type opFunc func(t *toks, o *out)

var ops = map[string]opFunc{}

func runCase(line string) (res string) {
	t := &toks{rest: strings.Fields(line)}
	o := &out{}
	defer func() {
		if r := recover(); r != nil {
			res = "GOPANIC " + strings.ReplaceAll(fmt.Sprint(r), "\n", " ")
		}
	}()
	op := t.tok()
	f, ok := ops[op]
	if !ok {
		return "UNKNOWN-OP " + op
	}
	f(t, o)
	return strings.Join(o.parts, " ")
}

func main() {
	sc := bufio.NewScanner(os.Stdin)
	sc.Buffer(make([]byte, 1<<20), 1<<30)
	w := bufio.NewWriterSize(os.Stdout, 1<<20)
	defer w.Flush()
	for sc.Scan() {
		line := sc.Text()
		if line == "" {
			continue
		}
		fmt.Fprintln(w, runCase(line))
	}
}
