package main

import (
	"bufio"
	"bytes"
	"errors"
	"os"
	"sort"
	"strconv"

	"github.com/reeflective/readline/inputrc"
)

func cmpRunes(a, b []rune) int {
	for i := 0; i < len(a) && i < len(b); i++ {
		if a[i] != b[i] {
			if a[i] < b[i] {
				return -1
			}
			return 1
		}
	}
	return len(a) - len(b)
}

var errOther = errors.New("scripted read error")

func errKind(err error) (int, int) {
	if err == nil {
		return 0, 0
	}
	line := 0
	var pe *inputrc.ParseError
	if errors.As(err, &pe) {
		line = pe.Line
	}
	var ne *strconv.NumError
	switch {
	case errors.Is(err, inputrc.ErrBindMissingClosingQuote):
		return 1, line
	case errors.Is(err, inputrc.ErrMissingColon):
		return 2, line
	case errors.Is(err, inputrc.ErrMacroMissingClosingQuote):
		return 3, line
	case errors.Is(err, inputrc.ErrInvalidKeymap):
		return 4, line
	case errors.Is(err, inputrc.ErrInvalidEditingMode):
		return 5, line
	case errors.Is(err, inputrc.ErrElseWithoutMatchingIf):
		return 6, line
	case errors.Is(err, inputrc.ErrEndifWithoutMatchingIf):
		return 7, line
	case errors.Is(err, inputrc.ErrUnknownModifier):
		return 8, line
	case errors.Is(err, inputrc.ErrIncludeTooDeep):
		return 9, line
	case errors.As(err, &ne):
		return 10, 0
	case errors.Is(err, bufio.ErrTooLong):
		return 12, 0
	case errors.Is(err, errOther):
		return 11, 0
	}
	return 99, line
}

func readVars(t *toks) map[string]interface{} {
	vars := map[string]interface{}{}
	n := t.int()
	for i := 0; i < n; i++ {
		name := t.str()
		kind := t.int()
		val := t.runes()
		switch kind {
		case 0:
			vars[name] = len(val) > 0 && val[0] != 0
		case 1:
			vars[name] = int(val[0])
		case 2:
			vars[name] = string(val)
		default:
			vars[name] = 1.5
		}
	}
	return vars
}

func dumpConfig(o *out, cfg *inputrc.Config) {
	type be struct {
		km, seq []rune
		b       inputrc.Bind
	}
	var bs []be
	for km, m := range cfg.Binds {
		for seq, b := range m {
			bs = append(bs, be{[]rune(km), []rune(seq), b})
		}
	}
	sort.Slice(bs, func(i, j int) bool {
		if c := cmpRunes(bs[i].km, bs[j].km); c != 0 {
			return c < 0
		}
		return cmpRunes(bs[i].seq, bs[j].seq) < 0
	})
	o.int(len(bs))
	for _, b := range bs {
		o.runes(b.km)
		o.runes(b.seq)
		o.str(b.b.Action)
		o.bool(b.b.Macro)
	}
	type ve struct {
		name []rune
		v    interface{}
	}
	var vs []ve
	for n, v := range cfg.Vars {
		vs = append(vs, ve{[]rune(n), v})
	}
	sort.Slice(vs, func(i, j int) bool { return cmpRunes(vs[i].name, vs[j].name) < 0 })
	o.int(len(vs))
	for _, v := range vs {
		o.runes(v.name)
		switch x := v.v.(type) {
		case bool:
			o.int(0)
			o.int(1)
			o.bool(x)
		case int:
			o.int(1)
			o.int(1)
			o.int(x)
		case string:
			o.int(2)
			o.str(x)
		default:
			o.int(3)
			o.int(0)
		}
	}
}

func init() {
	ops["parse"] = func(t *toks, o *out) {
		halt, strict := t.bool(), t.bool()
		app, term, mode := t.str(), t.str(), t.str()
		vars := readVars(t)
		files := map[string][]byte{}
		fkind := map[string]int{}
		nf := t.int()
		for i := 0; i < nf; i++ {
			name := t.str()
			fkind[name] = t.int()
			files[name] = t.bytes()
		}
		src := t.bytes()
		cfg := inputrc.NewConfig()
		cfg.Vars = vars
		cfg.ReadFileFunc = func(name string) ([]byte, error) {
			k, ok := fkind[name]
			switch {
			case !ok || k == 1:
				return nil, os.ErrNotExist
			case k == 2:
				return nil, errOther
			}
			return files[name], nil
		}
		p := inputrc.New(inputrc.WithHaltOnErr(halt), inputrc.WithStrict(strict),
			inputrc.WithApp(app), inputrc.WithTerm(term), inputrc.WithMode(mode), inputrc.WithName("main"))
		err := p.Parse(bytes.NewReader(src), cfg)
		k, _ := errKind(err)
		o.int(k)
		errs := p.Errs()
		o.int(len(errs))
		for _, e := range errs {
			k, l := errKind(e)
			o.int(k)
			o.int(l)
		}
		dumpConfig(o, cfg)
	}
}
