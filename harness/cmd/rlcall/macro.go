package main

import (
	"github.com/reeflective/readline"
)

// macro <n> {kind keys}* : drives the macro recorder of a fresh shell the way the
// Readline loop does (loop top, then a command with its caller keys).
// kind 0: any other command; 1: start-kbd-macro; 2: end-kbd-macro; 3: call-last-kbd-macro;
// 4/5/6: Vi style start (register), stop, run (register).
// Prints, for every replay, R and the bytes the dispatcher would pop.
func init() {
	ops["macro"] = func(t *toks, o *out) {
		sh := readline.NewShell()
		cmds := sh.Keymap.Commands()
		n := t.int()
		for i := 0; i < n; i++ {
			kind := t.int()
			keys := t.runes()
			sh.VerifLoopTop()
			switch kind {
			case 0:
				sh.VerifSetCaller([]byte(string(keys)))
			case 1:
				sh.VerifSetCaller([]byte{24, '('})
				cmds["start-kbd-macro"]()
			case 2:
				sh.VerifSetCaller([]byte{24, ')'})
				cmds["end-kbd-macro"]()
			case 4: // vi style: macro-toggle-record with the register in keys[0]
				sh.VerifSetCaller([]byte{'q'})
				sh.Macros.StartRecord(keys[0])
			case 5:
				sh.VerifSetCaller([]byte{'q'})
				sh.Macros.StopRecord()
			case 6: // macro-run with the register in keys[0]
				sh.VerifSetCaller([]byte{'@'})
				sh.Macros.RunMacro(keys[0])
				o.word("R")
				o.bytes(sh.VerifDrainKeys())
			case 3:
				sh.VerifSetCaller([]byte{24, 'e'})
				cmds["call-last-kbd-macro"]()
				o.word("R")
				o.bytes(sh.VerifDrainKeys())
			}
		}
	}
}
