module verifharness

go 1.23.6

require (
	github.com/reeflective/readline v0.0.0
	golang.org/x/sys v0.8.0
)

require github.com/rivo/uniseg v0.4.4 // indirect

replace github.com/reeflective/readline => /repo
