(* glue between the extracted datatypes and text lines of integers *)
open Rlmodel_core

let rec pos_of_int n =
  if n = 1 then XH
  else if n land 1 = 0 then XO (pos_of_int (n lsr 1))
  else XI (pos_of_int (n lsr 1))

let z_of_int n =
  if n = 0 then Z0 else if n > 0 then Zpos (pos_of_int n) else Zneg (pos_of_int (-n))

let rec int_of_pos = function
  | XH -> 1
  | XO p -> 2 * int_of_pos p
  | XI p -> 2 * int_of_pos p + 1

let int_of_z = function Z0 -> 0 | Zpos p -> int_of_pos p | Zneg p -> - (int_of_pos p)

let rec nat_of_int n = if n <= 0 then O else S (nat_of_int (n - 1))
let rec int_of_nat = function O -> 0 | S n -> 1 + int_of_nat n

(* token stream of one input line *)
type toks = { mutable rest : Stdlib.String.t list }

let toks_of_line s =
  { rest = List.filter (fun x -> x <> "") (String.split_on_char ' ' s) }

let next_tok t =
  match t.rest with
  | [] -> failwith "short line"
  | x :: r -> t.rest <- r; x

let next_int t = int_of_string (next_tok t)
let next_z t = z_of_int (next_int t)
let next_bool t = next_int t <> 0

let next_list f t =
  let n = next_int t in
  let rec go k acc = if k = 0 then List.rev acc else go (k - 1) (f t :: acc) in
  go n []

let next_zlist t = next_list next_z t

(* output *)
let buf = Buffer.create 4096
let out_int n = Buffer.add_string buf (string_of_int n); Buffer.add_char buf ' '
let out_z z = out_int (int_of_z z)
let out_bool b = out_int (if b then 1 else 0)
let out_list f l = out_int (List.length l); List.iter f l
let out_zlist l = out_list out_z l
let out_str s = Buffer.add_string buf s; Buffer.add_char buf ' '
let flush_line () =
  let s = Buffer.contents buf in
  Buffer.clear buf;
  let s = if String.length s > 0 && s.[String.length s - 1] = ' '
          then String.sub s 0 (String.length s - 1) else s in
  print_string s; print_char '\n'
